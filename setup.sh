#!/bin/sh
# Build the framework from files on disk only (offline): regenerate coq/Gen from /repo, full .vo build.
set -e
HERE=$(cd "$(dirname "$0")" && pwd)
cd "$HERE"
mkdir -p build/cases evidence replays
python3 tools/ndt_translate.py || echo "setup: translation failed (checks will report it)"
cd coq
coq_makefile -f _CoqProject -o Makefile >/dev/null
timeout -s KILL 3000 make -j16 -k || echo "setup: some Coq files failed to build (checks will report it)"
