(* C07: Richardson extrapolation removes exactly the modelled error terms (exact arithmetic, R). *)
From Coq Require Import Reals ZArith List Bool Lia Lra ZifyNat.
Require Import NDT.Arith.Ops NDT.Arith.OpsR NDT.Model.Convolve NDT.Model.Richardson NDT.Theory.ListAux.
Import ListNotations.
Ltac Zify.zify_post_hook ::= Z.to_euclidean_division_equations.
Open Scope R_scope.

(* weighted sum  sum_k w_k * f k *)
Fixpoint wsum (w : list R) (f : nat -> R) : R :=
  match w with [] => 0 | a :: w' => a * f 0%nat + wsum w' (fun i => f (S i)) end.

Lemma wsum_ext w f g : (forall i, (i < length w)%nat -> f i = g i) -> wsum w f = wsum w g.
Proof.
  revert f g; induction w as [|a w IH]; intros f g H; cbn; [reflexivity|].
  rewrite (H 0%nat) by (cbn; lia). f_equal. apply IH. intros i Hi. apply H. cbn. lia.
Qed.
Lemma wsum_add w f g : wsum w (fun i => f i + g i) = wsum w f + wsum w g.
Proof. revert f g; induction w as [|a w IH]; intros f g; cbn; [lra|]. rewrite IH. lra. Qed.
Lemma wsum_scal w c f : wsum w (fun i => c * f i) = c * wsum w f.
Proof. revert f; induction w as [|a w IH]; intros f; cbn; [lra|]. rewrite IH. lra. Qed.
Lemma wsum_const w c : wsum w (fun _ => c) = c * wsum w (fun _ => 1).
Proof. rewrite <- wsum_scal. apply wsum_ext. intros. lra. Qed.

Section Exact.
Variables (rho L h0 : R) (w : list R).
(* the defining equations of the rule: first row of the inverse of the r-matrix *)
Hypothesis w_sum : wsum w (fun _ => 1) = 1.
(* modelled error terms: coefficient and exponent *)
Variable terms : list (R * nat).
Hypothesis w_annihilates : forall a k, In (a, k) terms -> wsum w (fun i => rho ^ (i * k)) = 0.

Definition sq (t : nat) : R := L + fold_right (fun ak acc => fst ak * (h0 * rho ^ t) ^ snd ak + acc) 0 terms.

Lemma pow_split t i k : (h0 * rho ^ (t + i)) ^ k = (h0 * rho ^ t) ^ k * rho ^ (i * k).
Proof. rewrite pow_add, <- Rmult_assoc, Rpow_mult_distr, pow_mult. reflexivity. Qed.

(* every output slot t (the window sq t .. sq (t + T)) is mapped to L *)
Theorem richardson_exact t : wsum w (fun i => sq (t + i)) = L.
Proof.
  unfold sq. rewrite wsum_add, wsum_const, w_sum, Rmult_1_r.
  assert (H : wsum w (fun i => fold_right (fun ak acc => fst ak * (h0 * rho ^ (t + i)) ^ snd ak + acc) 0 terms) = 0).
  { revert w_annihilates. induction terms as [|[a k] ts IH]; intros HA; cbn [fold_right fst snd].
    - rewrite wsum_const. lra.
    - rewrite wsum_add, IH by (intros a' k' Hin; apply (HA a' k'); right; exact Hin).
      rewrite (wsum_ext _ _ (fun i => (a * (h0 * rho ^ t) ^ k) * rho ^ (i * k))) by (intros i _; rewrite pow_split; ring).
      rewrite wsum_scal, (HA a k) by (left; reflexivity). lra. }
  rewrite H. lra.
Qed.
End Exact.

(* ---- tie to the executable model: for indices that need no reflection, the model's convolution is
        the weighted sum (orientation, origin and trim are right, for every length and rule size) ---- *)
Section Conv.
Variables eps tiny huge : R.
Let O := OpsR eps tiny huge.

Lemma reflect_id j n : (0 <= j < n)%Z -> reflectZ j n = j.
Proof.
  intros H. unfold reflectZ. destruct (Z.eqb_spec n 1); [lia|].
  rewrite Z.mod_small by lia. destruct (Z.ltb_spec j n); lia.
Qed.

Lemma getr_in x k : (k < length x)%nat -> getr O x (Z.of_nat k) = nth k x 0.
Proof. intros H. unfold getr. rewrite reflect_id by lia. rewrite Nat2Z.id. reflexivity. Qed.

Lemma fold_plain (F : nat -> R) n c a :
  fold_left (fun t jj => t + F jj) (seq a n) c = c + fold_right (fun j acc => F j + acc) 0 (seq a n).
Proof.
  revert c a; induction n as [|n IH]; intros c a; cbn; [lra|]. rewrite IH. lra.
Qed.

Lemma wsum_as_fold w f a :
  wsum w (fun i => f (a + i)%nat) = fold_right (fun j acc => nth (j - a) w 0 * f j + acc) 0 (seq a (length w)).
Proof.
  revert f a; induction w as [|b w IH]; intros f a; cbn [wsum length seq fold_right]; [reflexivity|].
  replace (a - a)%nat with 0%nat by lia. cbn [nth]. replace (a + 0)%nat with a by lia. f_equal.
  rewrite (wsum_ext _ _ (fun i => f (S a + i)%nat)) by (intros; f_equal; lia).
  rewrite IH. apply fold_right_ext_in_seq.
  intros j Hj. replace (j - a)%nat with (S (j - S a)) by lia. reflexivity.
Qed.

Lemma wsum_as_fold0 w f :
  wsum w f = fold_right (fun j acc => nth j w 0 * f j + acc) 0 (seq 0 (length w)).
Proof.
  transitivity (wsum w (fun i => f (0 + i)%nat)); [apply wsum_ext; reflexivity|].
  rewrite (wsum_as_fold w f 0).
  apply fold_right_ext_in_seq. intros j Hj acc. replace (j - 0)%nat with j by lia. reflexivity.
Qed.

Lemma fold_right_shift (F : nat -> R) c l :
  fold_right (fun j acc => F j + acc) c l = c + fold_right (fun j acc => F j + acc) 0 l.
Proof. induction l as [|a l IH]; cbn; [lra|]. rewrite IH. lra. Qed.

Lemma size1_zero fs : (1 <= fs)%nat ->
  (Z.of_nat (fs / 2) + (- Z.of_nat ((fs - 1) / 2) - (if Nat.even fs then 1 else 0)))%Z = 0%Z.
Proof.
  intros H. destruct (Nat.even fs) eqn:E.
  - apply Nat.even_spec in E. destruct E as [m ->]. lia.
  - assert (Od : Nat.odd fs = true) by (rewrite <- Nat.negb_even, E; reflexivity).
    apply Nat.odd_spec in Od. destruct Od as [m ->]. lia.
Qed.

(* for every length and every rule size: output i of the model's convolution (the call made by
   Richardson.__call__ and LogRule._apply: rule reversed, origin = n_r // 2) is sum_k w_k x_{i+k}
   whenever i + n_r < len, i.e. on exactly the prefix that __call__ keeps; no reflected element is read *)
Theorem conv_valid x w i : (1 <= length w)%nat -> symcode O w = 0%Z \/ length w = 1%nat ->
  (i + (length w - 1) < length x)%nat ->
  nth i (conv O x (rev w) (Z.of_nat ((length w - 1) / 2))) 0 = wsum w (fun k => nth (i + k) x 0).
Proof.
  intros Hw Hs Hi. unfold conv. rewrite rev_length, rev_involutive. unfold corr.
  rewrite (nth_map_lt _ _ _ 0%nat) by (rewrite seq_length; lia).
  rewrite seq_nth by lia. cbn [plus].
  rewrite size1_zero by exact Hw.
  unfold corr_at.
  assert (G : forall k, (k <= length w - 1)%nat -> getr O x (Z.of_nat i + Z.of_nat k - 0) = nth (i + k) x 0).
  { intros k Hk. replace (Z.of_nat i + Z.of_nat k - 0)%Z with (Z.of_nat (i + k)) by lia. apply getr_in. lia. }
  rewrite (wsum_as_fold0 w (fun j => nth (i + j) x 0)).
  destruct Hs as [Hs|H1].
  - rewrite Hs. cbn [Z.eqb]. cbn -[nth seq Nat.div getr].
    rewrite (fold_plain (fun jj => getr O x (Z.of_nat i + Z.of_nat jj - 0) * nthA O w jj)).
    destruct (length w) as [|nr] eqn:EL; [lia|]. replace (S nr - 1)%nat with nr in * by lia.
    rewrite seq_S, fold_right_app. cbn [fold_right plus].
    rewrite (fold_right_shift _ (nth nr w 0 * nth (i + nr) x 0 + 0)).
    rewrite G by lia. unfold nthA. cbn [zero O OpsR].
    rewrite Rplus_0_r, (Rmult_comm (nth nr w 0)). f_equal.
    apply fold_right_ext_in_seq. intros j Hj acc. rewrite G by lia. lra.
  - rewrite H1 in *. cbn [Nat.div seq fold_left Nat.sub].
    assert (D : (1 / 2 = 0)%nat) by reflexivity.
    destruct (symcode O w =? 1)%Z; [|destruct (symcode O w =? -1)%Z]; cbn -[nth getr];
      rewrite ?D; cbn [seq fold_left fold_right]; change (Z.of_nat i + 0 - 0)%Z with (Z.of_nat i + Z.of_nat 0 - 0)%Z; rewrite (G 0%nat) by lia; unfold nthA; cbn [zero O OpsR];
      lra.
Qed.
End Conv.

(* ---- the model of Richardson.__call__ maps the modelled sequence to L in every output slot ---- *)
Section Call.
Variables eps tiny huge tf : R.
Let O := OpsR eps tiny huge.
Variables (rho L h0 : R) (w : list R) (terms : list (R * nat)).
Hypothesis w_sum : wsum w (fun _ => 1) = 1.
Hypothesis w_annihilates : forall a k, In (a, k) terms -> wsum w (fun i => rho ^ (i * k)) = 0.
Hypothesis w_nonempty : (1 <= length w)%nat.
Hypothesis w_not_sym : symcode O w = 0%Z \/ length w = 1%nat.

Lemma conv_length x v o : length (conv O x v o) = length x.
Proof. unfold conv, corr. rewrite map_length, seq_length. reflexivity. Qed.

Theorem rich_count len steps : (length w <= len)%nat ->
  length (fst (fst (rich O tf (map (sq rho L h0 terms) (seq 0 len)) steps w))) = (len - (length w - 1))%nat.
Proof.
  intros H. unfold rich. cbv zeta. cbn [fst]. rewrite firstn_length, conv_length, map_length, seq_length. lia.
Qed.

Theorem rich_exact len steps i : (length w <= len)%nat -> (i < len - (length w - 1))%nat ->
  nth i (fst (fst (rich O tf (map (sq rho L h0 terms) (seq 0 len)) steps w))) 0 = L.
Proof.
  intros Hl Hi. unfold rich. cbv zeta. cbn [fst]. rewrite map_length, seq_length.
  rewrite nth_firstn_lt by exact Hi.
  unfold O. rewrite conv_valid; [| exact w_nonempty | exact w_not_sym | rewrite map_length, seq_length; lia].
  rewrite (wsum_ext _ _ (fun k => sq rho L h0 terms (i + k))).
  - apply richardson_exact; assumption.
  - intros k Hk. rewrite (nth_map_lt _ _ _ 0%nat) by (rewrite seq_length; lia).
    rewrite seq_nth by lia. reflexivity.
Qed.
End Call.

(* ---- error estimates are non-negative ---- *)
Section ErrNonneg.
Variables eps tiny huge tf : R.
Hypotheses (eps_nn : 0 <= eps).
Let O := OpsR eps tiny huge.

Lemma npmax_R a b : npmax O a b = Rmax a b.
Proof. unfold npmax. cbn. unfold Rltb, Rmax. destruct (Rlt_dec a b), (Rle_dec a b); try reflexivity; lra. Qed.

Lemma fact_nonneg rule : 0 <= fact O tf rule.
Proof. unfold fact. rewrite npmax_R. match goal with |- 0 <= Rmax ?a ?b => pose proof (Rmax_r a b) as H end. cbn in *. lra. Qed.

Theorem est_err_nonneg new old steps rule :
  Forall (fun e => 0 <= e) (est_err O tf new old steps rule).
Proof.
  unfold est_err. pose proof (fact_nonneg rule) as Hf. set (f := fact O tf rule) in *. clearbody f.
  destruct (length old <? 2).
  - constructor; [|constructor]. cbn. unfold nthA. cbn.
    apply Rmult_le_pos; [|exact Hf]. pose proof (Rabs_pos (nth 0 new 0)).
    assert (0 <= Rabs (nth 0 new 0) * eps) by (apply Rmult_le_pos; assumption).
    pose proof (Rabs_pos (nth 0 steps 0)). lra.
  - apply Forall_forall. intros e He. apply in_map_iff in He as [i [<- _]]. cbn -[maxabs nthA].
    set (a := nthA O new (S i)). set (b := nthA O new i). set (c := nthA O old _).
    assert (E : 0 <= Rabs (a - b) * f) by (apply Rmult_le_pos; [apply Rabs_pos|exact Hf]).
    destruct (Rleb _ _).
    + assert (M : 0 <= maxabs O a b).
      { unfold maxabs. rewrite npmax_R. cbn. pose proof (Rabs_pos a). pose proof (Rmax_l (Rabs a) (Rabs b)). lra. }
      assert (0 <= maxabs O a b * eps * f * 10).
      { apply Rmult_le_pos; [|lra]. apply Rmult_le_pos; [|exact Hf]. apply Rmult_le_pos; assumption. }
      lra.
    + assert (0 <= Rabs (b - c) * f) by (apply Rmult_le_pos; [apply Rabs_pos|exact Hf]). lra.
Qed.

Theorem rich_err_nonneg sq_ steps rr :
  Forall (fun e => 0 <= e) (snd (fst (rich O tf sq_ steps rr))).
Proof.
  unfold rich. cbv zeta. cbn [fst snd]. apply Forall_forall. intros e He.
  pose proof (est_err_nonneg (firstn (Nat.min (length sq_) (S (length sq_ - (length rr - 1)))) (conv O sq_ (rev rr) (Z.of_nat ((length rr - 1) / 2)))) sq_ steps rr) as HF.
  rewrite Forall_forall in HF. apply HF. eapply firstn_In_local. exact He.
Qed.
End ErrNonneg.

(* counts, for any sequence and any rule *)
Theorem rich_count_gen eps tiny huge tf (sq_ steps rr : list R) :
  length (fst (fst (rich (OpsR eps tiny huge) tf sq_ steps rr))) = Nat.min (length sq_ - (length rr - 1)) (length sq_)
  /\ length (snd (rich (OpsR eps tiny huge) tf sq_ steps rr)) = Nat.min (length sq_ - (length rr - 1)) (length steps).
Proof.
  unfold rich. cbv zeta. cbn [fst snd]. rewrite !firstn_length. unfold conv, corr. rewrite map_length, seq_length. split; reflexivity.
Qed.

Lemma conv_length_gen eps tiny huge (x v : list R) o : length (conv (OpsR eps tiny huge) x v o) = length x.
Proof. unfold conv, corr. rewrite map_length, seq_length. reflexivity. Qed.
