(* C04: the Hessian / Hessdiag difference quotients are exact for every quadratic function, in any dimension.
   Abstract setting: a vector space V over a field, f(x+u) = f x + L u + B u u / 2 with L linear, B symmetric bilinear. *)
From Coq Require Import Field Setoid ZArith.
Require Import NDT.Arith.Ops NDT.Model.HessStencil.
Section Quad.
Variable R : Type.
Variables (r0 r1 : R) (radd rmul rsub : R -> R -> R) (ropp : R -> R) (rdiv : R -> R -> R) (rinv : R -> R).
Variable Rth : field_theory r0 r1 radd rmul rsub ropp rdiv rinv eq.
Add Field Rf : Rth.
Declare Scope F_scope. Open Scope F_scope.
Notation "x + y" := (radd x y) : F_scope. Notation "x * y" := (rmul x y) : F_scope.
Notation "x - y" := (rsub x y) : F_scope. Notation "- x" := (ropp x) : F_scope. Notation "x / y" := (rdiv x y) : F_scope.
Definition two := r1 + r1.  Definition four := two + two.
Hypothesis two_neq0 : two <> r0.

Variable V : Type.
Variables (vadd : V -> V -> V) (vneg : V -> V).
Variables (x : V) (f : V -> R) (f0 : R) (L : V -> R) (B : V -> V -> R).
Notation "u +v w" := (vadd u w) (at level 50, left associativity).
Hypothesis f_quad : forall u, f (x +v u) = f0 + L u + B u u / two.
Hypothesis L_add : forall u w, L (u +v w) = L u + L w.
Hypothesis L_neg : forall u, L (vneg u) = - L u.
Hypothesis B_addl : forall u w z, B (u +v w) z = B u z + B w z.
Hypothesis B_addr : forall u w z, B z (u +v w) = B z u + B z w.
Hypothesis B_negl : forall u z, B (vneg u) z = - B u z.
Hypothesis B_negr : forall u z, B z (vneg u) = - B z u.
Hypothesis B_sym : forall u w, B u w = B w u.

Lemma two_two_neq0 : (r1 + r1) * (r1 + r1) <> r0.
Proof.
  intro H. apply two_neq0. unfold two.
  transitivity (((r1 + r1) * (r1 + r1)) / (r1 + r1)); [field; exact two_neq0 | rewrite H; field; exact two_neq0].
Qed.
Ltac side := repeat split; try exact two_neq0; try exact two_two_neq0.

Ltac expand := rewrite ?f_quad, ?L_add, ?L_neg, ?B_addl, ?B_addr, ?B_negl, ?B_negr, ?L_add, ?L_neg.

(* Ridout eq. 7 (forward):  f(x+a+b) - f(x+a) - f(x+b) + f(x) = B(a,b) *)
Lemma forward_id a b : f (x +v (a +v b)) - f (x +v a) - f (x +v b) + f0 = B a b.
Proof. expand. rewrite (B_sym b a). unfold four, two in *. field; side. Qed.

(* eq. 9 (central), off-diagonal: [f(x+a+b) - f(x+a-b) - f(x-a+b) + f(x-a-b)] / 4 = B(a,b) *)
Lemma central_id a b :
  (f (x +v (a +v b)) - f (x +v (a +v vneg b)) - f (x +v (vneg a +v b)) + f (x +v (vneg a +v vneg b))) / four = B a b.
Proof. expand. rewrite (B_sym b a). unfold four, two in *. field; side. Qed.

(* eq. 9, diagonal: [f(x+2a) - 2 f(x) + f(x-2a)] / 4 = B(a,a) *)
Lemma central_diag_id a :
  (f (x +v (a +v a)) - two * f0 + f (x +v (vneg a +v vneg a))) / four = B a a.
Proof. expand. unfold four, two in *. field; side. Qed.

(* eq. 8 (central2): [f(x+a+b) + f(x-a-b) - f(x+a) - f(x+b) + f0 - f(x-a) - f(x-b) + f0] / 2 = B(a,b) *)
Lemma central2_id a b :
  (f (x +v (a +v b)) + f (x +v (vneg a +v vneg b)) - f (x +v a) - f (x +v b) + f0 - f (x +v vneg a) - f (x +v vneg b) + f0) / two = B a b.
Proof. expand. rewrite (B_sym b a). unfold four, two in *. field; side. Qed.

(* backward = forward with the negated increments: B(-a,-b) = B(a,b), and the divisor (-h_i)(-h_j) = h_i h_j *)
Lemma backward_id a b : f (x +v (vneg a +v vneg b)) - f (x +v vneg a) - f (x +v vneg b) + f0 = B a b.
Proof. expand. rewrite (B_sym b a). unfold four, two in *. field; side. Qed.

(* Hessdiag, eq. 8 on the diagonal: [f(x+2a) + f(x-2a) + 2 f(x) - 2 f(x+a) - 2 f(x-a)] / 4 = B(a,a)/2,
   the second-difference quotient the n = 2 rule (c_0/2! = 1/2) turns into B(a,a)/h^2 *)
Lemma hessdiag_central2_id a :
  (f (x +v (a +v a)) + f (x +v (vneg a +v vneg a)) + two * f0 - two * f (x +v a) - two * f (x +v vneg a)) / four = B a a / two.
Proof. expand. unfold four, two in *. field; side. Qed.
(* Hessdiag, eq. 9 on the diagonal: (f(x+a) + f(x-a))/2 - f(x) = B(a,a)/2 *)
Lemma hessdiag_central_even_id a : (f (x +v a) + f (x +v vneg a)) / two - f0 = B a a / two.
Proof. expand. unfold four, two in *. field; side. Qed.
(* Hessdiag forward / backward first differences carry L a + B(a,a)/2: exact after the rule removes the h^1 term *)
Lemma hessdiag_forward_id a : f (x +v a) - f0 = L a + B a a / two.
Proof. expand. unfold two in *. field; side. Qed.

(* ---- the executable stencil model (Model/HessStencil.v, tied bit-for-bit to finite_difference.py) over this field ---- *)
Definition OpsQ : Ops R :=
  @MkOps R r0 r1 radd rsub rmul rdiv ropp (fun t => t) (fun t => t) (fun _ => r0)
         (fun _ _ => false) (fun _ _ => false) (fun _ _ => false) (fun _ => false) r0 r0 r0.
Lemma two_model : HessStencil.two OpsQ = two.  Proof. reflexivity. Qed.
Lemma four_model : HessStencil.four OpsQ = four.  Proof. reflexivity. Qed.

(* entries of the model on a quadratic, with a = the increment of variable i, b = that of variable j, hi hj their (non-zero) sizes:
   the value is B(a, b) / (hj hi), i.e. the second partial derivative *)
Theorem hess_forward_entry_quad a b hi hj : hi <> r0 -> hj <> r0 ->
  hess_forward_entry OpsQ (f (x +v (a +v b))) (f (x +v a)) (f (x +v b)) f0 hi hj = B a b / (hj * hi).
Proof. intros Hi Hj. unfold hess_forward_entry; cbn. rewrite forward_id. reflexivity. Qed.
Theorem hess_backward_entry_quad a b hi hj : hi <> r0 -> hj <> r0 ->
  hess_forward_entry OpsQ (f (x +v (vneg a +v vneg b))) (f (x +v vneg a)) (f (x +v vneg b)) f0 (- hi) (- hj) = B a b / (hj * hi).
Proof.
  intros Hi Hj. unfold hess_forward_entry; cbn. rewrite backward_id.
  assert (Ni : - hi <> r0) by (intro E; apply Hi; transitivity (- - hi); [ring | rewrite E; ring]).
  assert (Nj : - hj <> r0) by (intro E; apply Hj; transitivity (- - hj); [ring | rewrite E; ring]).
  field. repeat split; assumption.
Qed.
Theorem hess_central2_entry_quad a b hi hj : hi <> r0 -> hj <> r0 ->
  hess_central2_entry OpsQ (f (x +v (a +v b))) (f (x +v (vneg a +v vneg b))) (f (x +v a)) (f (x +v b)) (f (x +v vneg a)) (f (x +v vneg b)) f0 hi hj
  = B a b / (hj * hi).
Proof.
  intros Hi Hj. unfold hess_central2_entry. rewrite two_model. cbn.
  pose proof (central2_id a b) as H.
  set (N := f (x +v (a +v b)) + f (x +v (vneg a +v vneg b)) - f (x +v a) - f (x +v b) + f0 - f (x +v vneg a) - f (x +v vneg b) + f0) in *.
  assert (E : N = two * B a b) by (rewrite <- H; field; exact two_neq0).
  rewrite E. field. repeat split; try assumption; exact two_neq0.
Qed.
Theorem hess_central_diag_entry_quad a hi : hi <> r0 ->
  hess_central_diag_entry OpsQ (f (x +v (a +v a))) (f (x +v (vneg a +v vneg a))) f0 hi = B a a / (hi * hi).
Proof.
  intros Hi. unfold hess_central_diag_entry. rewrite two_model, four_model. cbn.
  pose proof (central_diag_id a) as H.
  set (N := f (x +v (a +v a)) - two * f0 + f (x +v (vneg a +v vneg a))) in *.
  assert (E : N = four * B a a) by (rewrite <- H; unfold four, two; field; side).
  rewrite E. unfold four, two. field. repeat split; try assumption; side.
Qed.
Theorem hess_central_off_entry_quad a b hi hj : hi <> r0 -> hj <> r0 ->
  hess_central_off_entry OpsQ (f (x +v (a +v b))) (f (x +v (a +v vneg b))) (f (x +v (vneg a +v b))) (f (x +v (vneg a +v vneg b))) hi hj = B a b / (hj * hi).
Proof.
  intros Hi Hj. unfold hess_central_off_entry. rewrite four_model. cbn.
  pose proof (central_id a b) as H.
  set (N := f (x +v (a +v b)) - f (x +v (a +v vneg b)) - f (x +v (vneg a +v b)) + f (x +v (vneg a +v vneg b))) in *.
  assert (E : N = four * B a b) by (rewrite <- H; unfold four, two; field; side).
  rewrite E. unfold four, two. field. repeat split; try assumption; side.
Qed.
(* Hessdiag partials of the model: B(a,a)/2 (central rules), L a + B(a,a)/2 (one-sided rules; the h^1 term is removed by the rule) *)
Theorem hd_central2_quad a : hd_central2 OpsQ (f (x +v (a +v a))) (f (x +v (vneg a +v vneg a))) (f (x +v a)) (f (x +v vneg a)) f0 = B a a / two.
Proof. unfold hd_central2. rewrite two_model, four_model. cbn. apply hessdiag_central2_id. Qed.
Theorem hd_central_even_quad a : hd_central_even OpsQ (f (x +v a)) (f (x +v vneg a)) f0 = B a a / two.
Proof. unfold hd_central_even. rewrite two_model. cbn. apply hessdiag_central_even_id. Qed.
Theorem hd_forward_quad a : hd_forward OpsQ (f (x +v a)) f0 = L a + B a a / two.
Proof. unfold hd_forward. cbn. apply hessdiag_forward_id. Qed.
Theorem hd_backward_quad a : hd_backward OpsQ (f (x +v vneg a)) f0 = L a - B a a / two.
Proof. unfold hd_backward. cbn. expand. unfold two in *. field; side. Qed.
End Quad.

