(* C10: the default scale is positive, so EPS**(1/scale) lies in (0,1). *)
From Coq Require Import ZArith QArith Qpower Bool Lia List.
Require Import NDT.Gen.Spec.
Open Scope Q_scope.

Lemma Qpower_nonneg (p : Q) (z : Z) : 0 <= p -> 0 <= Qpower p z.
Proof. intros. apply Qpower_0_le. assumption. Qed.

Lemma inject_nonneg z : (0 <= z)%Z -> 0 <= inject_Z z.
Proof. intros H. change 0 with (inject_Z 0). rewrite <- Zle_Qle. exact H. Qed.

Lemma tblQ_nonneg l i : Forall (fun q => 0 <= q) l -> 0 <= tblQ l i.
Proof.
  intros H. unfold tblQ. generalize (Z.to_nat i) as k. induction H as [|q l Hq Hl IH]; intros k.
  - destruct k; cbn; discriminate.
  - destruct k; cbn; [exact Hq | apply IH].
Qed.

Theorem default_scale_pos m n order : (1 <= n)%Z -> (1 <= order)%Z -> 0 < default_scale m n order.
Proof.
  intros Hn Ho. unfold default_scale. cbv zeta.
  set (c := if negb _ then _ else _).
  assert (Hc : 0 <= c).
  { subst c. destruct (negb _); [|discriminate].
    assert (Hn4 : (0 <= n / 4)%Z) by (apply Z.div_pos; lia).
    apply tblQ_nonneg. repeat constructor.
    - apply Qmult_le_0_compat; [apply inject_nonneg; exact Hn4|].
      apply (Qle_trans _ (inject_Z 10 + 0)); [discriminate|]. apply Qplus_le_r.
      apply Qmult_le_0_compat; [discriminate|]. apply inject_nonneg. destruct (n >? 10)%Z; cbn; lia.
    - apply (Qle_trans _ ((73#20) + 0)); [discriminate|]. apply Qplus_le_r.
      apply Qmult_le_0_compat; [apply inject_nonneg; exact Hn4|].
      apply (Qle_trans _ (inject_Z 5 + 0)); [discriminate|]. apply Qplus_le_r. apply Qpower_nonneg; discriminate.
    - apply (Qle_trans _ ((73#20) + 0)); [discriminate|]. apply Qplus_le_r.
      apply Qmult_le_0_compat; [apply inject_nonneg; exact Hn4|].
      apply (Qle_trans _ (inject_Z 5 + 0)); [discriminate|]. apply Qplus_le_r. apply Qpower_nonneg; discriminate.
    - apply (Qle_trans _ ((73#10) + 0)); [discriminate|]. apply Qplus_le_r.
      apply Qmult_le_0_compat; [apply inject_nonneg; exact Hn4|].
      apply (Qle_trans _ (inject_Z 5 + 0)); [discriminate|]. apply Qplus_le_r. apply Qpower_nonneg; discriminate. }
  clearbody c.
  assert (H1 : 0 <= inject_Z (n - 1)) by (apply inject_nonneg; lia).
  assert (H2 : (0 <= Z.max (order / 2 - 1) 0)%Z) by lia.
  set (o2 := Z.max (order / 2 - 1) 0) in *.
  assert (H3 : 0 <= inject_Z (o2 * (if meqb m Central then 3 else if meqb m Forward then 2 else if meqb m Backward then 2 else 0))).
  { apply inject_nonneg. destruct (meqb m Central), (meqb m Forward), (meqb m Backward); lia. }
  set (t3 := inject_Z (o2 * _)) in *. clearbody t3.
  assert (H4 : 0 <= inject_Z (n - 1) * (if meqb m Multicomplex then inject_Z 0 else if meqb m Complex then 0 # 1 else 13 # 10)).
  { apply Qmult_le_0_compat; [exact H1|]. destruct (meqb m Multicomplex), (meqb m Complex); discriminate. }
  set (t2 := inject_Z (n - 1) * _) in *. clearbody t2.
  assert (H5 : (53 # 50) <= (if meqb m Multicomplex then 53 # 50 else if meqb m Complex then (53 # 50) + c else 5 # 2)).
  { destruct (meqb m Multicomplex); [apply Qle_refl|]. destruct (meqb m Complex); [|discriminate].
    rewrite <- (Qplus_0_r (53 # 50)) at 1. apply Qplus_le_r. exact Hc. }
  set (t1 := if meqb m Multicomplex then _ else _) in *. clearbody t1.
  apply (Qlt_le_trans _ ((53#50) + 0 + 0)); [reflexivity|].
  apply Qplus_le_compat; [apply Qplus_le_compat|]; assumption.
Qed.
Example default_scale_example : default_scale Central 1 2 == 5 # 2.
Proof. reflexivity. Qed.
