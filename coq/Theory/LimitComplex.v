(* C18 over the complex numbers (complex z0, complex-valued f, spiral paths with a complex step ratio):
   (1) for ANY arithmetic satisfying ConstLaws, the complex variant of _Limit._extrapolate returns L whenever
       every Richardson output is L;
   (2) over C = R x R with numpy's lexicographic order (Arith/OpsC.v), if f(z0 + h) is a polynomial of degree
       <= order in h sampled at h_t = h0 rho^t (h0, rho complex), the whole model returns its constant term. *)
From Coq Require Import Reals ZArith List Bool Lia.
Require Import NDT.Arith.Ops NDT.Arith.OpsR NDT.Arith.OpsC NDT.Model.Convolve NDT.Model.Richardson NDT.Model.Dea3 NDT.Model.Select NDT.Model.SelectC
               NDT.Model.Pipeline NDT.Theory.TaylorBest NDT.Theory.TaylorExact NDT.Theory.RichardsonField.
Import ListNotations.

Section Laws.
Context {A : Type} (O : Ops A) (HL : ConstLaws O).
Variables tf thr c8 c15 : A.
Lemma nthA_const L l i : Forall (fun x => x = L) l -> (i < length l)%nat -> nthA O l i = L.
Proof. intros HF Hi. unfold nthA. rewrite Forall_forall in HF. apply HF. apply nth_In. exact Hi. Qed.
Lemma argmin_mid_bound errs n : (length errs <= n)%nat -> (0 < n)%nat -> (argmin_mid O errs < n)%nat.
Proof.
  intros Hl Hn. destruct errs as [|e0 rest] eqn:E; [cbn; exact Hn|].
  pose proof (argmin_mid_lt O (e0 :: rest)) as H. assert (Hne : e0 :: rest <> []) by congruence. specialize (H Hne). lia.
Qed.
Theorem extrapolate_c_const L der hs rr :
  let d1 := fst (fst (rich O tf der hs rr)) in
  d1 <> [] -> Forall (fun x => x = L) d1 ->
  fst (fst (fst (extrapolate_c O tf thr c8 c15 der hs rr))) = L.
Proof.
  intros d1 Hne HF. unfold extrapolate_c, extrapolate_c_table.
  destruct (rich O tf der hs rr) as [[d1' e1] s1] eqn:ER. cbn [fst snd] in *. subst d1.
  assert (Hpos : (0 < length d1')%nat) by (destruct d1'; [congruence | cbn; lia]).
  destruct (Nat.ltb_spec 2 (length d1')) as [H2|H2].
  - cbn [fst]. apply nthA_const; [apply (triples_const_n O HL thr L (length d1') d1' (le_n _) HF)|].
    rewrite map_length, (triples_length_n O thr (length d1') d1' (le_n _)).
    apply argmin_mid_bound; [|lia].
    rewrite penal1_length, combine_length, !map_length, (triples_length_n O thr (length d1') d1' (le_n _)). lia.
  - cbn [fst]. apply nthA_const; [exact HF|].
    apply argmin_mid_bound; [|exact Hpos].
    rewrite penal1_length, combine_length. lia.
Qed.
End Laws.

Open Scope R_scope.
Section OverC.
Variables eps tiny huge : R.
Hypothesis eps_nn : 0 <= eps.
Let O := OpsC eps tiny huge.
Variables tf thr c8 c15 : C.
Notation c0 := (0, 0). Notation c1 := (1, 0).
Notation wsumC := (wsumK C c0 Cadd Cmul).
Notation powC := (kpow C c1 Cmul).
Notation sqC := (sqK C c0 c1 Cadd Cmul).

(* Limit / Residue with complex data: value exact on polynomial-in-the-step sequences, for complex h0 and complex ratio rho *)
Theorem limit_exact_complex (rho L h0 : C) (w : list C) (terms : list (C * nat)) len hs :
  wsumC w (fun _ => c1) = c1 ->
  (forall a k, In (a, k) terms -> wsumC w (fun i => powC rho (i * k)) = c0) ->
  (2 <= length w)%nat -> symcode O w = 0%Z ->
  (length w <= len)%nat ->
  fst (fst (fst (extrapolate_c O tf thr c8 c15 (map (sqC rho L h0 terms) (seq 0 len)) hs w))) = L.
Proof.
  intros H1 H2 Hw Hs Hl.
  pose proof (rich_count_K C O tf (map (sqC rho L h0 terms) (seq 0 len)) hs w) as Hc.
  rewrite map_length, seq_length in Hc.
  apply (extrapolate_c_const O (laws_C eps tiny huge eps_nn)).
  - intro E. rewrite E in Hc. cbn in Hc. lia.
  - apply Forall_forall. intros x Hx. apply In_nth with (d := c0) in Hx as [i [Hi <-]].
    rewrite Hc in Hi.
    apply (rich_exact_K C c0 c1 Cadd Cmul Csub Copp Cdiv Cinv C_field_theory O eq_refl (fun _ _ => eq_refl) (fun _ _ => eq_refl) tf rho L h0 w terms len hs i H1 H2 Hw Hs Hl).
    lia.
Qed.
End OverC.
