(* C06 (B, iii): the coefficient of the wanted derivative, after the sign flip, is the table's c_0. *)
From Coq Require Import ZArith Bool Lia ZifyBool List String.
Require Import NDT.Gen.Spec NDT.Theory.RuleTables.
Ltac Zify.zify_post_hook ::= Z.to_euclidean_division_equations.
Open Scope Z_scope.

Theorem sigma_n_is_c0 m n order : 1 <= n -> 1 <= order -> m = Central \/ m = Forward \/ m = Backward \/ m = Complex ->
  sigma (stencil_of m n order) n * (if flip_fd_rule m n order then -1 else 1) = c0_tbl (rule_parity m n order).
Proof.
  intros Hn Ho Hm. rewrite (stencil_of_tree m n order Hm).
  by_parity m n order Hn Ho.
  destruct Hm as [->|[->|[->| ->]]]; unf; cbn [meqb andb orb starts_central] in *.
  all: destruct Hq as [->|[->|[->|[->|[->|[->| ->]]]]]]; tbls.
  all: assert (Hn8 : 0 <= n mod 8 < 8) by (apply Z.mod_pos_bound; lia).
  all: try (exfalso; split_ifs; lia).
  all: split_ifs; try lia.
Qed.
