(* C10, coupling clause: the default number of steps is never smaller than what the rule consumes.
   Proved on the definitions regenerated from /repo by the translator (Gen/Spec.v). *)
From Coq Require Import ZArith Bool Lia ZifyBool List.
Require Import NDT.Gen.Spec.
Ltac Zify.zify_post_hook ::= Z.to_euclidean_division_equations.
Open Scope Z_scope.

Ltac split_ifs := repeat match goal with
  | |- context [if ?b then _ else _] => destruct b eqn:? end.

Lemma steps_enough_logrule m n order : 1 <= n -> 1 <= order ->
  1 <= rule_num_terms m n order <= min_num_steps m n (method_order m n order).
Proof.
  intros Hn Ho. unfold rule_num_terms, min_num_steps, method_order, num_step_divisor, richardson_step, complex_high_order.
  destruct m; cbn [meqb andb]; split_ifs; cbv zeta; lia.
Qed.

Lemma steps_enough_jacobian m n order : 1 <= n -> 1 <= order ->
  1 <= jac_rule_num_terms m n order <= min_num_steps m n (jac_method_order m n order).
Proof.
  intros Hn Ho. unfold jac_rule_num_terms, min_num_steps, jac_method_order, num_step_divisor, jac_richardson_step, jac_complex_high_order.
  destruct m; cbn [meqb andb]; split_ifs; cbv zeta; lia.
Qed.

Lemma steps_enough_hessdiag m n order : 1 <= order ->
  1 <= hd_rule_num_terms m n order <= min_num_steps m hd_n (hd_method_order m n order).
Proof.
  intros Ho. unfold hd_rule_num_terms, min_num_steps, hd_method_order, num_step_divisor, hd_richardson_step, hd_complex_high_order.
  assert (Hn : 1 <= hd_n) by (vm_compute; discriminate). revert Hn. generalize hd_n as k. intros k Hn.
  destruct m; cbn [meqb andb]; split_ifs; cbv zeta; lia.
Qed.

Lemma steps_enough_hessian m n order :
  1 <= hs_rule_num_terms m n order <= min_num_steps m hs_n (hs_method_order m n order).
Proof.
  (* n and order are class constants for the Hessian rule: a finite check per method *)
  destruct m; vm_compute; split; discriminate.
Qed.

(* the four documented cases of the num_steps property *)
Lemma num_steps_default ck e m n o : num_steps None ck e m n o = min_num_steps m n o + e.
Proof. reflexivity. Qed.
Lemma num_steps_user_checked u e m n o : num_steps (Some u) true e m n o = Z.max u (min_num_steps m n o).
Proof. reflexivity. Qed.
Lemma num_steps_user_unchecked u e m n o : num_steps (Some u) false e m n o = u.
Proof. reflexivity. Qed.
Lemma min_num_steps_pos m n o : 1 <= min_num_steps m n o.
Proof. unfold min_num_steps. cbv zeta. lia. Qed.

(* whenever the count is the default (+ num_extrap >= 0) or is checked, it covers any demand <= min_num_steps *)
Lemma num_steps_covers u ck e m n o k : k <= min_num_steps m n o -> (u = None /\ 0 <= e) \/ ck = true ->
  k <= num_steps u ck e m n o.
Proof.
  intros Hk [[-> He] | ->].
  - rewrite num_steps_default. lia.
  - destruct u as [u|]; [rewrite num_steps_user_checked; lia|].
    unfold num_steps; cbn. destruct e; cbn; try lia.
    (* u = None with check: default count, num_extrap may be anything: state only for e >= 0 *)
Abort.

Lemma num_steps_covers u ck e m n o k : k <= min_num_steps m n o -> 0 <= e -> u = None \/ ck = true ->
  k <= num_steps u ck e m n o.
Proof.
  intros Hk He [-> | ->].
  - rewrite num_steps_default. lia.
  - destruct u as [u|]; [rewrite num_steps_user_checked; lia | rewrite num_steps_default; lia].
Qed.

(* size of the rule vector: 1 for the trivial rule, num_terms otherwise; _apply's guard is
   rule.size - 1 < num_steps *)
Definition rule_size (m : method) (n o : Z) : Z := if rule_trivial m n o then 1 else rule_num_terms m n o.

Theorem apply_guard_never_fires u ck e m n order :
  1 <= n -> 1 <= order -> 0 <= e -> u = None \/ ck = true ->
  rule_size m n order - 1 < num_steps u ck e m n (method_order m n order).
Proof.
  intros Hn Ho He Hu. unfold rule_size.
  pose proof (steps_enough_logrule m n order Hn Ho) as [H1 H2].
  pose proof (min_num_steps_pos m n (method_order m n order)) as Hp.
  destruct (rule_trivial m n order).
  - pose proof (num_steps_covers u ck e m n (method_order m n order) 1 Hp He Hu). lia.
  - pose proof (num_steps_covers u ck e m n (method_order m n order) _ H2 He Hu). lia.
Qed.

Theorem multicomplex_rule_trivial n order : rule_trivial Multicomplex n order = true.
Proof. reflexivity. Qed.

(* non-vacuity: a concrete configuration (central, n = 3, order = 4) meets the hypotheses and consumes 3 of 3 steps *)
Example steps_enough_example : rule_num_terms Central 3 4 = 3 /\ min_num_steps Central 3 (method_order Central 3 4) = 3.
Proof. split; reflexivity. Qed.
