(* C17: the discrete Fourier transform of the samples of a polynomial on a circle returns its Taylor coefficients
   (with aliasing).  Over ANY field F with a primitive m-th root of unity w (for the complex numbers
   w = exp(2 pi i / m), the points of fornberg._circle are z0 + r w^j and np.fft.fft sums x_j w^(-jk)):
   for f(z0 + d) = sum_{t < N} a_t d^t,
       sum_{j < m} f(z0 + r w^j) w^(-jk)  =  m * sum_{t < N, t = k mod m} a_t r^t,
   i.e. bn[k] = fft(...)[k] / m = a_k r^k + a_{k+m} r^(k+m) + ...; for N <= m exactly a_k r^k. *)
From mathcomp Require Import all_ssreflect all_algebra.
Set Implicit Arguments. Unset Strict Implicit. Unset Printing Implicit Defensive.
Import GRing.Theory.
Local Open Scope ring_scope.

Section Dft.
Variables (F : fieldType) (m : nat) (w : F).
Hypothesis wprim : m.-primitive_root w.

Lemma m_gt0 : (0 < m)%N. Proof. exact: prim_order_gt0 wprim. Qed.
Lemma wm1 : w ^+ m = 1. Proof. exact: prim_expr_order wprim. Qed.

(* orthogonality of the characters *)
Lemma sum_root t : \sum_(j < m) w ^+ (j * t) = if (m %| t)%N then m%:R else 0.
Proof.
case: ifP => [dv|ndv].
  have wt1 : w ^+ t = 1 by apply/eqP; rewrite -(prim_order_dvd wprim).
  rewrite (eq_bigr (fun _ => 1)); first by rewrite sumr_const card_ord.
  by move=> j _; rewrite mulnC exprM wt1 expr1n.
have q1 : w ^+ t != 1 by rewrite -(prim_order_dvd wprim) ndv.
have H := subrX1 (w ^+ t) m.
rewrite -exprM mulnC exprM wm1 expr1n subrr in H.
move/eqP: H; rewrite eq_sym mulf_eq0 subr_eq0 (negbTE q1) /= => /eqP H.
by rewrite -[RHS]H; apply: eq_bigr => j _; rewrite mulnC exprM.
Qed.

(* w^(-jk) = w^(j (m - k)) for k <= m *)
Lemma inv_exp j k : (k <= m)%N -> (w^-1) ^+ (j * k) = w ^+ (j * (m - k)).
Proof.
move=> km.
have wu : w \is a GRing.unit by rewrite unitfE; apply: contraTneq (prim_order_gt0 wprim) => w0; move: wm1; rewrite w0 expr0n; case: (m) => [|n] //= /eqP; rewrite eq_sym oner_eq0.
apply: (mulIr (unitrX (j * k) wu)).
rewrite exprVn mulVr ?unitrX // -exprD -mulnDr subnK // mulnC exprM wm1 expr1n.
by [].
Qed.

Variables (N : nat) (a : nat -> F) (r : F).
Definition f (d : F) : F := \sum_(t < N) a t * d ^+ t.

Lemma term j t k : (k < m)%N ->
  a t * (r * w ^+ j) ^+ t * (w^-1) ^+ (j * k) = (a t * r ^+ t) * w ^+ (j * (t + (m - k))).
Proof.
move=> km; rewrite exprMn inv_exp ?(ltnW km) // -exprM -!mulrA; congr (_ * (_ * _)).
by rewrite -exprD -mulnDr.
Qed.

Lemma dvd_shift t k : (k < m)%N -> (m %| t + (m - k))%N = (t %% m == k)%N.
Proof.
move=> km.
rewrite (addnBA _ (ltnW km)) -eqn_mod_dvd; last by rewrite (leq_trans (ltnW km)) // leq_addl.
by rewrite modnDr (modn_small km).
Qed.

Theorem dft_coefficients k : (k < m)%N ->
  \sum_(j < m) f (r * w ^+ j) * (w^-1) ^+ (j * k) = m%:R * \sum_(t < N | (t %% m == k)%N) a t * r ^+ t.
Proof.
move=> km.
rewrite /f.
under eq_bigr => j _ do rewrite big_distrl /=.
rewrite exchange_big /=.
rewrite [in RHS]big_mkcond /= big_distrr /=.
apply: eq_bigr => t _.
under eq_bigr => j _ do rewrite term //.
rewrite -big_distrr /= sum_root dvd_shift //.
by case: ifP => _; rewrite ?mulr0 // mulrC.
Qed.

(* for a polynomial of degree < m nothing is aliased: bn[k] * m = m a_k r^k *)
Corollary dft_exact k : (N <= m)%N -> (k < N)%N ->
  \sum_(j < m) f (r * w ^+ j) * (w^-1) ^+ (j * k) = m%:R * (a k * r ^+ k).
Proof.
move=> Nm kN; rewrite dft_coefficients ?(leq_trans kN) //; congr (_ * _).
rewrite (bigD1 (Ordinal kN)) /=; last by rewrite modn_small // (leq_trans kN).
rewrite big1 ?addr0 // => t /andP[tk tne].
case/negP: tne; apply/eqP/val_inj => /=.
by rewrite -(eqP tk) modn_small // (leq_trans (ltn_ord t)).
Qed.
End Dft.
