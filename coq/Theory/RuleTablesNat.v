(* C06: the table facts of layer (B) restated over nat, in the shape the exactness theorem of layer (C)
   (Theory/RuleExact.v, MathComp) takes as hypotheses. *)
From Coq Require Import ZArith Bool Lia ZifyBool List String.
Require Import NDT.Gen.Spec NDT.Theory.RuleTables NDT.Theory.RuleTablesLead NDT.Theory.RuleTablesSupport.
Ltac Zify.zify_post_hook ::= Z.to_euclidean_division_equations.
Open Scope Z_scope.

Section N.
Variables (m : method) (n order : Z).
Hypotheses (Hn : 1 <= n) (Ho : 1 <= order) (Hm : m = Central \/ m = Forward \/ m = Backward \/ m = Complex).
Definition parN := rule_parity m n order.
Definition offN : nat := Z.to_nat (offset_tbl parN).
Definition stN : nat := Z.to_nat (step_tbl parN).
Definition termsN : nat := Z.to_nat (rule_num_terms m n order).
Definition rowN : nat := Z.to_nat (rule_index m n order).
Definition c0Z : Z := c0_tbl parN.
Definition flZ : Z := if flip_fd_rule m n order then -1 else 1.
Definition sigmaN (k : nat) : Z := sigma (stencil_of m n order) (Z.of_nat k).

Lemma table_ranges : 0 <= offset_tbl parN /\ 1 <= step_tbl parN /\ c0_tbl parN <> 0.
Proof.
  unfold parN. by_parity m n order Hn Ho.
  destruct Hq as [->|[->|[->|[->|[->|[->| ->]]]]]]; tbls; lia.
Qed.

Theorem tables_nat :
  (0 < stN)%nat /\ c0Z <> 0 /\ (offN + stN * rowN = Z.to_nat n)%nat /\ (rowN < termsN)%nat /\
  (forall k : nat, sigmaN k <> 0 -> (offN <= k)%nat /\ Nat.modulo (k - offN) stN = 0%nat) /\
  sigmaN (Z.to_nat n) * flZ = c0Z /\ flZ * flZ = 1.
Proof.
  pose proof table_ranges as [R1 [R2 R3]].
  pose proof (index_is_n m n order Hn Ho Hm) as [I1 [_ I3]]. cbv zeta in I1. fold parN in I1.
  unfold offN, stN, termsN, rowN, c0Z, flZ, sigmaN.
  split; [lia|]. split; [exact R3|]. split; [nia|]. split; [lia|]. split; [|split].
  - intros k Hk. pose proof (sigma_support m n order (Z.of_nat k) Hn Ho Hm) as S. cbv zeta in S. fold parN in S.
    destruct (S ltac:(lia) Hk) as [S1 S2]. split; [lia|].
    apply Nat2Z.inj. rewrite Nat2Z.inj_mod, Nat2Z.inj_sub by lia. rewrite !Z2Nat.id by lia. exact S2.
  - rewrite Z2Nat.id by lia. exact (sigma_n_is_c0 m n order Hn Ho Hm).
  - destruct (flip_fd_rule m n order); reflexivity.
Qed.
End N.
