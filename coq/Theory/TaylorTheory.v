(* C17: the radius search of fornberg.Taylor as a state machine, for ANY arithmetic and ANY oracle stream
   (m1, m2, poor-convergence outcome per iteration). *)
From Coq Require Import ZArith List Bool Lia.
Require Import NDT.Arith.Ops NDT.Model.Taylor.
Import ListNotations.

Section Any.
Context {A : Type} (Op : Ops A).
Variable c8 : A.
Variables num_extrap min_iter : Z.
Notation step := (check_convergence Op c8 num_extrap min_iter).
Notation srch := (search Op c8 num_extrap min_iter).

(* ---- the loop: iterations, radii, failed ---- *)
Lemma search_spec : forall fuel i r s os rs, (1 <= fuel)%nat -> (fuel <= length os)%nat ->
  let res := srch fuel i r s os rs in
  (i <= iterations_of res < i + fuel)%nat /\
  length (radii_of res) = (length rs + (iterations_of res - i) + 1)%nat /\
  (failed_of res = true -> iterations_of res = (i + fuel - 1)%nat).
Proof.
  induction fuel as [|f IH]; intros i r s os rs H1 H2; [lia|].
  destruct os as [|o os']; [cbn in H2; lia|]. cbn [search].
  destruct (step i r o s) as [[cv r'] s'] eqn:E.
  destruct cv.
  - unfold iterations_of, radii_of, failed_of. cbn. rewrite app_length. cbn. split; [lia|]. split; [lia|]. discriminate.
  - destruct f as [|f'].
    + unfold iterations_of, radii_of, failed_of. cbn. rewrite app_length. cbn. split; [lia|]. split; [lia|]. intros _. lia.
    + cbn in H2. assert (P1 : (1 <= S f')%nat) by lia. assert (P2 : (S f' <= length os')%nat) by lia.
      pose proof (IH (S i) r' s' os' (rs ++ [r]) P1 P2) as IH'. cbv zeta in IH'.
      destruct IH' as [Ha [Hb Hc]].
      split; [lia|]. split; [rewrite Hb, app_length; cbn [length]; lia|]. intros Hf. specialize (Hc Hf). lia.
Qed.

(* failed <-> the cap was reached without convergence: then all max_iter iterations ran;
   otherwise the loop stopped at the reported iteration, having used iterations + 1 <= max_iter radii *)
Theorem failed_means_cap max_iter r0 ratio0 os : (1 <= max_iter)%nat -> (max_iter <= length os)%nat ->
  let res := run Op c8 num_extrap min_iter max_iter r0 ratio0 os in
  (failed_of res = true -> iterations_of res = (max_iter - 1)%nat /\ length (radii_of res) = max_iter) /\
  (failed_of res = false -> (iterations_of res < max_iter)%nat /\ length (radii_of res) = S (iterations_of res)).
Proof.
  intros H1 H2 res. unfold res, run.
  pose proof (search_spec max_iter 0 r0 (init_state ratio0) os [] H1 H2) as [Ha [Hb Hc]]. cbv zeta in *.
  split.
  - intros Hf. specialize (Hc Hf). cbn [length] in Hb. split; lia.
  - intros _. cbn [length] in Hb. split; lia.
Qed.

(* ---- invariant of the state at the entry of iteration i ---- *)
Definition Inv (i : nat) (s : @tstate A) : Prop :=
  (dchanges s <= Nat.pred i)%nat /\ (i = 0%nat -> prev s = None) /\
  (degen s = true -> (min_iter + 2 <= Z.of_nat i)%Z) /\
  ((nchanges s <= Z.of_nat (i - 2))%Z) /\
  ((nchanges s > 0)%Z -> (Nat.ltb 1 (dchanges s) || degen s) = true).

Lemma inv_init ratio0 : Inv 0 (init_state ratio0).
Proof. unfold Inv, init_state; cbn. repeat split; try lia; try discriminate. Qed.

Hypothesis min_iter_nonneg : (0 <= min_iter)%Z.

Lemma counting_late i s : Inv i s -> (Nat.ltb 1 (dchanges s) || degen s) = true -> (2 <= i)%nat.
Proof.
  intros [Hd [_ [Hg _]]] H. apply orb_true_iff in H as [H|H].
  - apply Nat.ltb_lt in H. lia.
  - specialize (Hg H). lia.
Qed.

Lemma inv_step i r o s : Inv i s ->
  let '(cv, r', s') := step i r o s in cv = false -> Inv (S i) s'.
Proof.
  intros HI. pose proof HI as [Hd [Hp [Hg [Hn Hc]]]].
  unfold check_convergence. destruct o as [[m1 m2] poor].
  set (counting := Nat.ltb 1 (dchanges s) || degen s) in *.
  destruct (counting && Z.leb (1 + num_extrap) (if counting then (nchanges s + 1)%Z else nchanges s)) eqn:EC; [discriminate|].
  destruct (degen s) eqn:ED.
  - (* already degenerate *)
    cbn zeta. intros _. unfold Inv; cbn [dchanges prev degen nchanges].
    assert (H2 : (2 <= i)%nat) by (specialize (Hg eq_refl); lia).
    repeat split.
    + destruct (prev s) as [p|]; [destruct (Bool.eqb _ _)|]; cbn; lia.
    + lia.
    + intros _. specialize (Hg eq_refl). lia.
    + unfold counting. rewrite orb_true_r. lia.
    + intros _. destruct (prev s) as [p|]; [destruct (Bool.eqb _ _)|]; rewrite orb_true_r; reflexivity.
  - destruct (check_fft Op c8 m1 m2 (Z.ltb min_iter (Z.of_nat i))) as [d n] eqn:EF.
    cbn zeta. intros _. unfold Inv; cbn [dchanges prev degen nchanges].
    assert (Hdg : d = true -> (min_iter + 1 <= Z.of_nat i)%Z).
    { intros ->. unfold check_fft in EF. injection EF as EF _. apply andb_true_iff in EF as [EF _]. apply Z.ltb_lt in EF. lia. }
    assert (Hprev : (i = 0%nat -> forall x, match prev s with Some p => if Bool.eqb x p then dchanges s else S (dchanges s) | None => dchanges s end = dchanges s)).
    { intros Hi x. rewrite (Hp Hi). reflexivity. }
    repeat split.
    + destruct (prev s) as [p|] eqn:EP; [|cbn; lia].
      assert (i <> 0%nat) by (intro Hi; specialize (Hp Hi); congruence).
      destruct (Bool.eqb _ _); cbn; lia.
    + lia.
    + intros Hd'. specialize (Hdg Hd'). lia.
    + destruct counting eqn:ECo.
      * assert (H2 : (2 <= i)%nat) by (unfold counting in ECo; rewrite orb_false_r in ECo; apply Nat.ltb_lt in ECo; lia). lia.
      * assert (Hz : (nchanges s <= 0)%Z).
        { destruct (Z.ltb_spec 0 (nchanges s)) as [Hpos|Hle]; [|lia]. assert (Hgt : (nchanges s > 0)%Z) by lia. specialize (Hc Hgt). unfold counting in ECo. congruence. }
        lia.
    + intros Hpos. destruct counting eqn:ECo.
      * unfold counting in ECo. rewrite orb_false_r in ECo. apply Nat.ltb_lt in ECo.
        assert (Hle : (1 < match prev s with Some p => if Bool.eqb (if d then Nat.even i else n || poor) p then dchanges s else S (dchanges s) | None => dchanges s end)%nat).
        { destruct (prev s) as [p|]; [destruct (Bool.eqb _ _)|]; lia. }
        apply Nat.ltb_lt in Hle. rewrite Hle. reflexivity.
      * assert (Hgt : (nchanges s > 0)%Z) by lia. specialize (Hc Hgt). unfold counting in ECo. congruence.
Qed.

(* the converged call returns the state it was entered with, up to the change counter *)
Lemma step_converged_state i r o s : fst (fst (step i r o s)) = true -> degen (snd (step i r o s)) = degen s.
Proof.
  unfold check_convergence. destruct o as [[m1 m2] poor].
  destruct ((Nat.ltb 1 (dchanges s) || degen s) && Z.leb (1 + num_extrap) (if Nat.ltb 1 (dchanges s) || degen s then (nchanges s + 1)%Z else nchanges s)); [reflexivity|].
  destruct (degen s); [|destruct (check_fft _ _ _ _ _)]; cbn; discriminate.
Qed.

(* degenerate can only be reported once an iteration with index > min_iter has run *)
Lemma search_degenerate_late : forall fuel i r s os rs, Inv i s ->
  let res := srch fuel i r s os rs in (1 <= fuel)%nat -> (fuel <= length os)%nat ->
  degenerate_of res = true -> (min_iter + 1 <= Z.of_nat (iterations_of res))%Z.
Proof.
  induction fuel as [|f IH]; intros i r s os rs HI res H1 H2; [lia|].
  destruct os as [|o os']; [cbn in H2; lia|]. unfold res in *. cbn [search] in *.
  pose proof (inv_step i r o s HI) as HS. pose proof (step_converged_state i r o s) as HC.
  destruct (step i r o s) as [[cv r'] s'] eqn:E. cbn [fst snd] in HC.
  destruct cv.
  - unfold degenerate_of, iterations_of. cbn. intros Hd. rewrite (HC eq_refl) in Hd.
    destruct HI as [_ [_ [Hg _]]]. specialize (Hg Hd). lia.
  - specialize (HS eq_refl). destruct f as [|f'].
    + unfold degenerate_of, iterations_of. cbn. intros Hd. destruct HS as [_ [_ [Hg _]]]. specialize (Hg Hd). lia.
    + intros Hd. assert (P1 : (1 <= S f')%nat) by lia. assert (P2 : (S f' <= length os')%nat) by (cbn in H2; lia).
      exact (IH (S i) r' s' os' (rs ++ [r]) HS P1 P2 Hd).
Qed.

(* convergence cannot be declared before iteration 3 when num_extrap >= 1: at least four circles have been evaluated *)
Hypothesis num_extrap_pos : (1 <= num_extrap)%Z.
Lemma converged_late i r o s : Inv i s -> fst (fst (step i r o s)) = true -> (3 <= i)%nat.
Proof.
  intros HI. pose proof HI as [Hd [Hp [Hg [Hn Hc]]]].
  unfold check_convergence. destruct o as [[m1 m2] poor].
  set (counting := Nat.ltb 1 (dchanges s) || degen s) in *.
  destruct (counting && Z.leb (1 + num_extrap) (if counting then (nchanges s + 1)%Z else nchanges s)) eqn:EC.
  - intros _. apply andb_true_iff in EC as [EC1 EC2]. rewrite EC1 in EC2. apply Z.leb_le in EC2.
    assert (H2 : (2 <= i)%nat) by (apply (counting_late i s HI); exact EC1). lia.
  - destruct (degen s); [|destruct (check_fft _ _ _ _ _)]; cbn; discriminate.
Qed.

Lemma search_converged_late : forall fuel i r s os rs, Inv i s ->
  let res := srch fuel i r s os rs in failed_of res = false -> (1 <= fuel)%nat -> (fuel <= length os)%nat -> (3 <= iterations_of res)%nat.
Proof.
  induction fuel as [|f IH]; intros i r s os rs HI res Hf H1 H2; [lia|].
  destruct os as [|o os']; [cbn in H2; lia|]. unfold res in *. cbn [search] in *.
  pose proof (converged_late i r o s HI) as HL. pose proof (inv_step i r o s HI) as HS.
  destruct (step i r o s) as [[cv r'] s'] eqn:E. cbn [fst] in HL.
  destruct cv.
  - unfold iterations_of. cbn. apply HL. reflexivity.
  - destruct f as [|f'].
    + unfold failed_of in Hf. cbn in Hf. discriminate.
    + apply (IH (S i) r' s' os' (rs ++ [r])); [apply HS; reflexivity | exact Hf | lia | cbn in H2; lia].
Qed.

Theorem converged_has_four_radii max_iter r0 ratio0 os : (1 <= max_iter)%nat -> (max_iter <= length os)%nat ->
  let res := run Op c8 num_extrap min_iter max_iter r0 ratio0 os in
  failed_of res = false -> (3 <= iterations_of res)%nat /\ (4 <= length (radii_of res))%nat.
Proof.
  intros H1 H2 res Hf.
  pose proof (search_converged_late max_iter 0 r0 (init_state ratio0) os [] (inv_init ratio0) Hf H1 H2) as H3.
  pose proof (failed_means_cap max_iter r0 ratio0 os H1 H2) as [_ Hb]. specialize (Hb Hf).
  unfold res, run in *. split; [exact H3 | lia].
Qed.
Theorem degenerate_needs_min_iter max_iter r0 ratio0 os : (1 <= max_iter)%nat -> (max_iter <= length os)%nat ->
  let res := run Op c8 num_extrap min_iter max_iter r0 ratio0 os in
  degenerate_of res = true -> (min_iter + 1 <= Z.of_nat (iterations_of res))%Z.
Proof.
  intros H1 H2 res Hd. exact (search_degenerate_late max_iter 0 r0 (init_state ratio0) os [] (inv_init ratio0) H1 H2 Hd).
Qed.
End Any.

(* derivative(): entry k of the values and of the error estimates is the Taylor entry times facts[k] (= k!) *)
Section Scale.
Context {A : Type} (Op : Ops A).
Lemma scale_by_length facts l : length (scale_by Op facts l) = Nat.min (length l) (length facts).
Proof. unfold scale_by. rewrite map_length, combine_length. reflexivity. Qed.
Theorem scale_by_nth facts l k d : (k < length l)%nat -> (k < length facts)%nat ->
  nth k (scale_by Op facts l) d = mul Op (nth k l d) (nth k facts d).
Proof.
  revert facts k. induction l as [|x l IH]; intros facts k H1 H2; [cbn in H1; lia|].
  destruct facts as [|f facts]; [cbn in H2; lia|]. destruct k as [|k]; [reflexivity|].
  cbn in H1, H2. apply (IH facts k); lia.
Qed.
End Scale.
