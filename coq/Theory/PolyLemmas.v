From mathcomp Require Import all_ssreflect all_algebra.
Set Implicit Arguments. Unset Strict Implicit. Unset Printing Implicit Defensive.
Import GRing.Theory.
Local Open Scope ring_scope.

Section PolyLemmas.
Variable F : fieldType.
Implicit Types (p : {poly F}) (a c : F).

(* Leibniz for a linear factor *)
Lemma derivn_mulXsubC p a k :
  (p * ('X - a%:P))^`(k) = p^`(k) * ('X - a%:P) + p^`(k.-1) *+ k.
Proof.
elim: k => [|k IH]; first by rewrite !derivn0 mulr0n addr0.
rewrite derivnS IH derivD derivM derivXsubC mulr1 derivMn.
rewrite -derivnS.
case: k {IH} => [|k] /=; first by rewrite mulr0n addr0 mulr1n.
by rewrite -addrA -mulrS.
Qed.

Lemma horner_derivn_mulXsubC p a k x0 :
  ((p * ('X - a%:P))^`(k)).[x0] = p^`(k).[x0] * (x0 - a) + (p^`(k.-1)).[x0] *+ k.
Proof. by rewrite derivn_mulXsubC hornerD hornerM hornerXsubC hornerMn. Qed.

Lemma derivn_scale_horner c p k x0 : ((c *: p)^`(k)).[x0] = c * (p^`(k)).[x0].
Proof. by rewrite derivnZ hornerZ. Qed.
End PolyLemmas.
