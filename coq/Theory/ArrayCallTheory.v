(* C08: in the model, the result for element c depends on column c alone, whatever the other columns hold. *)
From Coq Require Import ZArith List Bool Lia.
Require Import NDT.Arith.Ops NDT.Model.Pipeline NDT.Model.ArrayCall NDT.Theory.ListAux.
Import ListNotations.

Section Any.
Context {A : Type} (Op : Ops A).
Variables (tfact thr c_1em8 c_1p5 c_half : A).
Notation AC := (array_call Op tfact thr c_1em8 c_1p5 c_half).
Notation PL := (pipeline Op tfact thr c_1em8 c_1p5 c_half).

Theorem array_call_length fdel hn steps rule rr ncols : length (AC fdel hn steps rule rr ncols) = ncols.
Proof. unfold array_call. rewrite map_length, seq_length. reflexivity. Qed.

Theorem array_call_nth fdel hn steps rule rr ncols c d : c < ncols ->
  nth c (AC fdel hn steps rule rr ncols) d = PL (col Op fdel c) (col Op hn c) (col Op steps c) rule rr.
Proof.
  intros H. unfold array_call. rewrite (nth_map_lt _ _ _ 0) by (rewrite seq_length; exact H).
  rewrite seq_nth by exact H. reflexivity.
Qed.

(* altering the other elements leaves element c bit-identical: any two inputs that agree on column c *)
Theorem array_call_depends_on_own_column fdel fdel' hn hn' steps steps' rule rr ncols ncols' c d :
  c < ncols -> c < ncols' ->
  col Op fdel c = col Op fdel' c -> col Op hn c = col Op hn' c -> col Op steps c = col Op steps' c ->
  nth c (AC fdel hn steps rule rr ncols) d = nth c (AC fdel' hn' steps' rule rr ncols') d.
Proof. intros H1 H2 E1 E2 E3. rewrite !array_call_nth by assumption. rewrite E1, E2, E3. reflexivity. Qed.

(* evaluating that element alone (a one-column call) gives the same value *)
Theorem array_call_scalar fdel hn steps rule rr ncols c d : c < ncols ->
  nth c (AC fdel hn steps rule rr ncols) d
  = nth 0 (AC (map (fun x => [x]) (col Op fdel c)) (map (fun x => [x]) (col Op hn c)) (map (fun x => [x]) (col Op steps c)) rule rr 1) d.
Proof.
  intros H. rewrite array_call_nth by exact H. rewrite array_call_nth by lia.
  assert (E : forall l : list A, col Op (map (fun x => [x]) l) 0 = l).
  { intros l. unfold col. rewrite map_map. cbn. apply map_id. }
  rewrite !E. reflexivity.
Qed.
End Any.

(* C04: exact symmetry.  The Hessian stencils write entry (i, j) and copy it to (j, i), so columns
   i*n + j and j*n + i of the matrices handed to _extrapolate are identical; then so are the results --
   for ANY arithmetic, hence bit-for-bit in binary64. *)
Section Symmetric.
Context {A : Type} (Op : Ops A).
Variables (tfact thr c_1em8 c_1p5 c_half : A).
Notation AE := (array_extrapolate Op tfact thr c_1em8 c_1p5 c_half).
Theorem array_extrapolate_nth der hs rr ncols c d : c < ncols ->
  nth c (AE der hs rr ncols) d = extrapolate Op tfact thr c_1em8 c_1p5 c_half (col Op der c) (col Op hs c) rr.
Proof.
  intros H. unfold array_extrapolate. rewrite (nth_map_lt _ _ _ 0) by (rewrite seq_length; exact H).
  rewrite seq_nth by exact H. reflexivity.
Qed.
Theorem hessian_symmetric der hs rr n i j d : i < n -> j < n ->
  col Op der (i * n + j) = col Op der (j * n + i) -> col Op hs (i * n + j) = col Op hs (j * n + i) ->
  nth (i * n + j) (AE der hs rr (n * n)) d = nth (j * n + i) (AE der hs rr (n * n)) d.
Proof.
  intros Hi Hj E1 E2. rewrite !array_extrapolate_nth by nia. rewrite E1, E2. reflexivity.
Qed.
End Symmetric.
