(* C03: index bijection of the Jacobian layout -- every m, n (and k), not only symmetric examples. *)
From Coq Require Import List Arith Lia.
Require Import NDT.Model.JacShape NDT.Theory.ListAux.
Import ListNotations.

Lemma concat_map_concat_local {U} (l : list (list (list U))) : concat (map (@concat U) l) = concat (concat l).
Proof. induction l as [|a l IH]; cbn; [reflexivity|]. rewrite IH, concat_app. reflexivity. Qed.

Section L.
Context {T : Type} (d : T).

Lemma nth_concat_uniform (rows : list (list T)) w a b :
  Forall (fun r => length r = w) rows -> a < length rows -> b < w ->
  nth (a * w + b) (concat rows) d = nth b (nth a rows []) d.
Proof.
  revert a; induction rows as [|r rows IH]; intros a HF Ha Hb; cbn in *; [lia|].
  inversion HF as [|? ? Hr HF']; subst.
  destruct a as [|a].
  - cbn. rewrite app_nth1 by lia. reflexivity.
  - cbn [nth]. rewrite app_nth2 by (cbn; lia).
    replace (S a * length r + b - length r) with (a * length r + b) by (cbn; lia).
    apply IH; [exact HF' | lia | exact Hb].
Qed.

Lemma transpose_rows m (r : list (list T)) : Forall (fun row => length row = length r) (transpose d m r).
Proof. unfold transpose. apply Forall_forall. intros x Hx. apply in_map_iff in Hx as [i [<- _]]. apply map_length. Qed.

(* (m, n): the value placed at [i, j] of the result is entry i of the j-th stencil quotient *)
Theorem jacobian_layout2 m (r : list (list T)) i j :
  i < m -> j < length r ->
  at2 d (length r) (vstack_row2 d m r) i j = nth i (nth j r []) d.
Proof.
  intros Hi Hj. unfold at2, vstack_row2.
  rewrite (nth_concat_uniform (transpose d m r) (length r) i j (transpose_rows m r)); [| unfold transpose; rewrite map_length, seq_length; exact Hi | exact Hj].
  unfold transpose. rewrite (nth_map_lt _ _ _ 0) by (rewrite seq_length; exact Hi). rewrite seq_nth by exact Hi.
  rewrite (nth_map_lt _ _ _ []) by exact Hj. reflexivity.
Qed.

(* the steps follow the same layout: the step used for entry [i, j] is h_j, the step of variable j *)
Theorem steps_layout2 m (h : list T) i j : i < m -> j < length h ->
  at2 d (length h) (vstack_row2 d m (expand_steps m h)) i j = nth j h d.
Proof.
  intros Hi Hj. pose proof (jacobian_layout2 m (expand_steps m h) i j Hi) as H.
  unfold expand_steps in *. rewrite map_length in H. rewrite H by exact Hj.
  rewrite (nth_map_lt _ _ _ d) by exact Hj. apply nth_repeat_lt. exact Hi.
Qed.

Lemma nth_concat_uniform_gen {U} (du : U) (rows : list (list U)) w a b :
  Forall (fun r => length r = w) rows -> a < length rows -> b < w ->
  nth (a * w + b) (concat rows) du = nth b (nth a rows []) du.
Proof.
  revert a; induction rows as [|r rows IH]; intros a HF Ha Hb; cbn in *; [lia|].
  inversion HF as [|? ? Hr HF']; subst.
  destruct a as [|a].
  - cbn. rewrite app_nth1 by lia. reflexivity.
  - cbn [nth]. rewrite app_nth2 by (cbn; lia).
    replace (S a * length r + b - length r) with (a * length r + b) by (cbn; lia).
    apply IH; [exact HF' | lia | exact Hb].
Qed.

(* (m, n, k): [i, j, l] is entry [i, l] of the j-th stencil quotient (each quotient has shape (m, k)) *)
Theorem jacobian_layout3 m k (r : list (list (list T))) i j l :
  i < m -> j < length r -> l < k ->
  Forall (fun plane => length plane = m /\ Forall (fun row => length row = k) plane) r ->
  at3 d (length r) k (vstack_row3 m r) i j l = nth l (nth i (nth j r []) []) d.
Proof.
  intros Hi Hj Hl HF. unfold at3, vstack_row3.
  rewrite concat_map_concat_local.
  set (T3 := transpose3 m r).
  assert (L3 : length T3 = m) by (unfold T3, transpose3; rewrite map_length, seq_length; reflexivity).
  assert (U1 : Forall (fun pl => length pl = length r) T3).
  { unfold T3, transpose3. apply Forall_forall. intros x Hx. apply in_map_iff in Hx as [i0 [<- _]]. apply map_length. }
  assert (U2 : Forall (fun row => length row = k) (concat T3)).
  { apply Forall_forall. intros row Hrow. apply in_concat in Hrow as [pl [Hpl Hin]].
    unfold T3, transpose3 in Hpl. apply in_map_iff in Hpl as [i0 [<- Hi0]]. apply in_seq in Hi0.
    apply in_map_iff in Hin as [plane [<- Hp]].
    rewrite Forall_forall in HF. destruct (HF plane Hp) as [Lp Fp]. rewrite Forall_forall in Fp.
    apply Fp. apply nth_In. lia. }
  assert (LC : length (concat T3) = m * length r).
  { rewrite <- L3. clear - U1. induction T3 as [|a t IH]; cbn; [reflexivity|].
    inversion U1; subst. rewrite app_length, (IH H2). lia. }
  rewrite (nth_concat_uniform_gen d (concat T3) k (i * length r + j) l U2); [| rewrite LC; nia | exact Hl].
  rewrite (nth_concat_uniform_gen [] T3 (length r) i j U1); [| lia | exact Hj].
  unfold T3, transpose3. rewrite (nth_map_lt _ _ _ 0) by (rewrite seq_length; exact Hi). rewrite seq_nth by exact Hi.
  rewrite (nth_map_lt _ _ _ []) by exact Hj. reflexivity.
Qed.
End L.
