(* C06 (B, ii): the signature is non-zero only on the progression offset + step*j of the table. *)
From Coq Require Import ZArith Bool Lia ZifyBool List String.
Require Import NDT.Gen.Spec NDT.Theory.RuleTables.
Ltac Zify.zify_post_hook ::= Z.to_euclidean_division_equations.
Open Scope Z_scope.

Theorem sigma_support m n order k : 1 <= n -> 1 <= order -> m = Central \/ m = Forward \/ m = Backward \/ m = Complex ->
  let p := rule_parity m n order in
  0 <= k -> sigma (stencil_of m n order) k <> 0 ->
  offset_tbl p <= k /\ (k - offset_tbl p) mod (step_tbl p) = 0.
Proof.
  intros Hn Ho Hm p Hk. subst p. rewrite (stencil_of_tree m n order Hm).
  by_parity m n order Hn Ho.
  destruct Hm as [->|[->|[->| ->]]]; unf; cbn [meqb andb orb starts_central] in *.
  all: destruct Hq as [->|[->|[->|[->|[->|[->| ->]]]]]]; tbls.
  all: try (exfalso; split_ifs; lia).
  all: split_ifs; try lia.
Qed.
