(* C18: CStepGenerator produces enough steps for Limit's extrapolation: for every step ratio in [2, 16]
   and every order 1..8 the Richardson stage yields at least five estimates, so the Wynn (dea3) stage
   applies and still leaves at least three candidates to choose from. *)
From Coq Require Import Reals ZArith QArith Qreals Lra Lia.
From Interval Require Import Tactic.
Require Import NDT.Gen.Limits.
Open Scope R_scope.

Lemma ratio_log_bound r : 2 <= r <= 16 -> 11/2 < 16 / ln r.
Proof. intros H. interval with (i_bisect r). Qed.

Lemma numerator_is_16 : Q2R cstep_round_numerator = 16.
Proof. unfold cstep_round_numerator, Q2R. cbn. lra. Qed.

(* k = int(np.round(x)) is within 1/2 of x *)
Theorem enough_steps (r : R) (k o : Z) :
  2 <= r <= 16 -> Rabs (IZR k - Q2R cstep_round_numerator / ln r) <= 1/2 -> (1 <= o <= 8)%Z ->
  (13 <= cstep_num_steps_of_round k)%Z /\
  (5 <= cstep_num_steps_of_round k - (lim_rich_num_terms o - 1))%Z.
Proof.
  intros Hr Hk Ho. rewrite numerator_is_16 in Hk. pose proof (ratio_log_bound r Hr) as Hb.
  assert (H5 : 5 < IZR k).
  { unfold Rabs in Hk. destruct (Rcase_abs _) in Hk; lra. }
  apply lt_IZR in H5. unfold cstep_num_steps_of_round, lim_rich_num_terms. lia.
Qed.
