From Coq Require Import List Arith Lia.
Import ListNotations.

Lemma nth_map_lt {A B} (f : A -> B) (l : list A) (d : B) (d' : A) i :
  i < length l -> nth i (map f l) d = f (nth i l d').
Proof.
  revert i; induction l as [|a l IH]; intros i Hi; cbn in *; [lia|].
  destruct i; [reflexivity|]. apply IH. lia.
Qed.

Lemma nth_seq_lt start len i d : i < len -> nth i (seq start len) d = start + i.
Proof. intros. apply seq_nth. assumption. Qed.

Lemma fold_right_ext_in_seq {B} (F G : nat -> B -> B) (z : B) a n :
  (forall j, a <= j < a + n -> forall acc, F j acc = G j acc) ->
  fold_right F z (seq a n) = fold_right G z (seq a n).
Proof.
  revert a; induction n as [|n IH]; intros a H; cbn; [reflexivity|].
  rewrite IH by (intros j Hj acc; apply H; lia). apply H. lia.
Qed.

Lemma nth_firstn_lt {B} (l : list B) m i d : i < m -> nth i (firstn m l) d = nth i l d.
Proof.
  revert m i; induction l as [|a l IH]; intros m i H.
  - rewrite firstn_nil. reflexivity.
  - destruct m as [|m]; [lia|]. cbn [firstn]. destruct i as [|i]; [reflexivity|].
    cbn [nth]. apply IH. lia.
Qed.

Lemma firstn_In_local {B} (l : list B) n x : In x (firstn n l) -> In x l.
Proof.
  revert n; induction l as [|a l IH]; intros n H; destruct n; cbn in *; try contradiction.
  destruct H as [->|H]; [left; reflexivity | right; eapply IH; exact H].
Qed.

Lemma nth_repeat_lt {B} (a d : B) n i : i < n -> nth i (repeat a n) d = a.
Proof. revert i; induction n as [|n IH]; intros i H; [lia|]. destruct i; cbn; [reflexivity|]. apply IH. lia. Qed.

Lemma Forall_concat {B} (P : B -> Prop) (ll : list (list B)) : Forall (Forall P) ll -> Forall P (concat ll).
Proof. induction 1 as [|l ll Hl _ IH]; cbn; [constructor | apply Forall_app; split; assumption]. Qed.
