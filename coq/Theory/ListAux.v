From Coq Require Import List Arith Lia.
Import ListNotations.

Lemma nth_map_lt {A B} (f : A -> B) (l : list A) (d : B) (d' : A) i :
  i < length l -> nth i (map f l) d = f (nth i l d').
Proof.
  revert i; induction l as [|a l IH]; intros i Hi; cbn in *; [lia|].
  destruct i; [reflexivity|]. apply IH. lia.
Qed.

Lemma nth_seq_lt start len i d : i < len -> nth i (seq start len) d = start + i.
Proof. intros. apply seq_nth. assumption. Qed.
