(* C06 (A): Taylor signatures of the nine Derivative stencils.  Over an abstract field containing
   s with 2 s^2 = 1 (omega = sqrt(i) = (s, s), the source's _SQRT_J), every stencil applied to the
   monomial d |-> d^k of the displacement d = point - x equals  sigma(k) * h^k  with the integer table
   sigma of Theory/RuleTables.v -- for EVERY k (period 8 in k for the complex-step stencils). *)
From Coq Require Import Ring Field Arith ZArith Lia Bool.
Require Import NDT.Gen.Spec NDT.Theory.RuleTables.

Section S.
Variable R : Type.
Variables (r0 r1 : R) (radd rmul rsub : R -> R -> R) (ropp : R -> R) (rdiv : R -> R -> R) (rinv : R -> R).
Variable Rth : field_theory r0 r1 radd rmul rsub ropp rdiv rinv eq.
Add Field Rf : Rth.
Declare Scope F_scope. Delimit Scope F_scope with F.
Notation "x + y" := (radd x y) : F_scope. Notation "x * y" := (rmul x y) : F_scope.
Notation "x - y" := (rsub x y) : F_scope. Notation "- x" := (ropp x) : F_scope.
Open Scope F_scope.
Variable s : R.
Hypothesis s2 : (s * s) + (s * s) = r1.
Variable half : R.                     (* 1/2, as the source divides by 2.0 *)
Hypothesis half2 : half + half = r1.

Definition cx := (R * R)%type.
Definition cmul (a b : cx) : cx := (fst a * fst b - snd a * snd b, fst a * snd b + snd a * fst b).
Definition cadd (a b : cx) : cx := (fst a + fst b, snd a + snd b).
Definition csub (a b : cx) : cx := (fst a - fst b, snd a - snd b).
Definition cneg (a : cx) : cx := (- fst a, - snd a).
Definition cre (h : R) : cx := (h, r0).
Definition c1 : cx := (r1, r0).
Definition ci : cx := (r0, r1).
Fixpoint cpow (z : cx) (k : nat) : cx := match k with O => c1 | S k => cmul z (cpow z k) end.
Fixpoint rpow (h : R) (k : nat) : R := match k with O => r1 | S k => h * rpow h k end.
Definition omega : cx := (s, s).
Fixpoint nat2r (n : nat) : R := match n with O => r0 | S n => r1 + nat2r n end.
Definition z2r (z : Z) : R := match z with Z0 => r0 | Zpos p => nat2r (Pos.to_nat p) | Zneg p => - nat2r (Pos.to_nat p) end.
Definition delta0 (k : nat) : R := match k with O => r1 | _ => r0 end.   (* f(x) for the monomial: 0^k *)

Lemma cx_eq (a b : cx) : fst a = fst b -> snd a = snd b -> a = b.
Proof. destruct a, b; simpl; intros -> ->; reflexivity. Qed.
Lemma cpow_scale z h k : cpow (cmul z (cre h)) k = cmul (cpow z k) (cre (rpow h k)).
Proof.
  induction k as [|k IH]; simpl.
  - apply cx_eq; simpl; ring.
  - rewrite IH. destruct z as [a b], (cpow (a,b) k) as [c d]. apply cx_eq; simpl; ring.
Qed.
Lemma omega2 : cmul omega omega = (r0, r1).
Proof. unfold omega, cmul; simpl. apply cx_eq; simpl; [ring | exact s2]. Qed.
Lemma cmulA a b c : cmul a (cmul b c) = cmul (cmul a b) c.
Proof. destruct a, b, c; apply cx_eq; simpl; ring. Qed.
Lemma cpow_add z j k : cpow z (j + k)%nat = cmul (cpow z j) (cpow z k).
Proof. induction j as [|j IH]; simpl; [destruct (cpow z k); apply cx_eq; simpl; ring | rewrite IH; apply cmulA]. Qed.
Lemma omega8 : cpow omega 8 = c1.
Proof.
  change 8%nat with (2+(2+(2+2)))%nat. rewrite !cpow_add.
  assert (E : cpow omega 2 = (r0, r1)) by (simpl; rewrite <- omega2; destruct omega; apply cx_eq; simpl; ring).
  rewrite E. apply cx_eq; simpl; ring.
Qed.
Lemma cpow_period k : cpow omega (8 + k)%nat = cpow omega k.
Proof. rewrite cpow_add, omega8. destruct (cpow omega k); apply cx_eq; simpl; ring. Qed.
Lemma cpow_neg z k : cpow (cneg z) k = if Nat.even k then cpow z k else cneg (cpow z k).
Proof.
  induction k as [|k IH]; [reflexivity|].
  change (cpow (cneg z) (S k)) with (cmul (cneg z) (cpow (cneg z) k)). rewrite IH.
  rewrite Nat.even_succ, <- Nat.negb_even. destruct (Nat.even k); simpl;
  destruct z, (cpow _ k); apply cx_eq; simpl; ring.
Qed.
Lemma rpow_neg h k : rpow (- h) k = if Nat.even k then rpow h k else - rpow h k.
Proof.
  induction k as [|k IH]; [reflexivity|].
  change (rpow (- h) (S k)) with (- h * rpow (- h) k). rewrite IH.
  rewrite Nat.even_succ, <- Nat.negb_even. destruct (Nat.even k); simpl; ring.
Qed.

(* the eight powers of omega and the four powers of i *)
Definition otab (r : nat) : cx :=
  match r with
  | 0%nat => (r1, r0) | 1%nat => (s, s) | 2%nat => (r0, r1) | 3%nat => (- s, s)
  | 4%nat => (- r1, r0) | 5%nat => (- s, - s) | 6%nat => (r0, - r1) | _ => (s, - s) end.
Lemma step_tab a b : cmul omega (a, b) = (s * a - s * b, s * b + s * a).
Proof. unfold cmul, omega; simpl; apply cx_eq; simpl; ring. Qed.
Lemma otab_ok r : (r < 8)%nat -> cpow omega r = otab r.
Proof.
  intros Hr.
  assert (P0 : cpow omega 0 = otab 0) by reflexivity.
  assert (P1 : cpow omega 1 = otab 1) by (simpl; unfold cmul, omega, c1; simpl; apply cx_eq; simpl; ring).
  assert (P2 : cpow omega 2 = otab 2).
  { change (cpow omega 2) with (cmul omega (cpow omega 1)). rewrite P1. simpl otab. rewrite step_tab.
    apply cx_eq; simpl; [ring | exact s2]. }
  assert (P3 : cpow omega 3 = otab 3).
  { change (cpow omega 3) with (cmul omega (cpow omega 2)). rewrite P2. simpl otab. rewrite step_tab. apply cx_eq; simpl; ring. }
  assert (P4 : cpow omega 4 = otab 4).
  { change (cpow omega 4) with (cmul omega (cpow omega 3)). rewrite P3. simpl otab. rewrite step_tab.
    apply cx_eq; simpl; [transitivity (- (s * s + s * s)); [ring | rewrite s2; ring] | ring]. }
  assert (P5 : cpow omega 5 = otab 5).
  { change (cpow omega 5) with (cmul omega (cpow omega 4)). rewrite P4. simpl otab. rewrite step_tab. apply cx_eq; simpl; ring. }
  assert (P6 : cpow omega 6 = otab 6).
  { change (cpow omega 6) with (cmul omega (cpow omega 5)). rewrite P5. simpl otab. rewrite step_tab.
    apply cx_eq; simpl; [ring | transitivity (- (s * s + s * s)); [ring | rewrite s2; ring]]. }
  assert (P7 : cpow omega 7 = otab 7).
  { change (cpow omega 7) with (cmul omega (cpow omega 6)). rewrite P6. simpl otab. rewrite step_tab. apply cx_eq; simpl; ring. }
  do 8 (destruct r as [|r]; [assumption|]). lia.
Qed.
Lemma cpow_mod k : cpow omega k = otab (k mod 8).
Proof.
  rewrite (Nat.div_mod k 8) at 1 by lia.
  generalize (Nat.mod_upper_bound k 8 ltac:(lia)). generalize (k mod 8)%nat as r. generalize (k / 8)%nat as q.
  induction q as [|q IH]; intros r Hr.
  - rewrite Nat.mul_0_r, Nat.add_0_l. apply otab_ok, Hr.
  - replace (8 * S q + r)%nat with (8 + (8 * q + r))%nat by lia. rewrite cpow_period. apply IH, Hr.
Qed.
Definition itab (r : nat) : cx :=
  match r with 0%nat => (r1, r0) | 1%nat => (r0, r1) | 2%nat => (- r1, r0) | _ => (r0, - r1) end.
Lemma ci4 k : cpow ci (4 + k)%nat = cpow ci k.
Proof. rewrite cpow_add. destruct (cpow ci k). simpl. apply cx_eq; simpl; ring. Qed.
Lemma cipow_mod k : cpow ci k = itab (k mod 4).
Proof.
  rewrite (Nat.div_mod k 4) at 1 by lia.
  generalize (Nat.mod_upper_bound k 4 ltac:(lia)). generalize (k mod 4)%nat as r. generalize (k / 4)%nat as q.
  induction q as [|q IH]; intros r Hr.
  - rewrite Nat.mul_0_r, Nat.add_0_l. do 4 (destruct r as [|r]; [simpl; apply cx_eq; simpl; ring|]). lia.
  - replace (4 * S q + r)%nat with (4 + (4 * q + r))%nat by lia. rewrite ci4. apply IH, Hr.
Qed.

(* ---- the stencils of DifferenceFunctions on the monomial f(x + d) = d^k ---- *)
Definition st_central (h : R) k := (rpow h k - rpow (- h) k) * half.
Definition st_central_even (h : R) k := (rpow h k + rpow (- h) k) * half - delta0 k.
Definition st_forward (h : R) k := rpow h k - delta0 k.
Definition st_backward (h : R) k := delta0 k - rpow (- h) k.
Definition st_complex (h : R) k := snd (cpow (cmul ci (cre h)) k).
Definition wh (h : R) : cx := cmul omega (cre h).          (* i_h = h * _SQRT_J *)
Definition st_complex_odd (h : R) k :=
  snd (cmul (cmul omega (cre half)) (csub (cpow (wh h) k) (cpow (cneg (wh h)) k))).
Definition three := r1 + r1 + r1.
Definition st_complex_odd_higher (h : R) k :=
  fst (cmul (cmul (cre three) omega) (csub (cpow (wh h) k) (cpow (cneg (wh h)) k))).
Definition st_complex_even (h : R) k := snd (cadd (cpow (wh h) k) (cpow (cneg (wh h)) k)).
Definition twelve := (three + three) + (three + three).
Definition st_complex_even_higher (h : R) k :=
  twelve * fst (csub (cadd (cpow (wh h) k) (cpow (cneg (wh h)) k)) (cre (delta0 k + delta0 k))).

(* arithmetic on k: k = 8 q + r *)
Lemma split8 k : exists q r, (r < 8)%nat /\ k = (8 * q + r)%nat /\ (k mod 8 = r)%nat /\ Nat.even k = Nat.even r
   /\ (k mod 4 = r mod 4)%nat.
Proof.
  exists (k / 8)%nat, (k mod 8)%nat.
  pose proof (Nat.mod_upper_bound k 8 ltac:(lia)) as Hb. pose proof (Nat.div_mod k 8 ltac:(lia)) as Hd.
  repeat split; try assumption.
  - rewrite Hd at 1. rewrite Nat.even_add, Nat.even_mul. change (Nat.even 8) with true. cbn [orb].
    destruct (Nat.even (k mod 8)); reflexivity.
  - rewrite Hd at 1. replace (8 * (k / 8) + k mod 8)%nat with (k mod 8 + (2 * (k / 8)) * 4)%nat by lia.
    rewrite Nat.mod_add by lia. reflexivity.
Qed.

Lemma z2r_0 : z2r 0 = r0. Proof. reflexivity. Qed.
Lemma z2r_1 : z2r 1 = r1 + r0. Proof. reflexivity. Qed.
Lemma z2r_m1 : z2r (-1) = - (r1 + r0). Proof. reflexivity. Qed.
Lemma z2r_2 : z2r 2 = r1 + (r1 + r0). Proof. reflexivity. Qed.
Lemma z2r_m2 : z2r (-2) = - (r1 + (r1 + r0)). Proof. reflexivity. Qed.
Lemma z2r_6 : z2r 6 = nat2r 6. Proof. reflexivity. Qed.
Lemma z2r_m6 : z2r (-6) = - nat2r 6. Proof. reflexivity. Qed.
Lemma z2r_24 : z2r 24 = nat2r 24. Proof. reflexivity. Qed.
Lemma z2r_m24 : z2r (-24) = - nat2r 24. Proof. reflexivity. Qed.
Ltac zr := rewrite ?z2r_0, ?z2r_1, ?z2r_m1, ?z2r_2, ?z2r_m2, ?z2r_6, ?z2r_m6, ?z2r_24, ?z2r_m24; cbn [nat2r].
Ltac sig_unfold := unfold sigma, im_i, re_i.
Ltac split_ifs_goal := repeat match goal with |- context [if ?b then _ else _] => destruct b eqn:? end.

Theorem sig_central h k : st_central h k = z2r (sigma S_central (Z.of_nat k)) * rpow h k.
Proof.
  unfold st_central. rewrite rpow_neg.
  destruct (split8 k) as [q [r [Hr [Hk [_ [He _]]]]]]. rewrite He. subst k.
  assert (HS : sigma S_central (Z.of_nat (8 * q + r)) = if Nat.even r then 0%Z else 1%Z).
  { sig_unfold. do 8 (destruct r as [|r]; [cbn [Nat.even]; split_ifs_goal; lia|]). lia. }
  rewrite HS. destruct (Nat.even r); zr.
  - ring.
  - transitivity (rpow h (8 * q + r) * (half + half)); [ring | rewrite half2; ring].
Qed.

Theorem sig_central_even h k : st_central_even h k = z2r (sigma S_central_even (Z.of_nat k)) * rpow h k.
Proof.
  unfold st_central_even. rewrite rpow_neg.
  destruct k as [|k'].
  - cbn. transitivity ((half + half) - r1); [ring | rewrite half2; ring].
  - set (k := S k'). assert (Hd : delta0 k = r0) by reflexivity. rewrite Hd.
    destruct (split8 k) as [q [r [Hr [Hk [_ [He _]]]]]]. rewrite He.
    assert (HS : sigma S_central_even (Z.of_nat k) = if Nat.even r then 1%Z else 0%Z).
    { sig_unfold. rewrite Hk. unfold k in Hk.
      do 8 (destruct r as [|r]; [cbn [Nat.even]; split_ifs_goal; lia|]). lia. }
    rewrite HS. destruct (Nat.even r); zr.
    + transitivity (rpow h k * (half + half)); [ring | rewrite half2; ring].
    + ring.
Qed.

Theorem sig_forward h k : st_forward h k = z2r (sigma S_forward (Z.of_nat k)) * rpow h k.
Proof.
  unfold st_forward. destruct k as [|k']; [cbn; ring|].
  assert (HS : sigma S_forward (Z.of_nat (S k')) = 1%Z) by (sig_unfold; split_ifs_goal; lia).
  rewrite HS. cbn [delta0]; zr. ring.
Qed.

Theorem sig_backward h k : st_backward h k = z2r (sigma S_backward (Z.of_nat k)) * rpow h k.
Proof.
  unfold st_backward. rewrite rpow_neg. destruct k as [|k']; [cbn; ring|].
  set (k := S k'). assert (Hd : delta0 k = r0) by reflexivity. rewrite Hd.
  destruct (split8 k) as [q [r [Hr [Hk [_ [He _]]]]]]. rewrite He.
  assert (HS : sigma S_backward (Z.of_nat k) = if Nat.even r then (-1)%Z else 1%Z).
  { sig_unfold. rewrite Hk. unfold k in Hk.
    do 8 (destruct r as [|r]; [cbn [Nat.even]; split_ifs_goal; lia|]). lia. }
  rewrite HS. destruct (Nat.even r); zr; ring.
Qed.

Theorem sig_complex h k : st_complex h k = z2r (sigma S_complex (Z.of_nat k)) * rpow h k.
Proof.
  unfold st_complex. rewrite cpow_scale, cipow_mod.
  destruct (split8 k) as [q [r [Hr [Hk [_ [_ H4]]]]]]. rewrite H4.
  assert (HS : sigma S_complex (Z.of_nat k) = match (r mod 4)%nat with 1%nat => 1%Z | 3%nat => (-1)%Z | _ => 0%Z end).
  { sig_unfold. rewrite Hk.
    do 8 (destruct r as [|r]; [cbn [Nat.modulo Nat.divmod fst snd Nat.sub]; split_ifs_goal; lia|]). lia. }
  rewrite HS.
  do 8 (destruct r as [|r]; [cbn [Nat.modulo Nat.divmod fst snd Nat.sub itab cmul cre]; zr; cbn [fst snd]; ring|]). lia.
Qed.

Lemma ss2 : (r1 + r1) * (s * s) = r1. Proof. rewrite <- s2 at 3. ring. Qed.
Lemma hh2 : (r1 + r1) * half = r1. Proof. rewrite <- half2 at 3. ring. Qed.

Ltac zcomp := repeat match goal with |- context [z2r ?z] =>
  lazymatch z with Z0 => fail | Zpos _ => fail | Zneg _ => fail
  | _ => let v := eval vm_compute in z in change z with v end end.
Ltac finish8 Hk :=
  sig_unfold; rewrite Hk;
  repeat match goal with |- context [if ?b then _ else _] => destruct b eqn:? end;
  try (exfalso; lia);
  zcomp; zr;
  unfold cmul, csub, cadd, cneg, cre, omega, twelve, three; cbn [fst snd otab delta0 nat2r];
  ring [ss2 hh2].

Theorem sig_complex_odd h k : st_complex_odd h k = z2r (sigma S_complex_odd (Z.of_nat k)) * rpow h k.
Proof.
  unfold st_complex_odd, wh. rewrite cpow_neg, cpow_scale, cpow_mod.
  destruct (split8 k) as [q [r [Hr [Hk [Hm [He _]]]]]]. rewrite Hm, He. generalize (rpow h k) as H. intros H.
  do 8 (destruct r as [|r]; [cbn [Nat.even]; finish8 Hk|]). lia.
Qed.

Theorem sig_complex_odd_higher h k : st_complex_odd_higher h k = z2r (sigma S_complex_odd_higher (Z.of_nat k)) * rpow h k.
Proof.
  unfold st_complex_odd_higher, wh. rewrite cpow_neg, cpow_scale, cpow_mod.
  destruct (split8 k) as [q [r [Hr [Hk [Hm [He _]]]]]]. rewrite Hm, He. generalize (rpow h k) as H. intros H.
  do 8 (destruct r as [|r]; [cbn [Nat.even]; finish8 Hk|]). lia.
Qed.

Theorem sig_complex_even h k : st_complex_even h k = z2r (sigma S_complex_even (Z.of_nat k)) * rpow h k.
Proof.
  unfold st_complex_even, wh. rewrite cpow_neg, cpow_scale, cpow_mod.
  destruct (split8 k) as [q [r [Hr [Hk [Hm [He _]]]]]]. rewrite Hm, He. generalize (rpow h k) as H. intros H.
  do 8 (destruct r as [|r]; [cbn [Nat.even]; finish8 Hk|]). lia.
Qed.

Theorem sig_complex_even_higher h k : st_complex_even_higher h k = z2r (sigma S_complex_even_higher (Z.of_nat k)) * rpow h k.
Proof.
  unfold st_complex_even_higher, wh. rewrite cpow_neg, cpow_scale, cpow_mod.
  destruct k as [|k'].
  - cbn. ring.
  - set (k := S k'). assert (Hd : delta0 k = r0) by reflexivity. rewrite Hd.
    destruct (split8 k) as [q [r [Hr [Hk [Hm [He _]]]]]]. rewrite Hm, He. generalize (rpow h k) as H. intros H.
    assert (Hk1 : (1 <= 8 * q + r)%nat) by (rewrite <- Hk; unfold k; lia). clearbody k.
    do 8 (destruct r as [|r]; [cbn [Nat.even]; finish8 Hk|]). lia.
Qed.
End S.
