(* C17 over R: every radius used by the search is positive and the growth factor stays >= 1
   (so the circles are non-degenerate and successive radii differ by a factor in [1/ratio, ratio]). *)
From Coq Require Import Reals ZArith List Bool Lia Lra.
Require Import NDT.Arith.Ops NDT.Arith.OpsR NDT.Model.Taylor.
Import ListNotations.
Open Scope R_scope.

Section R.
Variables eps tiny huge c8 : R.
Variables num_extrap min_iter : Z.
Let O := OpsR eps tiny huge.
Notation step := (check_convergence O c8 num_extrap min_iter).

Lemma sqrt_ge_1 x : 1 <= x -> 1 <= R_sqrt.sqrt x.
Proof. intros H. rewrite <- sqrt_1. apply sqrt_le_1_alt. exact H. Qed.

Lemma step_pos i r o s : 0 < r -> 1 <= ratio s ->
  0 < snd (fst (step i r o s)) /\ 1 <= ratio (snd (step i r o s)).
Proof.
  intros Hr Hs. unfold check_convergence. destruct o as [[m1 m2] poor].
  destruct ((Nat.ltb 1 (dchanges s) || degen s) && Z.leb (1 + num_extrap) (if Nat.ltb 1 (dchanges s) || degen s then (nchanges s + 1)%Z else nchanges s)).
  - cbn. split; assumption.
  - set (dn := if degen s then (true, false) else let '(d, n) := check_fft O c8 m1 m2 (min_iter <? Z.of_nat i)%Z in (d, n || poor)).
    destruct dn as [dg ns].
    set (ns' := if dg then Nat.even i else ns).
    set (dch := match prev s with Some p => if Bool.eqb ns' p then dchanges s else S (dchanges s) | None => dchanges s end).
    cbn [fst snd ratio].
    set (rat := if Nat.ltb 0 dch then Ops.sqrt O (ratio s) else ratio s).
    assert (Hrat : 1 <= rat).
    { unfold rat. destruct (Nat.ltb 0 dch); [apply sqrt_ge_1; exact Hs | exact Hs]. }
    clearbody rat. split; [|exact Hrat].
    destruct ns'.
    + change (0 < r / rat). apply Rdiv_lt_0_compat; lra.
    + change (0 < r * rat). apply Rmult_lt_0_compat; lra.
Qed.

Lemma search_radii_pos : forall fuel i r s os rs, 0 < r -> 1 <= ratio s -> Forall (fun x => 0 < x) rs ->
  Forall (fun x => 0 < x) (radii_of (search O c8 num_extrap min_iter fuel i r s os rs)).
Proof.
  induction fuel as [|f IH]; intros i r s os rs Hr Hs HF; [exact HF|].
  destruct os as [|o os']; [exact HF|]. cbn [search].
  pose proof (step_pos i r o s Hr Hs) as [Hp Hq].
  destruct (step i r o s) as [[cv r'] s'] eqn:E. cbn [fst snd] in Hp, Hq.
  assert (HF' : Forall (fun x => 0 < x) (rs ++ [r])) by (apply Forall_app; split; [exact HF | constructor; [exact Hr | constructor]]).
  destruct cv; [exact HF'|]. destruct f as [|f']; [exact HF'|].
  apply IH; assumption.
Qed.

Theorem radii_positive max_iter r0 ratio0 os : 0 < r0 -> 1 <= ratio0 ->
  Forall (fun x => 0 < x) (radii_of (run O c8 num_extrap min_iter max_iter r0 ratio0 os)).
Proof. intros H1 H2. unfold run. apply search_radii_pos; [exact H1 | exact H2 | constructor]. Qed.
End R.
