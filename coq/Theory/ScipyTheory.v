(* C19: nd_scipy wrappers.  The wrapper logic is read off the source by the translator (Gen/Scipy.v);
   scipy.optimize.approx_derivative is an oracle with the specification assumed below (Section variable). *)
From Coq Require Import List Arith Bool String Lia.
Require Import NDT.Gen.Scipy NDT.Model.Shapes.
Import ListNotations.

(* the documented methods map to scipy's scheme names; anything else is a KeyError (None), never a silent default *)
Theorem method_map :
  scipy_method Complex = Some "cs"%string /\ scipy_method Central = Some "3-point"%string /\
  scipy_method Forward = Some "2-point"%string /\ scipy_method Multicomplex = None /\ scipy_method Central2 = None /\ scipy_method OtherM = None.
Proof. repeat split; reflexivity. Qed.

Theorem wrapper_structure :
  scipy_options_forwarded = true /\ scipy_x_atleast_1d = true /\ scipy_calls_approx_derivative = true /\
  scipy_gradient_ravel_squeeze = true /\ scipy_ctor_stores_options = true /\ scipy_jacobian_result_2d_for_vector_f = true.
Proof. repeat split; reflexivity. Qed.

Section Shapes.
(* assumed specification of the oracle: for f : R^n -> R^m it returns shape (m, n), except that it
   returns the 1-d shape (n) when m = 1 (scipy's documented behaviour) *)
Definition approx_derivative_shape (m n : nat) : shape := if Nat.eqb m 1 then [n] else [m; n].

(* for a vector-valued f (f(x) has one axis) Jacobian wraps the result with atleast_2d: always (m, n), also for m = 1;
   for a scalar-valued f the 1-d gradient (n) is returned as scipy gives it *)
Definition jacobian_result_shape (f_is_vector : bool) (m n : nat) : shape :=
  if f_is_vector then atleast_2d (approx_derivative_shape m n) else approx_derivative_shape m n.
Theorem jacobian_shape m n : 1 <= m -> 1 <= n -> jacobian_result_shape true m n = [m; n].
Proof.
  intros Hm Hn. unfold jacobian_result_shape, approx_derivative_shape. destruct (Nat.eqb_spec m 1) as [->|H]; [reflexivity|].
  reflexivity.
Qed.

(* Gradient: x of any shape is ravelled to (size x); the (1, n) Jacobian is squeezed to (n), 0-d for n = 1 *)
Theorem gradient_shape (xs : shape) (f_is_vector : bool) : let n := size xs in
  squeeze (jacobian_result_shape f_is_vector 1 n) = if Nat.eqb n 1 then [] else [n].
Proof.
  cbn. unfold squeeze, jacobian_result_shape. destruct f_is_vector; cbn; destruct (Nat.eqb (size xs) 1); reflexivity.
Qed.
Theorem ravel_one_axis (xs : shape) : ravel (atleast_1d xs) = [size (atleast_1d xs)] /\ size (atleast_1d xs) = size xs.
Proof. split; [reflexivity|]. destruct xs; cbn; lia. Qed.
End Shapes.
