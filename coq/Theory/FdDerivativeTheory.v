(* C16: fd_derivative is exact on polynomials at every point of any grid. *)
From mathcomp Require Import all_ssreflect all_algebra.
From mathcomp.zify Require Import zify.
Require Import NDT.Model.Fornberg NDT.Model.FdDerivative NDT.Theory.PolyLemmas NDT.Theory.FornbergTheory.
Set Implicit Arguments. Unset Strict Implicit. Unset Printing Implicit Defensive.
Import GRing.Theory.
Local Open Scope ring_scope.

Section Proof.
Variable F : fieldType.
Notation FO := (FO F).

Lemma dot_sum (u v : seq F) : size u = size v -> dot FO u v = \sum_(i < size u) nth 0 u i * nth 0 v i.
Proof.
rewrite /dot /=.
suff H : forall acc, size u = size v -> foldl (fun a p => a + p.1 * p.2) acc (zip u v) = acc + \sum_(i < size u) nth 0 u i * nth 0 v i.
  by move=> e; rewrite H // add0r.
elim: u v => [|a u IH] [|b v] //= acc; first by rewrite big_ord0 addr0.
by case=> e; rewrite IH // big_ord_recl /= addrA.
Qed.

(* one stencil is exact on polynomials small enough for its window *)
Lemma stencil_exact (xw : seq F) (p : {poly F}) x0 n :
  uniq xw -> (n < size xw)%N -> (size p <= size xw)%N ->
  stencil FO xw (map (horner p) xw) x0 n = (p^`(n)).[x0].
Proof.
move=> un lt sp; rewrite /stencil /fd_weights.
have [w [e Hw]] := fd_weights_all_spec x0 un lt.
rewrite e.
have szw : size (nth [::] w n) = size xw.
  by move: e; rewrite /fd_weights_all lt => -[<-]; rewrite nth_mkseq // size_mkseq.
rewrite dot_sum ?size_map // szw -(fd_weights_exact_on_poly x0 un (k:=n) lt (leqnn n) sp).
by apply: eq_bigr => v _; rewrite Hw // (nth_map 0).
Qed.

Lemma half_bound n m : (0 < m)%N -> (n < 2 * (n %/ 2 + m) + 1)%N.
Proof.
move=> m0; lia.
Qed.

(* C16: exact n-th derivative at every grid point, boundaries included *)
Theorem fd_derivative_exact (xs : seq F) (p : {poly F}) n m :
  uniq xs -> (0 < m)%N ->
  let mm := (n %/ 2 + m)%N in
  (2 * mm + 2 <= size xs)%N -> (size p <= 2 * mm + 1)%N ->
  fd_derivative FO (map (horner p) xs) xs n m = Some (map (fun x => (p^`(n)).[x]) xs).
Proof.
move=> un m0 mm len_ok sp.
have nlt : (n < 2 * mm + 1)%N := half_bound n m0.
have nlen : (n < size xs)%N by lia.
rewrite /fd_derivative nlen size_map eqxx /= -/mm.
congr Some; apply: (@eq_from_nth _ 0); rewrite size_mkseq ?size_map // => i lt_i.
rewrite nth_mkseq // (nth_map 0) //.
case: ltnP => [lt_mm|ge_mm].
- (* left boundary: first 2mm+2 points *)
  have sz : size (take (2 * mm + 2) xs) = (2 * mm + 2)%N by rewrite size_take; case: ltnP => //; lia.
  by rewrite -map_take stencil_exact ?take_uniq ?sz //; lia.
case: ltnP => [lt_in|ge_in].
- (* interior: centred window of 2mm+1 points *)
  have sz : size (take (2 * mm + 1) (drop (i - mm) xs)) = (2 * mm + 1)%N.
    by rewrite size_take size_drop; case: ltnP => //; lia.
  by rewrite -map_drop -map_take stencil_exact ?take_uniq ?drop_uniq ?sz //; lia.
- (* right boundary: last 2mm+2 points *)
  have sz : size (drop (size xs - (2 * mm + 2)) xs) = (2 * mm + 2)%N by rewrite size_drop; lia.
  by rewrite -map_drop stencil_exact ?drop_uniq ?sz //; lia.
Qed.
End Proof.

