(* C06: layers (A), (B) and (C) joined in ONE closed theorem.  For every method in {central, forward, backward, complex},
   every n >= 1 and order >= 1, over any field F of characteristic 0 that contains s with 2 s^2 = 1 (so that
   _SQRT_J = (s, s) exists in F x F): take any polynomial f(x + d) = sum_{k < n + method_order} g_k d^k and any rule w that
   solves the moment system _fd_matrix builds from the regenerated tables.  Then the rule applied to THE STENCIL THE NAME
   DISPATCH SELECTS, evaluated on f as the source evaluates it (Theory/StencilLinear.v: D_central ... D_complex_even_higher),
   at the steps h rho^i, times the sign flip, over h^n, is n! g_n = f^(n)(x).   No "by inspection" link is left. *)
From Coq Require Import ZArith Field.
From mathcomp Require Import all_ssreflect all_algebra.
Require Import NDT.Gen.Spec NDT.Arith.OpsField NDT.Theory.RuleTables NDT.Theory.RuleTablesNat NDT.Theory.RuleExact
               NDT.Theory.RuleComposed NDT.Theory.StencilSignatures NDT.Theory.StencilLinear.
Set Implicit Arguments. Unset Strict Implicit. Unset Printing Implicit Defensive.
Import GRing.Theory.
Local Open Scope ring_scope.

Arguments D_central_poly {R r0 r1 radd rmul rsub ropp rdiv rinv} Rth.
Arguments D_central_even_poly {R r0 r1 radd rmul rsub ropp rdiv rinv} Rth.
Arguments D_forward_poly {R r0 r1 radd rmul rsub ropp rdiv rinv} Rth.
Arguments D_backward_poly {R r0 r1 radd rmul rsub ropp rdiv rinv} Rth.
Arguments D_complex_odd_poly {R r0 r1 radd rmul rsub ropp rdiv rinv} Rth.
Arguments D_complex_odd_higher_poly {R r0 r1 radd rmul rsub ropp rdiv rinv} Rth.
Arguments D_complex_even_poly {R r0 r1 radd rmul rsub ropp rdiv rinv} Rth.
Arguments D_complex_even_higher_poly {R r0 r1 radd rmul rsub ropp rdiv rinv} Rth.
Arguments sig_central {R r0 r1 radd rmul rsub ropp rdiv rinv} Rth.
Arguments sig_central_even {R r0 r1 radd rmul rsub ropp rdiv rinv} Rth.
Arguments sig_forward {R r0 r1 radd rmul rsub ropp rdiv rinv} Rth.
Arguments sig_backward {R r0 r1 radd rmul rsub ropp rdiv rinv} Rth.
Arguments sig_complex {R r0 r1 radd rmul rsub ropp rdiv rinv} Rth.
Arguments sig_complex_odd {R r0 r1 radd rmul rsub ropp rdiv rinv} Rth.
Arguments sig_complex_odd_higher {R r0 r1 radd rmul rsub ropp rdiv rinv} Rth.
Arguments sig_complex_even {R r0 r1 radd rmul rsub ropp rdiv rinv} Rth.
Arguments sig_complex_even_higher {R r0 r1 radd rmul rsub ropp rdiv rinv} Rth.

Section Bridge.
Variable F : fieldType.
Hypothesis char0 : [char F] =i pred0.

Definition fsub (x y : F) : F := x - y.
Definition fdiv (x y : F) : F := x / y.
Definition finv (x : F) : F := x^-1.

Lemma F_field_theory : field_theory (0 : F) 1 +%R *%R fsub -%R fdiv finv eq.
Proof.
constructor.
- constructor.
  + exact: add0r.
  + exact: addrC.
  + exact: addrA.
  + exact: mul1r.
  + exact: mulrC.
  + exact: mulrA.
  + exact: mulrDl.
  + by [].
  + exact: subrr.
- by apply/eqP; rewrite oner_neq0.
- by [].
- by move=> p /eqP p0; rewrite /finv mulVf.
Qed.

Definition fhalf : F := 2%:R^-1.
Lemma fhalf2 : fhalf + fhalf = 1.
Proof.
have two0 : (2%:R : F) != 0 by exact: natr_neq0.
by rewrite /fhalf -mulr2n -(mulr_natl (2%:R^-1 : F) 2) mulfV.
Qed.

Lemma rpow_exp (h : F) k : StencilSignatures.rpow F 1 *%R h k = h ^+ k.
Proof. by elim: k => [|k IH] //=; rewrite IH exprS. Qed.
Lemma nat2r_natr k : nat2r F 0 1 +%R k = k%:R.
Proof. by elim: k => [|k IH] //=; rewrite IH -[in RHS]add1n natrD. Qed.
Lemma z2r_ofZ z : z2r F 0 1 +%R -%R z = field_ofZ F z.
Proof. by case: z => [|p|p] //=; rewrite nat2r_natr. Qed.

Lemma psum_big (g t : nat -> F) N : psum F 0 +%R *%R g N t = \sum_(0 <= k < N) g k * t k.
Proof.
elim: N => [|N IH]; first by rewrite big_geq.
by rewrite big_nat_recr //= -IH.
Qed.
End Bridge.

Section Joined.
Variable F : fieldType.
Hypothesis char0 : [char F] =i pred0.
Variable s : F.
Hypothesis s2 : s * s + s * s = 1.
Variables (m : method) (n order : Z).
Hypotheses (Hn : Z.le (Zpos xH) n) (Ho : Z.le (Zpos xH) order) (Hm : m = Central \/ m = Forward \/ m = Backward \/ m = Complex).
Variables (rho h : F) (g w : nat -> F).
Hypothesis h0 : h != 0.
Notation zF := (@field_ofZ F).
Notation off := (offN m n order). Notation st := (stN m n order). Notation T := (termsN m n order). Notation r := (rowN m n order).
Notation K := (off + st * T)%N.
Let c0 : F := zF (c0Z m n order).
Let fl : F := if flip_fd_rule m n order then -1 else 1.
Hypothesis wM : forall j, (j < T)%N ->
  \sum_(0 <= i < T) w i * (c0 / (off + st * j)`!%:R * rho ^+ (i * (off + st * j))) = (j == r)%:R.

(* f on real and on complex displacements from x, and f(x): one polynomial with real coefficients g_0 .. g_{K-1} *)
Let fr : F -> F := polyr F 0 1 +%R *%R g K.
Let fc : F * F -> F * F := polyc F 0 1 +%R *%R (@fsub F) g K.
Let fx : F := fr 0.

(* the difference quotient numerator the source computes for the selected stencil name *)
Definition stencil_value (S : stencil) (hh : F) : F :=
  match S with
  | S_central => D_central F *%R (@fsub F) -%R (fhalf F) fr hh
  | S_central_even => D_central_even F +%R *%R (@fsub F) -%R (fhalf F) fr fx hh
  | S_forward => D_forward F (@fsub F) fr fx hh
  | S_backward => D_backward F (@fsub F) -%R fr fx hh
  | S_complex => D_complex F 0 1 +%R *%R (@fsub F) fc hh
  | S_complex_odd => D_complex_odd F 0 +%R *%R (@fsub F) -%R s (fhalf F) fc hh
  | S_complex_odd_higher => D_complex_odd_higher F 0 1 +%R *%R (@fsub F) -%R s fc hh
  | S_complex_even => D_complex_even F 0 +%R *%R (@fsub F) -%R s fc hh
  | S_complex_even_higher => D_complex_even_higher F 0 1 +%R *%R (@fsub F) -%R s fc fx hh
  | S_other => 0
  end.

Lemma stencil_value_sig S hh : S <> S_other ->
  stencil_value S hh = \sum_(0 <= k < K) zF (sigma S (Z.of_nat k)) * g k * hh ^+ k.
Proof.
have Fth := F_field_theory F.
have h2 := fhalf2 char0.
move=> nS.
have fin (t : nat -> F) : (forall k, t k = z2r F 0 1 +%R -%R (sigma S (Z.of_nat k)) * StencilSignatures.rpow F 1 *%R hh k) ->
    psum F 0 +%R *%R g K t = \sum_(0 <= k < K) zF (sigma S (Z.of_nat k)) * g k * hh ^+ k.
  move=> e; rewrite psum_big; apply: eq_bigr => k _.
  by rewrite e z2r_ofZ rpow_exp mulrA [g k * _]mulrC.
case: S nS fin => // _ fin; rewrite /stencil_value /fx /fr /fc.
- rewrite (D_central_poly Fth); apply: fin => k; exact: (sig_central Fth _ h2).
- rewrite (D_central_even_poly Fth); apply: fin => k; exact: (sig_central_even Fth _ h2).
- rewrite (D_forward_poly Fth); apply: fin => k; exact: (sig_forward Fth).
- rewrite (D_backward_poly Fth); apply: fin => k; exact: (sig_backward Fth).
- rewrite D_complex_poly; apply: fin => k; exact: (sig_complex Fth).
- rewrite (D_complex_odd_poly Fth); apply: fin => k; exact: (sig_complex_odd Fth _ s2 _ h2).
- rewrite (D_complex_odd_higher_poly Fth); apply: fin => k; exact: (sig_complex_odd_higher Fth _ s2 _ h2).
- rewrite (D_complex_even_poly Fth); apply: fin => k; exact: (sig_complex_even Fth _ s2 _ h2).
- rewrite (D_complex_even_higher_poly Fth); apply: fin => k; exact: (sig_complex_even_higher Fth _ s2 _ h2).
Qed.

Lemma dispatch_not_other : stencil_of m n order <> S_other.
Proof.
rewrite (stencil_of_tree m n order Hm) /stencil_tree.
by case: Hm => [->|[->|[->| ->]]]; repeat case: ifP => _.
Qed.

Theorem rule_exact_on_stencil :
  fl * (\sum_(0 <= i < T) w i * stencil_value (stencil_of m n order) (h * rho ^+ i)) / h ^+ (Z.to_nat n)
  = (Z.to_nat n)`!%:R * g (Z.to_nat n).
Proof.
rewrite -(@rule_exact_from_tables F char0 m n order Hn Ho Hm rho h g w h0 wM).
congr (_ * _ / _); apply: eq_bigr => i _; congr (_ * _).
by rewrite stencil_value_sig //; exact: dispatch_not_other.
Qed.
End Joined.
