(* C17: facts about the translated decision logic of fornberg.py (Gen/Taylor.v).
   The domain of _num_taylor_coefficients is finite (n < 193 is asserted by the code), so the statement for
   every admissible n is proved by computation over the whole domain and lifted with forallb_forall. *)
From Coq Require Import ZArith List Bool Lia.
Require Import NDT.Gen.Taylor.
Import ListNotations.
Open Scope Z_scope.

Definition domain : list Z := map Z.of_nat (seq 1 192).
Lemma in_domain n : 1 <= n <= 192 -> In n domain.
Proof.
  intros H. unfold domain. apply in_map_iff. exists (Z.to_nat n). split; [lia|]. apply in_seq. lia.
Qed.
Definition ncoef_ok (n : Z) : bool :=
  let m := num_taylor_coefficients n in
  (n + 1 <=? m) && existsb (Z.eqb m) [8; 16; 32; 64; 128; 256].
Lemma ncoef_all : forallb ncoef_ok domain = true.
Proof. vm_compute. reflexivity. Qed.
(* at least n + 1 coefficients, and a power of two between 8 and 256, for EVERY n the code accepts (1 <= n <= 192) *)
Theorem ncoef_enough n : 1 <= n <= 192 ->
  n + 1 <= num_taylor_coefficients n /\ In (num_taylor_coefficients n) [8; 16; 32; 64; 128; 256].
Proof.
  intros H. pose proof (proj1 (forallb_forall ncoef_ok domain) ncoef_all n (in_domain n H)) as Hn.
  unfold ncoef_ok in Hn. apply andb_true_iff in Hn as [H1 H2]. split; [lia|].
  apply existsb_exists in H2 as [x [Hin Hx]]. apply Z.eqb_eq in Hx. subst x. exact Hin.
Qed.
(* the table actually implemented (the docstring's thresholds 12 / 25 / 51 are 13 / 27 / 52 in the code; harmless: n + 1 <= m either way) *)
Definition doc_table (n : Z) : Z :=
  if n <=? 6 then 8 else if n <=? 13 then 16 else if n <=? 27 then 32 else if n <=? 52 then 64 else if n <=? 103 then 128 else 256.
Lemma doc_all : forallb (fun n => num_taylor_coefficients n =? doc_table n) domain = true.
Proof. vm_compute. reflexivity. Qed.
Theorem ncoef_table n : 1 <= n <= 192 -> num_taylor_coefficients n = doc_table n.
Proof. intros H. apply Z.eqb_eq. exact (proj1 (forallb_forall _ domain) doc_all n (in_domain n H)). Qed.
Theorem ncoef_rejects n : 193 <= n -> num_taylor_coefficients n = -1.
Proof. intros H. unfold num_taylor_coefficients, taylor_n_limit. destruct (Z.ltb_spec n 193); [lia | reflexivity]. Qed.
Theorem taylor_structure :
  check_fft_shape_ok = true /\ poor_convergence_shape_ok = true /\ check_convergence_shape_ok = true /\ taylor_call_shape_ok = true /\
  taylor_extrapolate_shape_ok = true /\ taylor_best_shape_ok = true /\ derivative_scales_values_and_errors = true /\
  taylor_initialize_resets_state = true /\ taylor_m1_m2_shape_ok = true /\ circle_shape_ok = true /\ taylor_function_is_class_call = true.
Proof. repeat split; reflexivity. Qed.
Theorem taylor_defaults : taylor_default_num_extrap = 3 /\ taylor_default_max_iter = 30 /\ taylor_default_min_iter 30 = 15 /\
  1 <= taylor_default_num_extrap /\ 0 <= taylor_default_min_iter taylor_default_max_iter.
Proof. repeat split; vm_compute; congruence. Qed.
