(* C11: misuse is reported as ValueError.  The facts below are about the guard structure read off
   the source by the translator (Gen/Guards.v) and the decision tables (Gen/Spec.v). *)
From Coq Require Import ZArith Bool Lia List String.
Require Import NDT.Gen.Spec NDT.Gen.Guards.
Open Scope Z_scope.

Inductive dclass := CDerivative | CJacobian | CGradient | CHessdiag | CHessian.
Inductive outcome := Value | ValueError.

Definition complex_method (m : method) : bool := meqb m Complex || meqb m Multicomplex.

(* which _derivative_nonzero_order a class runs, and whether that one reaches the complex guard
   before the first stencil evaluation *)
Definition uses_jacobian_path (c : dclass) : bool :=
  match c with CDerivative => derivative_uses_jacobian_path | CJacobian => jacobian_uses_jacobian_path
  | CGradient => gradient_uses_jacobian_path | CHessdiag => hessdiag_uses_jacobian_path | CHessian => hessian_uses_jacobian_path end.
Definition reaches_complex_guard (c : dclass) : bool :=
  if uses_jacobian_path c then jacobian_nonzero_order_guards
  else derivative_nonzero_order_guards && eval_first_guards_complex_methods.

(* outcome of a call with a complex-step method as far as the complex guard decides it *)
Definition complex_outcome (c : dclass) (m : method) (x_complex fx_complex : bool) : outcome :=
  if complex_method m && reaches_complex_guard c && ((guard_checks_x && x_complex) || (guard_checks_fx && fx_complex))
  then ValueError else Value.

Theorem complex_guard c m xc fc : complex_method m = true -> xc || fc = true ->
  complex_outcome c m xc fc = ValueError.
Proof.
  intros Hm Hx. unfold complex_outcome. rewrite Hm.
  assert (G : reaches_complex_guard c = true) by (destruct c; vm_compute; reflexivity).
  rewrite G. assert (X : guard_checks_x = true) by reflexivity. assert (F : guard_checks_fx = true) by reflexivity.
  rewrite X, F. cbn [andb]. rewrite Hx. reflexivity.
Qed.

(* multicomplex supports n <= 2 only: the name assembly raises before any stencil is chosen *)
Theorem multicomplex_n_guard n order : 3 <= n -> get_middle_name Multicomplex n order = "!ValueError"%string.
Proof.
  intros H. unfold get_middle_name, multicomplex_middle_name, complex_high_order, even_derivative, odd_derivative.
  cbn [meqb andb orb]. destruct (n mod 2 =? 0); cbn [andb];
  (destruct (n >? 1) eqn:E1; [destruct (n <=? 2) eqn:E2; [lia|reflexivity] | lia]).
Qed.
Theorem multicomplex_n_ok n order : 1 <= n <= 2 -> get_middle_name Multicomplex n order <> "!ValueError"%string.
Proof.
  intros H. unfold get_middle_name, multicomplex_middle_name, complex_high_order, even_derivative, odd_derivative.
  cbn [meqb andb orb]. destruct (n mod 2 =? 0); cbn [andb];
  (destruct (n >? 1) eqn:E1; [destruct (n <=? 2) eqn:E2; [discriminate|lia] | discriminate]).
Qed.

(* fewer steps than the rule needs: the guard of _apply is `rule.size - 1 < num_steps` (shape checked by
   the translator: apply_shape_ok) *)
Definition apply_outcome (rule_size num_steps : Z) : outcome := if rule_size - 1 <? num_steps then Value else ValueError.
Theorem few_steps_guard rule_size num_steps : num_steps < rule_size -> apply_outcome rule_size num_steps = ValueError.
Proof. intros H. unfold apply_outcome. destruct (rule_size - 1 <? num_steps) eqn:E; [lia|reflexivity]. Qed.

Theorem residue_guard pole_order order : order <= pole_order -> residue_order_guard pole_order order = false.
Proof. intros H. unfold residue_order_guard. lia. Qed.
Theorem residue_default_ok pole_order : residue_order_guard pole_order (residue_default_order pole_order) = true.
Proof. unfold residue_order_guard, residue_default_order. lia. Qed.
Theorem fdw_guard_rejects n m : m <= n -> fdw_guard n m = false.
Proof. intros H. unfold fdw_guard. lia. Qed.
Theorem fdd_guard_rejects n num_x len_fx : num_x <= n \/ num_x <> len_fx -> fdd_guard n num_x len_fx = false.
Proof. intros H. unfold fdd_guard. lia. Qed.
Theorem structural_guards_present :
  dirdiff_size_guard = true /\ logrule_vstack_size_guard = true /\ jacobian_vstack_size_guard = true /\
  limit_vstack_size_guard = true /\ path_guard_in_constructor = true /\ apply_shape_ok = true.
Proof. repeat split; reflexivity. Qed.
