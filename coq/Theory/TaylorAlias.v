(* C17: fornberg._extrapolate removes the aliasing terms of the FFT exactly.
   On a circle of radius r the scaled FFT coefficient is  b(r) = a + e1 r^m + e2 r^(2m) + ...  (a = the Taylor
   coefficient, e_l = a_{k + l m}: see Theory/TaylorDft.v).  Over ANY field (real or complex data), writing
   x_j = r_j^m for the successive radii:
     - the first pass, richardson(bs, k, c = 1 - (r_{k-1}/r_k)^m), removes the r^m term exactly;
     - the second pass, richardson(extrap0, k, c = 1 - (r_{k-1}/r_{k+1})^m), removes the r^(2m) term as well,
   for arbitrary (non-zero, pairwise distinct) radii - no geometric progression is needed. *)
From Coq Require Import Ring Field List ZArith.
Require Import NDT.Arith.Ops NDT.Model.Taylor.
Import ListNotations.

Section S.
Variable R : Type.
Variables (r0 r1 : R) (radd rmul rsub : R -> R -> R) (ropp : R -> R) (rdiv : R -> R -> R) (rinv : R -> R).
Variable Rth : field_theory r0 r1 radd rmul rsub ropp rdiv rinv eq.
Add Field Rf : Rth.
Declare Scope F_scope. Delimit Scope F_scope with F.
Notation "x + y" := (radd x y) : F_scope. Notation "x * y" := (rmul x y) : F_scope.
Notation "x - y" := (rsub x y) : F_scope. Notation "x / y" := (rdiv x y) : F_scope.
Notation "1" := r1 : F_scope. Notation "0" := r0 : F_scope.
Local Open Scope F_scope.
(* the arithmetic of the model over this field (comparisons are not used by rich1 / pass) *)
Definition OpsAbs : Ops R :=
  @MkOps R r0 r1 radd rsub rmul rdiv ropp (fun x => x) (fun x => x) (fun _ => r0)
         (fun _ _ => false) (fun _ _ => false) (fun _ _ => false) (fun _ => false) r0 r0 r0.

(* one Richardson step with the exact parameter: (a + e x) and (a + e y) give a *)
Theorem rich1_removes_alias (a e x y : R) : x <> 0 -> x - y <> 0 ->
  rich1 OpsAbs (a + e * x) (a + e * y) (1 - y / x) = a.
Proof. intros Hx Hxy. unfold rich1; cbn. field. split; assumption. Qed.

(* with a second aliasing term the first pass leaves  a - e2 x y *)
Lemma rich1_two_terms (a e1 e2 x y : R) : x <> 0 -> x - y <> 0 ->
  rich1 OpsAbs (a + e1 * x + e2 * (x * x)) (a + e1 * y + e2 * (y * y)) (1 - y / x) = a - e2 * (x * y).
Proof. intros Hx Hxy. unfold rich1; cbn. field. split; assumption. Qed.

(* fornberg._extrapolate on three successive circles: both aliasing terms are removed *)
Theorem extrapolate_removes_two_aliases (a e1 e2 x0 x1 x2 : R) :
  x1 <> 0 -> x2 <> 0 -> x1 - x0 <> 0 -> x2 - x1 <> 0 -> x2 - x0 <> 0 ->
  let b x := a + e1 * x + e2 * (x * x) in
  extrapolate2 OpsAbs [b x0; b x1; b x2] [1 - x0 / x1; 1 - x1 / x2] [1 - x0 / x2] = [a].
Proof.
  intros H1 H2 H10 H21 H20 b. unfold extrapolate2, b. cbn [pass].
  rewrite !rich1_two_terms by assumption.
  f_equal. unfold rich1; cbn. field. repeat split; assumption.
Qed.

(* ... and on any number of circles every output of the two passes is a (stated for four circles as well,
   which is the shortest run the search can produce, Theory/TaylorTheory.v converged_has_four_radii) *)
Theorem extrapolate_four_circles (a e1 e2 x0 x1 x2 x3 : R) :
  x1 <> 0 -> x2 <> 0 -> x3 <> 0 -> x1 - x0 <> 0 -> x2 - x1 <> 0 -> x3 - x2 <> 0 -> x2 - x0 <> 0 -> x3 - x1 <> 0 ->
  let b x := a + e1 * x + e2 * (x * x) in
  extrapolate2 OpsAbs [b x0; b x1; b x2; b x3] [1 - x0 / x1; 1 - x1 / x2; 1 - x2 / x3] [1 - x0 / x2; 1 - x1 / x3] = [a; a].
Proof.
  intros H1 H2 H3 H10 H21 H32 H20 H31 b. unfold extrapolate2, b. cbn [pass].
  rewrite !rich1_two_terms by assumption.
  f_equal; [|f_equal]; unfold rich1; cbn; field; repeat split; assumption.
Qed.

(* ---- any number of circles ---- *)
Variables a e1 e2 : R.
Definition bval (x : R) : R := a + e1 * x + e2 * (x * x).
Fixpoint cs0 (xs : list R) : list R := match xs with x :: ((y :: _) as t) => (1 - x / y) :: cs0 t | _ => [] end.
Fixpoint cs1 (xs : list R) : list R := match xs with x :: ((_ :: z :: _) as t) => (1 - x / z) :: cs1 t | _ => [] end.
Fixpoint mid (xs : list R) : list R := match xs with x :: ((y :: _) as t) => (a - e2 * (y * x)) :: mid t | _ => [] end.
(* successive radii are non-zero and distinct, and so are radii two apart *)
Fixpoint good (xs : list R) : Prop :=
  match xs with
  | x :: ((y :: t') as t) => y <> 0 /\ y - x <> 0 /\ (match t' with z :: _ => z - x <> 0 | [] => True end) /\ good t
  | _ => True
  end.
Lemma first_pass xs : good xs -> pass OpsAbs (map bval xs) (cs0 xs) = mid xs.
Proof.
  induction xs as [|x t IH]; [reflexivity|]. destruct t as [|y t']; [reflexivity|].
  intros [Hy [Hyx [_ Hg]]]. cbn [map cs0 pass mid]. f_equal.
  - unfold bval. apply rich1_two_terms; assumption.
  - apply IH. exact Hg.
Qed.
Lemma mid_eq x y t : mid (x :: y :: t) = (a - e2 * (y * x)) :: mid (y :: t).
Proof. reflexivity. Qed.
Lemma cs1_eq x y z t : cs1 (x :: y :: z :: t) = (1 - x / z) :: cs1 (y :: z :: t).
Proof. reflexivity. Qed.
Lemma pass_eq v0 v1 t c cs : pass OpsAbs (v0 :: v1 :: t) (c :: cs) = rich1 OpsAbs v1 v0 c :: pass OpsAbs (v1 :: t) cs.
Proof. reflexivity. Qed.
Lemma second_pass xs : good xs -> pass OpsAbs (mid xs) (cs1 xs) = repeat a (length xs - 2).
Proof.
  induction xs as [|x t IH]; [reflexivity|]. destruct t as [|y t']; [reflexivity|]. destruct t' as [|z t'']; [reflexivity|].
  intros [Hy [Hyx [Hzx Hg]]]. pose proof Hg as [Hz [Hzy _]].
  rewrite mid_eq, cs1_eq, (mid_eq y z t''), pass_eq, <- (mid_eq y z t'').
  replace (length (x :: y :: z :: t'') - 2)%nat with (S (length (y :: z :: t'') - 2)) by (cbn [length]; rewrite !Nat.sub_succ, !Nat.sub_0_r; reflexivity).
  cbn [repeat]. f_equal.
  - unfold rich1; cbn. field. repeat split; assumption.
  - apply IH. exact Hg.
Qed.
Theorem extrapolate_removes_aliases xs : good xs ->
  extrapolate2 OpsAbs (map bval xs) (cs0 xs) (cs1 xs) = repeat a (length xs - 2).
Proof. intros H. unfold extrapolate2. rewrite first_pass by exact H. apply second_pass. exact H. Qed.
End S.
