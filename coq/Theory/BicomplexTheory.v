(* C12: Bicomplex arithmetic is componentwise arithmetic in the idempotent basis, and the component
   formulas of sin, cos, sinh, cosh, exp, expm1 are the holomorphic extension
   F(z1 + j z2) = e1 f(z1 - i z2) + e2 f(z1 + i z2).  Any field with i (i*i = -1) and 1/2. *)
From Coq Require Import Ring Field Setoid.
Require Import NDT.Model.Bicomplex.
Section BC.
Variable C : Type.
Variables (z0 z1 : C) (fadd fmul fsub : C -> C -> C) (fopp : C -> C) (fdiv : C -> C -> C) (finv : C -> C).
Variable Cth : field_theory z0 z1 fadd fmul fsub fopp fdiv finv eq.
Add Field Cf : Cth.
Notation "x + y" := (fadd x y). Notation "x * y" := (fmul x y). Notation "x - y" := (fsub x y). Notation "- x" := (fopp x).
Variable ii : C.
Hypothesis ii2 : ii * ii = - z1.
Variable half : C.
Hypothesis half2 : half + half = z1.
(* the complex elementary functions, abstractly *)
Variables fexp fexpm1 fsin fcos fsinh fcosh : C -> C.
Definition K : COps C := MkCOps C z0 z1 fadd fsub fmul fopp fexp fexpm1 fsin fcos fsinh fcosh.

(* idempotent decomposition: phi(z1,z2) = (z1 - i z2, z1 + i z2), inverse psi *)
Definition phi (a : bc) : C * C := (fst a - ii * snd a, fst a + ii * snd a).
Definition psi (u : C * C) : bc := (half * (fst u + snd u), half * ii * (fst u - snd u)).

Lemma phi_add a b : phi (bc_add K a b) = (fst (phi a) + fst (phi b), snd (phi a) + snd (phi b)).
Proof. destruct a, b; unfold phi, bc_add; simpl; f_equal; ring. Qed.
Lemma phi_sub a b : phi (bc_sub K a b) = (fst (phi a) - fst (phi b), snd (phi a) - snd (phi b)).
Proof. destruct a, b; unfold phi, bc_sub; simpl; f_equal; ring. Qed.
Lemma phi_neg a : phi (bc_neg K a) = (- fst (phi a), - snd (phi a)).
Proof. destruct a; unfold phi, bc_neg; simpl; f_equal; ring. Qed.
Lemma phi_mul a b : phi (bc_mul K a b) = (fst (phi a) * fst (phi b), snd (phi a) * snd (phi b)).
Proof.
  destruct a as [a1 a2], b as [b1 b2]; unfold phi, bc_mul; simpl; f_equal.
  - transitivity (a1*b1 - a2*b2 - ii*(a1*b2+a2*b1) + (ii*ii + z1) * (a2*b2)); [rewrite ii2; ring | ring].
  - transitivity (a1*b1 - a2*b2 + ii*(a1*b2+a2*b1) + (ii*ii + z1) * (a2*b2)); [rewrite ii2; ring | ring].
Qed.
Lemma phi_rsub self other : phi (bc_rsub K self other) = (fst (phi other) - fst (phi self), snd (phi other) - snd (phi self)).
Proof. destruct self, other; unfold phi, bc_rsub, bc_neg, bc_sub; simpl; f_equal; ring. Qed.
(* conjugation in j swaps the two idempotent components *)
Lemma phi_conj a : phi (bc_conj K a) = (snd (phi a), fst (phi a)).
Proof. destruct a; unfold phi, bc_conj; simpl; f_equal; ring. Qed.
Lemma psi_phi a : psi (phi a) = a.
Proof.
  destruct a as [a1 a2]; unfold psi, phi; simpl; f_equal.
  - transitivity ((half + half) * a1); [ring | rewrite half2; ring].
  - transitivity ((half + half) * (- (ii*ii)) * a2); [ring | rewrite half2, ii2; ring].
Qed.
Lemma phi_psi u : phi (psi u) = u.
Proof.
  destruct u as [u1 u2]; unfold psi, phi; simpl; f_equal.
  - transitivity ((half + half) * u1 + (ii * ii + z1) * (half * (u2 - u1))); [ring | rewrite half2, ii2; ring].
  - transitivity ((half + half) * u2 + (ii * ii + z1) * (half * (u1 - u2))); [ring | rewrite half2, ii2; ring].
Qed.
(* z2 = 0: every operation reduces to the complex one *)
Lemma phi_complex z : phi (bc_of_complex K z) = (z, z).
Proof. unfold phi, bc_of_complex; simpl; f_equal; ring. Qed.
Lemma mul_complex z w : bc_mul K (bc_of_complex K z) (bc_of_complex K w) = bc_of_complex K (z * w).
Proof. unfold bc_mul, bc_of_complex; simpl; f_equal; ring. Qed.

(* functional equations of the complex elementary functions *)
Hypothesis sin_add : forall a b, fsin (a + b) = fsin a * fcos b + fcos a * fsin b.
Hypothesis cos_add : forall a b, fcos (a + b) = fcos a * fcos b - fsin a * fsin b.
Hypothesis sinh_add : forall a b, fsinh (a + b) = fsinh a * fcosh b + fcosh a * fsinh b.
Hypothesis cosh_add : forall a b, fcosh (a + b) = fcosh a * fcosh b + fsinh a * fsinh b.
Hypothesis sin_i : forall x, fsin (ii * x) = ii * fsinh x.
Hypothesis cos_i : forall x, fcos (ii * x) = fcosh x.
Hypothesis sinh_i : forall x, fsinh (ii * x) = ii * fsin x.
Hypothesis cosh_i : forall x, fcosh (ii * x) = fcos x.
Hypothesis sin_odd : forall x, fsin (- x) = - fsin x.
Hypothesis cos_even : forall x, fcos (- x) = fcos x.
Hypothesis sinh_odd : forall x, fsinh (- x) = - fsinh x.
Hypothesis cosh_even : forall x, fcosh (- x) = fcosh x.
Hypothesis exp_add : forall a b, fexp (a + b) = fexp a * fexp b.
Hypothesis exp_i : forall x, fexp (ii * x) = fcos x + ii * fsin x.
Hypothesis expm1_def : forall x, fexpm1 x = fexp x - z1.

Lemma minus_i a b : a - ii * b = a + ii * (- b). Proof. ring. Qed.

Theorem phi_sin a : phi (bc_sin K a) = (fsin (fst (phi a)), fsin (snd (phi a))).
Proof.
  destruct a as [a1 a2]; unfold phi, bc_sin; simpl.
  rewrite (minus_i a1 a2), !sin_add, !sin_i, !cos_i, sinh_odd, cosh_even. f_equal; ring.
Qed.
Theorem phi_cos a : phi (bc_cos K a) = (fcos (fst (phi a)), fcos (snd (phi a))).
Proof.
  destruct a as [a1 a2]; unfold phi, bc_cos; simpl.
  rewrite (minus_i a1 a2), !cos_add, !sin_i, !cos_i, sinh_odd, cosh_even. f_equal; ring.
Qed.
Theorem phi_sinh a : phi (bc_sinh K a) = (fsinh (fst (phi a)), fsinh (snd (phi a))).
Proof.
  destruct a as [a1 a2]; unfold phi, bc_sinh; simpl.
  rewrite (minus_i a1 a2), !sinh_add, !sinh_i, !cosh_i, sin_odd, cos_even. f_equal; ring.
Qed.
Theorem phi_cosh a : phi (bc_cosh K a) = (fcosh (fst (phi a)), fcosh (snd (phi a))).
Proof.
  destruct a as [a1 a2]; unfold phi, bc_cosh; simpl.
  rewrite (minus_i a1 a2), !cosh_add, !sinh_i, !cosh_i, sin_odd, cos_even. f_equal; ring.
Qed.
Theorem phi_exp a : phi (bc_exp K a) = (fexp (fst (phi a)), fexp (snd (phi a))).
Proof.
  destruct a as [a1 a2]; unfold phi, bc_exp; simpl.
  rewrite (minus_i a1 a2), !exp_add, !exp_i, sin_odd, cos_even. f_equal; ring.
Qed.
Theorem phi_expm1 a : phi (bc_expm1 K a) = (fexpm1 (fst (phi a)), fexpm1 (snd (phi a))).
Proof.
  destruct a as [a1 a2]; unfold phi, bc_expm1; simpl.
  rewrite !expm1_def, (minus_i a1 a2), !exp_add, !exp_i, sin_odd, cos_even. f_equal; ring.
Qed.

(* the formula the source used before the repair, expm1(z1) cos z2 / expm1(z1) sin z2, is NOT the
   extension: its first idempotent component misses the extension by exactly 1 - exp(-i z2) *)
Theorem old_expm1_defect a1 a2 :
  (fexpm1 a1 * fcos a2 - ii * (fexpm1 a1 * fsin a2)) - fexpm1 (a1 - ii * a2) = z1 - fexp (ii * (- a2)).
Proof. rewrite !expm1_def, (minus_i a1 a2), exp_add, !exp_i, sin_odd, cos_even. ring. Qed.

(* holomorphic-extension property for polynomials: evaluation commutes with phi, hence
   P(x + i h + j h) has idempotent components P(x) ... see poly_phi *)
Fixpoint peval (p : list C) (x : C) : C := match p with nil => z0 | cons a q => a + x * peval q x end.
Fixpoint bc_peval (p : list C) (x : bc) : bc :=
  match p with nil => (z0, z0) | cons a q => bc_add K (bc_of_complex K a) (bc_mul K x (bc_peval q x)) end.
Theorem poly_phi p x : phi (bc_peval p x) = (peval p (fst (phi x)), peval p (snd (phi x))).
Proof.
  induction p as [|a q IH]; simpl.
  - unfold phi; simpl; f_equal; ring.
  - rewrite phi_add, phi_mul, IH, phi_complex. reflexivity.
Qed.
(* the multicomplex evaluation point x + i h + j h has idempotent components (x, x + 2 i h) ... *)
Lemma phi_mc_point x h : phi (x + ii * h, h) = (x, x + (ii + ii) * h).
Proof. unfold phi; simpl; f_equal; ring. Qed.
(* ... so imag12 of P at that point is determined by P(x) and P(x + 2 i h) alone: the bicomplex value is
   psi (P x, P (x + 2 i h)) *)
Theorem mc_poly p x h : bc_peval p (x + ii * h, h) = psi (peval p x, peval p (x + (ii + ii) * h)).
Proof.
  rewrite <- (psi_phi (bc_peval p (x + ii * h, h))), poly_phi, phi_mc_point. reflexivity.
Qed.
End BC.
