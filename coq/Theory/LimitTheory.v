(* C18: Limit returns f's own value wherever f is finite; the limit of a polynomial-in-the-step sequence
   and the residue of g/(z - z0)^p are recovered exactly (composition with C07/C01). *)
From Coq Require Import Reals List Bool Lia Lra.
Require Import NDT.Arith.Ops NDT.Arith.OpsR NDT.Model.Limit NDT.Model.Convolve NDT.Model.Pipeline
               NDT.Theory.RichardsonTheory NDT.Theory.PipelineTheory.
Import ListNotations.

Section AnyOps.
Context {A : Type} (Op : Ops A).
(* entries where f(z) is not NaN are returned unchanged, with error 0, whatever the limits computed elsewhere *)
Theorem fill_keeps_finite fz lims i d : isnan Op (nth i fz d) = false -> (i < length fz)%nat ->
  nth i (fill Op fz lims) d = nth i fz d /\ nth i (fill_err Op fz lims) d = zero Op.
Proof.
  revert lims i; induction fz as [|v t IH]; intros lims i Hn Hi; cbn in *; [lia|].
  destruct i as [|i].
  - cbn in Hn. rewrite Hn. split; reflexivity.
  - cbn in Hn. destruct (isnan Op v); [destruct lims|]; cbn; apply IH; try assumption; lia.
Qed.
Theorem fill_length fz lims : length (fill Op fz lims) = length fz /\ length (fill_err Op fz lims) = length fz.
Proof.
  revert lims; induction fz as [|v t IH]; intros lims; cbn; [split; reflexivity|].
  destruct (isnan Op v).
  - destruct lims as [|l ls]; cbn; [destruct (IH []) as [H1 H2] | destruct (IH ls) as [H1 H2]]; split; f_equal; assumption.
  - cbn. destruct (IH lims) as [H1 H2]. split; f_equal; assumption.
Qed.
End AnyOps.

Open Scope R_scope.
(* f(z0 + h) = P(h) = L + a_1 h + ... + a_T h^T sampled at h_t = h0 rho^t: with the Richardson rule of
   Limit (step 1, order 1, T = order + 1 terms) the whole pipeline returns L = P(0).  For Residue,
   f(z) (z - z0)^p = g(z) is such a polynomial when g is, and the result is g(z0). *)
Definition poly_terms (a : list R) : list (R * nat) := combine a (seq 1 (length a)).
Theorem limit_exact_poly eps tiny huge tf c8 c15 ch rho L h0 (a w : list R) len hs :
  0 <= eps ->
  wsum w (fun _ => 1) = 1 ->
  (forall k, (1 <= k <= length a)%nat -> wsum w (fun i => rho ^ (i * k)) = 0) ->
  (1 <= length w)%nat -> symcode (OpsR eps tiny huge) w = 0%Z \/ length w = 1%nat ->
  (length w <= len)%nat -> (len - (length w - 1) <= length hs)%nat ->
  fst (fst (fst (extrapolate (OpsR eps tiny huge) tf (1/10000) c8 c15 ch (map (sq rho L h0 (poly_terms a)) (seq 0 len)) hs w))) = L.
Proof.
  intros He H1 H2 H3 H4 H5 H6.
  apply (pipeline_value_exact eps tiny huge tf c8 c15 ch He rho L h0 w (poly_terms a) H1); try assumption.
  intros c k Hin. unfold poly_terms in Hin. apply in_combine_r in Hin. apply in_seq in Hin. apply H2. lia.
Qed.
(* the pole is cancelled exactly: (g / d^p) * d^p = g for d <> 0 *)
Theorem residue_cancels (g d : R) p : d <> 0 -> g / d ^ p * d ^ p = g.
Proof. intros Hd. field. apply pow_nonzero. exact Hd. Qed.
