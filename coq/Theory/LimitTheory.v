(* C18: Limit returns f's own value wherever f is finite; the limit of a polynomial-in-the-step sequence
   and the residue of g/(z - z0)^p are recovered exactly (composition with C07/C01). *)
From Coq Require Import Reals List Bool Lia Lra.
Require Import NDT.Arith.Ops NDT.Arith.OpsR NDT.Model.Limit NDT.Model.Convolve NDT.Model.Pipeline
               NDT.Theory.RichardsonTheory NDT.Theory.PipelineTheory.
Import ListNotations.

Section AnyOps.
Context {A : Type} (Op : Ops A).
(* entries where f(z) is not NaN are returned unchanged, with error 0, whatever the limits computed elsewhere *)
Theorem fill_keeps_finite fz lims i d : isnan Op (nth i fz d) = false -> (i < length fz)%nat ->
  nth i (fill Op fz lims) d = nth i fz d /\ nth i (fill_err Op fz lims) d = zero Op.
Proof.
  revert lims i; induction fz as [|v t IH]; intros lims i Hn Hi; cbn in *; [lia|].
  destruct i as [|i].
  - cbn in Hn. rewrite Hn. split; reflexivity.
  - cbn in Hn. destruct (isnan Op v); [destruct lims|]; cbn; apply IH; try assumption; lia.
Qed.
Theorem fill_length fz lims : length (fill Op fz lims) = length fz /\ length (fill_err Op fz lims) = length fz.
Proof.
  revert lims; induction fz as [|v t IH]; intros lims; cbn; [split; reflexivity|].
  destruct (isnan Op v).
  - destruct lims as [|l ls]; cbn; [destruct (IH []) as [H1 H2] | destruct (IH ls) as [H1 H2]]; split; f_equal; assumption.
  - cbn. destruct (IH lims) as [H1 H2]. split; f_equal; assumption.
Qed.
End AnyOps.

Open Scope R_scope.
(* f(z0 + h) = P(h) = L + a_1 h + ... + a_T h^T sampled at h_t = h0 rho^t: with the Richardson rule of
   Limit (step 1, order 1, T = order + 1 terms) the whole pipeline returns L = P(0).  For Residue,
   f(z) (z - z0)^p = g(z) is such a polynomial when g is, and the result is g(z0). *)
Definition poly_terms (a : list R) : list (R * nat) := combine a (seq 1 (length a)).
Theorem limit_exact_poly eps tiny huge tf c8 c15 ch rho L h0 (a w : list R) len hs :
  0 <= eps ->
  wsum w (fun _ => 1) = 1 ->
  (forall k, (1 <= k <= length a)%nat -> wsum w (fun i => rho ^ (i * k)) = 0) ->
  (1 <= length w)%nat -> symcode (OpsR eps tiny huge) w = 0%Z \/ length w = 1%nat ->
  (length w <= len)%nat -> (len - (length w - 1) <= length hs)%nat ->
  fst (fst (fst (extrapolate (OpsR eps tiny huge) tf (1/10000) c8 c15 ch (map (sq rho L h0 (poly_terms a)) (seq 0 len)) hs w))) = L.
Proof.
  intros He H1 H2 H3 H4 H5 H6.
  apply (pipeline_value_exact eps tiny huge tf c8 c15 ch He rho L h0 w (poly_terms a) H1); try assumption.
  intros c k Hin. unfold poly_terms in Hin. apply in_combine_r in Hin. apply in_seq in Hin. apply H2. lia.
Qed.
(* the pole is cancelled exactly: (g / d^p) * d^p = g for d <> 0 *)
Theorem residue_cancels (g d : R) p : d <> 0 -> g / d ^ p * d ^ p = g.
Proof. intros Hd. field. apply pow_nonzero. exact Hd. Qed.

(* ---- the model of Limit._lim / Residue on sequences of the modelled form ---- *)
Definition polyv (L : R) (a : list R) (x : R) : R := L + fold_right (fun ak acc => fst ak * x ^ snd ak + acc) 0 (poly_terms a).
Definition geo (h0 rho : R) (len : nat) : list R := map (fun t => h0 * rho ^ t) (seq 0 len).

Lemma polyv_sq rho L h0 a t : polyv L a (h0 * rho ^ t) = sq rho L h0 (poly_terms a) t.
Proof. reflexivity. Qed.

Lemma lim_steps_geo eps tiny huge s h0 rho len :
  lim_steps (OpsR eps tiny huge) s (geo h0 rho len) = geo (s * h0) rho len.
Proof.
  unfold lim_steps, geo. rewrite map_map. apply map_ext. intros t. cbn. ring.
Qed.

Lemma map_polyv_geo rho L h0 a len : map (polyv L a) (geo h0 rho len) = map (sq rho L h0 (poly_terms a)) (seq 0 len).
Proof. unfold geo. rewrite map_map. apply map_ext. intros t. apply polyv_sq. Qed.

(* Limit: f(z0 + h) = P(h) with P of degree <= order in h, sampled at the signed steps s * h0 rho^t: the model returns P(0) *)
Theorem limit_model_exact eps tiny huge tf c8 c15 ch s rho L h0 (a w : list R) len hs :
  0 <= eps ->
  wsum w (fun _ => 1) = 1 ->
  (forall k, (1 <= k <= length a)%nat -> wsum w (fun i => rho ^ (i * k)) = 0) ->
  (1 <= length w)%nat -> symcode (OpsR eps tiny huge) w = 0%Z \/ length w = 1%nat ->
  (length w <= len)%nat -> (len - (length w - 1) <= length hs)%nat ->
  fst (fst (fst (extrapolate (OpsR eps tiny huge) tf (1/10000) c8 c15 ch
                   (map (polyv L a) (lim_steps (OpsR eps tiny huge) s (geo h0 rho len))) hs w))) = L.
Proof.
  intros He H1 H2 H3 H4 H5 H6. rewrite lim_steps_geo, map_polyv_geo.
  apply limit_exact_poly; assumption.
Qed.

Lemma powA_pow eps tiny huge d p : powA (OpsR eps tiny huge) d p = d ^ p.
Proof. induction p as [|p IH]; cbn; [reflexivity|]. cbn in IH. rewrite IH. reflexivity. Qed.

Lemma geo_nonzero h0 rho len : h0 <> 0 -> rho <> 0 -> Forall (fun h => h <> 0) (geo h0 rho len).
Proof.
  intros Hh Hr. unfold geo. apply Forall_forall. intros x Hx. apply in_map_iff in Hx as [t [<- _]].
  apply Rmult_integral_contrapositive_currified; [exact Hh | apply pow_nonzero; exact Hr].
Qed.

(* Residue: f(z0 + h) = g(h) / h^p; the sequence handed to the extrapolation, f(z0 + h) * h^p, is g(h) *)
Lemma residue_seq_cancels eps tiny huge p (g : R -> R) hs : Forall (fun h => h <> 0) hs ->
  residue_seq (OpsR eps tiny huge) p (map (fun h => g h / h ^ p) hs) hs = map g hs.
Proof.
  intros HF. unfold residue_seq. induction hs as [|h t IH]; cbn; [reflexivity|].
  inversion HF as [|? ? Hh Ht]; subst. f_equal; [|apply IH; exact Ht].
  change (g h / h ^ p * powA (OpsR eps tiny huge) h p = g h). rewrite powA_pow. apply residue_cancels. exact Hh.
Qed.

Theorem residue_model_exact eps tiny huge tf c8 c15 ch s rho L h0 (a w : list R) p len hs :
  0 <= eps -> s <> 0 -> h0 <> 0 -> rho <> 0 ->
  wsum w (fun _ => 1) = 1 ->
  (forall k, (1 <= k <= length a)%nat -> wsum w (fun i => rho ^ (i * k)) = 0) ->
  (1 <= length w)%nat -> symcode (OpsR eps tiny huge) w = 0%Z \/ length w = 1%nat ->
  (length w <= len)%nat -> (len - (length w - 1) <= length hs)%nat ->
  let steps := lim_steps (OpsR eps tiny huge) s (geo h0 rho len) in
  fst (fst (fst (extrapolate (OpsR eps tiny huge) tf (1/10000) c8 c15 ch
                   (residue_seq (OpsR eps tiny huge) p (map (fun h => polyv L a h / h ^ p) steps) steps) hs w))) = L.
Proof.
  intros He Hs Hh Hr H1 H2 H3 H4 H5 H6 steps. unfold steps.
  rewrite residue_seq_cancels.
  - apply limit_model_exact; assumption.
  - rewrite lim_steps_geo. apply geo_nonzero; [|exact Hr]. apply Rmult_integral_contrapositive_currified; assumption.
Qed.

(* the evaluation points lie on the requested side of z: above for sign 1, below for sign -1 (positive generator steps) *)
Theorem lim_points_side eps tiny huge z s steps : Forall (fun h => 0 < h) steps ->
  (s = 1 -> Forall (fun x => z < x) (lim_points (OpsR eps tiny huge) z (lim_steps (OpsR eps tiny huge) s steps))) /\
  (s = -1 -> Forall (fun x => x < z) (lim_points (OpsR eps tiny huge) z (lim_steps (OpsR eps tiny huge) s steps))).
Proof.
  intros HF. unfold lim_points, lim_steps. rewrite map_map. split; intros ->; apply Forall_forall; intros x Hx;
    apply in_map_iff in Hx as [h [<- Hin]]; rewrite Forall_forall in HF; specialize (HF h Hin); cbn; lra.
Qed.
