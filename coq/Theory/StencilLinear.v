(* C06 (A'): the nine Derivative stencils as FUNCTIONALS of the user function, written as the source writes them
   (finite_difference.DifferenceFunctions), and their value on a polynomial
        f(x + d) = sum_{k < N} g_k d^k      (d real for the real-step stencils, complex for the complex-step ones):
        D_S(f, h) = sum_{k < N} g_k * st_S h k,
   where st_S h k is the stencil on the monomial d^k of Theory/StencilSignatures.v.  This is the linearity step that joins
   the Taylor signatures (A) to the rule-exactness theorem (B)+(C); it was "by inspection" before.  Any field. *)
From Coq Require Import Ring Field Arith ZArith Lia Bool.
Require Import NDT.Gen.Spec NDT.Theory.RuleTables NDT.Theory.StencilSignatures.

Section L.
Variable R : Type.
Variables (r0 r1 : R) (radd rmul rsub : R -> R -> R) (ropp : R -> R) (rdiv : R -> R -> R) (rinv : R -> R).
Variable Rth : field_theory r0 r1 radd rmul rsub ropp rdiv rinv eq.
Add Field Rf2 : Rth.
Declare Scope G_scope. Delimit Scope G_scope with G.
Notation "x + y" := (radd x y) : G_scope. Notation "x * y" := (rmul x y) : G_scope.
Notation "x - y" := (rsub x y) : G_scope. Notation "- x" := (ropp x) : G_scope.
Open Scope G_scope.
Variable s : R.
Variable half : R.

Notation cx := (cx R).
Notation cmul := (cmul R radd rmul rsub).
Notation cadd := (cadd R radd).
Notation csub := (csub R rsub).
Notation cneg := (cneg R ropp).
Notation cre := (cre R r0).
Notation ci := (ci R r0 r1).
Notation cpow := (cpow R r0 r1 radd rmul rsub).
Notation rpow := (rpow R r1 rmul).
Notation omega := (omega R s).
Notation wh := (wh R r0 radd rmul rsub s).
Notation delta0 := (delta0 R r0 r1).
Notation three := (three R r1 radd).
Notation twelve := (twelve R r1 radd).

(* sum_{k < N} g_k * t_k *)
Fixpoint psum (g : nat -> R) (N : nat) (t : nat -> R) : R :=
  match N with O => r0 | S N => psum g N t + g N * t N end.

(* the polynomial on the real axis and on complex displacements (real coefficients) *)
Definition polyr (g : nat -> R) (N : nat) (d : R) : R := psum g N (fun k => rpow d k).
Definition polyc (g : nat -> R) (N : nat) (z : cx) : cx :=
  (psum g N (fun k => fst (cpow z k)), psum g N (fun k => snd (cpow z k))).

(* the stencils of DifferenceFunctions; fr is f on real arguments x + d, fc is f on complex arguments x + z, fx = f(x) *)
Definition D_central (fr : R -> R) (h : R) := (fr h - fr (- h)) * half.                    (* (f(x+h) - f(x-h)) / 2.0 *)
Definition D_central_even (fr : R -> R) (fx h : R) := (fr h + fr (- h)) * half - fx.       (* (f(x+h) + f(x-h)) / 2.0 - f_x *)
Definition D_forward (fr : R -> R) (fx h : R) := fr h - fx.
Definition D_backward (fr : R -> R) (fx h : R) := fx - fr (- h).
Definition D_complex (fc : cx -> cx) (h : R) := snd (fc (cmul ci (cre h))).                 (* f(x + 1j*h).imag *)
Definition D_complex_odd (fc : cx -> cx) (h : R) :=                                         (* ((_SQRT_J/2.) (f(x+i_h) - f(x-i_h))).imag *)
  snd (cmul (cmul omega (cre half)) (csub (fc (wh h)) (fc (cneg (wh h))))).
Definition D_complex_odd_higher (fc : cx -> cx) (h : R) :=                                  (* ((3 _SQRT_J) (f(x+i_h) - f(x-i_h))).real *)
  fst (cmul (cmul (cre three) omega) (csub (fc (wh h)) (fc (cneg (wh h))))).
Definition D_complex_even (fc : cx -> cx) (h : R) := snd (cadd (fc (wh h)) (fc (cneg (wh h)))).
Definition D_complex_even_higher (fc : cx -> cx) (fx h : R) :=                              (* 12.0 (f(x+i_h) + f(x-i_h) - 2 f_x).real *)
  twelve * fst (csub (cadd (fc (wh h)) (fc (cneg (wh h)))) (cre (fx + fx))).

Lemma rpow_zero k : rpow r0 k = delta0 k.
Proof. destruct k as [|k]; [reflexivity|]. cbn. ring. Qed.
Lemma polyr_zero g N : polyr g N r0 = psum g N delta0.
Proof. unfold polyr. induction N as [|N IH]; [reflexivity|]. cbn [psum]. rewrite IH, rpow_zero. reflexivity. Qed.

Ltac lin_step IH unf :=
  cbn [psum]; rewrite <- IH; unf; cbn [psum fst snd]; ring.

Theorem D_central_poly g N h : D_central (polyr g N) h = psum g N (st_central R r1 rmul rsub ropp half h).
Proof.
  induction N as [|N IH]; [unfold D_central, polyr; cbn; ring|].
  cbn [psum]; rewrite <- IH. unfold D_central, polyr, st_central. cbn [psum]. ring.
Qed.
Theorem D_central_even_poly g N h :
  D_central_even (polyr g N) (polyr g N r0) h = psum g N (st_central_even R r0 r1 radd rmul rsub ropp half h).
Proof.
  rewrite polyr_zero.
  induction N as [|N IH]; [unfold D_central_even, polyr; cbn; ring|].
  cbn [psum]; rewrite <- IH. unfold D_central_even, polyr, st_central_even. cbn [psum]. ring.
Qed.
Theorem D_forward_poly g N h : D_forward (polyr g N) (polyr g N r0) h = psum g N (st_forward R r0 r1 rmul rsub h).
Proof.
  rewrite polyr_zero.
  induction N as [|N IH]; [unfold D_forward, polyr; cbn; ring|].
  cbn [psum]; rewrite <- IH. unfold D_forward, polyr, st_forward. cbn [psum]. ring.
Qed.
Theorem D_backward_poly g N h : D_backward (polyr g N) (polyr g N r0) h = psum g N (st_backward R r0 r1 rmul rsub ropp h).
Proof.
  rewrite polyr_zero.
  induction N as [|N IH]; [unfold D_backward, polyr; cbn; ring|].
  cbn [psum]; rewrite <- IH. unfold D_backward, polyr, st_backward. cbn [psum]. ring.
Qed.
Theorem D_complex_poly g N h : D_complex (polyc g N) h = psum g N (st_complex R r0 r1 radd rmul rsub h).
Proof.
  induction N as [|N IH]; [reflexivity|].
  cbn [psum]; rewrite <- IH. unfold D_complex, polyc, st_complex. cbn [psum fst snd]. reflexivity.
Qed.
Theorem D_complex_odd_poly g N h :
  D_complex_odd (polyc g N) h = psum g N (st_complex_odd R r0 r1 radd rmul rsub ropp s half h).
Proof.
  induction N as [|N IH]; [unfold D_complex_odd, polyc; cbn; ring|].
  cbn [psum]; rewrite <- IH. unfold D_complex_odd, polyc, st_complex_odd.
  cbn [psum fst snd]. destruct (cpow (wh h) N) as [a1 a2], (cpow (cneg (wh h)) N) as [b1 b2]. unfold StencilSignatures.cmul, StencilSignatures.csub, StencilSignatures.cre, StencilSignatures.omega. cbn [fst snd]. ring.
Qed.
Theorem D_complex_odd_higher_poly g N h :
  D_complex_odd_higher (polyc g N) h = psum g N (st_complex_odd_higher R r0 r1 radd rmul rsub ropp s h).
Proof.
  induction N as [|N IH]; [unfold D_complex_odd_higher, polyc; cbn; ring|].
  cbn [psum]; rewrite <- IH. unfold D_complex_odd_higher, polyc, st_complex_odd_higher.
  cbn [psum fst snd]. destruct (cpow (wh h) N) as [a1 a2], (cpow (cneg (wh h)) N) as [b1 b2]. unfold StencilSignatures.cmul, StencilSignatures.csub, StencilSignatures.cre, StencilSignatures.omega. cbn [fst snd]. ring.
Qed.
Theorem D_complex_even_poly g N h :
  D_complex_even (polyc g N) h = psum g N (st_complex_even R r0 r1 radd rmul rsub ropp s h).
Proof.
  induction N as [|N IH]; [unfold D_complex_even, polyc; cbn; ring|].
  cbn [psum]; rewrite <- IH. unfold D_complex_even, polyc, st_complex_even.
  cbn [psum fst snd]. destruct (cpow (wh h) N) as [a1 a2], (cpow (cneg (wh h)) N) as [b1 b2]. unfold StencilSignatures.cadd. cbn [fst snd]. ring.
Qed.
Theorem D_complex_even_higher_poly g N h :
  D_complex_even_higher (polyc g N) (polyr g N r0) h = psum g N (st_complex_even_higher R r0 r1 radd rmul rsub ropp s h).
Proof.
  rewrite polyr_zero.
  induction N as [|N IH]; [unfold D_complex_even_higher, polyc; cbn; ring|].
  cbn [psum]; rewrite <- IH. unfold D_complex_even_higher, polyc, st_complex_even_higher.
  cbn [psum fst snd]. destruct (cpow (wh h) N) as [a1 a2], (cpow (cneg (wh h)) N) as [b1 b2]. unfold StencilSignatures.cadd, StencilSignatures.csub, StencilSignatures.cre. cbn [fst snd]. ring.
Qed.

(* the complex polynomial restricted to the real axis is the real polynomial (so fr and fc are one and the same f) *)
Lemma cpow_real d k : cpow (cre d) k = cre (rpow d k).
Proof.
  induction k as [|k IH]; [reflexivity|].
  change (cpow (cre d) (S k)) with (cmul (cre d) (cpow (cre d) k)). rewrite IH.
  unfold StencilSignatures.cmul, StencilSignatures.cre. cbn [fst snd rpow StencilSignatures.rpow].
  f_equal; ring.
Qed.
Theorem polyc_real g N d : polyc g N (cre d) = cre (polyr g N d).
Proof.
  unfold polyc, polyr.
  induction N as [|N IH]; [reflexivity|].
  cbn [psum]. rewrite cpow_real. unfold StencilSignatures.cre in *. cbn [fst snd].
  injection IH as I1 I2. rewrite I1, I2. f_equal. ring.
Qed.
End L.
