(* C18: facts about the decision logic of limits.py as translated into Gen/Limits.v *)
From Coq Require Import ZArith Bool String Lia.
Require Import NDT.Gen.Limits NDT.Gen.Guards.
Open Scope Z_scope.
Open Scope string_scope.

Theorem sign_table : lim_sign "above" = Some 1 /\ lim_sign "forward" = Some 1 /\ lim_sign "below" = Some (-1) /\ lim_sign "backward" = Some (-1).
Proof. repeat split; reflexivity. Qed.
(* a sign is never 0 and only the four documented names have one *)
Theorem sign_is_unit m s : lim_sign m = Some s -> s = 1 \/ s = -1.
Proof.
  unfold lim_sign. repeat (match goal with |- context [String.eqb m ?k] => destruct (String.eqb m k) end;
    [intros H; injection H as <-; lia|]). discriminate.
Qed.
Theorem rich_rule_of_limit o : lim_rich_num_terms o = o + 1 /\ lim_rich_step = 1 /\ lim_rich_order = 1.
Proof. repeat split; reflexivity. Qed.
Theorem residue_exponent p : residue_power p = p.
Proof. reflexivity. Qed.
(* with the default order (pole_order + 2) the number of Richardson terms exceeds the pole order by 3 *)
Theorem residue_default_terms p : lim_rich_num_terms (residue_default_order p) = p + 3.
Proof. unfold lim_rich_num_terms, residue_default_order. lia. Qed.
Theorem limit_structure :
  lim_steps_signed = true /\ lim_sequence_is_f_at_steps = true /\ lim_rich_ratio_is_generator_ratio = true /\
  limit_evaluates_f_at_z_plus_dz = true /\ residue_call_is_limit = true /\ limit_method_is_lim_at_x = true /\
  call_evaluates_f_at_zero_step = true /\ call_lim_replaces_nan_only = true /\ extrapolate_shape_ok = true /\
  limit_step_generator_ok = true /\ limit_vstack_size_guard = true.
Proof. repeat split; reflexivity. Qed.
Theorem cstep_structure :
  cstep_default_path_radial = true /\ cstep_user_num_steps_wins = true /\ cstep_ratio_radial_real_spiral_rotated = true /\
  cstep_dtheta_zero_on_radial = true /\ path_guard_in_constructor = true /\ (forall k, cstep_num_steps_of_round k = 2 * k + 1).
Proof. repeat split; reflexivity. Qed.
