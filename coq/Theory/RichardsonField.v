(* C07 / C18 over ANY field (in particular the complex numbers: complex z0, spiral paths with a complex step
   ratio): the model of Richardson.__call__ maps the modelled sequence  L + sum_j a_j (h0 rho^t)^(k_j)  to L in
   every output slot.  Same statements as Theory/RichardsonTheory.v (which is over R), proved with `ring` only.
   The arithmetic is any [Ops K] whose + - * and 0 are the field's (comparisons are only met through the
   hypothesis symcode = 0, exactly as over R). *)
From Coq Require Import Ring Field ZArith List Bool Lia ZifyNat.
Require Import NDT.Arith.Ops NDT.Model.Convolve NDT.Model.Richardson NDT.Theory.ListAux.
Import ListNotations.
Ltac Zify.zify_post_hook ::= Z.to_euclidean_division_equations.

Section F.
Variable K : Type.
Variables (k0 k1 : K) (kadd kmul ksub : K -> K -> K) (kopp : K -> K) (kdiv : K -> K -> K) (kinv : K -> K).
Variable Kth : field_theory k0 k1 kadd kmul ksub kopp kdiv kinv eq.
Add Field Kf : Kth.
Declare Scope K_scope. Delimit Scope K_scope with K.
Notation "x + y" := (kadd x y) : K_scope. Notation "x * y" := (kmul x y) : K_scope.
Notation "x - y" := (ksub x y) : K_scope.
Notation "1" := k1 : K_scope. Notation "0" := k0 : K_scope.
Local Open Scope K_scope.

Fixpoint kpow (x : K) (n : nat) : K := match n with O => 1 | S m => x * kpow x m end.
Lemma kpow_add x a b : kpow x (a + b) = kpow x a * kpow x b.
Proof. induction a as [|a IH]; cbn; [ring | rewrite IH; ring]. Qed.
Lemma kpow_mul_distr x y n : kpow (x * y) n = kpow x n * kpow y n.
Proof. induction n as [|n IH]; cbn; [ring | rewrite IH; ring]. Qed.
Lemma kpow_mult x a b : kpow x (a * b) = kpow (kpow x a) b.
Proof.
  induction b as [|b IH]; [rewrite Nat.mul_0_r; reflexivity|].
  rewrite Nat.mul_succ_r, kpow_add, IH. cbn. ring.
Qed.

Fixpoint wsumK (w : list K) (f : nat -> K) : K :=
  match w with [] => 0 | a :: w' => a * f 0%nat + wsumK w' (fun i => f (S i)) end.
Lemma wsumK_ext w f g : (forall i, (i < length w)%nat -> f i = g i) -> wsumK w f = wsumK w g.
Proof.
  revert f g; induction w as [|a w IH]; intros f g H; cbn; [reflexivity|].
  rewrite (H 0%nat) by (cbn; lia). f_equal. apply IH. intros i Hi. apply H. cbn. lia.
Qed.
Lemma wsumK_add w f g : wsumK w (fun i => f i + g i) = wsumK w f + wsumK w g.
Proof. revert f g; induction w as [|a w IH]; intros f g; cbn; [ring|]. rewrite IH. ring. Qed.
Lemma wsumK_scal w c f : wsumK w (fun i => c * f i) = c * wsumK w f.
Proof. revert f; induction w as [|a w IH]; intros f; cbn; [ring|]. rewrite IH. ring. Qed.
Lemma wsumK_const w c : wsumK w (fun _ => c) = c * wsumK w (fun _ => 1).
Proof. rewrite <- wsumK_scal. apply wsumK_ext. intros. ring. Qed.

Section Exact.
Variables (rho L h0 : K) (w : list K).
Hypothesis w_sum : wsumK w (fun _ => 1) = 1.
Variable terms : list (K * nat).
Hypothesis w_annihilates : forall a k, In (a, k) terms -> wsumK w (fun i => kpow rho (i * k)) = 0.
Definition sqK (t : nat) : K := L + fold_right (fun ak acc => fst ak * kpow (h0 * kpow rho t) (snd ak) + acc) 0 terms.
Lemma kpow_split t i k : kpow (h0 * kpow rho (t + i)) k = kpow (h0 * kpow rho t) k * kpow rho (i * k).
Proof. rewrite kpow_add, !kpow_mul_distr, kpow_mult. ring. Qed.
Theorem richardson_exact_K t : wsumK w (fun i => sqK (t + i)) = L.
Proof.
  unfold sqK. rewrite wsumK_add, wsumK_const, w_sum.
  assert (H : wsumK w (fun i => fold_right (fun ak acc => fst ak * kpow (h0 * kpow rho (t + i)) (snd ak) + acc) 0 terms) = 0).
  { revert w_annihilates. induction terms as [|[a k] ts IH]; intros HA; cbn [fold_right fst snd].
    - rewrite wsumK_const. ring.
    - rewrite wsumK_add, IH by (intros a' k' Hin; apply (HA a' k'); right; exact Hin).
      rewrite (wsumK_ext _ _ (fun i => (a * kpow (h0 * kpow rho t) k) * kpow rho (i * k))) by (intros i _; rewrite kpow_split; ring).
      rewrite wsumK_scal, (HA a k) by (left; reflexivity). ring. }
  rewrite H. ring.
Qed.
End Exact.

(* ---- the executable convolution ---- *)
Variable O : Ops K.
Hypothesis O_zero : zero O = 0.
Hypothesis O_add : forall x y, add O x y = x + y.
Hypothesis O_mul : forall x y, mul O x y = x * y.

Lemma reflect_id j n : (0 <= j < n)%Z -> reflectZ j n = j.
Proof.
  intros H. unfold reflectZ. destruct (Z.eqb_spec n 1); [lia|].
  rewrite Z.mod_small by lia. destruct (Z.ltb_spec j n); lia.
Qed.
Lemma getr_in x k : (k < length x)%nat -> getr O x (Z.of_nat k) = nth k x 0.
Proof. intros H. unfold getr, nthA. rewrite reflect_id by lia. rewrite Nat2Z.id, O_zero. reflexivity. Qed.
Lemma fold_plain (F : nat -> K) n c a :
  fold_left (fun t jj => t + F jj) (seq a n) c = c + fold_right (fun j acc => F j + acc) 0 (seq a n).
Proof. revert c a; induction n as [|n IH]; intros c a; cbn; [ring|]. rewrite IH. ring. Qed.
Lemma wsumK_as_fold w f a :
  wsumK w (fun i => f (a + i)%nat) = fold_right (fun j acc => nth (j - a) w 0 * f j + acc) 0 (seq a (length w)).
Proof.
  revert f a; induction w as [|b w IH]; intros f a; cbn [wsumK length seq fold_right]; [reflexivity|].
  replace (a - a)%nat with 0%nat by lia. cbn [nth]. replace (a + 0)%nat with a by lia. f_equal.
  rewrite (wsumK_ext _ _ (fun i => f (S a + i)%nat)) by (intros; f_equal; lia).
  rewrite IH. apply fold_right_ext_in_seq.
  intros j Hj. replace (j - a)%nat with (S (j - S a)) by lia. reflexivity.
Qed.
Lemma wsumK_as_fold0 w f :
  wsumK w f = fold_right (fun j acc => nth j w 0 * f j + acc) 0 (seq 0 (length w)).
Proof.
  transitivity (wsumK w (fun i => f (0 + i)%nat)); [apply wsumK_ext; reflexivity|].
  rewrite (wsumK_as_fold w f 0).
  apply fold_right_ext_in_seq. intros j Hj acc. replace (j - 0)%nat with j by lia. reflexivity.
Qed.
Lemma fold_right_shift (F : nat -> K) c l :
  fold_right (fun j acc => F j + acc) c l = c + fold_right (fun j acc => F j + acc) 0 l.
Proof. induction l as [|a l IH]; cbn; [ring|]. rewrite IH. ring. Qed.
Lemma size1_zero fs : (1 <= fs)%nat ->
  (Z.of_nat (fs / 2) + (- Z.of_nat ((fs - 1) / 2) - (if Nat.even fs then 1 else 0)))%Z = 0%Z.
Proof.
  intros H. destruct (Nat.even fs) eqn:E.
  - apply Nat.even_spec in E. destruct E as [m ->]. lia.
  - assert (Od : Nat.odd fs = true) by (rewrite <- Nat.negb_even, E; reflexivity).
    apply Nat.odd_spec in Od. destruct Od as [m ->]. lia.
Qed.

Lemma fold_left_ext_K (g f : K -> nat -> K) : (forall t j, f t j = g t j) -> forall l c, fold_left f l c = fold_left g l c.
Proof. intros H. induction l as [|a l IH]; intros c; cbn; [reflexivity|]. rewrite H. apply IH. Qed.

(* plain accumulation (no symmetric fast path): the case that matters, rules of Richardson are never symmetric *)
Theorem conv_valid_K x w i : (2 <= length w)%nat -> symcode O w = 0%Z ->
  (i + (length w - 1) < length x)%nat ->
  nth i (conv O x (rev w) (Z.of_nat ((length w - 1) / 2))) 0 = wsumK w (fun k => nth (i + k) x 0).
Proof.
  intros Hw Hs Hi. unfold conv. rewrite rev_length, rev_involutive. unfold corr.
  rewrite (nth_map_lt _ _ _ 0%nat) by (rewrite seq_length; lia).
  rewrite seq_nth by lia. cbn [plus].
  rewrite size1_zero by lia.
  unfold corr_at.
  assert (G : forall k, (k <= length w - 1)%nat -> getr O x (Z.of_nat i + Z.of_nat k - 0) = nth (i + k) x 0).
  { intros k Hk. replace (Z.of_nat i + Z.of_nat k - 0)%Z with (Z.of_nat (i + k)) by lia. apply getr_in. lia. }
  rewrite (wsumK_as_fold0 w (fun j => nth (i + j) x 0)).
  rewrite Hs. cbn [Z.eqb].
  rewrite (fold_left_ext_K (fun t jj => t + getr O x (Z.of_nat i + Z.of_nat jj - 0) * nthA O w jj)) by (intros t jj; rewrite O_add, O_mul; reflexivity).
  rewrite (fold_plain (fun jj => getr O x (Z.of_nat i + Z.of_nat jj - 0) * nthA O w jj)).
  destruct (length w) as [|nr] eqn:EL; [lia|]. replace (S nr - 1)%nat with nr in * by lia.
  rewrite seq_S, fold_right_app. cbn [fold_right plus].
  rewrite (fold_right_shift _ (nth nr w 0 * nth (i + nr) x 0 + 0)).
  rewrite O_mul, G by lia. unfold nthA. rewrite O_zero.
  replace (nth (i + nr) x 0 * nth nr w 0 + fold_right (fun j acc => getr O x (Z.of_nat i + Z.of_nat j - 0) * nth j w 0 + acc) 0 (seq 0 nr))
    with (nth nr w 0 * nth (i + nr) x 0 + 0 + fold_right (fun j acc => getr O x (Z.of_nat i + Z.of_nat j - 0) * nth j w 0 + acc) 0 (seq 0 nr)) by ring.
  f_equal.
  apply fold_right_ext_in_seq. intros j Hj acc. rewrite G by lia. ring.
Qed.

(* ---- the model of Richardson.__call__ ---- *)
Lemma conv_length_K x v o : length (conv O x v o) = length x.
Proof. unfold conv, corr. rewrite map_length, seq_length. reflexivity. Qed.
Theorem rich_count_K tf (sq_ steps rr : list K) :
  length (fst (fst (rich O tf sq_ steps rr))) = Nat.min (length sq_ - (length rr - 1)) (length sq_).
Proof. unfold rich. cbv zeta. cbn [fst]. rewrite firstn_length, conv_length_K. reflexivity. Qed.
Theorem rich_exact_K tf rho L h0 w terms len steps i :
  wsumK w (fun _ => 1) = 1 ->
  (forall a k, In (a, k) terms -> wsumK w (fun i => kpow rho (i * k)) = 0) ->
  (2 <= length w)%nat -> symcode O w = 0%Z ->
  (length w <= len)%nat -> (i < len - (length w - 1))%nat ->
  nth i (fst (fst (rich O tf (map (sqK rho L h0 terms) (seq 0 len)) steps w))) 0 = L.
Proof.
  intros H1 H2 Hw Hs Hl Hi. unfold rich. cbv zeta. cbn [fst]. rewrite map_length, seq_length.
  rewrite nth_firstn_lt by exact Hi.
  rewrite conv_valid_K; [| exact Hw | exact Hs | rewrite map_length, seq_length; lia].
  rewrite (wsumK_ext _ _ (fun k => sqK rho L h0 terms (i + k))).
  - apply richardson_exact_K; assumption.
  - intros k Hk. rewrite (nth_map_lt _ _ _ 0%nat) by (rewrite seq_length; lia).
    rewrite seq_nth by lia. reflexivity.
Qed.
End F.
