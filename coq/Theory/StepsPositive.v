(* C05 and C10 joined: the steps the generators yield are POSITIVE whenever the base step is positive and the nominal step is at least
   one (get_nominal_step = max(log(1.718.. + |x|), 1) -- an oracle certified each run by C10's check), for every x, every ratio > 0,
   every offset and number of steps; hence (Theory/PointsTheory.v) on every generated step 'forward' evaluates nowhere below x and
   'backward' nowhere above x.  Discharges the hypothesis "nonneg h" of the C05 theorems for the steps the library actually generates. *)
From Coq Require Import Reals List String ZArith Lra.
Require Import NDT.Arith.Ops NDT.Arith.OpsR NDT.Model.Steps NDT.Theory.StepsSeq NDT.Model.Points NDT.Theory.PointsTheory.
Import ListNotations.
Open Scope R_scope.

Section P.
Variables eps tiny huge : R.
Notation O := (OpsR eps tiny huge).

Definition positive (d : list R) := Forall (fun v => 0 < v) d.

Lemma gen_base_positive b noms exact : 0 < b -> Forall (fun s => 1 <= s) noms -> positive (gen_base O b noms exact).
Proof.
  intros Hb H. unfold gen_base, positive.
  induction H as [|s l Hs Hl IH]; simpl; constructor; auto.
  assert (0 < b * s) by (apply Rmult_lt_0_compat; lra).
  destruct exact; unfold make_exact; simpl; lra.
Qed.

Lemma steps_positive ratio (Hr : 0 < ratio) base is_max num off s :
  positive base -> In s (basic_steps O (powerRZ ratio) base is_max num off) -> positive s.
Proof.
  intros Hb Hin. apply (basic_steps_filter eps tiny huge ratio) in Hin. destruct Hin as [Hin _].
  apply in_map_iff in Hin. destruct Hin as [e [<- _]]. unfold step_at, positive in *.
  induction Hb as [|b l Hb0 Hl IH]; simpl; constructor; auto.
  apply Rmult_lt_0_compat; auto. apply powerRZ_lt; auto.
Qed.

Lemma steps_len ratio base is_max num off s :
  In s (basic_steps O (powerRZ ratio) base is_max num off) -> List.length s = List.length base.
Proof.
  intros Hin. apply (basic_steps_filter eps tiny huge ratio) in Hin. destruct Hin as [Hin _].
  apply in_map_iff in Hin. destruct Hin as [e [<- _]]. unfold step_at. apply map_length.
Qed.

Lemma positive_nonneg d : positive d -> nonneg d.
Proof. unfold positive, nonneg. intros H. induction H; constructor; auto; lra. Qed.

(* the whole chain: default generator (base step b > 0, nominal steps >= 1, one per coordinate of x), any ratio > 0 *)
Lemma generated_steps_nonneg b noms exact ratio (Hr : 0 < ratio) is_max num off s :
  0 < b -> Forall (fun t => 1 <= t) noms ->
  In s (basic_steps O (powerRZ ratio) (gen_base O b noms exact) is_max num off) ->
  nonneg s /\ List.length s = List.length noms.
Proof.
  intros Hb Hn Hin. split.
  - apply positive_nonneg. apply (steps_positive ratio Hr (gen_base O b noms exact) is_max num off s); [apply gen_base_positive; auto | exact Hin].
  - rewrite (steps_len _ _ _ _ _ _ Hin). unfold gen_base. apply map_length.
Qed.

Section Joined.
Variables sr si sq2 : R.
Variables (b : R) (noms : list R) (exact : bool) (ratio : R) (is_max : bool) (num : nat) (off : Z) (x s : list R).
Hypotheses (Hr : 0 < ratio) (Hb : 0 < b) (Hn : Forall (fun t => 1 <= t) noms) (Hx : List.length x = List.length noms)
           (Hin : In s (basic_steps O (powerRZ ratio) (gen_base O b noms exact) is_max num off)).

Lemma forward_on_generated_steps :
  Forall (above x) (pts_derivative O sr si "_forward" x s) /\ Forall (above x) (pts_jacobian O sr si "_forward" x s) /\
  Forall (above x) (pts_hessdiag O sq2 "_forward" x s) /\ Forall (above x) (pts_hessian O "_forward" x s).
Proof.
  destruct (generated_steps_nonneg b noms exact ratio Hr is_max num off s Hb Hn Hin) as [Hs Hl].
  assert (E : List.length x = List.length s) by congruence.
  repeat split.
  - exact (derivative_forward eps tiny huge sr si x s E Hs).
  - exact (jacobian_forward eps tiny huge sr si x s E Hs).
  - exact (hessdiag_forward eps tiny huge sq2 x s E Hs).
  - exact (hessian_forward eps tiny huge x s E Hs).
Qed.

Lemma backward_on_generated_steps :
  Forall (below x) (pts_derivative O sr si "_backward" x s) /\ Forall (below x) (pts_jacobian O sr si "_backward" x s) /\
  Forall (below x) (pts_hessdiag O sq2 "_backward" x s) /\ Forall (below x) (pts_hessian_backward O x s).
Proof.
  destruct (generated_steps_nonneg b noms exact ratio Hr is_max num off s Hb Hn Hin) as [Hs Hl].
  assert (E : List.length x = List.length s) by congruence.
  repeat split.
  - exact (derivative_backward eps tiny huge sr si x s E Hs).
  - exact (jacobian_backward eps tiny huge sr si x s E Hs).
  - exact (hessdiag_backward eps tiny huge sq2 x s E Hs).
  - exact (hessian_backward eps tiny huge x s E Hs).
Qed.
End Joined.
End P.
