(* C13: theorems about Model/Dea3.v.  Elementwise/trim clauses for any arithmetic; recovery and
   non-negativity over R with EPS, TINY >= 0 as parameters. *)
From Coq Require Import Reals Lra Lia Bool List ZArith.
Require Import NDT.Arith.Ops NDT.Arith.OpsR NDT.Model.Dea3.
Import ListNotations.

Local Open Scope nat_scope.
Section AnyOps.
Context {A : Type} (O : Ops A) (thr : A).

Lemma map3_length {B} (f : A -> A -> A -> B) u v w :
  length u = length v -> length v = length w -> length (map3 f u v w) = length u.
Proof.
  revert v w; induction u as [|a u IH]; intros [|b v] [|c w]; cbn; try discriminate; try reflexivity.
  intros H1 H2. f_equal. apply IH; congruence.
Qed.

Lemma map3_nth {B} (f : A -> A -> A -> B) u v w i (d : B) (da : A) :
  length u = length v -> length v = length w -> i < length u ->
  nth i (map3 f u v w) d = f (nth i u da) (nth i v da) (nth i w da).
Proof.
  revert v w i; induction u as [|a u IH]; intros [|b v] [|c w] i; cbn; try discriminate; try lia.
  intros H1 H2 Hi. destruct i; [reflexivity|]. apply IH; try congruence; lia.
Qed.

(* every output element is the kernel applied to the elements at the same position, nothing else *)
Theorem dea3_elementwise u v w i da :
  length u = length v -> length v = length w -> i < length u ->
  let '(res, err) := dea3 O thr false u v w in
  nth i res da = fst (dea3k O thr (nth i u da) (nth i v da) (nth i w da)) /\
  nth i err da = snd (dea3k O thr (nth i u da) (nth i v da) (nth i w da)) /\
  length res = length u /\ length err = length u.
Proof.
  intros H1 H2 Hi. unfold dea3. cbn [andb].
  pose proof (map3_length (dea3k O thr) u v w H1 H2) as HL.
  repeat split.
  - rewrite (nth_indep _ da (fst (da, da))) by (rewrite map_length, HL; exact Hi).
    rewrite map_nth. f_equal. apply map3_nth; assumption.
  - rewrite (nth_indep _ da (snd (da, da))) by (rewrite map_length, HL; exact Hi).
    rewrite map_nth. f_equal. apply map3_nth; assumption.
  - rewrite map_length; exact HL.
  - rewrite map_length; exact HL.
Qed.

(* symmetric=True only trims: the result loses its last element, the error its first *)
Theorem dea3_symmetric_trims u v w :
  let '(res, err) := dea3 O thr false u v w in
  dea3 O thr true u v w = if Nat.ltb 1 (length res) then (removelast res, tl err) else (res, err).
Proof. unfold dea3. cbn [andb]. reflexivity. Qed.

(* the guard is total: exactly one of two branches; in the converged branch the result is e2 * 1 *)
Theorem dea3_guard_total e0 e1 e2 :
  (dea3_conv O thr e0 e1 e2 = true /\ fst (dea3k O thr e0 e1 e2) = mul O e2 (one O)) \/
  (dea3_conv O thr e0 e1 e2 = false).
Proof. unfold dea3k. cbn [fst]. destruct (dea3_conv O thr e0 e1 e2); [left; split; reflexivity | right; reflexivity]. Qed.
End AnyOps.

Open Scope R_scope.
Section OverR.
Variables (eps tiny huge : R).
Hypotheses (eps_nn : 0 <= eps) (tiny_nn : 0 <= tiny).
Let O := OpsR eps tiny huge.
Let thr := 1 / 10000.

Lemma maxabs_R a b : maxabs O a b = Rmax (Rabs a) (Rabs b).
Proof.
  unfold maxabs, npmax. cbn. unfold Rltb, Rmax.
  destruct (Rlt_dec (Rabs a) (Rabs b)), (Rle_dec (Rabs a) (Rabs b)); try reflexivity; lra.
Qed.
Lemma maxabs_nn a b : 0 <= maxabs O a b.
Proof. rewrite maxabs_R. pose proof (Rabs_pos a). pose proof (Rmax_l (Rabs a) (Rabs b)). lra. Qed.

(* all inputs, all branches: the error estimate is non-negative *)
Theorem dea3_abserr_nonneg e0 e1 e2 : 0 <= snd (dea3k O thr e0 e1 e2).
Proof.
  unfold dea3k; cbn [snd]. cbn -[maxabs dea3_conv].
  pose proof (Rabs_pos (e2 - e1)); pose proof (Rabs_pos (e1 - e0)).
  pose proof (maxabs_nn e2 e1).
  destruct (dea3_conv _ _ _ _ _).
  - assert (0 <= maxabs O e2 e1 * eps * 10) by (apply Rmult_le_pos; [apply Rmult_le_pos|]; lra). lra.
  - match goal with |- context [Rabs (?x - e2)] => pose proof (Rabs_pos (x - e2)) end. lra.
Qed.

(* geometric transient, outside every guard, TINY idealised to 0: exact recovery *)
Theorem dea3_geometric L a q :
  tiny = 0 -> a <> 0 -> q <> 0 -> q <> 1 ->
  let e0 := L + a in let e1 := L + a * q in let e2 := L + a * (q * q) in
  dea3_conv O thr e0 e1 e2 = false ->
  fst (dea3k O thr e0 e1 e2) = L.
Proof.
  intros Ht Ha Hq Hq1 e0 e1 e2 Hng. unfold dea3k; cbn [fst]. rewrite Hng.
  cbn -[dea3_conv].
  assert (Hd1 : e1 - e0 = a * (q - 1)) by (unfold e0, e1; ring).
  assert (Hd2 : e2 - e1 = a * q * (q - 1)) by (unfold e1, e2; ring).
  assert (Hne1 : e1 - e0 <> 0) by (rewrite Hd1; apply Rmult_integral_contrapositive_currified; lra).
  assert (Hne2 : e2 - e1 <> 0) by (rewrite Hd2; repeat apply Rmult_integral_contrapositive_currified; lra).
  assert (T1 : Rltb (Rabs (e1 - e0)) tiny = false).
  { apply Rltb_false. pose proof (Rabs_pos (e1-e0)). lra. }
  assert (T2 : Rltb (Rabs (e2 - e1)) tiny = false).
  { apply Rltb_false. pose proof (Rabs_pos (e2-e1)). lra. }
  rewrite T1, T2. rewrite Ht. unfold e0, e1, e2 in *. field.
  split; [exact Hne1|split; [exact Hne2|]].
  replace (L + a * q - (L + a) - (L + a * (q * q) - (L + a * q))) with (- (a * (q - 1) * (q - 1))) by ring.
  intro H. assert (H0 : a * (q-1) * (q-1) = 0) by lra.
  apply Rmult_integral in H0 as [H0|H0]; [apply Rmult_integral in H0 as [H0|H0]|]; lra.
Qed.

(* with the real TINY > 0: the result misses L by exactly 1/(s+tiny) - 1/s, s = 1/d2 - 1/d1 *)
Theorem dea3_identity L a q :
  a <> 0 -> q <> 0 -> q <> 1 ->
  let e0 := L + a in let e1 := L + a * q in let e2 := L + a * (q * q) in
  let s := 1 / (e2 - e1) - 1 / (e1 - e0) in
  tiny <= Rabs (e1 - e0) -> tiny <= Rabs (e2 - e1) -> s + tiny <> 0 ->
  dea3_conv O thr e0 e1 e2 = false ->
  fst (dea3k O thr e0 e1 e2) - L = 1 / (s + tiny) - 1 / s.
Proof.
  intros Ha Hq Hq1 e0 e1 e2 s Ht1 Ht2 Hs Hng. unfold dea3k; cbn [fst]. rewrite Hng.
  cbn -[dea3_conv].
  assert (Hd1 : e1 - e0 = a * (q - 1)) by (unfold e0, e1; ring).
  assert (Hd2 : e2 - e1 = a * q * (q - 1)) by (unfold e1, e2; ring).
  assert (Hne1 : e1 - e0 <> 0) by (rewrite Hd1; apply Rmult_integral_contrapositive_currified; lra).
  assert (Hne2 : e2 - e1 <> 0) by (rewrite Hd2; repeat apply Rmult_integral_contrapositive_currified; lra).
  assert (T1 : Rltb (Rabs (e1 - e0)) tiny = false) by (apply Rltb_false; lra).
  assert (T2 : Rltb (Rabs (e2 - e1)) tiny = false) by (apply Rltb_false; lra).
  rewrite T1, T2. fold s.
  assert (Hs0 : s <> 0).
  { unfold s. rewrite Hd1, Hd2. intro H.
    assert (H' : (1 - q) / (a * q * (q - 1)) = 0) by (rewrite <- H; field; repeat split; lra).
    assert (Hz : (1 - q) / (a * q * (q - 1)) = - (1 / (a * q))) by (field; repeat split; lra).
    rewrite Hz in H'. assert (1 / (a * q) = 0) by lra.
    assert (Haq : a * q <> 0) by (apply Rmult_integral_contrapositive_currified; lra).
    unfold Rdiv in H0. rewrite Rmult_1_l in H0. apply Rinv_neq_0_compat in Haq. contradiction. }
  assert (HL : e1 + 1 / s = L).
  { unfold s. rewrite Hd1, Hd2. unfold e1. field. repeat split; lra. }
  assert (HL' : L = e1 + 1 / s) by (symmetry; exact HL).
  rewrite HL' at 1. ring.
Qed.
End OverR.

(* non-vacuity: L = 1, a = 1, q = 1/2 is outside all guards for eps = 2^-52 (any eps < 1/4), tiny = 0 *)
Example dea3_example : fst (dea3k (OpsR (1/4503599627370496) 0 1) (1/10000) (1 + 1) (1 + 1 * (1/2)) (1 + 1 * ((1/2) * (1/2)))) = 1.
Proof.
  apply (dea3_geometric (1/4503599627370496) 0 1 1 1 (1/2)); try lra.
  unfold dea3_conv. cbn -[maxabs].
  rewrite !maxabs_R.
  replace (1 + 1 * (1 / 2 * (1 / 2)) - (1 + 1 * (1 / 2))) with (-1/4) by lra.
  replace (1 + 1 * (1 / 2) - (1 + 1)) with (-1/2) by lra.
  assert (A1 : Rabs (-1/4) = 1/4) by (rewrite Rabs_left; lra).
  assert (A2 : Rabs (-1/2) = 1/2) by (rewrite Rabs_left; lra).
  rewrite A1, A2.
  assert (T1 : Rltb (1/2) 0 = false) by (apply Rltb_false; lra).
  assert (T2 : Rltb (1/4) 0 = false) by (apply Rltb_false; lra).
  rewrite T1, T2.
  assert (M1 : Rmax (Rabs (1 + 1 * (1/2))) (Rabs (1 + 1)) = 2).
  { rewrite !Rabs_right by lra. apply Rmax_right; lra. }
  assert (M2 : Rmax (Rabs (1 + 1 * (1 / 2 * (1 / 2)))) (Rabs (1 + 1 * (1/2))) = 3/2).
  { rewrite !Rabs_right by lra. replace (1 + 1 * (1/2)) with (3/2) by lra. apply Rmax_right; lra. }
  rewrite M1, M2.
  assert (B1 : Rleb (1/2) (2 * (1 / 4503599627370496)) = false) by (apply Rleb_false; lra).
  assert (B2 : Rleb (1/4) (3/2 * (1 / 4503599627370496)) = false) by (apply Rleb_false; lra).
  rewrite B1, B2. cbn [orb].
  apply Rleb_false.
  replace ((1 / (-1 / 4) - 1 / (-1 / 2) + 0) * (1 + 1 * (1 / 2))) with (-3) by (field).
  rewrite Rabs_left by lra. lra.
Qed.
