(* C06: layers (B) and (C) composed.  For every real-step or complex-step method, every n >= 1 and order >= 1, over any field of
   characteristic 0: with the progression (offset, step), the number of terms, the row, c_0 and the sign flip READ FROM THE
   REGENERATED TABLES, and the integer Taylor signature sigma of the stencil the name dispatch selects, a rule w that solves
   the moment system of _fd_matrix turns the stencil values of any polynomial of degree < n + method_order into n! g_n. *)
From Coq Require Import ZArith.
From mathcomp Require Import all_ssreflect all_algebra.
Require Import NDT.Gen.Spec NDT.Arith.OpsField NDT.Theory.RuleTables NDT.Theory.RuleTablesNat NDT.Theory.RuleExact.
Set Implicit Arguments. Unset Strict Implicit. Unset Printing Implicit Defensive.
Import GRing.Theory.
Local Open Scope ring_scope.

Section Z2F.
Variable F : fieldType.
Hypothesis char0 : [char F] =i pred0.
Notation zF := (@field_ofZ F).
Lemma natr_neq0 k : (0 < k)%N -> (k%:R : F) != 0.
Proof. by move=> k0; rewrite (proj1 (charf0P F) char0) -lt0n. Qed.
Lemma zF_eq0 z : zF z = 0 -> z = Z0.
Proof.
case: z => [|p|p] //= /eqP.
- by rewrite (negbTE (natr_neq0 _)) //; apply/ltP; exact: Pos2Nat.is_pos.
- by rewrite oppr_eq0 (negbTE (natr_neq0 _)) //; apply/ltP; exact: Pos2Nat.is_pos.
Qed.
Lemma zF_opp z : zF (Z.opp z) = - zF z.
Proof. by case: z => [|p|p] /=; rewrite ?oppr0 ?opprK. Qed.
Lemma zF_mul_sign z (b : bool) : zF (Z.mul z (if b then Zneg xH else Zpos xH)) = zF z * (if b then -1 else 1).
Proof.
case: b; last by rewrite Z.mul_1_r mulr1.
have -> : Z.mul z (Zneg xH) = Z.opp z by rewrite Z.mul_comm; case: z.
by rewrite zF_opp mulrN1.
Qed.
End Z2F.

Section Composed.
Variable F : fieldType.
Hypothesis char0 : [char F] =i pred0.
Variables (m : method) (n order : Z).
Hypotheses (Hn : Z.le (Zpos xH) n) (Ho : Z.le (Zpos xH) order) (Hm : m = Central \/ m = Forward \/ m = Backward \/ m = Complex).
Variables (rho h : F) (g w : nat -> F).
Hypothesis h0 : h != 0.
Notation zF := (@field_ofZ F).
Notation off := (offN m n order). Notation st := (stN m n order). Notation T := (termsN m n order). Notation r := (rowN m n order).
Let c0 : F := zF (c0Z m n order).
Let fl : F := if flip_fd_rule m n order then -1 else 1.
Let sig (k : nat) : F := zF (sigmaN m n order k).
(* the rule solves the moment system that _fd_matrix builds from the tables *)
Hypothesis wM : forall j, (j < T)%N ->
  \sum_(0 <= i < T) w i * (c0 / (off + st * j)`!%:R * rho ^+ (i * (off + st * j))) = (j == r)%:R.

Theorem rule_exact_from_tables :
  fl * (\sum_(0 <= i < T) w i * (\sum_(0 <= k < off + st * T) sig k * g k * (h * rho ^+ i) ^+ k)) / h ^+ (Z.to_nat n)
  = (Z.to_nat n)`!%:R * g (Z.to_nat n).
Proof.
have [st0 [c0n [idx [rT [supp [lead fl2]]]]]] := tables_nat m n order Hn Ho Hm.
apply: (@rule_exact F char0 off st T r (Z.to_nat n) rho h c0 fl sig g w).
- exact/ltP.
- exact: h0.
- by apply/eqP => e; exact: c0n (zF_eq0 char0 e).
- exact: idx.
- exact/ltP.
- move=> k _ np; rewrite /sig.
  have [-> //|nz] := Z.eq_dec (sigmaN m n order k) Z0.
  case/negP: np.
  have [le md] := supp k nz.
  apply/andP; split; first exact/leP.
  have st0' : (0 < st)%N by apply/ltP.
  by rewrite /dvdn -(modulo_modn _ st0') md.
- rewrite /sig /fl /c0 -lead /flZ; exact: esym (zF_mul_sign _ _ _).
- by rewrite /fl; case: (flip_fd_rule m n order); rewrite ?mulr1 // mulrNN mulr1.
- exact: wM.
Qed.
End Composed.
