(* C06 (C): from (i) index, (ii) support, (iii) leading coefficient, the stencil signature and w.M = e_r,
   the rule applied to the stencil values of any polynomial of degree < n + method_order, times the flip
   sign, over h^n, equals n! g_n = f^(n)(x).  Any field of characteristic 0. *)
From mathcomp Require Import all_ssreflect all_algebra.
From mathcomp.algebra_tactics Require Import ring.
Set Implicit Arguments. Unset Strict Implicit. Unset Printing Implicit Defensive.
Import GRing.Theory.
Local Open Scope ring_scope.

Section Reindex.
Variable F : zmodType.
(* sum over an arithmetic progression *)
Lemma sum_progression (off st T : nat) (G : nat -> F) : (0 < st)%N ->
  (forall k, (k < off + st * T)%N -> ~~ ((off <= k)%N && (st %| k - off)%N) -> G k = 0) ->
  \sum_(0 <= k < off + st * T) G k = \sum_(0 <= j < T) G (off + st * j)%N.
Proof.
move=> st0; elim: T => [|T IH] H.
  rewrite [RHS]big_geq //.
  apply: big1_seq => k; rewrite mem_index_iota muln0 addn0 /= => lt.
  apply: H; first by rewrite muln0 addn0.
  by rewrite leqNgt lt.
rewrite mulnS addnCA [in RHS]big_nat_recr //= -IH; last first.
  move=> k lt; apply: H; rewrite mulnS addnCA; exact: ltn_addl.
rewrite (@big_cat_nat _ _ _ (off + st * T)) //=; last exact: leq_addl.
congr (_ + _).
have lt0 : (off + st * T < st + (off + st * T))%N by rewrite -{1}[(off + st * T)%N]add0n ltn_add2r.
rewrite big_ltn //.
rewrite [X in _ + X]big1_seq ?addr0 // => k; rewrite mem_index_iota => /andP[_ /andP[lo hi]].
apply: H; first by rewrite mulnS addnCA.
apply/negP => /andP[le_off dv].
have b1 : (st * T < k - off)%N by rewrite ltn_subRL.
have b2 : (k - off < st * T.+1)%N by rewrite ltn_subLR // mulnS addnCA.
move/dvdnP: dv b1 b2 => [q ->]; rewrite [(q * st)%N]mulnC !ltn_mul2l st0 /= ltnS => a b.
by move: (leq_trans a b); rewrite ltnn.
Qed.
End Reindex.

Section RuleExact.
Variable F : fieldType.
Hypothesis char0 : [char F] =i pred0.
Variables (off st T r n : nat) (rho h c0 fl : F) (sigma g w : nat -> F).
Notation K := (off + st * T)%N.
Notation kx j := (off + st * j)%N.
Hypotheses (st0 : (0 < st)%N) (h0 : h != 0) (c0n : c0 != 0).
(* (i) the wanted derivative sits at row r; (ii) support; (iii) sign/size of the leading coefficient *)
Hypothesis idx : kx r = n.
Hypothesis rT : (r < T)%N.
Hypothesis supp : forall k, (k < K)%N -> ~~ ((off <= k)%N && (st %| k - off)%N) -> sigma k = 0.
Hypothesis lead : sigma n * fl = c0.
Hypothesis fl2 : fl * fl = 1.
(* polynomial of degree < K, Taylor coefficients g *)
(* stencil value at step h*rho^i, by the signature lemma (A) *)
Definition dval (i : nat) : F := \sum_(0 <= k < K) sigma k * g k * (h * rho ^+ i) ^+ k.
(* moment matrix as _fd_matrix builds it, and the rule = a row of its inverse *)
Definition M (i j : nat) : F := c0 / (kx j)`!%:R * rho ^+ (i * kx j).
Hypothesis wM : forall j, (j < T)%N -> \sum_(0 <= i < T) w i * M i j = (j == r)%:R.

Lemma fact_neq0 k : (k`!%:R : F) != 0.
Proof. by rewrite (proj1 (charf0P F) char0) -lt0n fact_gt0. Qed.

Theorem rule_exact : fl * (\sum_(0 <= i < T) w i * dval i) / h ^+ n = n`!%:R * g n.
Proof.
have dv i : dval i = \sum_(0 <= j < T) sigma (kx j) * g (kx j) * (h * rho ^+ i) ^+ kx j.
  rewrite /dval (@sum_progression _ off st T) // => k lt np; by rewrite supp // !mul0r.
have -> : \sum_(0 <= i < T) w i * dval i
        = \sum_(0 <= j < T) (sigma (kx j) * g (kx j) * h ^+ kx j * (kx j)`!%:R / c0) * \sum_(0 <= i < T) w i * M i j.
  under eq_bigr do rewrite dv mulr_sumr.
  rewrite exchange_big /=; apply: eq_bigr => j _; rewrite mulr_sumr; apply: eq_bigr => i _.
  rewrite /M exprMn -exprM.
  have := fact_neq0 (kx j); move: ((kx j)`!%:R) (rho ^+ (i * kx j)) (h ^+ kx j) => A B C An.
  by field; rewrite An c0n.
rewrite (big_nat_cond) (eq_bigr (fun j => (sigma (kx j) * g (kx j) * h ^+ kx j * (kx j)`!%:R / c0) * (j == r)%:R)); last first.
  by move=> j /andP[/andP[_ lt] _]; rewrite wM.
rewrite -big_nat_cond (bigD1_seq r) /= ?mem_index_iota ?rT ?iota_uniq // eqxx mulr1 idx big1_seq ?addr0; last first.
  by move=> j /andP[ne _]; rewrite (negbTE ne) mulr0.
have hn : h ^+ n != 0 by rewrite expf_neq0.
have : sigma n = c0 * fl by rewrite -lead -mulrA fl2 mulr1.
move=> ->; move: (h ^+ n) hn (n`!%:R) => H Hn A.
have -> : fl * (c0 * fl * g n * H * A / c0) / H = (fl * fl) * (c0 * g n * H * A / c0 / H) by field; rewrite Hn c0n.
by rewrite fl2 mul1r; field; rewrite Hn c0n.
Qed.
End RuleExact.

