(* C17: composition, in exact arithmetic, over the reals AND over the complex numbers (pairs of reals with
   numpy's lexicographic order): if on every circle the scaled FFT coefficient is  a + e1 x + e2 x^2  (x = r^m;
   i.e. f is a polynomial of degree < 3m, Theory/TaylorDft.v), then for any five or more circles with non-zero,
   pairwise distinct radii fornberg._extrapolate followed by _get_best_taylor_coefficients returns exactly a. *)
From Coq Require Import Reals ZArith List Bool Lia Lra.
Require Import NDT.Arith.Ops NDT.Arith.OpsR NDT.Arith.OpsC NDT.Model.Taylor NDT.Theory.TaylorAlias NDT.Theory.TaylorBest.
Import ListNotations.
Open Scope R_scope.

Lemma laws_R eps tiny huge : 0 <= eps -> ConstLaws (OpsR eps tiny huge).
Proof.
  intros He. constructor; cbn.
  - intros x. ring.
  - apply Rabs_R0.
  - intros x. apply Rleb_true. apply Rmult_le_pos; [|exact He]. unfold maxabs, npmax. cbn.
    destruct (Rltb (Rabs x) (Rabs x)); apply Rabs_pos.
  - intros x. ring.
Qed.

Lemma Cmod_nonneg z : 0 <= Cmod z.
Proof. unfold Cmod. apply sqrt_pos. Qed.
Lemma laws_C eps tiny huge : 0 <= eps -> ConstLaws (OpsC eps tiny huge).
Proof.
  intros He. constructor; cbn.
  - intros x. apply C_eq; cbn; ring.
  - unfold CofR, Cmod, Cnorm2. cbn. replace (0 * 0 + 0 * 0) with 0 by ring. rewrite sqrt_0. reflexivity.
  - intros x. unfold maxabs, npmax. cbn.
    assert (E : (if Cltb (CofR (Cmod x)) (CofR (Cmod x)) then CofR (Cmod x) else CofR (Cmod x)) = CofR (Cmod x)) by (destruct (Cltb _ _); reflexivity).
    rewrite E. unfold Cleb, Cmul, CofR. cbn.
    pose proof (Cmod_nonneg x) as Hm.
    assert (Hp : 0 <= Cmod x * eps - 0 * 0) by (rewrite Rmult_0_l, Rminus_0_r; apply Rmult_le_pos; assumption).
    destruct (Rlt_dec 0 (Cmod x * eps - 0 * 0)) as [Hlt|Hnlt].
    + assert (T : Rltb 0 (Cmod x * eps - 0 * 0) = true) by (apply Rltb_true; exact Hlt). rewrite T. reflexivity.
    + assert (Z : Cmod x * eps - 0 * 0 = 0) by lra. rewrite Z.
      assert (T2 : Reqb 0 0 = true) by (unfold Reqb; destruct (Req_EM_T 0 0); [reflexivity | lra]).
      assert (T3 : Rleb 0 (Cmod x * 0 + 0 * eps) = true) by (apply Rleb_true; lra).
      rewrite T2, T3. apply orb_true_r.
  - intros x. apply C_eq; cbn; ring.
Qed.

(* rich1 / pass only use subtraction and division: the abstract-field instance computes the same lists *)
Lemma pass_same {A} (O1 O2 : Ops A) : (forall x y, sub O1 x y = sub O2 x y) -> (forall x y, div O1 x y = div O2 x y) ->
  forall l cs, pass O1 l cs = pass O2 l cs.
Proof.
  intros Hs Hd. induction l as [|v0 t IH]; intros cs; [reflexivity|].
  destruct t as [|v1 t']; [reflexivity|]. destruct cs as [|c cs']; [reflexivity|].
  cbn [pass]. f_equal; [unfold rich1; rewrite !Hs, Hd; reflexivity | apply IH].
Qed.

Section OverR.
Variables eps tiny huge thr c8 c15 : R.
Hypothesis eps_nn : 0 <= eps.
Let O := OpsR eps tiny huge.
Let Abs := OpsAbs R 0 1 Rplus Rmult Rminus Ropp Rdiv.
Variables a e1 e2 : R.
Theorem taylor_exact_R xs floors : good R 0 Rminus xs -> (5 <= length xs)%nat -> length floors = (length xs - 4)%nat ->
  fst (fst (best O thr c8 c15 (extrapolate2 O (map (bval R Rplus Rmult a e1 e2) xs) (cs0 R 1 Rminus Rdiv xs) (cs1 R 1 Rminus Rdiv xs)) floors)) = a.
Proof.
  intros Hg H5 Hfl.
  assert (E : extrapolate2 O (map (bval R Rplus Rmult a e1 e2) xs) (cs0 R 1 Rminus Rdiv xs) (cs1 R 1 Rminus Rdiv xs) = repeat a (length xs - 2)).
  { unfold extrapolate2. rewrite (pass_same O Abs) by reflexivity. rewrite (pass_same O Abs) by reflexivity.
    exact (extrapolate_removes_aliases R 0 1 Rplus Rmult Rminus Ropp Rdiv Rinv Rfield a e1 e2 xs Hg). }
  rewrite E. apply (best_const O (laws_R eps tiny huge eps_nn)).
  - rewrite repeat_length. lia.
  - rewrite repeat_length. lia.
  - apply Forall_forall. intros x Hx. apply repeat_spec in Hx. exact Hx.
Qed.
End OverR.

Section OverC.
Variables eps tiny huge : R.
Variables thr c8 c15 : C.
Hypothesis eps_nn : 0 <= eps.
Let O := OpsC eps tiny huge.
Let Abs := OpsAbs C (0, 0) (1, 0) Cadd Cmul Csub Copp Cdiv.
Variables a e1 e2 : C.
Theorem taylor_exact_C xs floors : good C (0, 0) Csub xs -> (5 <= length xs)%nat -> length floors = (length xs - 4)%nat ->
  fst (fst (best O thr c8 c15 (extrapolate2 O (map (bval C Cadd Cmul a e1 e2) xs) (cs0 C (1, 0) Csub Cdiv xs) (cs1 C (1, 0) Csub Cdiv xs)) floors)) = a.
Proof.
  intros Hg H5 Hfl.
  assert (E : extrapolate2 O (map (bval C Cadd Cmul a e1 e2) xs) (cs0 C (1, 0) Csub Cdiv xs) (cs1 C (1, 0) Csub Cdiv xs) = repeat a (length xs - 2)).
  { unfold extrapolate2. rewrite (pass_same O Abs) by reflexivity. rewrite (pass_same O Abs) by reflexivity.
    exact (extrapolate_removes_aliases C (0, 0) (1, 0) Cadd Cmul Csub Copp Cdiv Cinv C_field_theory a e1 e2 xs Hg). }
  rewrite E. apply (best_const O (laws_C eps tiny huge eps_nn)).
  - rewrite repeat_length. lia.
  - rewrite repeat_length. lia.
  - apply Forall_forall. intros x Hx. apply repeat_spec in Hx. exact Hx.
Qed.
End OverC.
