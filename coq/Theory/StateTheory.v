(* C09: the rule cache is transparent for every history and every interleaving of calls. *)
From Coq Require Import List Bool Arith Lia.
Import ListNotations.
Section Cache.
Variables (key val cfg pt res : Type).
Variable key_eqb : key -> key -> bool.
Hypothesis key_eqb_spec : forall a b, key_eqb a b = true <-> a = b.
Variable compute : key -> val.                 (* pinv (fd_matrix key): deterministic function of the key *)
Variable key_of : cfg -> pt -> key.            (* (step_ratio, parity, num_terms) *)
Variable finish : cfg -> pt -> val -> res.     (* the rest of the call, given the rule matrix *)
Definition pure (c : cfg) (x : pt) : res := finish c x (compute (key_of c x)).

Definition cache := list (key * val).
Fixpoint lookup (m : cache) (k : key) : option val :=
  match m with [] => None | (k', v) :: t => if key_eqb k k' then Some v else lookup t k end.
Definition Inv (m : cache) : Prop := forall k v, lookup m k = Some v -> v = compute k.

Lemma Inv_nil : Inv []. Proof. intros k v H; discriminate. Qed.
Lemma Inv_put m k : Inv m -> Inv ((k, compute k) :: m).
Proof.
  intros H k' v; simpl. destruct (key_eqb k' k) eqn:E.
  - intros [= <-]. apply key_eqb_spec in E. now subst.
  - apply H.
Qed.

(* ---- sequential histories ---- *)
Inductive op := Call (c : cfg) (x : pt) | Clear.
Definition step (m : cache) (o : op) : cache * option res :=
  match o with
  | Clear => ([], None)
  | Call c x => let k := key_of c x in
      match lookup m k with
      | Some v => (m, Some (finish c x v))
      | None => let v := compute k in ((k, v) :: m, Some (finish c x v))
      end
  end.
Lemma step_inv m o : Inv m -> Inv (fst (step m o)).
Proof. destruct o as [c x|]; simpl; intros H; [|apply Inv_nil]. destruct (lookup m (key_of c x)); simpl; [exact H | now apply Inv_put]. Qed.
Lemma step_obs m c x : Inv m -> snd (step m (Call c x)) = Some (pure c x).
Proof. intros H; simpl. destruct (lookup m (key_of c x)) eqn:E; simpl; unfold pure; [now rewrite (H _ _ E) | reflexivity]. Qed.
Theorem history_independent ops c x :
  snd (step (fold_left (fun m o => fst (step m o)) ops []) (Call c x)) = Some (pure c x).
Proof.
  apply step_obs. generalize Inv_nil. generalize (@nil (key * val)) as m.
  induction ops as [|o ops IH]; intros m Hm; simpl; [exact Hm | apply IH, step_inv, Hm].
Qed.

(* ---- interleavings: each call is Lookup ; [Compute ; Store] ; Finish, dict get/set atomic ---- *)
Inductive pc := Start | Missed | Computed (v : val) | Have (v : val) | Done (r : res).
Record thread := { tc : cfg; tx : pt; tpc : pc }.
Definition tstep (m : cache) (t : thread) : cache * thread :=
  let k := key_of (tc t) (tx t) in
  match tpc t with
  | Start => match lookup m k with Some v => (m, {| tc := tc t; tx := tx t; tpc := Have v |}) | None => (m, {| tc := tc t; tx := tx t; tpc := Missed |}) end
  | Missed => (m, {| tc := tc t; tx := tx t; tpc := Computed (compute k) |})
  | Computed v => ((k, v) :: m, {| tc := tc t; tx := tx t; tpc := Have v |})
  | Have v => (m, {| tc := tc t; tx := tx t; tpc := Done (finish (tc t) (tx t) v) |})
  | Done r => (m, t)
  end.
Definition TInv (t : thread) : Prop :=
  match tpc t with
  | Computed v | Have v => v = compute (key_of (tc t) (tx t))
  | Done r => r = pure (tc t) (tx t)
  | _ => True end.
Lemma tstep_inv m t : Inv m -> TInv t -> Inv (fst (tstep m t)) /\ TInv (snd (tstep m t)).
Proof.
  intros Hm Ht. unfold tstep, TInv in *. destruct t as [c x p]; simpl in *. destruct p; simpl.
  - destruct (lookup m (key_of c x)) eqn:E; simpl; split; auto; try (now apply Hm).
  - split; auto.
  - subst v. split; [now apply Inv_put | reflexivity].
  - subst v. split; [exact Hm | reflexivity].
  - split; auto.
Qed.
(* global state: cache + threads; a schedule is a list of thread indices *)
Fixpoint upd_nth {A} (l : list A) (i : nat) (a : A) : list A :=
  match l, i with [], _ => [] | _ :: t, O => a :: t | b :: t, S j => b :: upd_nth t j a end.
Definition gstep (g : cache * list thread) (i : nat) : cache * list thread :=
  match nth_error (snd g) i with
  | None => g
  | Some t => let '(m', t') := tstep (fst g) t in (m', upd_nth (snd g) i t')
  end.
Definition GInv (g : cache * list thread) : Prop := Inv (fst g) /\ Forall TInv (snd g).
Lemma Forall_upd {A} (P : A -> Prop) l i a : Forall P l -> P a -> Forall P (upd_nth l i a).
Proof. revert i; induction l as [|b l IH]; intros [|i] Hl Ha; simpl; auto; inversion Hl; subst; constructor; auto. Qed.
Lemma gstep_inv g i : GInv g -> GInv (gstep g i).
Proof.
  intros [Hm Ht]. unfold gstep. destruct (nth_error (snd g) i) as [t|] eqn:E; [|split; assumption].
  assert (TInv t) by (eapply Forall_forall; [exact Ht | eapply nth_error_In; exact E]).
  destruct (tstep (fst g) t) as [m' t'] eqn:Et. pose proof (tstep_inv (fst g) t Hm H) as [H1 H2]. rewrite Et in *. simpl in *.
  split; simpl; [exact H1 | apply Forall_upd; assumption].
Qed.
Lemma fold_inv sched g0 : GInv g0 -> GInv (fold_left gstep sched g0).
Proof. revert g0; induction sched as [|i s IH]; intros g0 Hg; simpl; [exact Hg | apply IH, gstep_inv, Hg]. Qed.
Theorem schedule_independent (m0 : cache) (calls : list (cfg * pt)) (sched : list nat) :
  Inv m0 ->
  let g := fold_left gstep sched (m0, map (fun cx => {| tc := fst cx; tx := snd cx; tpc := Start |}) calls) in
  forall t r, In t (snd g) -> tpc t = Done r -> r = pure (tc t) (tx t).
Proof.
  intros Hm g t r Hin Hd.
  assert (HG : GInv g).
  { unfold g.
    assert (Hs : Forall TInv (map (fun cx : cfg * pt => {| tc := fst cx; tx := snd cx; tpc := Start |}) calls)).
    { apply Forall_forall; intros t0 Ht0; apply in_map_iff in Ht0 as [cx [<- _]]; exact I. }
    revert Hs. generalize (map (fun cx : cfg * pt => {| tc := fst cx; tx := snd cx; tpc := Start |}) calls) as ts.
    intros ts Hs.
    apply fold_inv. split; [exact Hm | exact Hs]. }
  destruct HG as [_ HT]. pose proof (proj1 (Forall_forall _ _) HT t Hin) as H. unfold TInv in H. now rewrite Hd in H.
Qed.
End Cache.


(* ---- the cache key of LogRule.rule(), from the regenerated tables ---- *)
From Coq Require Import ZArith QArith.
Require Import NDT.Gen.Spec.
(* key = (make_exact step_ratio, parity, num_terms); rule_key_is_fd_matrix_args (checked by the translator on the
   AST of rule()) says the cached value is pinv(_fd_matrix(key)): a function of the key alone *)
Definition rule_key (ratio : Q) (m : method) (n order : Z) : option (Q * Z * Z) :=
  if rule_trivial m n order then None else Some (ratio, rule_parity m n order, rule_num_terms m n order).
Definition key_eqb3 (a b : Q * Z * Z) : bool :=
  Qeq_bool (fst (fst a)) (fst (fst b)) && Z.eqb (snd (fst a)) (snd (fst b)) && Z.eqb (snd a) (snd b).
(* cache contents (key set) after a history of calls and clears, as the model predicts it *)
Inductive hop := HCall (ratio : Q) (m : method) (n order : Z) | HClear.
Definition add_key (ks : list (Q * Z * Z)) (k : Q * Z * Z) := if existsb (key_eqb3 k) ks then ks else k :: ks.
Definition hstep (ks : list (Q * Z * Z)) (o : hop) : list (Q * Z * Z) :=
  match o with
  | HClear => []
  | HCall r m n order => match rule_key r m n order with Some k => add_key ks k | None => ks end
  end.
Definition keys_after (ops : list hop) : list (Q * Z * Z) := fold_left hstep ops [].

(* ---- configuration setters: changing and restoring n / order / method restores the configuration ---- *)
Record config := { c_n : Z; c_order : Z; c_method : method }.
Inductive setter := SetN (v : Z) | SetOrder (v : Z) | SetMethod (v : method).
Definition apply_set (c : config) (s : setter) : config :=
  match s with
  | SetN v => {| c_n := v; c_order := c_order c; c_method := c_method c |}
  | SetOrder v => {| c_n := c_n c; c_order := v; c_method := c_method c |}
  | SetMethod v => {| c_n := c_n c; c_order := c_order c; c_method := v |}
  end.
Definition same_field (a b : setter) : bool :=
  match a, b with SetN _, SetN _ | SetOrder _, SetOrder _ | SetMethod _, SetMethod _ => true | _, _ => false end.
Lemma set_overwrites c a b : same_field a b = true -> apply_set (apply_set c a) b = apply_set c b.
Proof. destruct a, b; cbn; intros H; try discriminate; reflexivity. Qed.
(* change then restore: the configuration (and everything derived from it: the _derivative selector
   n = 0, method_order, richardson_step) is as after setting the original value directly *)
Theorem setters_restore c a b a' : same_field a b = true -> same_field b a' = true ->
  apply_set (apply_set (apply_set c a) b) a' = apply_set c a'.
Proof. intros H1 H2. rewrite (set_overwrites (apply_set c a) b a') by exact H2. apply set_overwrites. destruct a, b, a'; cbn in *; congruence. Qed.
Definition derivative_selector_zero (c : config) : bool := Z.eqb (c_n c) 0.
Theorem selector_follows_n c v : derivative_selector_zero (apply_set c (SetN v)) = Z.eqb v 0.
Proof. reflexivity. Qed.

(* ---- a shared step generator: its remembered state is overwritten at every call ---- *)
Section Generator.
Variables (opts st out : Type).
Variable produce : opts -> st -> out.       (* the sequence is a function of constructor options and the CURRENT state *)
Definition gen_call (o : opts) (_old new : st) : st * out := (new, produce o new).
Theorem gen_state_overwritten o (history : list st) s0 s :
  snd (gen_call o (fold_left (fun cur nxt => fst (gen_call o cur nxt)) history s0) s) = produce o s.
Proof. reflexivity. Qed.
End Generator.
