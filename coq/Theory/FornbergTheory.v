From mathcomp Require Import all_ssreflect all_algebra.
From mathcomp.algebra_tactics Require Import ring.
Require Import NDT.Model.Fornberg NDT.Theory.PolyLemmas.
Set Implicit Arguments. Unset Strict Implicit. Unset Printing Implicit Defensive.
Import GRing.Theory.
Local Open Scope ring_scope.

Section Proof.
Variable F : fieldType.
Definition FO : FdOps F := @MkFdOps F 0 1 +%R (fun x y => x - y) *%R (fun x y => x / y) (fun k => k%:R).

Variables (xs : seq F) (x0 : F) (n : nat).
Hypothesis xs_uniq : uniq xs.
Notation x_ i := (nth 0 xs i).
Notation m := (size xs).

(* c2 at stage i : prod_{v<i} (x_i - x_v) *)
Definition cprod (i : nat) : F := \prod_(v <- iota 0 i) (x_ i - x_ v).

Lemma foldl_cprod i : foldl (fun c v => c * (x_ i - x_ v)) 1 (iota 0 i) = cprod i.
Proof.
rewrite /cprod; elim/last_ind: (iota 0 i) => [|s v IH]; first by rewrite big_nil.
by rewrite -cats1 foldl_cat IH big_cat big_seq1.
Qed.

Lemma cprod_neq0 i : (i < m)%N -> cprod i != 0.
Proof.
move=> lt_im; rewrite /cprod prodf_seq_neq0; apply/allP => v; rewrite mem_iota /= add0n => lt_vi.
rewrite subr_eq0; apply/negP => /eqP e.
have lt_vm : (v < m)%N by apply: ltn_trans lt_im.
have /eqP := e; rewrite (nth_uniq 0 lt_im lt_vm xs_uniq) => /eqP e2.
by move: lt_vi; rewrite -e2 ltnn.
Qed.

(* Lagrange basis of nodes x_0..x_i, built the way the algorithm builds it *)
Fixpoint Lb (i v : nat) : {poly F} :=
  match i with
  | 0%N => if v == 0%N then 1 else 0
  | j.+1 => if (v <= j)%N then (x_ v - x_ j.+1)^-1 *: (Lb j v * ('X - (x_ j.+1)%:P))
            else if v == j.+1 then (cprod j / cprod j.+1) *: (Lb j j * ('X - (x_ j)%:P))
            else 0
  end.

Lemma Lb_gt i v : (i < v)%N -> Lb i v = 0.
Proof.
elim: i v => [|j IH] v /=; first by case: v.
move=> lt; rewrite leqNgt (ltn_trans (ltnSn j) lt) /=.
by rewrite (gtn_eqF lt).
Qed.

Lemma size_Lb i v : (size (Lb i v) <= i.+1)%N.
Proof.
elim: i v => [|j IH] v /=; first by case: ifP => _; rewrite ?size_poly1 ?size_poly0.
have szm (p : {poly F}) : (size p <= j.+1)%N -> (size (p * ('X - (x_ j.+1)%:P))%R <= j.+2)%N /\ (size (p * ('X - (x_ j)%:P))%R <= j.+2)%N.
  move=> sp; split; apply: leq_trans (size_mul_leq _ _) _; rewrite size_XsubC addn2 /=; exact: sp.
case: ifP => _; first by apply: leq_trans (size_scale_leq _ _) _; case: (szm _ (IH v)).
case: ifP => _; last by rewrite size_poly0.
by apply: leq_trans (size_scale_leq _ _) _; case: (szm _ (IH j)).
Qed.

Lemma derivn_Lb_big i v k : (i < k)%N -> (Lb i v)^`(k) = 0.
Proof. by move=> lt; apply: derivn_poly0; apply: leq_trans (size_Lb i v) lt. Qed.

(* specification value *)
Definition W (i v k : nat) : F := ((Lb i v)^`(k)).[x0].

Lemma W_old j v k : (v <= j)%N -> (j.+1 < m)%N ->
  W j.+1 v k = ((x_ j.+1 - x0) * W j v k - k%:R * (if k is k'.+1 then W j v k' else 0)) / (x_ j.+1 - x_ v).
Proof.
move=> le_vj lt_jm; rewrite /W /= le_vj derivn_scale_horner horner_derivn_mulXsubC.
have ne : x_ j.+1 - x_ v != 0.
  rewrite subr_eq0; apply/negP => /eqP e.
  have lt_vm : (v < m)%N by apply: leq_ltn_trans le_vj (ltn_trans (ltnSn j) lt_jm).
  have /eqP := e; rewrite (nth_uniq 0 lt_jm lt_vm xs_uniq) => /eqP e2.
  by move: le_vj; rewrite -e2 ltnn.
have ne' : x_ v - x_ j.+1 != 0 by rewrite -opprB oppr_eq0.
case: k => [|k] /=.
  rewrite mulr0n; field; by rewrite ne ne'.
rewrite -mulr_natr; field; by rewrite ne ne'.
Qed.

Lemma W_new j k : (j.+1 < m)%N ->
  W j.+1 j.+1 k = (cprod j * (k%:R * (if k is k'.+1 then W j j k' else 0) - (x_ j - x0) * W j j k)) / cprod j.+1.
Proof.
move=> lt_jm; rewrite /W /= ltnn eqxx derivn_scale_horner horner_derivn_mulXsubC.
have ne := cprod_neq0 lt_jm.
case: k => [|k] /=.
  rewrite mulr0n; field; by rewrite ne.
rewrite -mulr_natr; field; by rewrite ne.
Qed.

Lemma W_gt i v k : (i < v)%N -> W i v k = 0.
Proof. by move=> lt; rewrite /W Lb_gt // derivn_poly0 ?horner0 // size_poly0. Qed.

Lemma W_big i v k : (i < k)%N -> W i v k = 0.
Proof. by move=> lt; rewrite /W derivn_Lb_big // horner0. Qed.

Lemma W_init v k : W 0 v k = if (v == 0%N) && (k == 0%N) then 1 else 0.
Proof.
rewrite /W /=; case: (v == 0%N) => /=; last by rewrite derivn_poly0 ?horner0 // size_poly0.
rewrite -[1]/(1%:P) derivnC; case: (k == 0%N); by rewrite ?hornerC ?horner0.
Qed.

Definition rows_ok (i : nat) (rows : seq (seq F)) : Prop :=
  size rows = m /\
  forall v, (v < m)%N -> size (nth [::] rows v) = n.+1 /\
    forall k, (k <= n)%N -> nth 0 (nth [::] rows v) k = W i v k.

Lemma init_ok : rows_ok 0 (init_rows FO m n).
Proof.
split; first by rewrite size_mkseq.
move=> v lt_vm; rewrite nth_mkseq // size_mkseq; split=> // k le_kn.
by rewrite nth_mkseq // W_init.
Qed.

Lemma c6_spec i v (row : seq F) k : size row = n.+1 -> (k <= n)%N ->
  (forall k', (k' <= n)%N -> nth 0 row k' = W i v k') ->
  c6 FO row k = k%:R * (if k is k'.+1 then W i v k' else 0).
Proof.
move=> sz le_kn H; rewrite /c6 /=; case: k le_kn => [|k] le_kn; first by rewrite !mul0r.
by rewrite H // ltnW.
Qed.

Lemma stage_ok j rows c1 c4 : (j.+1 < m)%N ->
  rows_ok j rows -> c1 = cprod j -> c4 = x_ j - x0 ->
  let: (rows', c2, c4') := stage FO xs x0 n j.+1 (rows, c1, c4) in
  rows_ok j.+1 rows' /\ c2 = cprod j.+1 /\ c4' = x_ j.+1 - x0.
Proof.
move=> lt_jm [szr Hr] -> ->; rewrite /stage foldl_cprod; split; last by [].
split; first by rewrite size_mkseq.
move=> v lt_vm; rewrite nth_mkseq ?szr //.
have [szv Hv] := Hr v lt_vm.
case: ltnP => [lt_v|le_v].
- (* old rows *)
  rewrite /upd_old size_mkseq szv; split=> // k le_kn; rewrite nth_mkseq ?szv //.
  case: leqP => [le_k|gt_k].
  + by rewrite (c6_spec szv le_kn Hv) Hv // W_old.
  + have lt_jk : (j.+1 < k)%N.
      by move: gt_k; rewrite gtn_min [(n < k)%N]ltnNge le_kn orbF.
    by rewrite Hv // W_big ?W_big // ltnW.
- have [szj Hj] := Hr j (ltn_trans (ltnSn j) lt_jm).
  case: eqP => [->|/eqP ne_v].
  + rewrite /new_row size_mkseq szj; split=> // k le_kn; rewrite nth_mkseq ?szj //.
    case: leqP => [le_k|gt_k].
    * by rewrite (c6_spec szj le_kn Hj) Hj // W_new.
    * have lt_jk : (j.+1 < k)%N by move: gt_k; rewrite gtn_min [(n < k)%N]ltnNge le_kn orbF.
      by rewrite W_big.
  + split=> // k le_kn; have lt_v : (j.+1 < v)%N by rewrite ltn_neqAle eq_sym ne_v le_v.
    by rewrite Hv // !W_gt // ltnW.
Qed.

Lemma fdw_state_ok upto : (upto < m)%N ->
  let: (rows, c1, c4) := fdw_state FO xs x0 n upto in
  rows_ok upto rows /\ c1 = cprod upto /\ c4 = x_ upto - x0.
Proof.
elim: upto => [|j IH] lt.
  by rewrite /fdw_state /=; split; [exact: init_ok | rewrite /cprod big_nil].
have := IH (ltn_trans (ltnSn j) lt).
have -> : fdw_state FO xs x0 n j.+1 = stage FO xs x0 n j.+1 (fdw_state FO xs x0 n j).
  by rewrite /fdw_state -(addn1 j) iotaD foldl_cat /= add1n addn1.
case: (fdw_state _ _ _ _ _) => [[rows c1] c4] [ok [e1 e4]].
exact: stage_ok.
Qed.

(* ---- main theorem: row k, column v of fd_weights_all is the k-th derivative at x0 of the basis polynomial ---- *)
Theorem fd_weights_all_spec : (n < m)%N ->
  exists w, fd_weights_all FO xs x0 n = Some w /\
    forall k v, (k <= n)%N -> (v < m)%N -> nth 0 (nth [::] w k) v = W m.-1 v k.
Proof.
move=> lt_nm; rewrite /fd_weights_all lt_nm; eexists; split; first by [].
move=> k v le_kn lt_vm.
have lt_pm : (m.-1 < m)%N by rewrite prednK // (leq_ltn_trans (leq0n n)).
have := fdw_state_ok lt_pm; case: (fdw_state _ _ _ _ _) => [[rows c1] c4] /= [[_ Hr] _].
rewrite nth_mkseq ?ltnS // nth_mkseq //.
by have [_ ->] := Hr v lt_vm.
Qed.

(* ---- the algorithm's polynomials are the Lagrange basis ---- *)
Lemma xneq u v : (u < m)%N -> (v < m)%N -> u != v -> x_ u - x_ v != 0.
Proof.
move=> lu lv ne; rewrite subr_eq0; apply/negP => /eqP e.
by have /eqP := e; rewrite (nth_uniq 0 lu lv xs_uniq); apply/negP.
Qed.

Lemma Lb_diag i : (i < m)%N ->
  Lb i i = (cprod i)^-1 *: \prod_(u <- iota 0 i) ('X - (x_ u)%:P).
Proof.
elim: i => [|j IH] lt; first by rewrite /= /cprod !big_nil invr1 scale1r.
have lt' := ltn_trans (ltnSn j) lt.
have io : iota 0 j.+1 = iota 0 j ++ [:: j] by rewrite -(addn1 j) iotaD add0n.
rewrite io big_cat big_seq1 [Lb j.+1 j.+1]/= ltnn eqxx IH // -scalerAl scalerA.
congr (_ *: _); rewrite mulrAC divff ?mul1r //; exact: cprod_neq0.
Qed.

Lemma Lb_node i u v : (i < m)%N -> (u <= i)%N -> (v <= i)%N ->
  (Lb i v).[x_ u] = (u == v)%:R.
Proof.
elim: i u v => [|j IH] u v lt.
  by rewrite !leqn0 => /eqP -> /eqP ->; rewrite /= hornerC.
have lt' := ltn_trans (ltnSn j) lt.
move=> le_u le_v /=; case: (leqP v j) => [le_vj|lt_jv].
- rewrite hornerZ hornerM hornerXsubC.
  have lt_vm : (v < m)%N := leq_ltn_trans le_vj lt'.
  move: le_u; rewrite leq_eqVlt => /orP[/eqP ->|].
    by rewrite subrr mulr0 mulr0 (gtn_eqF) // ltnS.
  rewrite ltnS => le_uj; rewrite IH //.
  case: eqP => [->|ne]; last by rewrite mul0r mulr0.
  by rewrite mul1r mulVf // xneq // neq_ltn ltnS le_vj.
- have -> : v = j.+1 by apply/eqP; rewrite eqn_leq le_v lt_jv.
  rewrite eqxx.
  have -> : (cprod j / cprod j.+1) *: (Lb j j * ('X - (x_ j)%:P)) = Lb j.+1 j.+1 by rewrite /= ltnn eqxx.
  rewrite Lb_diag // hornerZ horner_prod.
  move: le_u; rewrite leq_eqVlt => /orP[/eqP ->|].
    rewrite eqxx; under eq_bigr do rewrite hornerXsubC.
    by rewrite -/(cprod j.+1) mulVf // cprod_neq0.
  rewrite ltnS => le_uj; rewrite (ltn_eqF) ?ltnS //.
  have uin : u \in iota 0 j.+1 by rewrite mem_iota add0n /= ltnS.
  by rewrite (big_rem u uin) /= hornerXsubC subrr mul0r mulr0.
Qed.

(* interpolation: every polynomial of size <= m is the combination of the basis *)
Lemma interp (p : {poly F}) : (0 < m)%N -> (size p <= m)%N ->
  p = \sum_(v < m) p.[x_ v] *: Lb m.-1 v.
Proof.
move=> m0 sp; apply/eqP; rewrite -subr_eq0; apply/eqP.
have lt_pm : (m.-1 < m)%N by rewrite prednK.
apply: (@roots_geq_poly_eq0 _ _ xs) => //.
- apply/allP => y /(nthP 0)[u lt_um <-]; rewrite /root hornerD hornerN horner_sum.
  rewrite (bigD1 (Ordinal lt_um)) //= hornerZ Lb_node //; last 2 first.
  + by rewrite -ltnS prednK.
  + by rewrite -ltnS prednK.
  rewrite eqxx mulr1 big1 ?addr0 ?subrr // => w ne.
  rewrite hornerZ Lb_node //; last 2 first.
  + by rewrite -ltnS prednK.
  + by rewrite -ltnS prednK // ltn_ord.
  have -> : (u == w) = false by apply/negbTE; move: ne; rewrite eq_sym.
  by rewrite mulr0.
- apply: leq_trans (size_add _ _) _; rewrite size_opp geq_max sp /=.
  apply: leq_trans (size_sum _ _ _) _; apply/bigmax_leqP => w _.
  apply: leq_trans (size_scale_leq _ _) _.
  by apply: leq_trans (size_Lb _ _) _; rewrite prednK.
Qed.

Theorem fd_weights_exact_on_poly (p : {poly F}) k : (n < m)%N -> (k <= n)%N -> (size p <= m)%N ->
  \sum_(v < m) W m.-1 v k * p.[x_ v] = (p^`(k)).[x0].
Proof.
move=> lt_nm le_kn sp.
have m0 : (0 < m)%N by apply: leq_ltn_trans lt_nm.
rewrite [in RHS](interp m0 sp) linear_sum horner_sum; apply: eq_bigr => v _.
by rewrite /W linearZ /= hornerZ mulrC.
Qed.
End Proof.
