(* C01 / C02: the post-evaluation pipeline (exact arithmetic, R).
   - if the derivative estimates handed to Richardson have the modelled form  L + sum_j a_j (h0 rho^t)^(k_j),
     the value returned by the whole pipeline (Richardson, dea3, outlier penalty, arg-min, gather) is L;
   - the returned error estimate is non-negative; value, error and final step are gathered with the same index. *)
From Coq Require Import Reals ZArith List Bool Lia Lra.
Require Import NDT.Arith.Ops NDT.Arith.OpsR NDT.Model.Convolve NDT.Model.Richardson NDT.Model.Dea3 NDT.Model.Select
               NDT.Model.Pipeline NDT.Theory.ListAux NDT.Theory.RichardsonTheory NDT.Theory.Dea3Theory.
Import ListNotations.
Open Scope R_scope.

Section Pipe.
Variables eps tiny huge tf : R.
Hypotheses (eps_nn : 0 <= eps) (tiny_nn : 0 <= tiny).
Let O := OpsR eps tiny huge.
Let thr := 1 / 10000.
Variables c8 c15 ch : R.
Hypothesis c15_nn : 0 <= c15.

(* --- selection never leaves the list --- *)
Lemma argmin_mid_lt errs : errs <> [] -> (argmin_mid O errs < length errs)%nat.
Proof.
  intros H. destruct errs as [|e0 rest]; [congruence|]. unfold argmin_mid.
  match goal with |- (nth ?k ?idx 0%nat < _)%nat => destruct (nth_in_or_default k idx 0%nat) as [Hin|Hd] end.
  - apply filter_In in Hin as [Hin _]. apply in_seq in Hin. cbn [length] in *. lia.
  - rewrite Hd. cbn. lia.
Qed.

Lemma penal_length trim der errs : length (penal O c8 c15 ch trim der errs) = length (combine der errs).
Proof. unfold penal. rewrite map_length. reflexivity. Qed.

(* --- dea3 on a constant triple returns the constant --- *)
Lemma dea3k_const L : fst (dea3k O thr L L L) = L.
Proof.
  unfold dea3k. cbn [fst].
  assert (C : dea3_conv O thr L L L = true).
  { unfold dea3_conv. cbn -[maxabs]. replace (L - L) with 0 by lra. rewrite Rabs_R0.
    assert (T : Rleb 0 (maxabs O L L * eps) = true).
    { apply Rleb_true. apply Rmult_le_pos; [|exact eps_nn]. unfold maxabs, npmax. cbn. unfold Rltb.
      destruct (Rlt_dec (Rabs L) (Rabs L)); apply Rabs_pos. }
    rewrite T. reflexivity. }
  rewrite C. cbn. lra.
Qed.

Lemma triples_eq a b c t : triples O thr (a :: b :: c :: t) = dea3k O thr a b c :: triples O thr (b :: c :: t).
Proof. reflexivity. Qed.
Lemma triples_const_n L : forall n l, (length l <= n)%nat -> Forall (fun x => x = L) l -> Forall (fun x => x = L) (map fst (triples O thr l)).
Proof.
  induction n as [|n IH]; intros l Hl HF.
  - destruct l; [constructor | cbn in Hl; lia].
  - destruct l as [|a l1]; [cbn; constructor|]. destruct l1 as [|b l2]; [cbn; constructor|]. destruct l2 as [|c t]; [cbn; constructor|].
    rewrite triples_eq. cbn [map]. constructor.
    + inversion HF as [|? ? Ha HF1]; subst. inversion HF1 as [|? ? Hb HF2]; subst. inversion HF2 as [|? ? Hc HF3]; subst.
      apply dea3k_const.
    + apply IH; [cbn in *; lia|]. inversion HF; assumption.
Qed.
Lemma triples_const L l : Forall (fun x => x = L) l -> Forall (fun x => x = L) (map fst (triples O thr l)).
Proof. apply (triples_const_n L (length l)). lia. Qed.

Lemma nthA_const L l i : Forall (fun x => x = L) l -> (i < length l)%nat -> nthA O l i = L.
Proof.
  intros HF Hi. unfold nthA. rewrite Forall_forall in HF. apply HF. apply nth_In. exact Hi.
Qed.

Lemma triples_length_n : forall n l, (length l <= n)%nat -> length (triples O thr l) = (length l - 2)%nat.
Proof.
  induction n as [|n IH]; intros l Hl.
  - destruct l; [reflexivity | cbn in Hl; lia].
  - destruct l as [|a l1]; [reflexivity|]. destruct l1 as [|b l2]; [reflexivity|]. destruct l2 as [|c t]; [reflexivity|].
    rewrite triples_eq. cbn [length]. rewrite IH by (cbn in *; lia). cbn [length]. lia.
Qed.
Lemma triples_length l : length (triples O thr l) = (length l - 2)%nat.
Proof. apply (triples_length_n (length l)). lia. Qed.

(* --- the extrapolation stage returns L whenever every Richardson output is L --- *)
Lemma argmin_mid_bound errs n : (length errs <= n)%nat -> (0 < n)%nat -> (argmin_mid O errs < n)%nat.
Proof.
  intros Hl Hn. destruct errs as [|e0 rest] eqn:E; [cbn; exact Hn|].
  pose proof (argmin_mid_lt (e0 :: rest)) as H. assert (Hne : e0 :: rest <> []) by congruence. specialize (H Hne). lia.
Qed.

Theorem extrapolate_const L der hs rr :
  let d1 := fst (fst (rich O tf der hs rr)) in
  d1 <> [] -> Forall (fun x => x = L) d1 ->
  fst (fst (fst (extrapolate O tf thr c8 c15 ch der hs rr))) = L.
Proof.
  intros d1 Hne HF. unfold extrapolate. fold O.
  destruct (rich O tf der hs rr) as [[d1' e1] s1] eqn:ER. cbn [fst snd] in *. subst d1.
  assert (Hpos : (0 < length d1')%nat) by (destruct d1'; [congruence | cbn; lia]).
  destruct (Nat.ltb_spec 2 (length d1')) as [H2|H2].
  - cbn [fst]. apply nthA_const; [apply triples_const; exact HF|].
    rewrite map_length, triples_length.
    apply argmin_mid_bound; [|lia].
    rewrite penal_length, combine_length, !map_length, triples_length. lia.
  - cbn [fst]. apply nthA_const; [exact HF|].
    apply argmin_mid_bound; [|exact Hpos].
    rewrite penal_length, combine_length. lia.
Qed.
End Pipe.

(* ---- composition with C07: estimates of the modelled form are mapped to L by the whole pipeline ---- *)
Section Exact.
Variables eps tiny huge tf c8 c15 ch : R.
Hypothesis eps_nn : 0 <= eps.
Let O := OpsR eps tiny huge.
Variables (rho L h0 : R) (w : list R) (terms : list (R * nat)).
Hypothesis w_sum : wsum w (fun _ => 1) = 1.
Hypothesis w_annihilates : forall a k, In (a, k) terms -> wsum w (fun i => rho ^ (i * k)) = 0.
Hypothesis w_nonempty : (1 <= length w)%nat.
Hypothesis w_not_sym : symcode O w = 0%Z \/ length w = 1%nat.

Theorem pipeline_value_exact len hs : (length w <= len)%nat -> (len - (length w - 1) <= length hs)%nat ->
  fst (fst (fst (extrapolate O tf (1/10000) c8 c15 ch (map (sq rho L h0 terms) (seq 0 len)) hs w))) = L.
Proof.
  intros Hl Hh.
  pose proof (rich_count_gen eps tiny huge tf (map (sq rho L h0 terms) (seq 0 len)) hs w) as [C1 C2].
  rewrite map_length, seq_length in C1, C2.
  assert (Lpos : (0 < len - (length w - 1))%nat) by lia.
  unfold O in *. apply extrapolate_const; try assumption.
  - intro E. rewrite E in C1. cbn in C1. lia.
  - apply Forall_forall. intros x Hx. apply In_nth with (d := 0) in Hx as [i [Hi <-]].
    rewrite C1 in Hi.
    apply (rich_exact eps tiny huge tf rho L h0 w terms w_sum w_annihilates w_nonempty w_not_sym len hs i Hl). lia.
Qed.
End Exact.

(* ---- C02: the returned error estimate is non-negative; same index for value, error and step ---- *)
Section Honest.
Variables eps tiny huge tf c8 c15 ch : R.
Hypotheses (eps_nn : 0 <= eps) (c15_nn : 0 <= c15).
Let O := OpsR eps tiny huge.
Let thr := 1 / 10000.

Lemma b2a_nonneg b : 0 <= b2a O b.
Proof. destruct b; cbn; lra. Qed.

Lemma penal_nonneg trim der errs : Forall (fun e => 0 <= e) errs -> Forall (fun e => 0 <= e) (penal O c8 c15 ch trim der errs).
Proof.
  intros HF. unfold penal. apply Forall_forall. intros x Hx. apply in_map_iff in Hx as [[v e] [<- Hin]].
  apply in_combine_r in Hin. rewrite Forall_forall in HF. specialize (HF e Hin).
  cbn -[b2a pct].
  repeat match goal with |- context [b2a O ?b] => pose proof (b2a_nonneg b); generalize dependent (b2a O b); intros end.
  match goal with |- 0 <= e + ?o * Rabs ?d => assert (0 <= o) by nra; pose proof (Rabs_pos d); nra end.
Qed.

Lemma triples_err_nonneg_n : forall n l, (length l <= n)%nat -> Forall (fun e => 0 <= e) (map snd (triples O thr l)).
Proof.
  induction n as [|n IH]; intros l Hl.
  - destruct l; [constructor | cbn in Hl; lia].
  - destruct l as [|a l1]; [cbn; constructor|]. destruct l1 as [|b l2]; [cbn; constructor|]. destruct l2 as [|c t]; [cbn; constructor|].
    change (triples O thr (a :: b :: c :: t)) with (dea3k O thr a b c :: triples O thr (b :: c :: t)). cbn [map]. constructor.
    + apply (dea3_abserr_nonneg eps tiny huge eps_nn a b c).
    + apply IH. cbn in *. lia.
Qed.

Theorem extrapolate_err_nonneg der hs rr : 0 <= snd (fst (fst (extrapolate O tf thr c8 c15 ch der hs rr))).
Proof.
  unfold extrapolate. fold O.
  pose proof (rich_err_nonneg eps tiny huge tf eps_nn der hs rr) as HR. fold O in HR.
  destruct (rich O tf der hs rr) as [[d1 e1] s1]. cbn [fst snd] in *.
  assert (G : forall errs ix, Forall (fun e => 0 <= e) errs -> 0 <= nthA O errs ix).
  { intros errs ix HF. unfold nthA. destruct (nth_in_or_default ix errs (zero O)) as [Hin|Hd].
    - rewrite Forall_forall in HF. apply HF. exact Hin.
    - rewrite Hd. cbn. lra. }
  destruct (2 <? length d1); cbn [fst snd]; apply G; apply penal_nonneg.
  - apply (triples_err_nonneg_n (length d1)). lia.
  - exact HR.
Qed.

(* value, error estimate and final step are the entries at ONE index of the three aligned sequences *)
Theorem extrapolate_same_index der hs rr :
  exists d1 errs s1 ix,
    extrapolate O tf thr c8 c15 ch der hs rr = (nthA O d1 ix, nthA O errs ix, nthA O s1 ix, ix).
Proof.
  unfold extrapolate. fold O. destruct (rich O tf der hs rr) as [[d1 e1] s1].
  destruct (2 <? length d1); eexists; eexists; eexists; eexists; reflexivity.
Qed.

(* n = 0: one row, the trivial rules: the value is f(x) itself (times 1) *)
Theorem zero_order_value v s : fst (fst (fst (extrapolate O tf thr c8 c15 ch [v] [s] [1]))) = v.
Proof.
  apply (extrapolate_const eps tiny huge tf eps_nn c8 c15 ch v [v] [s] [1]).
  - unfold rich. cbv zeta. cbn. discriminate.
  - unfold rich. cbv zeta. cbn. constructor; [unfold nthA; cbn; lra | constructor].
Qed.
End Honest.
