(* C04, exact-arithmetic core closed end to end (R): for a quadratic f of any number of variables, every entry of Hessian(f)(x) --
   the stencil of Model/HessStencil.v (the source's order of operations and its division by h[j]*h[i]) evaluated at every trial
   step, then Richardson, dea3, outlier penalty, arg-min, gather (Model/Pipeline.v's extrapolate) -- is EXACTLY the second partial
   derivative B(e_i, e_j), for the 'forward', 'backward', 'central2' and 'central' formulas, every number of steps, every
   non-zero step sizes (a different one per coordinate and per trial), every Richardson rule whose weights sum to one.
   Composition of Theory/HessianTheory.v (stencil identities on quadratics) with Theory/PipelineTheory.v (selection). *)
From Coq Require Import Reals ZArith List Lia Lra RealField.
Require Import NDT.Arith.Ops NDT.Arith.OpsR NDT.Model.Convolve NDT.Model.Richardson NDT.Model.Pipeline NDT.Model.HessStencil
               NDT.Theory.ListAux NDT.Theory.RichardsonTheory NDT.Theory.PipelineTheory NDT.Theory.HessianTheory.
Import ListNotations.
Open Scope R_scope.

Section Const.
Variables eps tiny huge tf c8 c15 ch : R.
Hypothesis eps_nn : 0 <= eps.
Let O := OpsR eps tiny huge.
Variable rr : list R.
Hypotheses (rr_sum : wsum rr (fun _ => 1) = 1) (rr_len : (1 <= length rr)%nat) (rr_plain : symcode O rr = 0%Z \/ length rr = 1%nat).

(* estimates that are the same number L at every trial step are returned as L, whatever the steps *)
Lemma extrapolate_of_constants (L : R) (F : nat -> R) len hs :
  (forall t, (t < len)%nat -> F t = L) ->
  (length rr <= len)%nat -> (len - (length rr - 1) <= length hs)%nat ->
  fst (fst (fst (extrapolate O tf (1/10000) c8 c15 ch (map F (seq 0 len)) hs rr))) = L.
Proof.
  intros HF Hl Hh.
  assert (E : map F (seq 0 len) = map (sq 1 L 1 []) (seq 0 len)).
  { apply map_ext_in. intros t Ht. apply in_seq in Ht. rewrite HF by lia. unfold sq. cbn. lra. }
  rewrite E.
  apply (pipeline_value_exact eps tiny huge tf c8 c15 ch eps_nn 1 L 1 rr [] rr_sum); try assumption.
  intros a k [].
Qed.
End Const.

Section Hess.
Variables eps tiny huge tf c8 c15 ch : R.
Hypothesis eps_nn : 0 <= eps.
Let O := OpsR eps tiny huge.
Variable rr : list R.
Hypotheses (rr_sum : wsum rr (fun _ => 1) = 1) (rr_len : (1 <= length rr)%nat) (rr_plain : symcode O rr = 0%Z \/ length rr = 1%nat).
(* the quadratic, over a real vector space *)
Variable V : Type.
Variables (vadd : V -> V -> V) (vneg : V -> V) (smul : R -> V -> V).
Variables (x : V) (f : V -> R) (f0 : R) (L : V -> R) (B : V -> V -> R).
Hypothesis f_quad : forall u, f (vadd x u) = f0 + L u + B u u / (1 + 1).
Hypothesis L_add : forall u w, L (vadd u w) = L u + L w.
Hypothesis L_neg : forall u, L (vneg u) = - L u.
Hypothesis B_addl : forall u w z, B (vadd u w) z = B u z + B w z.
Hypothesis B_addr : forall u w z, B z (vadd u w) = B z u + B z w.
Hypothesis B_negl : forall u z, B (vneg u) z = - B u z.
Hypothesis B_negr : forall u z, B z (vneg u) = - B z u.
Hypothesis B_sym : forall u w, B u w = B w u.
Hypothesis B_scall : forall s u w, B (smul s u) w = s * B u w.
Hypothesis B_scalr : forall s u w, B u (smul s w) = s * B u w.
(* coordinates i and j: unit vectors, and the step sizes of trial t *)
Variables (ei ej : V) (hi hj : nat -> R).
Variable len : nat.
Hypothesis hi_nz : forall t, (t < len)%nat -> hi t <> 0.
Hypothesis hj_nz : forall t, (t < len)%nat -> hj t <> 0.
Variable hs : list R.
Hypotheses (enough : (length rr <= len)%nat) (hs_len : (len - (length rr - 1) <= length hs)%nat).
Let a t := smul (hi t) ei.
Let b t := smul (hj t) ej.
Let two_neq0 : 1 + 1 <> 0. Proof. lra. Qed.
Notation QOPS := (OpsQ R 0 1 Rplus Rmult Rminus Ropp Rdiv).

Lemma Bab t : (t < len)%nat -> B (a t) (b t) / (hj t * hi t) = B ei ej.
Proof.
  intros Ht. unfold a, b. rewrite B_scall, B_scalr. field. split; [apply hi_nz | apply hj_nz]; exact Ht.
Qed.

Ltac fin t Ht := first [eassumption | exact two_neq0 | apply hi_nz; exact Ht | apply hj_nz; exact Ht].

(* the model's arithmetic on R is the field arithmetic of the identities *)
Lemma fwd_same p q r_ s_ u v : hess_forward_entry O p q r_ s_ u v = hess_forward_entry QOPS p q r_ s_ u v.
Proof. reflexivity. Qed.
Lemma c2_same p1 p2 p3 p4 p5 p6 p7 u v : hess_central2_entry O p1 p2 p3 p4 p5 p6 p7 u v = hess_central2_entry QOPS p1 p2 p3 p4 p5 p6 p7 u v.
Proof. reflexivity. Qed.
Lemma coff_same p1 p2 p3 p4 u v : hess_central_off_entry O p1 p2 p3 p4 u v = hess_central_off_entry QOPS p1 p2 p3 p4 u v.
Proof. reflexivity. Qed.
Lemma cdiag_same p1 p2 p3 u : hess_central_diag_entry O p1 p2 p3 u = hess_central_diag_entry QOPS p1 p2 p3 u.
Proof. reflexivity. Qed.

Theorem hessian_forward_end_to_end :
  fst (fst (fst (extrapolate O tf (1/10000) c8 c15 ch
    (map (fun t => hess_forward_entry O (f (vadd x (vadd (a t) (b t)))) (f (vadd x (a t))) (f (vadd x (b t))) f0 (hi t) (hj t)) (seq 0 len)) hs rr)))
  = B ei ej.
Proof.
  apply (extrapolate_of_constants eps tiny huge tf c8 c15 ch eps_nn rr rr_sum rr_len rr_plain); try assumption.
  intros t Ht. rewrite fwd_same.
  eapply eq_trans; [eapply (hess_forward_entry_quad R 0 1 Rplus Rmult Rminus Ropp Rdiv Rinv Rfield); fin t Ht | exact (Bab t Ht)].
Qed.

Theorem hessian_backward_end_to_end :
  fst (fst (fst (extrapolate O tf (1/10000) c8 c15 ch
    (map (fun t => hess_forward_entry O (f (vadd x (vadd (vneg (a t)) (vneg (b t))))) (f (vadd x (vneg (a t)))) (f (vadd x (vneg (b t)))) f0 (- hi t) (- hj t)) (seq 0 len)) hs rr)))
  = B ei ej.
Proof.
  apply (extrapolate_of_constants eps tiny huge tf c8 c15 ch eps_nn rr rr_sum rr_len rr_plain); try assumption.
  intros t Ht. rewrite fwd_same.
  eapply eq_trans; [eapply (hess_backward_entry_quad R 0 1 Rplus Rmult Rminus Ropp Rdiv Rinv Rfield); fin t Ht | exact (Bab t Ht)].
Qed.

Theorem hessian_central2_end_to_end :
  fst (fst (fst (extrapolate O tf (1/10000) c8 c15 ch
    (map (fun t => hess_central2_entry O (f (vadd x (vadd (a t) (b t)))) (f (vadd x (vadd (vneg (a t)) (vneg (b t))))) (f (vadd x (a t))) (f (vadd x (b t)))
                     (f (vadd x (vneg (a t)))) (f (vadd x (vneg (b t)))) f0 (hi t) (hj t)) (seq 0 len)) hs rr)))
  = B ei ej.
Proof.
  apply (extrapolate_of_constants eps tiny huge tf c8 c15 ch eps_nn rr rr_sum rr_len rr_plain); try assumption.
  intros t Ht. rewrite c2_same.
  eapply eq_trans; [eapply (hess_central2_entry_quad R 0 1 Rplus Rmult Rminus Ropp Rdiv Rinv Rfield); fin t Ht | exact (Bab t Ht)].
Qed.

Theorem hessian_central_off_diagonal_end_to_end :
  fst (fst (fst (extrapolate O tf (1/10000) c8 c15 ch
    (map (fun t => hess_central_off_entry O (f (vadd x (vadd (a t) (b t)))) (f (vadd x (vadd (a t) (vneg (b t))))) (f (vadd x (vadd (vneg (a t)) (b t))))
                     (f (vadd x (vadd (vneg (a t)) (vneg (b t))))) (hi t) (hj t)) (seq 0 len)) hs rr)))
  = B ei ej.
Proof.
  apply (extrapolate_of_constants eps tiny huge tf c8 c15 ch eps_nn rr rr_sum rr_len rr_plain); try assumption.
  intros t Ht. rewrite coff_same.
  eapply eq_trans; [eapply (hess_central_off_entry_quad R 0 1 Rplus Rmult Rminus Ropp Rdiv Rinv Rfield); fin t Ht | exact (Bab t Ht)].
Qed.

Theorem hessian_central_diagonal_end_to_end :
  fst (fst (fst (extrapolate O tf (1/10000) c8 c15 ch
    (map (fun t => hess_central_diag_entry O (f (vadd x (vadd (a t) (a t)))) (f (vadd x (vadd (vneg (a t)) (vneg (a t))))) f0 (hi t)) (seq 0 len)) hs rr)))
  = B ei ei.
Proof.
  apply (extrapolate_of_constants eps tiny huge tf c8 c15 ch eps_nn rr rr_sum rr_len rr_plain); try assumption.
  intros t Ht. rewrite cdiag_same.
  eapply eq_trans; [eapply (hess_central_diag_entry_quad R 0 1 Rplus Rmult Rminus Ropp Rdiv Rinv Rfield); fin t Ht |].
  unfold a. rewrite B_scall, B_scalr. field. apply hi_nz. exact Ht.
Qed.
End Hess.
