(* C04: the complex-step and multicomplex Hessian / Hessdiag quotients on the complexification of a quadratic.
   For f(x+u) = f0 + L u + B(u,u)/2 with real coefficients, the holomorphic extension to u = a + i b (a, b in V) is
       f(x + a + i b) = [f0 + L a + (B(a,a) - B(b,b))/2]  +  i [L b + B(a,b)],
   and to the bicomplex argument u = a + i b + j c (the multicomplex point of the source has a = 0):
       imag12 of f(x + i b + j c) = B(b, c).
   These are the polynomial extensions themselves (a quadratic is extended by extending + and * ), written as definitions;
   the theorems say what the source's quotients make of them. *)
From Coq Require Import Ring Field Setoid.
Section QuadC.
Variable R : Type.
Variables (r0 r1 : R) (radd rmul rsub : R -> R -> R) (ropp : R -> R) (rdiv : R -> R -> R) (rinv : R -> R).
Variable Rth : field_theory r0 r1 radd rmul rsub ropp rdiv rinv eq.
Add Field Rf : Rth.
Declare Scope F_scope. Open Scope F_scope.
Notation "x + y" := (radd x y) : F_scope. Notation "x * y" := (rmul x y) : F_scope.
Notation "x - y" := (rsub x y) : F_scope. Notation "- x" := (ropp x) : F_scope. Notation "x / y" := (rdiv x y) : F_scope.
Definition two := r1 + r1.
Hypothesis two_neq0 : two <> r0.
Variable V : Type.
Variables (vadd : V -> V -> V) (vneg : V -> V).
Variables (f0 : R) (L : V -> R) (B : V -> V -> R).
Hypothesis L_neg : forall u, L (vneg u) = - L u.
Hypothesis B_negl : forall u z, B (vneg u) z = - B u z.
Hypothesis B_negr : forall u z, B z (vneg u) = - B z u.
Hypothesis B_sym : forall u w, B u w = B w u.
Hypothesis B_addl : forall u w z, B (vadd u w) z = B u z + B w z.
Hypothesis B_addr : forall u w z, B z (vadd u w) = B z u + B z w.
Hypothesis L_add : forall u w, L (vadd u w) = L u + L w.

(* imaginary part of f(x + a + i b) *)
Definition f_im (a b : V) : R := L b + B a b.
(* real part of f(x + a + i b) *)
Definition f_re (a b : V) : R := f0 + L a + (B a a - B b b) / two.
(* imag12 component of the bicomplex extension at x + i b + j c *)
Definition f_im12 (b c : V) : R := B b c.

(* Hessian 'complex' (Ridout eq. 10): Im[f(x + i a + b) - f(x + i a - b)] / 2 = B(a, b); divided by h_i h_j in the source (2 * outer(h, h)) *)
Theorem complex_hessian_id a b : (f_im b a - f_im (vneg b) a) / two = B a b.
Proof. unfold f_im. rewrite B_negl, (B_sym b a). unfold two in *. field. exact two_neq0. Qed.
(* Hessian / Hessdiag 'multicomplex': the imag12 component is B(a, b) itself (B(a, a) on the diagonal) *)
Theorem multicomplex_hessian_id a b : f_im12 a b = B a b.
Proof. reflexivity. Qed.
(* Hessdiag 'complex' (_complex_even): increments a (1 + i)/sqrt 2, i.e. real part s a and imaginary part s a with 2 s^2 = 1:
   Im[f(x + s a + i s a) + f(x - s a - i s a)] = 2 s^2 B(a, a) = B(a, a) *)
Variable smul : R -> V -> V.
Hypothesis B_smul_l : forall c u w, B (smul c u) w = c * B u w.
Hypothesis B_smul_r : forall c u w, B u (smul c w) = c * B u w.
Hypothesis L_smul : forall c u, L (smul c u) = c * L u.
Theorem complex_hessdiag_id s a : two * (s * s) = r1 ->
  f_im (smul s a) (smul s a) + f_im (vneg (smul s a)) (vneg (smul s a)) = B a a.
Proof.
  intros Hs. unfold f_im. rewrite !L_neg, !B_negl, !B_negr, !L_smul, !B_smul_l, !B_smul_r.
  transitivity ((two * (s * s)) * B a a); [unfold two; ring | rewrite Hs; ring].
Qed.
End QuadC.
