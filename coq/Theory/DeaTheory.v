(* C14: Dea is total -- for ANY arithmetic (hence binary64, whatever the comparisons return), any
   table size and any sequence length no table access is out of range -- and keeps the
   5*eps*|result| floor on its error estimate. *)
From Coq Require Import ZArith List Bool Lia Arith.
Require Import NDT.Arith.Ops NDT.Model.Dea.
Import ListNotations.

Section AnyOps.
Context {A : Type} (Op : Ops A) (thr : A).

Lemma upd_length (l : list A) i v : length (upd l i v) = length l.
Proof. revert i; induction l as [|a l IH]; intros i; cbn; [reflexivity|]. destruct i; cbn; [reflexivity|]. f_equal. apply IH. Qed.

Lemma fold_upd_length (ps : list (nat * A)) (t : list A) :
  length (fold_left (fun acc p => upd acc (fst p) (snd p)) ps t) = length t.
Proof. revert t; induction ps as [|p ps IH]; intros t; cbn; [reflexivity|]. rewrite IH. apply upd_length. Qed.

Lemma idx2_shift start stop fuel len : stop + 2 <= len ->
  length (idx2 (start + 2) (stop + 2) fuel len) = length (idx2 start stop fuel len).
Proof.
  revert start; induction fuel as [|f IH]; intros start H; cbn [idx2]; [reflexivity|].
  destruct (Nat.ltb_spec start stop) as [Hlt|Hge].
  - assert (E1 : (start + 2 <? stop + 2) = true) by (apply Nat.ltb_lt; lia).
    assert (E2 : (start + 2 <? len) = true) by (apply Nat.ltb_lt; lia).
    assert (E3 : (start <? len) = true) by (apply Nat.ltb_lt; lia).
    rewrite E1, E2, E3. cbn [andb length]. f_equal. apply IH. exact H.
  - assert (E1 : (start + 2 <? stop + 2) = false) by (apply Nat.ltb_ge; lia).
    rewrite E1. cbn [andb]. reflexivity.
Qed.

Lemma filter_all {B} (f : B -> bool) (l : list B) : (forall x, In x l -> f x = true) -> filter f l = l.
Proof.
  induction l as [|a l IH]; intros H; cbn; [reflexivity|].
  rewrite (H a (or_introl eq_refl)). f_equal. apply IH. intros x Hx. apply H. right. exact Hx.
Qed.

Lemma shift_table_ok (t : list A) n newelm old_n :
  2 * newelm + 4 <= length t -> n <= old_n -> old_n < length t ->
  exists t', shift_table Op t n newelm old_n = Some t' /\ length t' = length t.
Proof.
  intros H1 H2 H3. unfold shift_table.
  set (len := length t). set (i0 := Nat.modulo old_n 2). set (iN := 2 * newelm + 2).
  assert (EL : length (idx2 i0 iN len len) = length (idx2 (i0 + 2) (iN + 2) len len)).
  { symmetry. apply idx2_shift. unfold iN, len. lia. }
  rewrite EL, Nat.eqb_refl. cbn [negb].
  destruct (Nat.eqb_spec old_n n) as [E|NE].
  - eexists; split; [reflexivity|]. apply fold_upd_length.
  - set (t1 := fold_left _ _ t).
    assert (F1 : filter (fun i => i <? len) (seq (old_n - n) (n + 1)) = seq (old_n - n) (n + 1)).
    { apply filter_all. intros x Hx. apply in_seq in Hx. apply Nat.ltb_lt. unfold len. lia. }
    assert (F2 : filter (fun i => i <? len) (seq 0 (n + 1)) = seq 0 (n + 1)).
    { apply filter_all. intros x Hx. apply in_seq in Hx. apply Nat.ltb_lt. unfold len. lia. }
    rewrite F1, F2, !seq_length, Nat.eqb_refl. cbn [negb].
    eexists; split; [reflexivity|]. rewrite fold_upd_length. apply fold_upd_length.
Qed.

(* the inner loop never reads or writes outside the table, and only lowers n *)
Lemma loop_ok fuel : forall i t k1 result abserr n,
  2 * fuel <= k1 -> k1 + 2 < length t -> 2 * i + 2 * fuel <= n ->
  let '(t', _, _, n', _, okl) := loop Op thr fuel i t k1 result abserr n in
  okl = true /\ length t' = length t /\ n' <= n.
Proof.
  induction fuel as [|f IH]; intros i t k1 result abserr n H1 H2 H3.
  - cbn. repeat split; lia.
  - cbn [loop].
    assert (E1 : inb t (k1 + 2) = true) by (apply Nat.ltb_lt; exact H2).
    assert (E2 : (2 <=? k1) = true) by (apply Nat.leb_le; lia).
    rewrite E1, E2. cbn [andb negb].
    repeat match goal with |- context [if ?b then _ else _] => destruct b eqn:? end;
      cbv iota beta;
      try (repeat split; rewrite ?upd_length; lia).
    all: match goal with |- context [loop Op thr ?F ?I ?T ?K ?R ?B ?N] =>
           specialize (IH I T K R B N);
           destruct (loop Op thr F I T K R B N) as [[[[[t' r'] a'] n'] al'] ok'] end.
    all: rewrite ?upd_length in IH.
    all: match type of IH with ?P -> ?Q -> ?R -> _ => assert (HP : P) by lia; assert (HQ : Q) by lia; assert (HR : R) by lia end.
    all: destruct (IH HP HQ HR) as [I1 [I2 I3]]; repeat split; [exact I1 | exact I2 | exact I3].
Qed.

Lemma dea_inv L (s : st) : 3 <= L -> length (tab s) = L + 5 -> 2 <= n_ s <= L - 1 ->
  let '(s', _, _) := dea Op thr s in ok s' = true /\ length (tab s') = L + 5 /\ n_ s' <= L - 2.
Proof.
  intros HL Hlen Hn. unfold dea. unfold limexp_of. rewrite Hlen.
  assert (E1 : inb (tab s) (n_ s + 2) = true) by (apply Nat.ltb_lt; lia).
  rewrite E1. cbn [negb].
  set (t0 := upd (upd (tab s) (n_ s + 2) _) (n_ s) _).
  assert (L0 : length t0 = L + 5) by (unfold t0; rewrite !upd_length; exact Hlen).
  pose proof (loop_ok (n_ s / 2) 0 t0 (n_ s) (rd Op (tab s) (n_ s)) (c_huge Op) (n_ s)) as HLoop.
  destruct (loop Op thr (n_ s / 2) 0 t0 (n_ s) _ _ (n_ s)) as [[[[[t1 r1] a1] n1] al1] ok1].
  assert (D : 2 * (n_ s / 2) <= n_ s) by (apply Nat.mul_div_le; lia).
  destruct HLoop as [O1 [O2 O3]]; [lia | lia | lia |].
  rewrite O1. cbn [negb].
  replace (L + 5 - 5) with L by lia.
  set (n2 := if n1 =? L - 1 then L - 2 else n1).
  assert (Hn2 : n2 <= L - 2 /\ n2 <= n_ s).
  { unfold n2. destruct (Nat.eqb_spec n1 (L - 1)); lia. }
  destruct al1.
  - cbn [ok tab n_]. repeat split; [congruence | lia].
  - destruct (shift_table_ok t1 n2 (n_ s / 2) (n_ s)) as [t' [ES EL']]; [lia | lia | lia |].
    rewrite ES.
    destruct (1 <? nres s); destruct (2 <? nres s); cbn [ok tab n_]; repeat split; rewrite ?upd_length; try lia.
Qed.

Definition Inv (L : nat) (s : @st A) : Prop := length (tab s) = L + 5 /\ n_ s <= L - 1 /\ ok s = true.

Lemma init_inv limexp : Inv (2 * (limexp / 2) + 1) (init Op limexp).
Proof. unfold Inv, init. cbn [tab n_ ok]. rewrite repeat_length. repeat split; lia. Qed.

Lemma call_inv L s v : 3 <= L -> Inv L s -> Inv L (fst (fst (call Op thr s v))).
Proof.
  intros HL [I1 [I2 I3]]. unfold call. rewrite I3. cbn [negb].
  assert (E1 : inb (tab s) (n_ s) = true) by (apply Nat.ltb_lt; lia).
  rewrite E1. cbn [negb].
  destruct (n_ s) as [|[|k]] eqn:En.
  - cbn [fst]. unfold Inv. cbn [tab n_ ok]. rewrite upd_length. repeat split; lia.
  - cbn [fst]. unfold Inv. cbn [tab n_ ok]. rewrite upd_length. repeat split; lia.
  - pose proof (dea_inv L (mk (upd (tab s) (S (S k)) v) (S (S k)) (nres s) true) HL) as HD.
    cbn [tab n_] in HD. rewrite upd_length in HD.
    destruct (dea Op thr _) as [[s' r] a].
    destruct HD as [D1 [D2 D3]]; [exact I1 | lia |].
    cbn [fst]. unfold Inv. cbn [tab n_ ok]. repeat split; [exact D2 | lia | exact D1].
Qed.

(* any arithmetic, any table size, any sequence of any length: no IndexError, ever *)
Theorem feed_total limexp vs : 2 <= limexp ->
  ok (fst (feed Op thr (init Op limexp) vs)) = true.
Proof.
  intros Hl.
  assert (HL : 3 <= 2 * (limexp / 2) + 1).
  { assert (1 <= limexp / 2) by (apply Nat.div_le_lower_bound; lia). lia. }
  generalize (init_inv limexp). generalize (init Op limexp) as s.
  induction vs as [|v vs IH]; intros s HI.
  - cbn. destruct HI as [_ [_ H]]. exact H.
  - cbn [feed]. pose proof (call_inv _ s v HL HI) as HC.
    destruct (call Op thr s v) as [[s1 r] a]. cbn [fst] in HC.
    specialize (IH s1 HC). destruct (feed Op thr s1 vs) as [s2 out]. cbn [fst] in *. exact IH.
Qed.
End AnyOps.

(* the error estimate never drops below 5*eps*|result| -- every call, whatever the history *)
From Coq Require Import Reals Lra.
Require Import NDT.Arith.OpsR.
Open Scope R_scope.
Section FloorR.
Variables eps tiny huge thr : R.
Let O := OpsR eps tiny huge.

Lemma floor5_ge a r : 5 * eps * Rabs r <= floor5 O a r.
Proof.
  unfold floor5, pymax. cbn. unfold Rltb. destruct (Rlt_dec a (5 * eps * Rabs r)); lra.
Qed.

Theorem call_floor (s : @st R) v :
  let '(s', r, a) := call O thr s v in ok s' = true -> 5 * eps * Rabs r <= a.
Proof.
  unfold call. destruct (negb (ok s)) eqn:E1.
  - intros H. apply negb_true_iff in E1. congruence.
  - destruct (negb (inb (tab s) (n_ s))); [cbn; discriminate|].
    destruct (n_ s) as [|[|k]].
    + intros _. apply floor5_ge.
    + intros _. apply floor5_ge.
    + destruct (dea O thr _) as [[s' r] a]. intros _. apply floor5_ge.
Qed.
End FloorR.
