(* C10: the generated sequences are the documented geometric ones (exact arithmetic, R). *)
From Coq Require Import Reals ZArith List Bool Lia Lra.
Require Import NDT.Arith.Ops NDT.Arith.OpsR NDT.Model.Steps NDT.Theory.ListAux.
Import ListNotations.

Lemma exps_length is_max num off : length (exps is_max num off) = num.
Proof. unfold exps; destruct is_max; rewrite map_length, ?rev_length, seq_length; reflexivity. Qed.

Lemma exps_max_nth num off i : (i < num)%nat -> nth i (exps true num off) 0%Z = (- Z.of_nat i + off)%Z.
Proof.
  intros Hi. unfold exps.
  rewrite (nth_map_lt _ _ _ 0%nat) by (rewrite seq_length; exact Hi).
  rewrite seq_nth by exact Hi. reflexivity.
Qed.

Lemma rev_seq_nth num i : (i < num)%nat -> nth i (rev (seq 0 num)) 0%nat = (num - 1 - i)%nat.
Proof.
  intros Hi. rewrite rev_nth by (rewrite seq_length; exact Hi).
  rewrite seq_length, seq_nth by lia. lia.
Qed.

Lemma exps_min_nth num off i : (i < num)%nat -> nth i (exps false num off) 0%Z = (Z.of_nat (num - 1 - i) + off)%Z.
Proof.
  intros Hi. unfold exps.
  rewrite (nth_map_lt _ _ _ 0%nat) by (rewrite rev_length, seq_length; exact Hi).
  rewrite rev_seq_nth by exact Hi. reflexivity.
Qed.

(* in both generators consecutive exponents go down by exactly one: decreasing magnitude *)
Lemma exps_consecutive is_max num off i : (S i < num)%nat ->
  nth (S i) (exps is_max num off) 0%Z = (nth i (exps is_max num off) 0%Z - 1)%Z.
Proof.
  intros Hi. destruct is_max.
  - rewrite !exps_max_nth by lia. lia.
  - rewrite !exps_min_nth by lia. lia.
Qed.

(* first exponent: Max starts at offset, Min ends at offset *)
Lemma exps_max_first num off : (0 < num)%nat -> nth 0 (exps true num off) 0%Z = off.
Proof. intros H. rewrite exps_max_nth by exact H. lia. Qed.
Lemma exps_min_last num off : (0 < num)%nat -> nth (num - 1) (exps false num off) 0%Z = off.
Proof. intros H. rewrite exps_min_nth by lia. replace (num - 1 - (num - 1))%nat with 0%nat by lia. lia. Qed.

Section OverR.
Variables eps tiny huge : R.
Let O := OpsR eps tiny huge.
Variable ratio : R.
Hypothesis ratio_pos : 0 < ratio.
Let pw (e : Z) : R := powerRZ ratio e.

Lemma pw_pos e : 0 < pw e.
Proof. apply powerRZ_lt. exact ratio_pos. Qed.

Lemma keep_nonzero base e : Forall (fun b => b <> 0) base -> keep O (step_at O pw base e) = true.
Proof.
  intros Hb. unfold keep, step_at. rewrite forallb_forall. intros v Hv.
  apply in_map_iff in Hv as [b [<- Hin]]. rewrite Forall_forall in Hb. specialize (Hb b Hin).
  cbn. apply Rltb_true. apply Rabs_pos_lt. apply Rmult_integral_contrapositive_currified; [exact Hb|].
  pose proof (pw_pos e). lra.
Qed.

(* no step is dropped when the base step has no zero entry *)
Theorem basic_steps_all base is_max num off : Forall (fun b => b <> 0) base ->
  basic_steps O pw base is_max num off = map (step_at O pw base) (exps is_max num off).
Proof.
  intros Hb. unfold basic_steps. induction (exps is_max num off) as [|e es IH]; [reflexivity|].
  cbn [map filter]. rewrite keep_nonzero by exact Hb. f_equal. exact IH.
Qed.

(* hence the count is num_steps, and the i-th step is base * ratio^(exponent_i) *)
Theorem basic_steps_count base is_max num off : Forall (fun b => b <> 0) base ->
  length (basic_steps O pw base is_max num off) = num.
Proof. intros Hb. rewrite basic_steps_all by exact Hb. rewrite map_length. apply exps_length. Qed.

Theorem basic_steps_nth base is_max num off i j : Forall (fun b => b <> 0) base -> (i < num)%nat ->
  nth j (nth i (basic_steps O pw base is_max num off) []) 0 =
  nth j (map (fun b => b * powerRZ ratio (nth i (exps is_max num off) 0%Z)) base) 0.
Proof.
  intros Hb Hi. rewrite basic_steps_all by exact Hb.
  rewrite (nth_map_lt _ _ _ 0%Z) by (rewrite exps_length; exact Hi).
  reflexivity.
Qed.

(* the kept steps are exactly the generated ones with no zero entry (zero steps dropped, nothing else) *)
Theorem basic_steps_filter base is_max num off s :
  In s (basic_steps O pw base is_max num off) <->
  In s (map (step_at O pw base) (exps is_max num off)) /\ keep O s = true.
Proof. unfold basic_steps. apply filter_In. Qed.

(* strictly decreasing magnitude when ratio > 1 *)
Theorem basic_steps_decreasing b e : 1 < ratio -> b <> 0 ->
  Rabs (b * pw (e - 1)) < Rabs (b * pw e).
Proof.
  intros Hr Hb. unfold pw. rewrite !Rabs_mult.
  apply Rmult_lt_compat_l; [apply Rabs_pos_lt; exact Hb|].
  rewrite !Rabs_right by (apply Rle_ge, Rlt_le, powerRZ_lt; exact ratio_pos).
  unfold Z.sub. rewrite powerRZ_add by lra.
  pose proof (powerRZ_lt ratio e ratio_pos) as Hp.
  assert (Hq : powerRZ ratio (- (1)) = / ratio) by (simpl; field; lra). rewrite Hq.
  assert (Hi : / ratio < 1) by (rewrite <- Rinv_1; apply Rinv_lt_contravar; lra).
  apply Rlt_le_trans with (powerRZ ratio e * 1); [apply Rmult_lt_compat_l; [exact Hp | exact Hi] | lra].
Qed.

(* all steps positive for a positive base step (used by C05) *)
Theorem steps_positive b e : 0 < b -> 0 < b * pw e.
Proof. intros Hb. apply Rmult_lt_0_compat; [exact Hb|apply pw_pos]. Qed.
End OverR.

(* non-vacuity: base 2, ratio 2, four steps, Max generator: 2, 1, 1/2, 1/4 *)
Example max_steps_example :
  map (fun e => 2 * powerRZ 2 e) (exps true 4 0) = [2 * 1; 2 * / (2 * 1); 2 * / (2 * (2 * 1)); 2 * / (2 * (2 * (2 * 1)))].
Proof. reflexivity. Qed.
