(* C03: directionaldiff differentiates g(t) = f(x0 + t v) at t = 0; for affine and quadratic f this is the
   polynomial  f(x0) + t (L v) + t^2 B(v,v)/2, whose derivative at 0 is L v = grad f(x0) . v. *)
From Coq Require Import Field.
Section Dir.
Variable R : Type.
Variables (r0 r1 : R) (radd rmul rsub : R -> R -> R) (ropp : R -> R) (rdiv : R -> R -> R) (rinv : R -> R).
Variable Rth : field_theory r0 r1 radd rmul rsub ropp rdiv rinv eq.
Add Field Rf2 : Rth.
Notation "x + y" := (radd x y). Notation "x * y" := (rmul x y). Notation "x / y" := (rdiv x y).
Hypothesis two_neq0 : (r1 + r1) <> r0.
Variable V : Type.
Variables (vadd : V -> V -> V) (smul : R -> V -> V).
Variables (x0 : V) (f : V -> R) (f0 : R) (L : V -> R) (B : V -> V -> R).
Hypothesis f_quad : forall u, f (vadd x0 u) = f0 + L u + B u u / (r1 + r1).
Hypothesis L_smul : forall t u, L (smul t u) = t * L u.
Hypothesis B_smul_l : forall t u w, B (smul t u) w = t * B u w.
Hypothesis B_smul_r : forall t u w, B u (smul t w) = t * B u w.

(* g is a polynomial of degree <= 2 in t with linear coefficient L v: by C01/C06 Derivative(g)(0) = L v exactly *)
Theorem dirdiff_polynomial v t : f (vadd x0 (smul t v)) = f0 + t * L v + (t * t) * (B v v / (r1 + r1)).
Proof. rewrite f_quad, L_smul, B_smul_l, B_smul_r. field. exact two_neq0. Qed.
End Dir.
