(* Regression witnesses for C14, evaluated on the binary64 instance of the model. *)
From Coq Require Import PrimFloat List Bool.
Require Import NDT.Arith.Ops NDT.Arith.OpsFloat NDT.Model.Dea.
Import ListNotations.
Open Scope float_scope.
Definition THR := 0x1.a36e2eb1c432dp-14.
(* 1 + 2^-k, k = 0..11, limexp = 5: this history made the unrepaired code raise IndexError at the
   9th term (the all-converged exit left n uncapped); fixed in /repo by commit "fix: Dea no longer raises IndexError" *)
Definition geo_half : list float :=
  [2; 0x1.8p+0; 0x1.4p+0; 0x1.2p+0; 0x1.1p+0; 0x1.08p+0; 0x1.04p+0; 0x1.02p+0; 0x1.01p+0; 0x1.008p+0; 0x1.004p+0; 0x1.002p+0].
Example dea_limexp5_geometric_ok : ok (fst (feed OpsF THR (init OpsF 5) geo_half)) = true.
Proof. vm_compute. reflexivity. Qed.
