(* C17 / C18 (complex data): dea3 and the selection return the common value of a constant sequence, for ANY
   arithmetic satisfying four laws (ConstLaws) - instances: the reals (Arith/OpsR.v) and the complex numbers
   R x R with numpy's lexicographic order (Arith/OpsC.v).  Hence _get_best_taylor_coefficients returns a_k
   whenever every extrapolated value is a_k (which Theory/TaylorAlias.v proves for polynomials of degree < 3m). *)
From Coq Require Import ZArith List Bool Lia.
Require Import NDT.Arith.Ops NDT.Model.Dea3 NDT.Model.Select NDT.Model.SelectC NDT.Model.Pipeline NDT.Model.Taylor.
Import ListNotations.

Record ConstLaws {A : Type} (O : Ops A) : Prop := {
  law_sub_self : forall x, sub O x x = zero O;
  law_abs_zero : abs O (zero O) = zero O;
  law_tol : forall x, leb O (zero O) (mul O (maxabs O x x) (c_eps O)) = true;
  law_mul_one : forall x, mul O x (one O) = x }.

Section Laws.
Context {A : Type} (O : Ops A) (HL : ConstLaws O).
Variables thr c8 c15 : A.

Lemma dea3k_const L : fst (dea3k O thr L L L) = L.
Proof.
  unfold dea3k. cbn [fst].
  assert (C : dea3_conv O thr L L L = true).
  { unfold dea3_conv. cbv zeta. rewrite (law_sub_self O HL), (law_abs_zero O HL), (law_tol O HL). reflexivity. }
  rewrite C. apply (law_mul_one O HL).
Qed.
Lemma triples_eq a b c t : triples O thr (a :: b :: c :: t) = dea3k O thr a b c :: triples O thr (b :: c :: t).
Proof. reflexivity. Qed.
Lemma triples_const_n L : forall n l, (length l <= n)%nat -> Forall (fun x => x = L) l -> Forall (fun x => x = L) (map fst (triples O thr l)).
Proof.
  induction n as [|n IH]; intros l Hl HF.
  - destruct l; [constructor | cbn in Hl; lia].
  - destruct l as [|a l1]; [cbn; constructor|]. destruct l1 as [|b l2]; [cbn; constructor|]. destruct l2 as [|c t]; [cbn; constructor|].
    rewrite triples_eq. cbn [map]. constructor.
    + inversion HF as [|? ? Ha HF1]; subst. inversion HF1 as [|? ? Hb HF2]; subst. inversion HF2 as [|? ? Hc HF3]; subst.
      apply dea3k_const.
    + apply IH; [cbn in *; lia|]. inversion HF; assumption.
Qed.
Lemma triples_length_n : forall n l, (length l <= n)%nat -> length (triples O thr l) = (length l - 2)%nat.
Proof.
  induction n as [|n IH]; intros l Hl.
  - destruct l; [reflexivity | cbn in Hl; lia].
  - destruct l as [|a l1]; [reflexivity|]. destruct l1 as [|b l2]; [reflexivity|]. destruct l2 as [|c t]; [reflexivity|].
    rewrite triples_eq. cbn [length]. rewrite IH by (cbn in *; lia). cbn [length]. lia.
Qed.
Lemma argmin_mid_lt errs : errs <> [] -> (argmin_mid O errs < length errs)%nat.
Proof.
  intros H. destruct errs as [|e0 rest]; [congruence|]. unfold argmin_mid.
  match goal with |- (nth ?k ?idx 0%nat < _)%nat => destruct (nth_in_or_default k idx 0%nat) as [Hin|Hd] end.
  - apply filter_In in Hin as [Hin _]. apply in_seq in Hin. cbn [length] in *. lia.
  - rewrite Hd. cbn. lia.
Qed.
Lemma penal1_length trim der errs : length (penal1 O c8 c15 trim der errs) = length (combine der errs).
Proof. unfold penal1. rewrite map_length. reflexivity. Qed.

(* _get_best_taylor_coefficients on a constant column of extrapolated values (at least three of them, one
   rounding floor per dea3 output): the coefficient returned is that constant *)
Theorem best_const L extrap floors : (3 <= length extrap)%nat -> length floors = (length extrap - 2)%nat ->
  Forall (fun x => x = L) extrap -> fst (fst (best O thr c8 c15 extrap floors)) = L.
Proof.
  intros H3 Hfl HF. unfold best. cbn [fst].
  pose proof (triples_const_n L (length extrap) extrap (le_n _) HF) as HC.
  pose proof (triples_length_n (length extrap) extrap (le_n _)) as HLn.
  unfold nthA. rewrite Forall_forall in HC. apply HC. apply nth_In.
  rewrite map_length, HLn.
  set (errs := penal1 O c8 c15 (ofZ O 10) _ _).
  assert (Hlen : length errs = (length extrap - 2)%nat).
  { unfold errs. rewrite penal1_length, combine_length, !map_length, combine_length, !map_length, HLn, Hfl. lia. }
  assert (Hne : errs <> []) by (intro E; rewrite E in Hlen; cbn in Hlen; lia).
  pose proof (argmin_mid_lt errs Hne). lia.
Qed.
End Laws.
