(* C14: EpsAlg computes Wynn's epsilon table; Shanks' theorem for one transient. *)
From mathcomp Require Import all_ssreflect all_algebra.
From mathcomp.algebra_tactics Require Import ring.
From mathcomp.zify Require Import zify.
Require Import NDT.Arith.Ops NDT.Arith.OpsField NDT.Model.EpsAlg.
Set Implicit Arguments. Unset Strict Implicit. Unset Printing Implicit Defensive.
Import GRing.Theory.
Local Open Scope ring_scope.

Section EpsAlg.
Variable F : fieldType.
Variables small big : F.
Let O := OpsField F.

(* the model's functions at the field instance, in mathcomp vocabulary *)
Fixpoint sweepM (revold : seq F) (cur aux1 : F) : seq F :=
  if revold is o :: rest then let nw := aux1 + 1 / (cur - o) in nw :: sweepM rest nw o else [::].
Definition pushM (tab : seq F) (s : F) : seq F := rev (sweepM (rev tab) s 0) ++ [:: s].
Definition estlimM (tab : seq F) : F := nth 0 tab ((size tab).-1 %% 2).

Lemma sweep_eq revold cur aux1 : sweep O small big revold cur aux1 = sweepM revold cur aux1.
Proof. by elim: revold cur aux1 => [|o rest IH] cur aux1 //=; rewrite IH. Qed.
Lemma push_eq tab s : push O small big tab s = pushM tab s.
Proof. by rewrite /push /pushM sweep_eq !Lrev_rev. Qed.
Lemma run_eq ss : run O small big ss = foldl pushM [::] ss.
Proof.
rewrite /run fold_left_foldl.
elim/last_ind: ss => [|ss x IH] //.
by rewrite -!cats1 !foldl_cat /= IH push_eq.
Qed.
Lemma estlim_eq tab : estlim O tab = estlimM tab.
Proof.
rewrite /estlim /estlimM Lnth_nth Llength_size.
rewrite modulo_modn //.
by have -> : Nat.sub (size tab) 1 = (size tab).-1 by case: (size tab) => [|k] //=; rewrite PeanoNat.Nat.sub_0_r.
Qed.

(* Wynn's epsilon table, column index shifted by one: E 0 = eps_{-1}, E 1 = eps_0, ... *)
Variable s : nat -> F.
Fixpoint E (j m : nat) {struct j} : F :=
  match j with
  | 0 => 0
  | j1.+1 => match j1 with
             | 0 => s m
             | j0.+1 => E j0 m.+1 + 1 / (E j1 m.+1 - E j1 m)
             end
  end.
Lemma E2 j m : E j.+2 m = E j m.+1 + 1 / (E j.+1 m.+1 - E j.+1 m).
Proof. by []. Qed.

(* table after the terms s_0 .. s_{n-1} *)
Definition tab (n : nat) : seq F := mkseq (fun i => E (n - i) i) n.

Lemma sweep_spec n i : (i <= n)%N ->
  sweepM (rev (take i (tab n))) (E (n.+1 - i) i) (E (n - i) i)
  = rev (take i (tab n.+1)).
Proof.
elim: i => [|i IH] le; first by rewrite !take0.
have lt_in : (i < n)%N := le.
have e1 : (n.+1 - i.+1 = n - i)%N by rewrite subSS.
have e2 : (n - i = (n - i.+1).+1)%N by rewrite subnS prednK // subn_gt0.
have e3 : (n.+1 - i = (n - i.+1).+2)%N by rewrite subSn ?(ltnW lt_in) // e2.
rewrite (take_nth 0 (s:=tab n)) ?size_mkseq // rev_rcons.
rewrite (take_nth 0 (s:=tab n.+1)) ?size_mkseq ?ltnS ?(ltnW lt_in) // rev_rcons.
rewrite !nth_mkseq ?ltnS ?(ltnW lt_in) //.
rewrite [LHS]/= -/(sweepM _ _ _).
have <- : E (n.+1 - i) i = E (n - i.+1) i.+1 + 1 / (E (n.+1 - i.+1) i.+1 - E (n - i) i).
  by rewrite e3 E2 e1 -e2.
by rewrite IH // ltnW.
Qed.

Lemma push_spec n : pushM (tab n) (s n) = tab n.+1.
Proof.
rewrite /pushM.
have := @sweep_spec n n (leqnn n).
rewrite subSn // subnn /= take_oversize ?size_mkseq // => ->.
rewrite revK.
rewrite -[RHS](cat_take_drop n) (drop_nth 0) ?size_mkseq // nth_mkseq // subSn // subnn.
by rewrite drop_oversize ?size_mkseq.
Qed.

Lemma run_spec n : foldl pushM [::] (mkseq s n) = tab n.
Proof.
elim: n => [|n IH]; first by [].
rewrite /mkseq -addn1 iotaD map_cat foldl_cat -/(mkseq s n) IH /= add0n addn1.
exact: push_spec.
Qed.

(* the model, fed s_0 .. s_n one term at a time, holds the anti-diagonal of Wynn's table ... *)
Theorem epsalg_table n : run O small big (mkseq s n) = tab n.
Proof. by rewrite run_eq run_spec. Qed.

(* ... and returns the entry of highest even order: eps_{2*floor(n/2)}^{(n mod 2)} *)
Theorem estlim_spec n : estlim O (run O small big (mkseq s n.+1)) = E ((n - n %% 2).+1) (n %% 2).
Proof.
rewrite estlim_eq epsalg_table /estlimM size_mkseq /=.
have lt : (n %% 2 < n.+1)%N by rewrite ltnS leq_mod.
by rewrite nth_mkseq // subSn // leq_mod.
Qed.
End EpsAlg.

(* Shanks: one geometric transient is removed exactly by the column eps_2 *)
Section Shanks1.
Variable F : fieldType.
Variables L a q : F.
Hypotheses (a0 : a != 0) (q0 : q != 0) (q1 : q != 1).
Lemma shanks1 m : E (fun k => L + a * q ^+ k) 3 m = L.
Proof.
rewrite /= !exprS.
have h1 : q - 1 != 0 by rewrite subr_eq0.
have h2 : q ^+ m != 0 by rewrite expf_neq0.
field.
have -> : L + a * (q * q ^+ m) - (L + a * q ^+ m) = a * q ^+ m * (q - 1) by ring.
have -> : L + a * (q * (q * q ^+ m)) - (L + a * (q * q ^+ m)) = a * q * q ^+ m * (q - 1) by ring.
have -> : a * q ^+ m * (q - 1) + -1 * (a * q * q ^+ m * (q - 1)) = - (a * q ^+ m * (q - 1) * (q - 1)) by ring.
by rewrite oppr_eq0 !mulf_neq0.
Qed.

(* hence EpsAlg fed three terms of L + a q^k returns L *)
Theorem epsalg_one_transient small big :
  estlim (OpsField F) (run (OpsField F) small big (mkseq (fun k => L + a * q ^+ k) 3)) = L.
Proof. rewrite (estlim_spec small big (fun k => L + a * q ^+ k) 2). exact: shanks1. Qed.
End Shanks1.
