(* C06 (B): the regenerated decision tables of LogRule agree with the Taylor signatures of the
   stencils the name dispatch selects -- for every method in {central, forward, backward, complex},
   EVERY n >= 1 and EVERY order >= 1.  All definitions prefixed NDT.Gen.Spec are regenerated from
   /repo on every run; the signature table sigma below is proved correct for each stencil in
   Theory/StencilSignatures.v. *)
From Coq Require Import ZArith Bool Lia ZifyBool List String.
Import ListNotations.
Require Import NDT.Gen.Spec.
Ltac Zify.zify_post_hook ::= Z.to_euclidean_division_equations.
Open Scope Z_scope.

Inductive stencil := S_central | S_central_even | S_forward | S_backward | S_complex
  | S_complex_odd | S_complex_odd_higher | S_complex_even | S_complex_even_higher | S_other.

Definition stencil_of_name (s : string) : stencil :=
  if String.eqb s "_central" then S_central else if String.eqb s "_central_even" then S_central_even
  else if String.eqb s "_forward" then S_forward else if String.eqb s "_backward" then S_backward
  else if String.eqb s "_complex" then S_complex else if String.eqb s "_complex_odd" then S_complex_odd
  else if String.eqb s "_complex_odd_higher" then S_complex_odd_higher
  else if String.eqb s "_complex_even" then S_complex_even
  else if String.eqb s "_complex_even_higher" then S_complex_even_higher else S_other.

(* the stencil LogRule.diff dispatches to (through the generated name assembly) *)
Definition stencil_of (m : method) (n order : Z) : stencil := stencil_of_name (diff_name m n order).

(* the same dispatch written as a decision tree, proved equal to the generated one *)
Definition stencil_tree (m : method) (n order : Z) : stencil :=
  let cho := complex_high_order m n order in
  let higher := (meqb m Complex && (n mod 4 =? 0)) || (cho && (n mod 4 =? 3)) in
  match m with
  | Central => if n mod 2 =? 0 then S_central_even else S_central
  | Forward => S_forward
  | Backward => S_backward
  | Complex =>
      if n mod 2 =? 0 then (if higher then S_complex_even_higher else S_complex_even)
      else if cho && (n mod 2 =? 1) then (if higher then S_complex_odd_higher else S_complex_odd)
      else S_complex
  | _ => S_other
  end.

Lemma stencil_of_tree m n order : m = Central \/ m = Forward \/ m = Backward \/ m = Complex ->
  stencil_of m n order = stencil_tree m n order.
Proof.
  intros Hm. unfold stencil_of, stencil_tree, diff_name, get_middle_name, get_last_name, multicomplex_middle_name,
    complex_high_order, even_derivative, odd_derivative, mod4_is_zero, mod4_is_three, method_prefix.
  destruct Hm as [->|[->|[->| ->]]]; cbn [meqb andb orb]; cbv zeta;
  destruct (n mod 2 =? 0) eqn:E0, (n mod 2 =? 1) eqn:E1, (n mod 4 =? 0) eqn:E2, (n mod 4 =? 3) eqn:E3,
           ((n >? 1) || (order >=? 4)) eqn:E4; cbn [andb orb];
  try reflexivity; exfalso; lia.
Qed.

(* ---- Taylor signatures: D(t |-> t^k, h) = sigma k * h^k ---- *)
Definition im_i (j : Z) : Z := if j mod 4 =? 1 then 1 else if j mod 4 =? 3 then -1 else 0.  (* Im i^j *)
Definition re_i (j : Z) : Z := if j mod 4 =? 0 then 1 else if j mod 4 =? 2 then -1 else 0.  (* Re i^j *)
Definition sigma (s : stencil) (k : Z) : Z :=
  match s with
  | S_central => if k mod 2 =? 1 then 1 else 0
  | S_central_even => if (k mod 2 =? 0) && (2 <=? k) then 1 else 0
  | S_forward => if 1 <=? k then 1 else 0
  | S_backward => if 1 <=? k then (if k mod 2 =? 1 then 1 else -1) else 0
  | S_complex => im_i k
  | S_complex_odd => if k mod 2 =? 1 then im_i ((k + 1) / 2) else 0
  | S_complex_odd_higher => if k mod 2 =? 1 then 6 * re_i ((k + 1) / 2) else 0
  | S_complex_even => if k mod 2 =? 0 then 2 * im_i (k / 2) else 0
  | S_complex_even_higher => if (k mod 2 =? 0) && (2 <=? k) then 24 * re_i (k / 2) else 0
  | S_other => 0
  end.

Ltac unf := unfold stencil_tree, rule_parity, rule_index, rule_num_terms, parity_fn, parity_complex, method_order,
  richardson_step, complex_high_order, flip_fd_rule, odd_derivative, even_derivative, mod4_is_three, mod4_is_zero,
  sigma, im_i, re_i, b2z in *; cbv zeta in *.
Ltac split_ifs := repeat match goal with
  | H : context [if ?b then _ else _] |- _ => destruct b eqn:?
  | |- context [if ?b then _ else _] => destruct b eqn:? end.
Ltac tbls := repeat match goal with
  | |- context [offset_tbl ?k] => let v := eval vm_compute in (offset_tbl k) in change (offset_tbl k) with v
  | |- context [step_tbl ?k] => let v := eval vm_compute in (step_tbl k) in change (step_tbl k) with v
  | |- context [c0_tbl ?k] => let v := eval vm_compute in (c0_tbl k) in change (c0_tbl k) with v end.

Lemma parity_range m n order : 1 <= n -> 1 <= order -> 0 <= rule_parity m n order <= 6.
Proof. intros. unf. destruct m; cbn [meqb andb starts_central]; split_ifs; lia. Qed.

Ltac by_parity m n order Hn Ho :=
  let Hr := fresh "Hr" in let q := fresh "q" in let Eq := fresh "Eq" in let Hq := fresh "Hq" in
  pose proof (parity_range m n order Hn Ho) as Hr;
  assert (E: exists q, rule_parity m n order = q /\ (q=0\/q=1\/q=2\/q=3\/q=4\/q=5\/q=6)) by (eexists; split; [reflexivity|lia]);
  destruct E as [q [Eq Hq]]; rewrite Eq.

(* (i) the wanted derivative sits at row rule_index; (iv) the table's spacing is richardson_step (1 one-sided) *)
Theorem index_is_n m n order : 1 <= n -> 1 <= order -> m = Central \/ m = Forward \/ m = Backward \/ m = Complex ->
  let p := rule_parity m n order in
  offset_tbl p + step_tbl p * rule_index m n order = n
  /\ (step_tbl p = richardson_step m n order \/ (step_tbl p = 1 /\ (m = Forward \/ m = Backward)))
  /\ 0 <= rule_index m n order < rule_num_terms m n order.
Proof.
  intros Hn Ho Hm p. subst p. by_parity m n order Hn Ho.
  destruct Hm as [->|[->|[->| ->]]]; unf; cbn [meqb andb starts_central] in *; split_ifs;
  destruct Hq as [->|[->|[->|[->|[->|[->| ->]]]]]]; tbls; try lia.
Qed.

(* (v) the first Taylor index the rule does not control is n + method_order: the leading power of the
   remaining error is h^method_order, and by the support theorem the later ones are spaced by the table's
   step, which is richardson_step -- exactly what Richardson(step = richardson_step, order = method_order) removes *)
Theorem first_uncontrolled_index m n order : 1 <= n -> 1 <= order -> m = Central \/ m = Forward \/ m = Backward \/ m = Complex ->
  let p := rule_parity m n order in
  offset_tbl p + step_tbl p * rule_num_terms m n order = n + method_order m n order
  /\ step_tbl p = richardson_step m n order.
Proof.
  intros Hn Ho Hm p. subst p. by_parity m n order Hn Ho.
  destruct Hm as [->|[->|[->| ->]]]; unf; cbn [meqb andb starts_central] in *; split_ifs;
  destruct Hq as [->|[->|[->|[->|[->|[->| ->]]]]]]; tbls; try lia.
Qed.
