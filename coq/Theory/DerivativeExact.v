(* C01, exact-arithmetic core closed end to end: Derivative's model pipeline -- stencil (as the source writes it), rule
   application (LogRule._apply: convolution with the reversed rule, division by h^n, trimming), Richardson, dea3, outlier
   penalty, arg-min, gather -- returns EXACTLY f^(n)(x) = n! g_n for every polynomial f of degree < n + method_order,
   for every method in {central, forward, backward, complex}, every n >= 1, order >= 1, every geometric step sequence with
   enough steps, every rule solving the moment system built from the regenerated tables, and every Richardson rule whose
   weights sum to one.   Composition of C06 (Theory/RuleStencil.v, any fieldType; instantiated at R through Arith/Rfield.v),
   C07 (conv_valid) and the selection theorems (Theory/PipelineTheory.v). *)
From Coq Require Import Reals ZArith List Lia Lra.
From mathcomp Require Import all_ssreflect all_algebra.
From mathcomp.zify Require Import zify.
Require Import NDT.Arith.Ops NDT.Arith.OpsR NDT.Arith.OpsField NDT.Arith.Rfield
               NDT.Gen.Spec NDT.Theory.RuleTables NDT.Theory.RuleTablesNat NDT.Theory.RuleStencil
               NDT.Model.Convolve NDT.Model.Richardson NDT.Model.Pipeline NDT.Theory.ListAux
               NDT.Theory.RichardsonTheory NDT.Theory.PipelineTheory.
Set Implicit Arguments. Unset Strict Implicit. Unset Printing Implicit Defensive.
Import GRing.Theory.
Delimit Scope R_scope with RR.

(* ---- vocabulary bridges ---- *)
Lemma wsum_big (w : list R) (f : nat -> R) :
  wsum w f = (\sum_(0 <= i < length w) (List.nth i w R0 : R) * f i)%R.
Proof.
elim: w f => [|a w IH] f /=; first by rewrite big_geq.
by rewrite big_nat_recl // IH.
Qed.

Lemma fact_factorial k : Factorial.fact k = k`!.
Proof. by elim: k => [|k IH] //; rewrite factS -IH. Qed.

Lemma unflip (a b c : R) : (a * a = 1 -> b * c = a * ((a * b) * c))%RR.
Proof. move=> aa; have -> : (a * (a * b * c) = (a * a) * (b * c))%RR by ring. by rewrite aa Rmult_1_l. Qed.

Section EndToEnd.
Variables (eps tiny huge tf c8 c15 ch : R).
Hypothesis eps_nn : (0 <= eps)%RR.
Let O := OpsR eps tiny huge.
Variable s : R.
Hypothesis s2 : (s * s + s * s = 1)%RR.
Variables (m : method) (n order : Z).
Hypotheses (Hn : Z.le (Zpos xH) n) (Ho : Z.le (Zpos xH) order) (Hm : m = Central \/ m = Forward \/ m = Backward \/ m = Complex).
Notation off := (offN m n order). Notation st := (stN m n order). Notation T := (termsN m n order). Notation r := (rowN m n order).
Notation nn := (Z.to_nat n).
Let c0 : R := IZR (c0Z m n order).
Let fl : R := if flip_fd_rule m n order then (-1)%RR else 1%RR.
Variables (rho h0 : R) (g : nat -> R).
Hypotheses (h0_neq : h0 <> 0%RR) (rho_neq : rho <> 0%RR).
(* the finite-difference rule as rule() returns it (sign flip included): fl times a row of the inverse of the moment matrix *)
Variable rule : list R.
Hypothesis rule_len : length rule = T.
Hypothesis rule_solves : forall j, (j < T)%nat ->
  wsum rule (fun i => (c0 / INR (Factorial.fact (off + st * j)) * rho ^ (i * (off + st * j)))%RR) = if Nat.eqb j r then fl else 0%RR.
Hypothesis rule_plain : symcode O rule = Z0 \/ length rule = 1%nat.       (* scipy's generic accumulation path *)
(* the Richardson rule: weights summing to one *)
Variable rr : list R.
Hypotheses (rr_sum : wsum rr (fun _ => 1%RR) = 1%RR) (rr_len : (1 <= length rr)%nat)
           (rr_plain : symcode O rr = Z0 \/ length rr = 1%nat).
(* len steps h0 rho^t; the stencil values of f at those steps; h^n *)
Variables (len : nat) (steps : list R).
Hypotheses (steps_len : length steps = len) (enough : (T + (length rr - 1) <= len)%nat).
Let S := stencil_of m n order.
Let fdel : list R := List.map (fun t => stencil_value (F:=R_fieldType) s m n order g S (h0 * rho ^ t)%RR) (List.seq 0 len).
Let hn : list R := List.map (fun t => ((h0 * rho ^ t) ^ nn)%RR) (List.seq 0 len).

Let Lim : R := (INR (Factorial.fact nn) * g nn)%RR.

Lemma IZR_ofZ z : IZR z = field_ofZ R_fieldType z.
Proof.
case: z => [|p|p] //=.
- by rewrite RnatE INR_IPR.
- by rewrite RnatE INR_IPR.
Qed.

Lemma T_pos : (0 < T)%nat.
Proof.
have [_ [_ [_ [rT _]]]] := tables_nat m n order Hn Ho Hm.
by move: rT; case: T => // ?; lia.
Qed.

(* one window of the rule: C06 at the step h0 rho^i *)
Lemma window_exact i :
  (wsum rule (fun k => stencil_value (F:=R_fieldType) s m n order g S (h0 * rho ^ (i + k))%RR) / (h0 * rho ^ i) ^ nn)%RR = Lim.
Proof.
set h := (h0 * rho ^ i)%RR.
have hN : h <> 0%RR by apply: Rmult_integral_contrapositive_currified => //; exact: pow_nonzero.
have hN' : (h : R_fieldType) != 0%R by apply/eqP.
have flfl : (fl * fl = 1)%RR by rewrite /fl; case: (flip_fd_rule m n order); lra.
pose w (i : nat) : R := (fl * List.nth i rule 0)%RR.
have wM : forall j, (j < T)%N ->
   (\sum_(0 <= i0 < T) (w i0 : R_fieldType) * ((field_ofZ R_fieldType (c0Z m n order)) / (off + st * j)`!%:R * (rho : R_fieldType) ^+ (i0 * (off + st * j))) = (j == r)%:R)%R.
  move=> j jT.
  have := rule_solves jT; rewrite wsum_big rule_len => E.
  transitivity (fl * (if Nat.eqb j r then fl else 0))%RR; last first.
    case: (Nat.eqb_spec j r) => [->|/eqP ne]; first by rewrite eqxx /= mulr1n; exact: flfl.
    by rewrite (negbTE ne) /= mulr0n; exact: Rmult_0_r.
  rewrite -E -(RmulE fl) mulr_sumr; apply: eq_bigr => i0 _.
  rewrite /w -IZR_ofZ -/c0 RexpE RnatE -fact_factorial.
  have fN : (INR (Factorial.fact (off + st * j)) : R_fieldType) != 0%R by apply/eqP; exact: INR_fact_neq_0.
  by rewrite (RdivE _ fN); exact: Rmult_assoc.
have := @rule_exact_on_stencil R_fieldType Rchar0 s s2 m n order Hn Ho Hm rho h g w hN' wM.
rewrite -/S => E.
rewrite /Lim -fact_factorial in E *.
rewrite -[RHS]/(INR (Factorial.fact nn) * g nn)%RR -RnatE -RmulE -E.
have hnN : ((h : R_fieldType) ^+ nn != 0)%R by rewrite expf_neq0.
rewrite (RdivE _ hnN) RexpE; congr (Rdiv _ _).
rewrite wsum_big rule_len mulr_sumr; apply: eq_bigr => k _.
rewrite RexpE.
have -> : (h0 * rho ^ (i + k) = Rmult h (rho ^ k))%RR by rewrite /h pow_add Rmult_assoc.
exact: (unflip _ _ flfl).
Qed.

Theorem derivative_exact_on_polynomials :
  fst (fst (fst (pipeline O tf (1/10000)%RR c8 c15 ch fdel hn steps rule rr))) = Lim.
Proof.
have Tp := T_pos.
rewrite /pipeline /apply_rule.
set nr := (length rule - 1)%nat.
set fdiff := conv O fdel (List.rev rule) (Z.of_nat (Nat.div nr 2)).
set ns := Nat.max (length steps - nr) 1.
have nsE : ns = (len - (T - 1))%nat by rewrite /ns /nr steps_len rule_len; lia.
have Lf : length fdel = len by rewrite /fdel map_length seq_length.
have Lh : length hn = len by rewrite /hn map_length seq_length.
have Ld : length fdiff = len by rewrite /fdiff (conv_length_gen eps tiny huge) Lf.
set der := firstn ns _.
have derE : der = List.map (sq rho Lim h0 nil) (List.seq 0 ns).
  apply: (nth_ext _ _ 0%RR 0%RR).
    rewrite /der firstn_length map_length combine_length Ld Lh map_length seq_length; lia.
  move=> i; rewrite /der firstn_length map_length combine_length Ld Lh => Hi.
  have Hi' : (i < ns)%nat by lia.
  have -> : List.nth i (List.map (sq rho Lim h0 nil) (List.seq 0 ns)) 0%RR = Lim.
    rewrite (nth_map_lt _ _ _ 0%nat); last by rewrite seq_length; lia.
    by rewrite /sq /= Rplus_0_r.
  rewrite nth_firstn_lt; last by lia.
  rewrite (nth_map_lt _ _ _ (0%RR, 0%RR)); last by rewrite combine_length Ld Lh; lia.
  rewrite combine_nth; last by rewrite Ld Lh.
  rewrite /fdiff /nr conv_valid; [|rewrite rule_len; lia|exact: rule_plain|rewrite Lf rule_len; lia].
  rewrite /hn (nth_map_lt _ _ _ 0%nat); last by rewrite seq_length; lia.
  rewrite nth_seq_lt; last by lia.
  rewrite -(window_exact i) /=; congr (_ / _)%RR.
  apply: wsum_ext => k Hk; rewrite /fdel (nth_map_lt _ _ _ 0%nat); last by rewrite seq_length; rewrite rule_len in Hk; lia.
  by rewrite nth_seq_lt //; rewrite rule_len in Hk; lia.
rewrite derE.
have ann : forall (a : R) (k : nat), List.In (a, k) nil -> wsum rr (fun i => (rho ^ (i * k))%RR) = 0%RR by move=> a k [].
have PV := @pipeline_value_exact eps tiny huge tf c8 c15 ch eps_nn rho Lim h0 rr nil rr_sum ann (elimT ltP rr_len) rr_plain ns (firstn ns steps).
apply: PV.
- lia.
- rewrite firstn_length steps_len; lia.
Qed.
End EndToEnd.
