(* C05: where f is evaluated -- theorems about Model/Points.v over R (steps h_c >= 0, as C10 guarantees).
   All dimensions, all step vectors. *)
From Coq Require Import Reals ZArith List Bool String Lia Lra.
Require Import NDT.Arith.Ops NDT.Arith.OpsR NDT.Model.Points NDT.Theory.ListAux.
Import ListNotations.
Open Scope R_scope.

Section P.
Variables eps tiny huge sr si sq2 : R.
Let O := OpsR eps tiny huge.
Notation pt := (list (R * R * R * R)).
Definition re4 (q : R * R * R * R) : R := fst (fst (fst q)).
(* coordinatewise relation between x and the real parts of a point *)
Definition rel (P : R -> R -> Prop) (x : list R) (p : pt) : Prop := Forall2 (fun xc q => P xc (re4 q)) x p.
Definition above := rel Rle.                 (* x_c <= Re p_c for every coordinate *)
Definition below := rel Rge.                 (* x_c >= Re p_c *)
Definition same_re := rel (@eq R).           (* Re p_c = x_c exactly *)
Definition nonneg (d : list R) := Forall (fun v => 0 <= v) d.

Lemma rel_real_padd (P : R -> R -> Prop) x d : List.length x = List.length d -> (forall a b, In b d -> P a (a + b)) ->
  rel P x (real_pt O (padd O x d)).
Proof.
  revert d; induction x as [|a x IH]; intros [|b d] HL HP; cbn in *; try discriminate; [constructor|].
  constructor; [cbn; apply HP; left; reflexivity | apply IH; [lia | intros; apply HP; right; assumption]].
Qed.
Lemma rel_real_psub (P : R -> R -> Prop) x d : List.length x = List.length d -> (forall a b, In b d -> P a (a - b)) ->
  rel P x (real_pt O (psub O x d)).
Proof.
  revert d; induction x as [|a x IH]; intros [|b d] HL HP; cbn in *; try discriminate; [constructor|].
  constructor; [cbn; apply HP; left; reflexivity | apply IH; [lia | intros; apply HP; right; assumption]].
Qed.
Lemma padd_length x d : List.length x = List.length d -> List.length (padd O x d) = List.length x.
Proof. revert d; induction x as [|a x IH]; intros [|b d] H; cbn in *; try discriminate; [reflexivity | f_equal; apply IH; lia]. Qed.
Lemma inc_length h k : List.length (inc O h k) = List.length h.
Proof. unfold inc. rewrite map_length, combine_length, seq_length. lia. Qed.
Lemma inc_nonneg h k : nonneg h -> nonneg (inc O h k).
Proof.
  intros H. unfold inc, nonneg in *. apply Forall_forall. intros v Hv. apply in_map_iff in Hv as [[i hv] [<- Hin]].
  cbn. destruct (Nat.eqb i k); [|cbn; lra]. apply in_combine_r in Hin. rewrite Forall_forall in H. apply H. exact Hin.
Qed.
Lemma above_padd x d : List.length x = List.length d -> nonneg d -> above x (real_pt O (padd O x d)).
Proof. intros HL Hd. unfold nonneg in Hd. apply rel_real_padd; [exact HL|]. intros a b Hb. rewrite Forall_forall in Hd. specialize (Hd b Hb). lra. Qed.
Lemma below_psub x d : List.length x = List.length d -> nonneg d -> below x (real_pt O (psub O x d)).
Proof. intros HL Hd. unfold nonneg in Hd. apply rel_real_psub; [exact HL|]. intros a b Hb. rewrite Forall_forall in Hd. specialize (Hd b Hb). lra. Qed.
Lemma rel_trans_above x y p : List.length x = List.length y -> Forall2 Rle x y -> above y p -> above x p.
Proof.
  intros _ H1 H2. unfold above, rel in *. revert p H2. induction H1 as [|a b x y Hab H1 IH]; intros p H2; inversion H2; subst; constructor; [lra | apply IH; assumption].
Qed.
Lemma le_padd x d : List.length x = List.length d -> nonneg d -> Forall2 Rle x (padd O x d).
Proof.
  revert d; induction x as [|a x IH]; intros [|b d] HL Hd; cbn in *; try discriminate; [constructor|].
  inversion Hd; subst. constructor; [lra | apply IH; [lia | assumption]].
Qed.

(* ---- forward: never below x; backward: never above x ---- *)
Theorem derivative_forward x h : List.length x = List.length h -> nonneg h ->
  Forall (above x) (pts_derivative O sr si "_forward" x h).
Proof. intros HL Hh. cbn. constructor; [apply above_padd; assumption | constructor]. Qed.
Theorem derivative_backward x h : List.length x = List.length h -> nonneg h ->
  Forall (below x) (pts_derivative O sr si "_backward" x h).
Proof. intros HL Hh. cbn. constructor; [apply below_psub; assumption | constructor]. Qed.

Theorem jacobian_forward x h : List.length x = List.length h -> nonneg h ->
  Forall (above x) (pts_jacobian O sr si "_forward" x h).
Proof.
  intros HL Hh. unfold pts_jacobian. apply Forall_concat. apply Forall_forall. intros l Hl.
  apply in_map_iff in Hl as [k [<- _]]. cbn. constructor; [|constructor].
  apply above_padd; [rewrite inc_length; exact HL | apply inc_nonneg; exact Hh].
Qed.
Theorem jacobian_backward x h : List.length x = List.length h -> nonneg h ->
  Forall (below x) (pts_jacobian O sr si "_backward" x h).
Proof.
  intros HL Hh. unfold pts_jacobian. apply Forall_concat. apply Forall_forall. intros l Hl.
  apply in_map_iff in Hl as [k [<- _]]. cbn. constructor; [|constructor].
  apply below_psub; [rewrite inc_length; exact HL | apply inc_nonneg; exact Hh].
Qed.
Theorem hessdiag_forward x h : List.length x = List.length h -> nonneg h ->
  Forall (above x) (pts_hessdiag O sq2 "_forward" x h).
Proof.
  intros HL Hh. unfold pts_hessdiag. apply Forall_concat. apply Forall_forall. intros l Hl.
  apply in_map_iff in Hl as [k [<- _]]. cbn. constructor; [|constructor].
  apply above_padd; [rewrite inc_length; exact HL | apply inc_nonneg; exact Hh].
Qed.
Theorem hessdiag_backward x h : List.length x = List.length h -> nonneg h ->
  Forall (below x) (pts_hessdiag O sq2 "_backward" x h).
Proof.
  intros HL Hh. unfold pts_hessdiag. apply Forall_concat. apply Forall_forall. intros l Hl.
  apply in_map_iff in Hl as [k [<- _]]. cbn. constructor; [|constructor].
  apply below_psub; [rewrite inc_length; exact HL | apply inc_nonneg; exact Hh].
Qed.
(* Hessian forward: x + e_i and x + e_i + e_j, at most two coordinates moved, never below x *)
Theorem hessian_forward x h : List.length x = List.length h -> nonneg h ->
  Forall (above x) (pts_hessian O "_forward" x h).
Proof.
  intros HL Hh. cbn. apply Forall_app. split; apply Forall_forall; intros p Hp; apply in_map_iff in Hp as [k [<- _]].
  - apply above_padd; [rewrite inc_length; exact HL | apply inc_nonneg; exact Hh].
  - apply (rel_trans_above x (padd O x (inc O h (fst k)))).
    + rewrite padd_length; [reflexivity | rewrite inc_length; exact HL].
    + apply le_padd; [rewrite inc_length; exact HL | apply inc_nonneg; exact Hh].
    + apply above_padd; [rewrite padd_length, inc_length; [exact HL | rewrite inc_length; exact HL] | apply inc_nonneg; exact Hh].
Qed.

(* Hessian backward = forward with -h: never above x *)
Lemma below_padd_neg x d : List.length x = List.length d -> nonneg d -> below x (real_pt O (padd O x (map (opp O) d))).
Proof.
  intros HL Hd. unfold nonneg in Hd. apply rel_real_padd; [rewrite map_length; exact HL|]. intros a b Hb.
  apply in_map_iff in Hb as [c [<- Hc]]. rewrite Forall_forall in Hd. specialize (Hd c Hc). cbn. lra.
Qed.
Lemma inc_opp h k : inc O (map (opp O) h) k = map (opp O) (inc O h k).
Proof.
  unfold inc. rewrite map_length, map_map.
  assert (G : forall (l : list R) s, map (fun p : nat * R => if Nat.eqb (fst p) k then snd p else z O) (combine (seq s (List.length l)) (map (opp O) l))
              = map (fun p : nat * R => opp O (if Nat.eqb (fst p) k then snd p else z O)) (combine (seq s (List.length l)) l)).
  { induction l as [|a l IH]; intros s0; cbn; [reflexivity|]. rewrite IH. f_equal. destruct (Nat.eqb s0 k); cbn; [reflexivity | unfold z; cbn; lra]. }
  apply G.
Qed.
Lemma ge_padd_neg x d : List.length x = List.length d -> nonneg d -> Forall2 Rge x (padd O x (map (opp O) d)).
Proof.
  revert d; induction x as [|a x IH]; intros [|b d] HL Hd; cbn in *; try discriminate; [constructor|].
  inversion Hd; subst. constructor; [lra | apply IH; [lia | assumption]].
Qed.
Lemma rel_trans_below x y p : Forall2 Rge x y -> below y p -> below x p.
Proof.
  intros H1 H2. unfold below, rel in *. revert p H2. induction H1 as [|a b x y Hab H1 IH]; intros p H2; inversion H2; subst; constructor; [lra | apply IH; assumption].
Qed.
Theorem hessian_backward x h : List.length x = List.length h -> nonneg h ->
  Forall (below x) (pts_hessian_backward O x h).
Proof.
  intros HL Hh. unfold pts_hessian_backward. cbn. apply Forall_app. split; apply Forall_forall; intros p Hp; apply in_map_iff in Hp as [k [<- _]].
  - rewrite inc_opp. apply below_padd_neg; [rewrite inc_length; exact HL | apply inc_nonneg; exact Hh].
  - rewrite !inc_opp. apply (rel_trans_below x (padd O x (map (opp O) (inc O h (fst k))))).
    + apply ge_padd_neg; [rewrite inc_length; exact HL | apply inc_nonneg; exact Hh].
    + apply below_padd_neg; [rewrite padd_length, ?map_length, inc_length; [exact HL | rewrite map_length, inc_length; exact HL] | apply inc_nonneg; exact Hh].
Qed.

(* ---- complex-step: only imaginary parts are perturbed, the real part of every argument is exactly x ---- *)
Lemma same_re_bic x a b : List.length x = List.length a -> List.length a = List.length b -> same_re x (bic O x a b).
Proof.
  unfold bic, i_times. revert a b; induction x as [|u x IH]; intros [|v a] [|w b] H1 H2; cbn in *; try discriminate; [constructor|].
  constructor; [cbn; unfold z; cbn; lra | apply IH; lia].
Qed.
Lemma same_re_cplus_i x h : List.length x = List.length h -> same_re x (cplus O x (fst (i_times O h)) (snd (i_times O h))).
Proof.
  unfold cplus, i_times. cbn [fst snd]. revert h; induction x as [|u x IH]; intros [|v h] H1; cbn in *; try discriminate; [constructor|].
  constructor; [cbn; unfold z; cbn; lra | apply IH; lia].
Qed.
Theorem derivative_multicomplex x h : List.length x = List.length h ->
  Forall (same_re x) (pts_derivative O sr si "_multicomplex" x h) /\ Forall (same_re x) (pts_derivative O sr si "_multicomplex2" x h)
  /\ Forall (same_re x) (pts_derivative O sr si "_complex" x h).
Proof.
  intros HL. repeat split; cbn; (constructor; [|constructor]).
  - apply same_re_bic; [exact HL | rewrite map_length; reflexivity].
  - apply same_re_bic; [exact HL | reflexivity].
  - apply same_re_cplus_i. exact HL.
Qed.
Theorem jacobian_complex_step x h : List.length x = List.length h ->
  Forall (same_re x) (pts_jacobian O sr si "_multicomplex" x h) /\ Forall (same_re x) (pts_jacobian O sr si "_complex" x h).
Proof.
  intros HL. split; unfold pts_jacobian; apply Forall_concat; apply Forall_forall; intros l Hl; apply in_map_iff in Hl as [k [<- _]]; cbn; (constructor; [|constructor]).
  - apply same_re_bic; [rewrite inc_length; exact HL | rewrite map_length; reflexivity].
  - apply same_re_cplus_i. rewrite inc_length. exact HL.
Qed.
Theorem hessdiag_hessian_multicomplex x h : List.length x = List.length h ->
  Forall (same_re x) (pts_hessdiag O sq2 "_multicomplex2" x h) /\ Forall (same_re x) (pts_hessian O "_multicomplex2" x h).
Proof.
  intros HL. split.
  - unfold pts_hessdiag. apply Forall_concat. apply Forall_forall. intros l Hl. apply in_map_iff in Hl as [k [<- _]]. cbn. constructor; [|constructor].
    apply same_re_bic; [rewrite inc_length; exact HL | reflexivity].
  - cbn. apply Forall_forall. intros p Hp. apply in_map_iff in Hp as [k [<- _]].
    apply same_re_bic; rewrite !inc_length; [exact HL | reflexivity].
Qed.

(* ---- central: the points come in pairs x + d, x - d with the SAME displacement d (mirror images about x) ---- *)
Definition mirror_pair (x : list R) (p q : pt) : Prop := exists d, List.length x = List.length d /\ p = real_pt O (padd O x d) /\ q = real_pt O (psub O x d).
Theorem derivative_central x h : List.length x = List.length h ->
  exists p q, pts_derivative O sr si "_central" x h = [p; q] /\ mirror_pair x p q.
Proof. intros HL. eexists; eexists; split; [reflexivity|]. exists h. repeat split; assumption. Qed.
Theorem jacobian_central x h k : List.length x = List.length h ->
  exists p q, (if String.eqb "_central" "_central" then [real_pt O (padd O x (inc O h k)); real_pt O (psub O x (inc O h k))] else []) = [p; q] /\ mirror_pair x p q.
Proof. intros HL. eexists; eexists; split; [reflexivity|]. exists (inc O h k). rewrite inc_length. repeat split; assumption. Qed.
(* mirror images really are mirror images: Re p_c + Re q_c = 2 x_c *)
Theorem mirror_pair_symmetric x p q : mirror_pair x p q -> Forall2 (fun xc pq => re4 (fst pq) + re4 (snd pq) = 2 * xc) x (combine p q).
Proof.
  intros [d [HL [-> ->]]]. revert d HL. induction x as [|a x IH]; intros [|b d] HL; cbn in *; try discriminate; [constructor|].
  constructor; [cbn; lra | apply IH; lia].
Qed.
End P.
