(* C14 - streaming epsilon algorithms: EpsAlg matches the Shanks table; Dea is total.
   Statements only; proofs in Theory/. *)
From mathcomp Require Import all_ssreflect all_algebra.
Require Import NDT.Arith.Ops NDT.Arith.OpsField NDT.Model.EpsAlg NDT.Theory.EpsAlgTheory.
Import GRing.Theory.
Local Open Scope ring_scope.

(* fed s_0..s_{n-1} one at a time, the table is the anti-diagonal of Wynn's epsilon table
   (E j m = eps_{j-1}^{(m)}), for every n, over any field *)
Theorem C14_epsalg_table (F : fieldType) (small big : F) (s : nat -> F) n :
  run (OpsField F) small big (mkseq s n) = mkseq (fun i => E s (n - i) i) n.
Proof. exact (epsalg_table small big s n). Qed.

(* and the value returned after n+1 terms is the entry of highest even order determined so far *)
Theorem C14_epsalg_returns_highest_even (F : fieldType) (small big : F) (s : nat -> F) n :
  estlim (OpsField F) (run (OpsField F) small big (mkseq s n.+1)) = E s ((n - n %% 2).+1) (n %% 2).
Proof. exact (estlim_spec small big s n). Qed.

(* Wynn's recursion, as a reading aid for E *)
Theorem C14_wynn_recursion (F : fieldType) (s : nat -> F) j m :
  E s 0 m = 0 /\ E s 1 m = s m /\ E s j.+2 m = E s j m.+1 + 1 / (E s j.+1 m.+1 - E s j.+1 m).
Proof. by []. Qed.

(* Shanks for one geometric transient: three terms of L + a q^k give L *)
Theorem C14_one_transient (F : fieldType) (L a q small big : F) : a != 0 -> q != 0 -> q != 1 ->
  estlim (OpsField F) (run (OpsField F) small big (mkseq (fun k => L + a * q ^+ k) 3)) = L.
Proof. move=> a0 q0 q1. exact (@epsalg_one_transient F L a q a0 q0 q1 small big). Qed.

(* ---- Dea ---- *)
From Coq Require Import Reals List.
Require Import NDT.Arith.OpsR NDT.Model.Dea NDT.Theory.DeaTheory.

(* totality: for ANY arithmetic (so for binary64, whatever its comparisons return), any table size
   limexp >= 2 and any sequence of any length, no table access is out of range: no IndexError *)
Theorem C14_dea_total {A} (O : Ops A) (thr : A) (limexp : nat) (vs : list A) : (2 <= limexp)%coq_nat ->
  ok (fst (feed O thr (init O limexp) vs)) = true.
Proof. exact (feed_total O thr limexp vs). Qed.

(* every call, whatever the history: abserr >= 5*eps*|result| (exact arithmetic over R) *)
Theorem C14_dea_abserr_floor (eps tiny huge thr : R) (s : @st R) (v : R) :
  let '(s', r, a) := call (OpsR eps tiny huge) thr s v in ok s' = true -> (5 * eps * Rabs r <= a)%R.
Proof. exact (call_floor eps tiny huge thr s v). Qed.

(* regression witness on the binary64 instance: the history that used to raise IndexError *)
Require Import NDT.Arith.OpsFloat NDT.Theory.DeaExamples.
Theorem C14_dea_limexp5_geometric_ok : ok (fst (feed OpsF THR (init OpsF 5) geo_half)) = true.
Proof. exact dea_limexp5_geometric_ok. Qed.
