(* C17 (continued) - the DFT of the samples on a circle returns the aliased Taylor coefficients; any field with a
   primitive m-th root of unity.  Statements only (mathcomp); proofs in Theory/TaylorDft.v. *)
From mathcomp Require Import all_ssreflect all_algebra.
Require Import NDT.Theory.TaylorDft.
Import GRing.Theory.
Local Open Scope ring_scope.

Theorem C17_dft_coefficients (F : fieldType) (m : nat) (w : F) (N : nat) (a : nat -> F) (r : F) k :
  m.-primitive_root w -> (k < m)%N ->
  \sum_(j < m) f N a (r * w ^+ j) * (w^-1) ^+ (j * k) = m%:R * \sum_(t < N | (t %% m == k)%N) a t * r ^+ t.
Proof. move=> wp km; exact: (dft_coefficients wp N a r km). Qed.
Theorem C17_dft_exact_for_polynomials (F : fieldType) (m : nat) (w : F) (N : nat) (a : nat -> F) (r : F) k :
  m.-primitive_root w -> (N <= m)%N -> (k < N)%N ->
  \sum_(j < m) f N a (r * w ^+ j) * (w^-1) ^+ (j * k) = m%:R * (a k * r ^+ k).
Proof. move=> wp Nm kN; exact: (dft_exact wp a r Nm kN). Qed.
