(* C12 - Bicomplex numbers implement the holomorphic extension of every function.
   Statements only; proofs in Theory/BicomplexTheory.v; model Model/Bicomplex.v. *)
From Coq Require Import Ring Field.
Require Import NDT.Model.Bicomplex NDT.Theory.BicomplexTheory.
Section C12.
Variable C : Type.
Variables (z0 z1 : C) (fadd fmul fsub : C -> C -> C) (fopp : C -> C) (fdiv : C -> C -> C) (finv : C -> C).
Variable Cth : field_theory z0 z1 fadd fmul fsub fopp fdiv finv eq.
Variables (ii half : C).
Hypothesis ii2 : fmul ii ii = fopp z1.
Hypothesis half2 : fadd half half = z1.
Variables fexp fexpm1 fsin fcos fsinh fcosh : C -> C.
Notation K := (K C z0 z1 fadd fmul fsub fopp fexp fexpm1 fsin fcos fsinh fcosh).
Notation PHI := (phi C fadd fmul fsub ii).
Notation PSI := (psi C fadd fmul fsub ii half).

(* phi(z1, z2) = (z1 - i z2, z1 + i z2) is a ring isomorphism onto the product C x C *)
Theorem C12_phi_add a b : PHI (bc_add K a b) = (fadd (fst (PHI a)) (fst (PHI b)), fadd (snd (PHI a)) (snd (PHI b))).
Proof. exact (phi_add C z0 z1 fadd fmul fsub fopp fdiv finv Cth ii fexp fexpm1 fsin fcos fsinh fcosh a b). Qed.
Theorem C12_phi_sub a b : PHI (bc_sub K a b) = (fsub (fst (PHI a)) (fst (PHI b)), fsub (snd (PHI a)) (snd (PHI b))).
Proof. exact (phi_sub C z0 z1 fadd fmul fsub fopp fdiv finv Cth ii fexp fexpm1 fsin fcos fsinh fcosh a b). Qed.
Theorem C12_phi_mul a b : PHI (bc_mul K a b) = (fmul (fst (PHI a)) (fst (PHI b)), fmul (snd (PHI a)) (snd (PHI b))).
Proof. exact (phi_mul C z0 z1 fadd fmul fsub fopp fdiv finv Cth ii ii2 fexp fexpm1 fsin fcos fsinh fcosh a b). Qed.
Theorem C12_phi_neg a : PHI (bc_neg K a) = (fopp (fst (PHI a)), fopp (snd (PHI a))).
Proof. exact (phi_neg C z0 z1 fadd fmul fsub fopp fdiv finv Cth ii fexp fexpm1 fsin fcos fsinh fcosh a). Qed.
Theorem C12_phi_rsub self other : PHI (bc_rsub K self other) = (fsub (fst (PHI other)) (fst (PHI self)), fsub (snd (PHI other)) (snd (PHI self))).
Proof. exact (phi_rsub C z0 z1 fadd fmul fsub fopp fdiv finv Cth ii fexp fexpm1 fsin fcos fsinh fcosh self other). Qed.
Theorem C12_phi_conj a : PHI (bc_conj K a) = (snd (PHI a), fst (PHI a)).
Proof. exact (phi_conj C z0 z1 fadd fmul fsub fopp fdiv finv Cth ii fexp fexpm1 fsin fcos fsinh fcosh a). Qed.
Theorem C12_psi_phi a : PSI (PHI a) = a.
Proof. exact (psi_phi C z0 z1 fadd fmul fsub fopp fdiv finv Cth ii ii2 half half2 a). Qed.
Theorem C12_phi_psi u : PHI (PSI u) = u.
Proof. exact (phi_psi C z0 z1 fadd fmul fsub fopp fdiv finv Cth ii ii2 half half2 u). Qed.
(* z2 = 0: reduces to the ordinary complex operation *)
Theorem C12_complex_embedding z w : PHI (bc_of_complex K z) = (z, z) /\ bc_mul K (bc_of_complex K z) (bc_of_complex K w) = bc_of_complex K (fmul z w).
Proof. split; [exact (phi_complex C z0 z1 fadd fmul fsub fopp fdiv finv Cth ii fexp fexpm1 fsin fcos fsinh fcosh z)
             | exact (mul_complex C z0 z1 fadd fmul fsub fopp fdiv finv Cth fexp fexpm1 fsin fcos fsinh fcosh z w)]. Qed.

(* polynomials: evaluation with Bicomplex arithmetic commutes with phi; at the multicomplex evaluation
   point x + i h + j h the value is psi (P x, P (x + 2 i h)) *)
Notation BPE := (bc_peval C z0 z1 fadd fmul fsub fopp fexp fexpm1 fsin fcos fsinh fcosh).
Notation PE := (peval C z0 fadd fmul).
Theorem C12_poly_extension p x : PHI (BPE p x) = (PE p (fst (PHI x)), PE p (snd (PHI x))).
Proof. exact (poly_phi C z0 z1 fadd fmul fsub fopp fdiv finv Cth ii ii2 fexp fexpm1 fsin fcos fsinh fcosh p x). Qed.
Theorem C12_multicomplex_point p x h :
  BPE p (fadd x (fmul ii h), h) = PSI (PE p x, PE p (fadd x (fmul (fadd ii ii) h))).
Proof. exact (mc_poly C z0 z1 fadd fmul fsub fopp fdiv finv Cth ii ii2 half half2 fexp fexpm1 fsin fcos fsinh fcosh p x h). Qed.

(* elementary functions, under the functional equations of the complex functions (premises, not axioms):
   the component formulas of the source are e1 f(z1 - i z2) + e2 f(z1 + i z2) *)
Hypothesis sin_add : forall a b, fsin (fadd a b) = fadd (fmul (fsin a) (fcos b)) (fmul (fcos a) (fsin b)).
Hypothesis cos_add : forall a b, fcos (fadd a b) = fsub (fmul (fcos a) (fcos b)) (fmul (fsin a) (fsin b)).
Hypothesis sinh_add : forall a b, fsinh (fadd a b) = fadd (fmul (fsinh a) (fcosh b)) (fmul (fcosh a) (fsinh b)).
Hypothesis cosh_add : forall a b, fcosh (fadd a b) = fadd (fmul (fcosh a) (fcosh b)) (fmul (fsinh a) (fsinh b)).
Hypothesis sin_i : forall x, fsin (fmul ii x) = fmul ii (fsinh x).
Hypothesis cos_i : forall x, fcos (fmul ii x) = fcosh x.
Hypothesis sinh_i : forall x, fsinh (fmul ii x) = fmul ii (fsin x).
Hypothesis cosh_i : forall x, fcosh (fmul ii x) = fcos x.
Hypothesis sin_odd : forall x, fsin (fopp x) = fopp (fsin x).
Hypothesis cos_even : forall x, fcos (fopp x) = fcos x.
Hypothesis sinh_odd : forall x, fsinh (fopp x) = fopp (fsinh x).
Hypothesis cosh_even : forall x, fcosh (fopp x) = fcosh x.
Hypothesis exp_add : forall a b, fexp (fadd a b) = fmul (fexp a) (fexp b).
Hypothesis exp_i : forall x, fexp (fmul ii x) = fadd (fcos x) (fmul ii (fsin x)).
Hypothesis expm1_def : forall x, fexpm1 x = fsub (fexp x) z1.

Theorem C12_sin a : PHI (bc_sin K a) = (fsin (fst (PHI a)), fsin (snd (PHI a))).
Proof. exact (phi_sin C z0 z1 fadd fmul fsub fopp fdiv finv Cth ii fexp fexpm1 fsin fcos fsinh fcosh sin_add sin_i cos_i sinh_odd cosh_even a). Qed.
Theorem C12_cos a : PHI (bc_cos K a) = (fcos (fst (PHI a)), fcos (snd (PHI a))).
Proof. exact (phi_cos C z0 z1 fadd fmul fsub fopp fdiv finv Cth ii fexp fexpm1 fsin fcos fsinh fcosh cos_add sin_i cos_i sinh_odd cosh_even a). Qed.
Theorem C12_sinh a : PHI (bc_sinh K a) = (fsinh (fst (PHI a)), fsinh (snd (PHI a))).
Proof. exact (phi_sinh C z0 z1 fadd fmul fsub fopp fdiv finv Cth ii fexp fexpm1 fsin fcos fsinh fcosh sinh_add sinh_i cosh_i sin_odd cos_even a). Qed.
Theorem C12_cosh a : PHI (bc_cosh K a) = (fcosh (fst (PHI a)), fcosh (snd (PHI a))).
Proof. exact (phi_cosh C z0 z1 fadd fmul fsub fopp fdiv finv Cth ii fexp fexpm1 fsin fcos fsinh fcosh cosh_add sinh_i cosh_i sin_odd cos_even a). Qed.
Theorem C12_exp a : PHI (bc_exp K a) = (fexp (fst (PHI a)), fexp (snd (PHI a))).
Proof. exact (phi_exp C z0 z1 fadd fmul fsub fopp fdiv finv Cth ii fexp fexpm1 fsin fcos fsinh fcosh sin_odd cos_even exp_add exp_i a). Qed.
Theorem C12_expm1 a : PHI (bc_expm1 K a) = (fexpm1 (fst (PHI a)), fexpm1 (snd (PHI a))).
Proof. exact (phi_expm1 C z0 z1 fadd fmul fsub fopp fdiv finv Cth ii fexp fexpm1 fsin fcos fsinh fcosh sin_odd cos_even exp_add exp_i expm1_def a). Qed.
(* the formula used before the repair misses the extension by exactly 1 - exp(-i z2) *)
Theorem C12_old_expm1_formula_is_not_the_extension a1 a2 :
  fsub (fsub (fmul (fexpm1 a1) (fcos a2)) (fmul ii (fmul (fexpm1 a1) (fsin a2)))) (fexpm1 (fsub a1 (fmul ii a2)))
  = fsub z1 (fexp (fmul ii (fopp a2))).
Proof. exact (old_expm1_defect C z0 z1 fadd fmul fsub fopp fdiv finv Cth ii fexp fexpm1 fsin fcos sin_odd cos_even exp_add exp_i expm1_def a1 a2). Qed.
End C12.
