(* C19 - nd_scipy wrappers return the Jacobian/gradient and respect bounds (PARTIAL: the wrapper is
   proved; scipy.optimize.approx_derivative is an oracle whose assumed specification is validated by a
   run-time monitor).  Statements only. *)
From Coq Require Import List Arith Bool String.
Require Import NDT.Gen.Scipy NDT.Model.Shapes NDT.Theory.ScipyTheory.
Import ListNotations.

Theorem C19_method_map :
  scipy_method Complex = Some "cs"%string /\ scipy_method Central = Some "3-point"%string /\
  scipy_method Forward = Some "2-point"%string /\ scipy_method Multicomplex = None /\ scipy_method Central2 = None /\ scipy_method OtherM = None.
Proof. exact method_map. Qed.

(* bounds, rel_step, args, kwargs, sparsity reach scipy unchanged; x only through atleast_1d; the
   Jacobian result is made 2-d; Gradient ravels x and squeezes the result *)
Theorem C19_wrapper_structure :
  scipy_options_forwarded = true /\ scipy_x_atleast_1d = true /\ scipy_calls_approx_derivative = true /\
  scipy_gradient_ravel_squeeze = true /\ scipy_ctor_stores_options = true /\ scipy_jacobian_result_2d_for_vector_f = true.
Proof. exact wrapper_structure. Qed.

(* f returned as a length-m vector, m >= 1: shape (m, n) *)
Theorem C19_jacobian_shape m n : 1 <= m -> 1 <= n -> jacobian_result_shape true m n = [m; n].
Proof. exact (jacobian_shape m n). Qed.

Theorem C19_gradient_shape (xs : shape) (f_is_vector : bool) : let n := size xs in
  squeeze (jacobian_result_shape f_is_vector 1 n) = if Nat.eqb n 1 then [] else [n].
Proof. exact (gradient_shape xs f_is_vector). Qed.
