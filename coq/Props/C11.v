(* C11 - misuse fails loudly with ValueError instead of returning numbers.  Statements only.
   NDT.Gen.Guards / NDT.Gen.Spec are regenerated from /repo on every run: the theorems are about
   where the guards sit in the code as it is now. *)
From Coq Require Import ZArith Bool List String.
Require Import NDT.Gen.Spec NDT.Gen.Guards NDT.Theory.GuardsTheory.
Open Scope Z_scope.

(* complex-step methods, every derivative class: complex x or complex-valued f(x) is rejected before
   any stencil is evaluated *)
Theorem C11_complex_guard c m x_complex fx_complex : complex_method m = true -> x_complex || fx_complex = true ->
  complex_outcome c m x_complex fx_complex = ValueError.
Proof. exact (complex_guard c m x_complex fx_complex). Qed.

Theorem C11_multicomplex_n_above_2 n order : 3 <= n -> get_middle_name Multicomplex n order = "!ValueError"%string.
Proof. exact (multicomplex_n_guard n order). Qed.
Theorem C11_multicomplex_n_1_2_accepted n order : 1 <= n <= 2 -> get_middle_name Multicomplex n order <> "!ValueError"%string.
Proof. exact (multicomplex_n_ok n order). Qed.

Theorem C11_fewer_steps_than_rule rule_size num_steps : num_steps < rule_size -> apply_outcome rule_size num_steps = ValueError.
Proof. exact (few_steps_guard rule_size num_steps). Qed.

Theorem C11_residue_order pole_order order : order <= pole_order -> residue_order_guard pole_order order = false.
Proof. exact (residue_guard pole_order order). Qed.
Theorem C11_residue_default_accepted pole_order : residue_order_guard pole_order (residue_default_order pole_order) = true.
Proof. exact (residue_default_ok pole_order). Qed.

Theorem C11_fd_weights_too_few_points n m : m <= n -> fdw_guard n m = false.
Proof. exact (fdw_guard_rejects n m). Qed.
Theorem C11_fd_derivative_misuse n num_x len_fx : num_x <= n \/ num_x <> len_fx -> fdd_guard n num_x len_fx = false.
Proof. exact (fdd_guard_rejects n num_x len_fx). Qed.

(* size guards and the path guard are present where the misuse would otherwise be absorbed *)
Theorem C11_structural_guards :
  dirdiff_size_guard = true /\ logrule_vstack_size_guard = true /\ jacobian_vstack_size_guard = true /\
  limit_vstack_size_guard = true /\ path_guard_in_constructor = true /\ apply_shape_ok = true.
Proof. exact structural_guards_present. Qed.
