(* C10 - step generators: documented geometric sequences, and enough steps.
   Statements only; proofs live in Theory/.  The definitions under NDT.Gen.Spec are regenerated from
   /repo on every run, so these theorems are re-checked against what the code says now. *)
From Coq Require Import Reals ZArith QArith List Bool.
Require Import NDT.Arith.Ops NDT.Arith.OpsR NDT.Gen.Spec NDT.Model.Steps
               NDT.Theory.StepsCount NDT.Theory.StepsSeq NDT.Theory.StepsScale.
Import ListNotations.

(* coupling clause, every class: the rule never consumes more steps than the default count *)
Theorem C10_steps_enough_derivative m n order : (1 <= n)%Z -> (1 <= order)%Z ->
  (1 <= rule_num_terms m n order <= min_num_steps m n (method_order m n order))%Z.
Proof. exact (steps_enough_logrule m n order). Qed.
Theorem C10_steps_enough_jacobian m n order : (1 <= n)%Z -> (1 <= order)%Z ->
  (1 <= jac_rule_num_terms m n order <= min_num_steps m n (jac_method_order m n order))%Z.
Proof. exact (steps_enough_jacobian m n order). Qed.
Theorem C10_steps_enough_hessdiag m n order : (1 <= order)%Z ->
  (1 <= hd_rule_num_terms m n order <= min_num_steps m hd_n (hd_method_order m n order))%Z.
Proof. exact (steps_enough_hessdiag m n order). Qed.
Theorem C10_steps_enough_hessian m n order :
  (1 <= hs_rule_num_terms m n order <= min_num_steps m hs_n (hs_method_order m n order))%Z.
Proof. exact (steps_enough_hessian m n order). Qed.

(* ... so the guard `rule.size - 1 < num_steps` of LogRule._apply cannot fire for a valid configuration:
   default count, any num_extrap >= 0, or any user count when check_num_steps is on *)
Theorem C10_apply_guard_never_fires u ck e m n order :
  (1 <= n)%Z -> (1 <= order)%Z -> (0 <= e)%Z -> u = None \/ ck = true ->
  (rule_size m n order - 1 < num_steps u ck e m n (method_order m n order))%Z.
Proof. exact (apply_guard_never_fires u ck e m n order). Qed.

(* the documented meaning of num_steps *)
Theorem C10_num_steps_default ck e m n o : num_steps None ck e m n o = (min_num_steps m n o + e)%Z.
Proof. exact (num_steps_default ck e m n o). Qed.
Theorem C10_num_steps_user_checked u e m n o : num_steps (Some u) true e m n o = Z.max u (min_num_steps m n o).
Proof. exact (num_steps_user_checked u e m n o). Qed.
Theorem C10_num_steps_user_unchecked u e m n o : num_steps (Some u) false e m n o = u.
Proof. exact (num_steps_user_unchecked u e m n o). Qed.

(* sequences: exponents, count, closed form, decreasing magnitude, dropping of zero steps only *)
Theorem C10_exponents_max num off i : (i < num)%nat -> nth i (exps true num off) 0%Z = (- Z.of_nat i + off)%Z.
Proof. exact (exps_max_nth num off i). Qed.
Theorem C10_exponents_min num off i : (i < num)%nat -> nth i (exps false num off) 0%Z = (Z.of_nat (num - 1 - i) + off)%Z.
Proof. exact (exps_min_nth num off i). Qed.
Theorem C10_count eps tiny huge ratio (Hr : (0 < ratio)%R) base is_max num off :
  Forall (fun b => b <> 0%R) base ->
  length (basic_steps (OpsR eps tiny huge) (powerRZ ratio) base is_max num off) = num.
Proof. exact (basic_steps_count eps tiny huge ratio Hr base is_max num off). Qed.
Theorem C10_closed_form eps tiny huge ratio (Hr : (0 < ratio)%R) base is_max num off i j :
  Forall (fun b => b <> 0%R) base -> (i < num)%nat ->
  nth j (nth i (basic_steps (OpsR eps tiny huge) (powerRZ ratio) base is_max num off) []) 0%R =
  nth j (map (fun b => (b * powerRZ ratio (nth i (exps is_max num off) 0%Z))%R) base) 0%R.
Proof. exact (basic_steps_nth eps tiny huge ratio Hr base is_max num off i j). Qed.
Theorem C10_only_zero_steps_dropped eps tiny huge ratio base is_max num off s :
  In s (basic_steps (OpsR eps tiny huge) (powerRZ ratio) base is_max num off) <->
  In s (map (step_at (OpsR eps tiny huge) (powerRZ ratio) base) (exps is_max num off)) /\ keep (OpsR eps tiny huge) s = true.
Proof. exact (basic_steps_filter eps tiny huge ratio base is_max num off s). Qed.
Theorem C10_decreasing ratio (Hr : (0 < ratio)%R) b e : (1 < ratio)%R -> b <> 0%R ->
  (Rabs (b * powerRZ ratio (e - 1)) < Rabs (b * powerRZ ratio e))%R.
Proof. exact (basic_steps_decreasing ratio Hr b e). Qed.
Theorem C10_consecutive_exponents is_max num off i : (S i < num)%nat ->
  nth (S i) (exps is_max num off) 0%Z = (nth i (exps is_max num off) 0%Z - 1)%Z.
Proof. exact (exps_consecutive is_max num off i). Qed.

(* defaults *)
Theorem C10_default_scale_positive m n order : (1 <= n)%Z -> (1 <= order)%Z -> (0 < default_scale m n order)%Q.
Proof. exact (default_scale_pos m n order). Qed.
Theorem C10_default_ratio n : default_step_ratio n = if (n =? 1)%Z then (2 # 1)%Q else (8 # 5)%Q.
Proof. reflexivity. Qed.
