(* C08 - array inputs are handled elementwise and keep their shape.  Statements only.
   Model/ArrayCall.v treats the (steps x elements) matrices column by column; its binary64 instance is
   compared bit-for-bit, per element, with Derivative on arrays (tie).  For ANY arithmetic: *)
From Coq Require Import List Bool.
Require Import NDT.Arith.Ops NDT.Model.Pipeline NDT.Model.ArrayCall NDT.Theory.ArrayCallTheory NDT.Gen.Guards.
Import ListNotations.

(* one result per element, in ravel order (the caller reshapes to the shape of x) *)
Theorem C08_one_result_per_element {A} (O : Ops A) tf thr c8 c15 ch fdel hn steps rule rr ncols :
  length (array_call O tf thr c8 c15 ch fdel hn steps rule rr ncols) = ncols.
Proof. exact (array_call_length O tf thr c8 c15 ch fdel hn steps rule rr ncols). Qed.

(* altering the other elements leaves element c bit-identical (any two inputs agreeing on column c) *)
Theorem C08_other_elements_do_not_matter {A} (O : Ops A) tf thr c8 c15 ch fdel fdel' hn hn' steps steps' rule rr ncols ncols' c d :
  c < ncols -> c < ncols' ->
  col O fdel c = col O fdel' c -> col O hn c = col O hn' c -> col O steps c = col O steps' c ->
  nth c (array_call O tf thr c8 c15 ch fdel hn steps rule rr ncols) d = nth c (array_call O tf thr c8 c15 ch fdel' hn' steps' rule rr ncols') d.
Proof. exact (array_call_depends_on_own_column O tf thr c8 c15 ch fdel fdel' hn hn' steps steps' rule rr ncols ncols' c d). Qed.

(* evaluating that element alone as a one-element call gives the same value *)
Theorem C08_same_as_scalar {A} (O : Ops A) tf thr c8 c15 ch fdel hn steps rule rr ncols c d : c < ncols ->
  nth c (array_call O tf thr c8 c15 ch fdel hn steps rule rr ncols) d
  = nth 0 (array_call O tf thr c8 c15 ch (map (fun x => [x]) (col O fdel c)) (map (fun x => [x]) (col O hn c)) (map (fun x => [x]) (col O steps c)) rule rr 1) d.
Proof. exact (array_call_scalar O tf thr c8 c15 ch fdel hn steps rule rr ncols c d). Qed.

(* extra positional and keyword arguments reach f unchanged on every evaluation (structure of
   _get_functions / __call__ / _derivative_* read off the AST by the translator) *)
Theorem C08_args_forwarded : args_forwarded_unchanged = true.
Proof. reflexivity. Qed.
