(* C05 - the function is only evaluated where the chosen method promises.  Statements only; proofs in
   Theory/PointsTheory.v about Model/Points.v, whose binary64 instance reproduces the recorded argument
   list of f (order, count, bits) for all five classes.  Over R, steps h_c >= 0 (C10), any dimension. *)
From Coq Require Import Reals List String ZArith Lia.
Require Import NDT.Arith.Ops NDT.Arith.OpsR NDT.Model.Points NDT.Theory.PointsTheory NDT.Gen.Spec NDT.Theory.RuleTables.
Import ListNotations.
Open Scope R_scope.

Section C05.
Variables eps tiny huge sr si sq2 : R.
Notation O := (OpsR eps tiny huge).

(* 'forward' never evaluates at any coordinate below x, 'backward' never above x: every class *)
Theorem C05_derivative_forward x h : List.length x = List.length h -> nonneg h -> Forall (above x) (pts_derivative O sr si "_forward" x h).
Proof. exact (derivative_forward eps tiny huge sr si x h). Qed.
Theorem C05_derivative_backward x h : List.length x = List.length h -> nonneg h -> Forall (below x) (pts_derivative O sr si "_backward" x h).
Proof. exact (derivative_backward eps tiny huge sr si x h). Qed.
Theorem C05_jacobian_forward x h : List.length x = List.length h -> nonneg h -> Forall (above x) (pts_jacobian O sr si "_forward" x h).
Proof. exact (jacobian_forward eps tiny huge sr si x h). Qed.
Theorem C05_jacobian_backward x h : List.length x = List.length h -> nonneg h -> Forall (below x) (pts_jacobian O sr si "_backward" x h).
Proof. exact (jacobian_backward eps tiny huge sr si x h). Qed.
Theorem C05_hessdiag_forward x h : List.length x = List.length h -> nonneg h -> Forall (above x) (pts_hessdiag O sq2 "_forward" x h).
Proof. exact (hessdiag_forward eps tiny huge sq2 x h). Qed.
Theorem C05_hessdiag_backward x h : List.length x = List.length h -> nonneg h -> Forall (below x) (pts_hessdiag O sq2 "_backward" x h).
Proof. exact (hessdiag_backward eps tiny huge sq2 x h). Qed.
Theorem C05_hessian_forward x h : List.length x = List.length h -> nonneg h -> Forall (above x) (pts_hessian O "_forward" x h).
Proof. exact (hessian_forward eps tiny huge x h). Qed.
Theorem C05_hessian_backward x h : List.length x = List.length h -> nonneg h -> Forall (below x) (pts_hessian_backward O x h).
Proof. exact (hessian_backward eps tiny huge x h). Qed.

(* multicomplex and the first-derivative complex rule perturb imaginary parts only: Re of every argument is x *)
Theorem C05_derivative_complex_step x h : List.length x = List.length h ->
  Forall (same_re x) (pts_derivative O sr si "_multicomplex" x h) /\ Forall (same_re x) (pts_derivative O sr si "_multicomplex2" x h)
  /\ Forall (same_re x) (pts_derivative O sr si "_complex" x h).
Proof. exact (derivative_multicomplex eps tiny huge sr si x h). Qed.
Theorem C05_jacobian_complex_step x h : List.length x = List.length h ->
  Forall (same_re x) (pts_jacobian O sr si "_multicomplex" x h) /\ Forall (same_re x) (pts_jacobian O sr si "_complex" x h).
Proof. exact (jacobian_complex_step eps tiny huge sr si x h). Qed.
Theorem C05_hessdiag_hessian_multicomplex x h : List.length x = List.length h ->
  Forall (same_re x) (pts_hessdiag O sq2 "_multicomplex2" x h) /\ Forall (same_re x) (pts_hessian O "_multicomplex2" x h).
Proof. exact (hessdiag_hessian_multicomplex eps tiny huge sq2 x h). Qed.

(* central: the two evaluations are x + d and x - d with the same d, i.e. mirror images about x *)
Theorem C05_derivative_central x h : List.length x = List.length h ->
  exists p q, pts_derivative O sr si "_central" x h = [p; q] /\ mirror_pair eps tiny huge x p q.
Proof. exact (derivative_central eps tiny huge sr si x h). Qed.
Theorem C05_mirror_pair_symmetric x p q : mirror_pair eps tiny huge x p q ->
  Forall2 (fun xc pq => re4 (fst pq) + re4 (snd pq) = 2 * xc) x (combine p q).
Proof. exact (mirror_pair_symmetric eps tiny huge x p q). Qed.
End C05.

(* which calls get the classic rule f(x + i h).imag ("the default first-derivative complex rule"): on the regenerated name
   dispatch, method = 'complex' with n = 1 and every requested order below 4 (order 2 is the default; 1 and 3 round to it) *)
Theorem C05_default_complex_rule_is_classic order : (1 <= order < 4)%Z -> diff_name Complex 1 order = "_complex"%string.
Proof.
  intros H. assert (E : order = 1%Z \/ order = 2%Z \/ order = 3%Z) by lia.
  destruct E as [-> | [-> | ->]]; vm_compute; reflexivity.
Qed.
