(* C02, the honesty clause where it IS a theorem: on polynomials of degree < n + method_order the returned value is exact
   (C01_derivative_exact_on_polynomials) and the returned error estimate is non-negative (C02_error_estimate_nonneg), so
   |result - f^(n)(x)| = 0 <= K * error_estimate for every multiple K >= 0 and every floor: the estimate is honest there for all
   methods in {central, forward, backward, complex}, n, order, ratios and numbers of steps.  (For non-polynomial f the clause
   stays a sweep, see Props/C02.v.) *)
From Coq Require Import Reals ZArith List Lia Lra.
From mathcomp Require Import all_ssreflect all_algebra.
Require Import NDT.Arith.Ops NDT.Arith.OpsR NDT.Arith.Rfield NDT.Gen.Spec NDT.Theory.RuleTables NDT.Theory.RuleTablesNat
               NDT.Theory.RuleStencil NDT.Model.Convolve NDT.Model.Pipeline NDT.Theory.RichardsonTheory NDT.Theory.PipelineTheory
               NDT.Theory.DerivativeExact.
Delimit Scope R_scope with RR.

Theorem C02_honest_on_polynomials (eps tiny huge tf c8 c15 ch : R) (s : R) (m : method) (n order : Z)
    (rho h0 : R) (g : nat -> R) (rule rr steps : list R) (len : nat) (K : R) :
  (0 <= K)%RR ->
  (0 <= eps)%RR -> (s * s + s * s = 1)%RR ->
  Z.le (Zpos xH) n -> Z.le (Zpos xH) order -> m = Central \/ m = Forward \/ m = Backward \/ m = Complex ->
  h0 <> 0%RR -> rho <> 0%RR ->
  let O := OpsR eps tiny huge in
  let off := offN m n order in let st := stN m n order in let T := termsN m n order in let r := rowN m n order in
  let c0 := IZR (c0Z m n order) in
  let fl := if flip_fd_rule m n order then (-1)%RR else 1%RR in
  length rule = T ->
  (forall j, (j < T)%N ->
     wsum rule (fun i => (c0 / INR (Factorial.fact (off + st * j)) * rho ^ (i * (off + st * j)))%RR) = if Nat.eqb j r then fl else 0%RR) ->
  symcode O rule = Z0 \/ length rule = 1%N ->
  wsum rr (fun _ => 1%RR) = 1%RR -> (1 <= length rr)%N -> symcode O rr = Z0 \/ length rr = 1%N ->
  length steps = len -> (T + (length rr - 1) <= len)%N ->
  let fdel := List.map (fun t => stencil_value (F:=R_fieldType) s m n order g (stencil_of m n order) (h0 * rho ^ t)%RR) (List.seq 0 len) in
  let hn := List.map (fun t => ((h0 * rho ^ t) ^ Z.to_nat n)%RR) (List.seq 0 len) in
  let out := pipeline O tf (1/10000)%RR c8 c15 ch fdel hn steps rule rr in
  (Rabs (fst (fst (fst out)) - INR (Factorial.fact (Z.to_nat n)) * g (Z.to_nat n)) <= K * snd (fst (fst out)))%RR.
Proof.
move=> HK He Hs Hn Ho Hm Hh Hr O off st T r c0 fl Hl Hsol Hp Hrs Hrl Hrp Hsl Hen fdel hn out.
have E := @derivative_exact_on_polynomials eps tiny huge tf c8 c15 ch He s Hs m n order Hn Ho Hm rho h0 g Hh Hr rule Hl Hsol Hp rr Hrs Hrl Hrp len steps Hsl Hen.
rewrite -/fdel -/hn -/out in E.
rewrite E Rminus_diag_eq // Rabs_R0.
apply: Rmult_le_pos => //.
rewrite /out /pipeline; case: (apply_rule _ _ _ _ _) => der hs.
exact: (extrapolate_err_nonneg eps tiny huge tf c8 c15 ch He).
Qed.
