(* C06 - finite-difference rules are exact to their stated order and match Richardson.
   Statements only.  Three layers (DESIGN 4, C06):
   (A) Taylor signature of every Derivative stencil, for every k        -- Theory/StencilSignatures.v
   (B) the decision tables regenerated from /repo agree with (A), for every method in
       {central, forward, backward, complex}, every n >= 1, every order >= 1 -- Theory/RuleTables*.v
   (C) exactness of the rule from (A)+(B) and w.M = e_r, any characteristic-0 field -- Theory/RuleExact.v *)
From Coq Require Import ZArith Bool List String Ring Field.
Require Import NDT.Gen.Spec NDT.Theory.RuleTables NDT.Theory.RuleTablesLead NDT.Theory.RuleTablesSupport
               NDT.Theory.StencilSignatures.
Open Scope Z_scope.

Definition real_method (m : method) : Prop := m = Central \/ m = Forward \/ m = Backward \/ m = Complex.

(* ---- (B) on the regenerated tables ---- *)
(* the wanted derivative sits at row rule_index of the moment system, inside the system *)
Theorem C06_index m n order : 1 <= n -> 1 <= order -> real_method m ->
  let p := rule_parity m n order in
  offset_tbl p + step_tbl p * rule_index m n order = n
  /\ (step_tbl p = richardson_step m n order \/ (step_tbl p = 1 /\ (m = Forward \/ m = Backward)))
  /\ 0 <= rule_index m n order < rule_num_terms m n order.
Proof. exact (index_is_n m n order). Qed.

(* the stencil the name dispatch selects has, at k = n and after the sign flip, exactly the table's c_0 *)
Theorem C06_leading_coefficient m n order : 1 <= n -> 1 <= order -> real_method m ->
  sigma (stencil_of m n order) n * (if flip_fd_rule m n order then -1 else 1) = c0_tbl (rule_parity m n order).
Proof. exact (sigma_n_is_c0 m n order). Qed.

(* its Taylor signature vanishes off the progression offset + step*j that the moment system models *)
Theorem C06_support m n order k : 1 <= n -> 1 <= order -> real_method m ->
  let p := rule_parity m n order in
  0 <= k -> sigma (stencil_of m n order) k <> 0 ->
  offset_tbl p <= k /\ (k - offset_tbl p) mod (step_tbl p) = 0.
Proof. exact (sigma_support m n order k). Qed.

(* the first Taylor index the rule does not control is n + method_order, and the spacing of the
   progression is richardson_step: the remaining error has leading power h^method_order and further
   powers spaced by richardson_step -- what the paired Richardson(step, order) is set up to remove *)
Theorem C06_remainder_matches_richardson m n order : 1 <= n -> 1 <= order -> real_method m ->
  let p := rule_parity m n order in
  offset_tbl p + step_tbl p * rule_num_terms m n order = n + method_order m n order
  /\ step_tbl p = richardson_step m n order.
Proof. exact (first_uncontrolled_index m n order). Qed.

(* the generated name dispatch is the decision tree (no name falls outside the nine stencils) *)
Theorem C06_dispatch m n order : real_method m -> stencil_of m n order = stencil_tree m n order.
Proof. exact (stencil_of_tree m n order). Qed.

(* multicomplex, or n = 0: the rule is the trivial [1] *)
Theorem C06_rule_trivial n order : rule_trivial Multicomplex n order = true /\ forall m, rule_trivial m 0 order = true.
Proof. split; [reflexivity | intros m; unfold rule_trivial; cbv zeta; rewrite Bool.orb_true_r; reflexivity]. Qed.

(* ---- (A) signatures, over any field with s, 2 s^2 = 1, and 1/2 ---- *)
Section Signatures.
Variable R : Type.
Variables (r0 r1 : R) (radd rmul rsub : R -> R -> R) (ropp : R -> R) (rdiv : R -> R -> R) (rinv : R -> R).
Variable Rth : field_theory r0 r1 radd rmul rsub ropp rdiv rinv eq.
Variables (s half : R).
Hypothesis s2 : radd (rmul s s) (rmul s s) = r1.
Hypothesis half2 : radd half half = r1.
Notation Z2R := (z2r R r0 r1 radd ropp).
Notation POW := (rpow R r1 rmul).

Theorem C06_sig_central h k : st_central R r1 rmul rsub ropp half h k = rmul (Z2R (sigma S_central (Z.of_nat k))) (POW h k).
Proof. exact (sig_central R r0 r1 radd rmul rsub ropp rdiv rinv Rth half half2 h k). Qed.
Theorem C06_sig_central_even h k : st_central_even R r0 r1 radd rmul rsub ropp half h k = rmul (Z2R (sigma S_central_even (Z.of_nat k))) (POW h k).
Proof. exact (sig_central_even R r0 r1 radd rmul rsub ropp rdiv rinv Rth half half2 h k). Qed.
Theorem C06_sig_forward h k : st_forward R r0 r1 rmul rsub h k = rmul (Z2R (sigma S_forward (Z.of_nat k))) (POW h k).
Proof. exact (sig_forward R r0 r1 radd rmul rsub ropp rdiv rinv Rth h k). Qed.
Theorem C06_sig_backward h k : st_backward R r0 r1 rmul rsub ropp h k = rmul (Z2R (sigma S_backward (Z.of_nat k))) (POW h k).
Proof. exact (sig_backward R r0 r1 radd rmul rsub ropp rdiv rinv Rth h k). Qed.
Theorem C06_sig_complex h k : st_complex R r0 r1 radd rmul rsub h k = rmul (Z2R (sigma S_complex (Z.of_nat k))) (POW h k).
Proof. exact (sig_complex R r0 r1 radd rmul rsub ropp rdiv rinv Rth h k). Qed.
Theorem C06_sig_complex_odd h k : st_complex_odd R r0 r1 radd rmul rsub ropp s half h k = rmul (Z2R (sigma S_complex_odd (Z.of_nat k))) (POW h k).
Proof. exact (sig_complex_odd R r0 r1 radd rmul rsub ropp rdiv rinv Rth s s2 half half2 h k). Qed.
Theorem C06_sig_complex_odd_higher h k : st_complex_odd_higher R r0 r1 radd rmul rsub ropp s h k = rmul (Z2R (sigma S_complex_odd_higher (Z.of_nat k))) (POW h k).
Proof. exact (sig_complex_odd_higher R r0 r1 radd rmul rsub ropp rdiv rinv Rth s s2 half half2 h k). Qed.
Theorem C06_sig_complex_even h k : st_complex_even R r0 r1 radd rmul rsub ropp s h k = rmul (Z2R (sigma S_complex_even (Z.of_nat k))) (POW h k).
Proof. exact (sig_complex_even R r0 r1 radd rmul rsub ropp rdiv rinv Rth s s2 half half2 h k). Qed.
Theorem C06_sig_complex_even_higher h k : st_complex_even_higher R r0 r1 radd rmul rsub ropp s h k = rmul (Z2R (sigma S_complex_even_higher (Z.of_nat k))) (POW h k).
Proof. exact (sig_complex_even_higher R r0 r1 radd rmul rsub ropp rdiv rinv Rth s s2 half half2 h k). Qed.
End Signatures.
