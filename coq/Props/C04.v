(* C04 - Hessian is symmetric and correct; Hessdiag is its diagonal.  Statements only.
   (i) exact symmetry for any arithmetic (hence binary64); (ii) every real-step Hessian / Hessdiag
   difference quotient is exact for every quadratic function, in any dimension (abstract vector space over
   any field with 2 <> 0): f(x+u) = f(x) + L u + B(u,u)/2, L linear, B symmetric bilinear -- with
   B(h_i e_i, h_j e_j) = h_i h_j Q_ij this is "entry (i,j) equals Q_ij after dividing by h_i h_j". *)
From Coq Require Import List Field.
Require Import NDT.Arith.Ops NDT.Model.Pipeline NDT.Model.ArrayCall NDT.Model.HessStencil NDT.Theory.ArrayCallTheory NDT.Theory.HessianTheory NDT.Theory.HessComplex.
Import ListNotations.

Theorem C04_exactly_symmetric {A} (O : Ops A) tf thr c8 c15 ch der hs rr n i j d : i < n -> j < n ->
  col O der (i * n + j) = col O der (j * n + i) -> col O hs (i * n + j) = col O hs (j * n + i) ->
  nth (i * n + j) (array_extrapolate O tf thr c8 c15 ch der hs rr (n * n)) d
  = nth (j * n + i) (array_extrapolate O tf thr c8 c15 ch der hs rr (n * n)) d.
Proof. exact (hessian_symmetric O tf thr c8 c15 ch der hs rr n i j d). Qed.

Section Quadratic.
Variable R : Type.
Variables (r0 r1 : R) (radd rmul rsub : R -> R -> R) (ropp : R -> R) (rdiv : R -> R -> R) (rinv : R -> R).
Variable Rth : field_theory r0 r1 radd rmul rsub ropp rdiv rinv eq.
Hypothesis two_neq0 : radd r1 r1 <> r0.
Variable V : Type.
Variables (vadd : V -> V -> V) (vneg : V -> V).
Variables (x : V) (f : V -> R) (f0 : R) (L : V -> R) (B : V -> V -> R).
Notation TWO := (radd r1 r1).
Notation FOUR := (radd (radd r1 r1) (radd r1 r1)).
Hypothesis f_quad : forall u, f (vadd x u) = radd (radd f0 (L u)) (rdiv (B u u) TWO).
Hypothesis L_add : forall u w, L (vadd u w) = radd (L u) (L w).
Hypothesis L_neg : forall u, L (vneg u) = ropp (L u).
Hypothesis B_addl : forall u w z, B (vadd u w) z = radd (B u z) (B w z).
Hypothesis B_addr : forall u w z, B z (vadd u w) = radd (B z u) (B z w).
Hypothesis B_negl : forall u z, B (vneg u) z = ropp (B u z).
Hypothesis B_negr : forall u z, B z (vneg u) = ropp (B z u).
Hypothesis B_sym : forall u w, B u w = B w u.

(* Hessian 'forward' (Ridout eq. 7) and 'backward' (the same with negated increments) *)
Theorem C04_forward a b : radd (rsub (rsub (f (vadd x (vadd a b))) (f (vadd x a))) (f (vadd x b))) f0 = B a b.
Proof. exact (forward_id R r0 r1 radd rmul rsub ropp rdiv rinv Rth two_neq0 V vadd x f f0 L B f_quad L_add B_addl B_addr B_sym a b). Qed.
Theorem C04_backward a b : radd (rsub (rsub (f (vadd x (vadd (vneg a) (vneg b)))) (f (vadd x (vneg a)))) (f (vadd x (vneg b)))) f0 = B a b.
Proof. exact (backward_id R r0 r1 radd rmul rsub ropp rdiv rinv Rth two_neq0 V vadd vneg x f f0 L B f_quad L_add L_neg B_addl B_addr B_negl B_negr B_sym a b). Qed.
(* Hessian 'central' (eq. 9), off the diagonal and on it *)
Theorem C04_central a b :
  rdiv (radd (rsub (rsub (f (vadd x (vadd a b))) (f (vadd x (vadd a (vneg b))))) (f (vadd x (vadd (vneg a) b)))) (f (vadd x (vadd (vneg a) (vneg b))))) FOUR = B a b.
Proof. exact (central_id R r0 r1 radd rmul rsub ropp rdiv rinv Rth two_neq0 V vadd vneg x f f0 L B f_quad L_add L_neg B_addl B_addr B_negl B_negr B_sym a b). Qed.
Theorem C04_central_diagonal a :
  rdiv (radd (rsub (f (vadd x (vadd a a))) (rmul TWO f0)) (f (vadd x (vadd (vneg a) (vneg a))))) FOUR = B a a.
Proof. exact (central_diag_id R r0 r1 radd rmul rsub ropp rdiv rinv Rth two_neq0 V vadd vneg x f f0 L B f_quad L_add L_neg B_addl B_addr B_negl B_negr a). Qed.
(* Hessian 'central2' (eq. 8) *)
Theorem C04_central2 a b :
  rdiv (radd (rsub (rsub (radd (rsub (rsub (radd (f (vadd x (vadd a b))) (f (vadd x (vadd (vneg a) (vneg b))))) (f (vadd x a))) (f (vadd x b))) f0) (f (vadd x (vneg a)))) (f (vadd x (vneg b)))) f0) TWO = B a b.
Proof. exact (central2_id R r0 r1 radd rmul rsub ropp rdiv rinv Rth two_neq0 V vadd vneg x f f0 L B f_quad L_add L_neg B_addl B_addr B_negl B_negr B_sym a b). Qed.
(* Hessdiag: the second-difference quotients carry B(a,a)/2 = h^2 Q_ii / 2, which the n = 2 rule (c_0/2! = 1/2) turns into Q_ii:
   Hessdiag is the diagonal of the Hessian for quadratic f *)
Theorem C04_hessdiag_central2 a :
  rdiv (rsub (rsub (radd (radd (f (vadd x (vadd a a))) (f (vadd x (vadd (vneg a) (vneg a))))) (rmul TWO f0)) (rmul TWO (f (vadd x a)))) (rmul TWO (f (vadd x (vneg a))))) FOUR = rdiv (B a a) TWO.
Proof. exact (hessdiag_central2_id R r0 r1 radd rmul rsub ropp rdiv rinv Rth two_neq0 V vadd vneg x f f0 L B f_quad L_add L_neg B_addl B_addr B_negl B_negr a). Qed.
Theorem C04_hessdiag_central_even a : rsub (rdiv (radd (f (vadd x a)) (f (vadd x (vneg a)))) TWO) f0 = rdiv (B a a) TWO.
Proof. exact (hessdiag_central_even_id R r0 r1 radd rmul rsub ropp rdiv rinv Rth two_neq0 V vadd vneg x f f0 L B f_quad L_neg B_negl B_negr a). Qed.

(* The same for the EXECUTABLE stencil model (Model/HessStencil.v: the source's order of operations and its division by
   np.outer(h, h)[j, i] = h[j] * h[i]; compared bit-for-bit with HessianDifferenceFunctions / HessdiagDifferenceFunctions on every run),
   instantiated with this field: with a, b the increments of variables i, j and hi, hj their sizes, every entry is B(a, b) / (hj hi) *)
Notation OPS := (OpsQ R r0 r1 radd rmul rsub ropp rdiv).
Theorem C04_model_forward a b hi hj : hi <> r0 -> hj <> r0 ->
  hess_forward_entry OPS (f (vadd x (vadd a b))) (f (vadd x a)) (f (vadd x b)) f0 hi hj = rdiv (B a b) (rmul hj hi).
Proof. intros; eapply hess_forward_entry_quad; eassumption. Qed.
Theorem C04_model_backward a b hi hj : hi <> r0 -> hj <> r0 ->
  hess_forward_entry OPS (f (vadd x (vadd (vneg a) (vneg b)))) (f (vadd x (vneg a))) (f (vadd x (vneg b))) f0 (ropp hi) (ropp hj) = rdiv (B a b) (rmul hj hi).
Proof. intros; eapply hess_backward_entry_quad; eassumption. Qed.
Theorem C04_model_central2 a b hi hj : hi <> r0 -> hj <> r0 ->
  hess_central2_entry OPS (f (vadd x (vadd a b))) (f (vadd x (vadd (vneg a) (vneg b)))) (f (vadd x a)) (f (vadd x b)) (f (vadd x (vneg a))) (f (vadd x (vneg b))) f0 hi hj
  = rdiv (B a b) (rmul hj hi).
Proof. intros; eapply hess_central2_entry_quad; eassumption. Qed.
Theorem C04_model_central_diagonal a hi : hi <> r0 ->
  hess_central_diag_entry OPS (f (vadd x (vadd a a))) (f (vadd x (vadd (vneg a) (vneg a)))) f0 hi = rdiv (B a a) (rmul hi hi).
Proof. intros; eapply hess_central_diag_entry_quad; eassumption. Qed.
Theorem C04_model_central_off_diagonal a b hi hj : hi <> r0 -> hj <> r0 ->
  hess_central_off_entry OPS (f (vadd x (vadd a b))) (f (vadd x (vadd a (vneg b)))) (f (vadd x (vadd (vneg a) b))) (f (vadd x (vadd (vneg a) (vneg b)))) hi hj = rdiv (B a b) (rmul hj hi).
Proof. intros; eapply hess_central_off_entry_quad; eassumption. Qed.
Theorem C04_model_hessdiag a :
  hd_central2 OPS (f (vadd x (vadd a a))) (f (vadd x (vadd (vneg a) (vneg a)))) (f (vadd x a)) (f (vadd x (vneg a))) f0 = rdiv (B a a) TWO /\
  hd_central_even OPS (f (vadd x a)) (f (vadd x (vneg a))) f0 = rdiv (B a a) TWO /\
  hd_forward OPS (f (vadd x a)) f0 = radd (L a) (rdiv (B a a) TWO) /\
  hd_backward OPS (f (vadd x (vneg a))) f0 = rsub (L a) (rdiv (B a a) TWO).
Proof.
  repeat split; [eapply hd_central2_quad | eapply hd_central_even_quad | eapply hd_forward_quad | eapply hd_backward_quad]; eassumption.
Qed.

(* The complex-step and multicomplex quotients, on the complexification of the quadratic (the polynomial extension, written out in
   Theory/HessComplex.v: Im f(x + a + i b) = L b + B(a, b); imag12 of f(x + i b + j c) = B(b, c)) *)
Theorem C04_complex_hessian a b :
  rdiv (rsub (f_im R radd V L B b a) (f_im R radd V L B (vneg b) a)) TWO = B a b.
Proof. eapply complex_hessian_id; eassumption. Qed.
Theorem C04_multicomplex_hessian a b : f_im12 R V B a b = B a b.
Proof. reflexivity. Qed.
End Quadratic.
