(* C01 - Derivative returns the true n-th derivative (PARTIAL: the algebraic core is proved; the
   accuracy envelope for non-polynomial analytic f is explored by a sweep, not proved).
   Statements only; proofs in Theory/PipelineTheory.v, built on C06 (rule), C07 (Richardson), C13 (dea3). *)
From Coq Require Import Reals ZArith List Bool.
Require Import NDT.Arith.Ops NDT.Arith.OpsR NDT.Model.Convolve NDT.Model.Richardson NDT.Model.Pipeline
               NDT.Theory.RichardsonTheory NDT.Theory.PipelineTheory.
Import ListNotations.
Open Scope R_scope.

(* the whole post-evaluation pipeline of the model (Richardson, dea3 when more than two rows, outlier
   penalty, arg-min with the tie rule, gather): if the derivative estimates per step have the modelled form
   L + sum_j a_j (h0 rho^t)^(k_j) -- which C06 shows they have for polynomials, with L = f^(n)(x) and no
   term at all when deg f < n + order -- and the Richardson rule satisfies its defining equations, then
   the returned value is exactly L, for every number of steps *)
Theorem C01_pipeline_returns_limit eps tiny huge tf c8 c15 ch rho L h0 w (terms : list (R * nat)) len hs :
  0 <= eps ->
  wsum w (fun _ => 1) = 1 ->
  (forall a k, In (a, k) terms -> wsum w (fun i => rho ^ (i * k)) = 0) ->
  (1 <= length w)%nat -> symcode (OpsR eps tiny huge) w = 0%Z \/ length w = 1%nat ->
  (length w <= len)%nat -> (len - (length w - 1) <= length hs)%nat ->
  fst (fst (fst (extrapolate (OpsR eps tiny huge) tf (1/10000) c8 c15 ch (map (sq rho L h0 terms) (seq 0 len)) hs w))) = L.
Proof. intros He H1 H2 H3 H4. exact (pipeline_value_exact eps tiny huge tf c8 c15 ch He rho L h0 w terms H1 H2 H3 H4 len hs). Qed.

(* constant estimates (a polynomial of degree < n + order, by C06) are returned unchanged whatever the rule *)
Theorem C01_constant_estimates_kept eps tiny huge tf c8 c15 ch L der hs rr : 0 <= eps ->
  fst (fst (rich (OpsR eps tiny huge) tf der hs rr)) <> [] ->
  Forall (fun x => x = L) (fst (fst (rich (OpsR eps tiny huge) tf der hs rr))) ->
  fst (fst (fst (extrapolate (OpsR eps tiny huge) tf (1/10000) c8 c15 ch der hs rr))) = L.
Proof. intros He. exact (extrapolate_const eps tiny huge tf He c8 c15 ch L der hs rr). Qed.

(* n = 0: the single row f(x) with the trivial rules is returned as it is *)
Theorem C01_zero_order eps tiny huge tf c8 c15 ch v s : 0 <= eps ->
  fst (fst (fst (extrapolate (OpsR eps tiny huge) tf (1/10000) c8 c15 ch [v] [s] [1]))) = v.
Proof. intros He. exact (zero_order_value eps tiny huge tf c8 c15 ch He v s). Qed.
