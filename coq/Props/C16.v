(* C16 - fd_derivative is exact on polynomials at every point of any grid.
   Statements only; proofs in Theory/FdDerivativeTheory.v (on top of C15). *)
From mathcomp Require Import all_ssreflect all_algebra.
Require Import NDT.Model.Fornberg NDT.Model.FdDerivative NDT.Theory.FornbergTheory NDT.Theory.FdDerivativeTheory.
Import GRing.Theory.
Local Open Scope ring_scope.

(* any distinct nodes (increasing, decreasing, non-uniform, even non-monotone), polynomial degree <= 2*mm,
   grid long enough for the stencil: the exact n-th derivative at EVERY grid point -- left boundary,
   interior and right boundary -- and an output as long as the input *)
Theorem C16_exact_everywhere (F : fieldType) (xs : seq F) (p : {poly F}) n m : uniq xs -> (0 < m)%N ->
  let mm := (n %/ 2 + m)%N in
  (2 * mm + 2 <= size xs)%N -> (size p <= 2 * mm + 1)%N ->
  fd_derivative (FO F) (map (horner p) xs) xs n m = Some (map (fun x => (p^`(n)).[x]) xs).
Proof. exact: fd_derivative_exact. Qed.

(* one stencil (any window of distinct nodes) is exact on polynomials that fit the window *)
Theorem C16_stencil_exact (F : fieldType) (xw : seq F) (p : {poly F}) x0 n :
  uniq xw -> (n < size xw)%N -> (size p <= size xw)%N ->
  stencil (FO F) xw (map (horner p) xw) x0 n = (p^`(n)).[x0].
Proof. exact: stencil_exact. Qed.

(* guards: n >= len(x) or len(fx) != len(x) is rejected *)
Theorem C16_guards {A} (O : FdOps A) (fx x : seq A) n m :
  (size x <= n)%N || (size x != size fx) -> fd_derivative O fx x n m = None.
Proof. by rewrite /fd_derivative -leqNgt => ->. Qed.
