(* C07 - Richardson extrapolation removes exactly the modelled error terms.
   Statements only; proofs in Theory/RichardsonTheory.v; models in Model/Convolve.v, Model/Richardson.v
   (tied bit-exactly to extrapolation.convolve and Richardson.__call__/_estimate_error). *)
From Coq Require Import Reals ZArith List Bool Lia Lra.
Require Import NDT.Arith.Ops NDT.Arith.OpsR NDT.Model.Convolve NDT.Model.Richardson NDT.Theory.RichardsonTheory.
Import ListNotations.
Open Scope R_scope.

(* the rule w is characterised by w.R = e_0: weights sum to one and annihilate rho^(i*k) for every
   modelled exponent k.  Then every window of the sequence L + sum_j a_j (h0 rho^t)^(k_j) is mapped to L. *)
Theorem C07_annihilates rho L h0 w (terms : list (R * nat)) :
  wsum w (fun _ => 1) = 1 ->
  (forall a k, In (a, k) terms -> wsum w (fun i => rho ^ (i * k)) = 0) ->
  forall t, wsum w (fun i => sq rho L h0 terms (t + i)) = L.
Proof. intros H1 H2 t. exact (richardson_exact rho L h0 w H1 terms H2 t). Qed.

(* the executable convolution (rule reversed, origin n_r//2, reflect mode) is that weighted sum on
   exactly the prefix that is kept: all lengths, all rule sizes (even and odd), no reflected element *)
Theorem C07_convolve_valid_prefix eps tiny huge x w i :
  (1 <= length w)%nat -> symcode (OpsR eps tiny huge) w = 0%Z \/ length w = 1%nat ->
  (i + (length w - 1) < length x)%nat ->
  nth i (conv (OpsR eps tiny huge) x (rev w) (Z.of_nat ((length w - 1) / 2))) 0 = wsum w (fun k => nth (i + k) x 0).
Proof. exact (conv_valid eps tiny huge x w i). Qed.

(* hence the model of Richardson.__call__ returns L in every output slot ... *)
Theorem C07_call_exact eps tiny huge tf rho L h0 w terms len steps i :
  wsum w (fun _ => 1) = 1 ->
  (forall a k, In (a, k) terms -> wsum w (fun i => rho ^ (i * k)) = 0) ->
  (1 <= length w)%nat -> symcode (OpsR eps tiny huge) w = 0%Z \/ length w = 1%nat ->
  (length w <= len)%nat -> (i < len - (length w - 1))%nat ->
  nth i (fst (fst (rich (OpsR eps tiny huge) tf (map (sq rho L h0 terms) (seq 0 len)) steps w))) 0 = L.
Proof. intros H1 H2 H3 H4. exact (rich_exact eps tiny huge tf rho L h0 w terms H1 H2 H3 H4 len steps i). Qed.

(* ... the number of outputs (and of returned steps) is the sequence length minus the number of terms used ... *)
Theorem C07_output_count eps tiny huge tf (sq_ steps rr : list R) :
  length (fst (fst (rich (OpsR eps tiny huge) tf sq_ steps rr))) = Nat.min (length sq_ - (length rr - 1)) (length sq_)
  /\ length (snd (rich (OpsR eps tiny huge) tf sq_ steps rr)) = Nat.min (length sq_ - (length rr - 1)) (length steps).
Proof. exact (rich_count_gen eps tiny huge tf sq_ steps rr). Qed.

(* a sequence shorter than num_terms + 1 uses len - 1 terms (never fails), and then exactly one output *)
Theorem C07_short_sequence num_terms len : (1 <= len)%nat -> (len <= num_terms)%nat ->
  terms_used num_terms len = (len - 1)%nat /\ (len - terms_used num_terms len = 1)%nat.
Proof. intros H1 H2. unfold terms_used. split; lia. Qed.

(* ... and every error estimate is non-negative *)
Theorem C07_error_nonneg eps tiny huge tf sq_ steps rr : 0 <= eps ->
  Forall (fun e => 0 <= e) (snd (fst (rich (OpsR eps tiny huge) tf sq_ steps rr))).
Proof. intros He. exact (rich_err_nonneg eps tiny huge tf He sq_ steps rr). Qed.

(* non-vacuity: ratio 2, order 1, step 1, one term: w = [-1; 2] satisfies the two equations *)
Example C07_example : wsum [-1; 2] (fun _ => 1) = 1 /\ wsum [-1; 2] (fun i => (1/2) ^ (i * 1)) = 0.
Proof. cbn. split; lra. Qed.
