(* C05 joined with C10: on every step the generators yield (base step > 0; nominal steps >= 1, which is what
   get_nominal_step = max(log(1.718.. + |x|), 1) returns for EVERY x, certified each run by C10's check; any ratio > 0, any
   offset, any number of steps, with or without exact steps) method 'forward' evaluates nowhere below x and 'backward' nowhere
   above x, for all four classes with a point-wise stencil and Hessian.  Statements only; proofs in Theory/StepsPositive.v. *)
From Coq Require Import Reals List String ZArith Lra.
Require Import NDT.Arith.Ops NDT.Arith.OpsR NDT.Model.Steps NDT.Model.Points NDT.Theory.PointsTheory NDT.Theory.StepsSeq NDT.Theory.StepsPositive.
Import ListNotations.
Open Scope R_scope.

Section C05b.
Variables eps tiny huge sr si sq2 : R.
Notation O := (OpsR eps tiny huge).

Theorem C10_generated_steps_positive b noms exact ratio (Hr : 0 < ratio) is_max num off s :
  0 < b -> Forall (fun t => 1 <= t) noms ->
  In s (basic_steps O (powerRZ ratio) (gen_base O b noms exact) is_max num off) ->
  nonneg s /\ List.length s = List.length noms.
Proof. exact (generated_steps_nonneg eps tiny huge b noms exact ratio Hr is_max num off s). Qed.

Theorem C05_forward_on_generated_steps b noms exact ratio is_max num off x s :
  0 < ratio -> 0 < b -> Forall (fun t => 1 <= t) noms -> List.length x = List.length noms ->
  In s (basic_steps O (powerRZ ratio) (gen_base O b noms exact) is_max num off) ->
  Forall (above x) (pts_derivative O sr si "_forward" x s) /\ Forall (above x) (pts_jacobian O sr si "_forward" x s) /\
  Forall (above x) (pts_hessdiag O sq2 "_forward" x s) /\ Forall (above x) (pts_hessian O "_forward" x s).
Proof. exact (forward_on_generated_steps eps tiny huge sr si sq2 b noms exact ratio is_max num off x s). Qed.

Theorem C05_backward_on_generated_steps b noms exact ratio is_max num off x s :
  0 < ratio -> 0 < b -> Forall (fun t => 1 <= t) noms -> List.length x = List.length noms ->
  In s (basic_steps O (powerRZ ratio) (gen_base O b noms exact) is_max num off) ->
  Forall (below x) (pts_derivative O sr si "_backward" x s) /\ Forall (below x) (pts_jacobian O sr si "_backward" x s) /\
  Forall (below x) (pts_hessdiag O sq2 "_backward" x s) /\ Forall (below x) (pts_hessian_backward O x s).
Proof. exact (backward_on_generated_steps eps tiny huge sr si sq2 b noms exact ratio is_max num off x s). Qed.

(* the hypotheses are satisfiable: base step 1/100, nominal steps (1, 2) for a point with two coordinates, ratio 2, one step *)
Example C05_generated_hypotheses_satisfiable :
  exists s, In s (basic_steps O (powerRZ 2) (gen_base O (1/100) [1; 2] false) true 1 0%Z) /\ 0 < 2 /\ 0 < 1/100 /\
            Forall (fun t => 1 <= t) [1; 2] /\ List.length [-1.5; 0.25] = List.length [1; 2].
Proof.
  exists (step_at O (powerRZ 2) (gen_base O (1/100) [1; 2] false) 0%Z).
  split; [|repeat split; try lra; repeat constructor; lra].
  apply (basic_steps_filter eps tiny huge 2). split.
  - left. reflexivity.
  - cbn. rewrite !Bool.andb_true_iff. repeat split; apply Rltb_true; apply Rabs_pos_lt; lra.
Qed.
End C05b.
Print Assumptions C10_generated_steps_positive.
Print Assumptions C05_forward_on_generated_steps.
Print Assumptions C05_backward_on_generated_steps.
