(* C03, "exact to rounding when f is affine", closed formally (exact arithmetic): entry [i, j] of the Jacobian is produced by the
   pipeline of C01 run on the column of difference quotients of the restriction t |-> f_i(x + t e_j) (Model/ArrayCall.v: one column per
   entry; layout: C03_jacobian_layout).  For an affine f that restriction is the polynomial g_0 + g_1 t with g_0 = f_i(x), g_1 = A_ij,
   so by C01_derivative_exact_on_polynomials (n = 1; LogJacobianRule is LogRule with n = 1, same tables and name dispatch) the entry
   is EXACTLY A_ij -- for every method in {central, forward, backward, complex}, every order, ratio, base step and number of steps. *)
From Coq Require Import Reals ZArith List Lia Lra.
From mathcomp Require Import all_ssreflect all_algebra.
Require Import NDT.Arith.Ops NDT.Arith.OpsR NDT.Arith.Rfield NDT.Gen.Spec NDT.Theory.RuleTables NDT.Theory.RuleTablesNat
               NDT.Theory.RuleStencil NDT.Model.Convolve NDT.Model.Pipeline NDT.Theory.RichardsonTheory NDT.Theory.DerivativeExact.
Delimit Scope R_scope with RR.

Theorem C03_jacobian_entry_exact_for_affine (eps tiny huge tf c8 c15 ch : R) (s : R) (m : method) (order : Z)
    (rho h0 : R) (g : nat -> R) (rule rr steps : list R) (len : nat) :
  (forall k, (2 <= k)%N -> g k = 0%RR) ->                 (* f_i(x + t e_j) = g 0 + g 1 * t : an affine map.  (The proof does not need this:
                                                              any polynomial of degree < 1 + method_order gives g 1 as well.) *)
  (0 <= eps)%RR -> (s * s + s * s = 1)%RR ->
  Z.le (Zpos xH) order -> m = Central \/ m = Forward \/ m = Backward \/ m = Complex ->
  h0 <> 0%RR -> rho <> 0%RR ->
  let n := Zpos xH in
  let O := OpsR eps tiny huge in
  let off := offN m n order in let st := stN m n order in let T := termsN m n order in let r := rowN m n order in
  let c0 := IZR (c0Z m n order) in
  let fl := if flip_fd_rule m n order then (-1)%RR else 1%RR in
  length rule = T ->
  (forall j, (j < T)%N ->
     wsum rule (fun i => (c0 / INR (Factorial.fact (off + st * j)) * rho ^ (i * (off + st * j)))%RR) = if Nat.eqb j r then fl else 0%RR) ->
  symcode O rule = Z0 \/ length rule = 1%N ->
  wsum rr (fun _ => 1%RR) = 1%RR -> (1 <= length rr)%N -> symcode O rr = Z0 \/ length rr = 1%N ->
  length steps = len -> (T + (length rr - 1) <= len)%N ->
  let fdel := List.map (fun t => stencil_value (F:=R_fieldType) s m n order g (stencil_of m n order) (h0 * rho ^ t)%RR) (List.seq 0 len) in
  let hn := List.map (fun t => ((h0 * rho ^ t) ^ 1)%RR) (List.seq 0 len) in
  fst (fst (fst (pipeline O tf (1/10000)%RR c8 c15 ch fdel hn steps rule rr))) = g 1%N.
Proof.
move=> _ He Hs Ho Hm Hh Hr n O off st T r c0 fl Hl Hsol Hp Hrs Hrl Hrp Hsl Hen fdel hn.
have Hn : Z.le (Zpos xH) n by [].
have := @derivative_exact_on_polynomials eps tiny huge tf c8 c15 ch He s Hs m n order Hn Ho Hm rho h0 g Hh Hr rule Hl Hsol Hp rr Hrs Hrl Hrp len steps Hsl Hen.
rewrite -/fdel -/hn => ->.
by rewrite /n /= Rmult_1_l.
Qed.
