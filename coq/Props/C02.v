(* C02 - reported error estimate is honest; full_output record is self-consistent (PARTIAL: the
   "true error <= multiple of the estimate" clause is not a theorem about any finite-sample estimator and is
   explored by the sweep; the self-consistency clauses below are proved for the model of the pipeline). *)
From Coq Require Import Reals ZArith List Bool.
Require Import NDT.Arith.Ops NDT.Arith.OpsR NDT.Model.Pipeline NDT.Theory.PipelineTheory.
Import ListNotations.
Open Scope R_scope.

(* the returned error estimate is non-negative: every input, every branch (Richardson estimate,
   dea3 estimate, outlier penalty, gather) *)
Theorem C02_error_estimate_nonneg eps tiny huge tf c8 c15 ch der hs rr : 0 <= eps ->
  0 <= snd (fst (fst (extrapolate (OpsR eps tiny huge) tf (1/10000) c8 c15 ch der hs rr))).
Proof. intros He. exact (extrapolate_err_nonneg eps tiny huge tf c8 c15 ch He der hs rr). Qed.

(* value, error estimate and final step are gathered at one and the same index of three aligned
   sequences: the estimate returned belongs to the value returned, the step is one of the generated steps *)
Theorem C02_same_index eps tiny huge tf c8 c15 ch der hs rr :
  exists d1 errs s1 ix,
    extrapolate (OpsR eps tiny huge) tf (1/10000) c8 c15 ch der hs rr
    = (nthA (OpsR eps tiny huge) d1 ix, nthA (OpsR eps tiny huge) errs ix, nthA (OpsR eps tiny huge) s1 ix, ix).
Proof. exact (extrapolate_same_index eps tiny huge tf c8 c15 ch der hs rr). Qed.
