(* C13 - dea3 recovers the limit of a geometric transient and never produces garbage.
   Statements only; proofs in Theory/Dea3Theory.v; model in Model/Dea3.v (tied to
   numdifftools.extrapolation.dea3 by bit-exact correspondence of its binary64 instance). *)
From Coq Require Import Reals List Bool.
Require Import NDT.Arith.Ops NDT.Arith.OpsR NDT.Model.Dea3 NDT.Theory.Dea3Theory.
Import ListNotations.
Open Scope R_scope.

(* exact recovery of L from L + a q^k outside the guards (TINY idealised to 0) *)
Theorem C13_geometric eps huge (Heps : 0 <= eps) L a q :
  a <> 0 -> q <> 0 -> q <> 1 ->
  let O := OpsR eps 0 huge in
  dea3_conv O (1/10000) (L + a) (L + a * q) (L + a * (q * q)) = false ->
  fst (dea3k O (1/10000) (L + a) (L + a * q) (L + a * (q * q))) = L.
Proof. intros Ha Hq Hq1 O. exact (dea3_geometric eps 0 huge L a q eq_refl Ha Hq Hq1). Qed.

(* with TINY > 0 the miss is exactly 1/(s+tiny) - 1/s, s the Shanks denominator *)
Theorem C13_identity eps tiny huge L a q :
  a <> 0 -> q <> 0 -> q <> 1 ->
  let O := OpsR eps tiny huge in
  let e0 := L + a in let e1 := L + a * q in let e2 := L + a * (q * q) in
  let s := 1 / (e2 - e1) - 1 / (e1 - e0) in
  tiny <= Rabs (e1 - e0) -> tiny <= Rabs (e2 - e1) -> s + tiny <> 0 ->
  dea3_conv O (1/10000) e0 e1 e2 = false ->
  fst (dea3k O (1/10000) e0 e1 e2) - L = 1 / (s + tiny) - 1 / s.
Proof. exact (dea3_identity eps tiny huge L a q). Qed.

(* every input, every branch: the error estimate is non-negative *)
Theorem C13_abserr_nonneg eps tiny huge (Heps : 0 <= eps) e0 e1 e2 :
  0 <= snd (dea3k (OpsR eps tiny huge) (1/10000) e0 e1 e2).
Proof. exact (dea3_abserr_nonneg eps tiny huge Heps e0 e1 e2). Qed.

(* any arithmetic (hence binary64): arrays elementwise, lengths kept *)
Theorem C13_elementwise {A} (O : Ops A) thr u v w i da :
  length u = length v -> length v = length w -> (i < length u)%nat ->
  let '(res, err) := dea3 O thr false u v w in
  nth i res da = fst (dea3k O thr (nth i u da) (nth i v da) (nth i w da)) /\
  nth i err da = snd (dea3k O thr (nth i u da) (nth i v da) (nth i w da)) /\
  length res = length u /\ length err = length u.
Proof. exact (dea3_elementwise O thr u v w i da). Qed.

Theorem C13_symmetric_only_trims {A} (O : Ops A) thr u v w :
  let '(res, err) := dea3 O thr false u v w in
  dea3 O thr true u v w = if Nat.ltb 1 (length res) then (removelast res, tl err) else (res, err).
Proof. exact (dea3_symmetric_trims O thr u v w). Qed.

Theorem C13_guard_total {A} (O : Ops A) thr e0 e1 e2 :
  (dea3_conv O thr e0 e1 e2 = true /\ fst (dea3k O thr e0 e1 e2) = mul O e2 (one O)) \/
  (dea3_conv O thr e0 e1 e2 = false).
Proof. exact (dea3_guard_total O thr e0 e1 e2). Qed.
