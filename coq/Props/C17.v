(* C17 - FFT Taylor coefficients are accurate within their reported error.  Statements only.
   Models: Gen/Taylor.v (regenerated: _num_taylor_coefficients as an integer function, constants, defaults, and the
   normalised bodies of the hand-modelled functions), Model/Taylor.v (radius search as a state machine with the
   data-dependent tests as an oracle stream; fornberg._extrapolate; _get_best_taylor_coefficients).
   PARTIAL: proved = number of coefficients; failed <-> cap; at least four circles before convergence;
   degenerate only after min_iter; positive radii; the DFT returns the (aliased) Taylor coefficients (Props/C17b.v);
   _extrapolate removes two aliasing terms exactly for arbitrary radii; on such data the coefficient returned is
   exact (over R and over C = R x R with numpy's order); derivative() scales values and errors by k!.
   NOT proved: the error bound for non-polynomial f and "never degenerate / failed" - explored by the sweep. *)
From Coq Require Import Reals ZArith List Bool Lia.
Require Import NDT.Arith.Ops NDT.Arith.OpsR NDT.Arith.OpsC NDT.Model.Taylor NDT.Gen.Taylor
               NDT.Theory.TaylorGen NDT.Theory.TaylorTheory NDT.Theory.TaylorReal NDT.Theory.TaylorAlias NDT.Theory.TaylorBest NDT.Theory.TaylorExact.
Import ListNotations.

(* at least n + 1 coefficients (a power of two between 8 and 256) for EVERY n the code accepts; larger n are rejected *)
Theorem C17_enough_coefficients n : (1 <= n <= 192)%Z ->
  (n + 1 <= num_taylor_coefficients n)%Z /\ In (num_taylor_coefficients n) [8; 16; 32; 64; 128; 256]%Z.
Proof. exact (ncoef_enough n). Qed.
Theorem C17_rejects_large_n n : (193 <= n)%Z -> num_taylor_coefficients n = (-1)%Z.
Proof. exact (ncoef_rejects n). Qed.

(* the radius search, for ANY arithmetic and ANY outcomes of the data-dependent tests *)
Theorem C17_failed_iff_cap {A} (Op : Ops A) c8 num_extrap min_iter max_iter r0 ratio0 os : (1 <= max_iter)%nat -> (max_iter <= length os)%nat ->
  let res := run Op c8 num_extrap min_iter max_iter r0 ratio0 os in
  (failed_of res = true -> iterations_of res = (max_iter - 1)%nat /\ length (radii_of res) = max_iter) /\
  (failed_of res = false -> (iterations_of res < max_iter)%nat /\ length (radii_of res) = S (iterations_of res)).
Proof. exact (failed_means_cap Op c8 num_extrap min_iter max_iter r0 ratio0 os). Qed.
Theorem C17_converged_has_four_circles {A} (Op : Ops A) c8 num_extrap min_iter max_iter r0 ratio0 os :
  (0 <= min_iter)%Z -> (1 <= num_extrap)%Z -> (1 <= max_iter)%nat -> (max_iter <= length os)%nat ->
  let res := run Op c8 num_extrap min_iter max_iter r0 ratio0 os in
  failed_of res = false -> (3 <= iterations_of res)%nat /\ (4 <= length (radii_of res))%nat.
Proof. intros H1 H2. exact (converged_has_four_radii Op c8 num_extrap min_iter H1 H2 max_iter r0 ratio0 os). Qed.
Theorem C17_degenerate_needs_min_iter {A} (Op : Ops A) c8 num_extrap min_iter max_iter r0 ratio0 os :
  (0 <= min_iter)%Z -> (1 <= max_iter)%nat -> (max_iter <= length os)%nat ->
  let res := run Op c8 num_extrap min_iter max_iter r0 ratio0 os in
  degenerate_of res = true -> (min_iter + 1 <= Z.of_nat (iterations_of res))%Z.
Proof. intros H1. exact (degenerate_needs_min_iter Op c8 num_extrap min_iter H1 max_iter r0 ratio0 os). Qed.
Theorem C17_radii_positive eps tiny huge c8 num_extrap min_iter max_iter (r0 ratio0 : R) os : (0 < r0)%R -> (1 <= ratio0)%R ->
  Forall (fun x => (0 < x)%R) (radii_of (run (OpsR eps tiny huge) c8 num_extrap min_iter max_iter r0 ratio0 os)).
Proof. exact (radii_positive eps tiny huge c8 num_extrap min_iter max_iter r0 ratio0 os). Qed.

(* fornberg._extrapolate removes the r^m and r^(2m) aliasing terms exactly, any field, any number of circles *)
Theorem C17_aliases_removed (K : Type) (k0 k1 : K) kadd kmul ksub kopp kdiv kinv
  (Kth : Field_theory.field_theory k0 k1 kadd kmul ksub kopp kdiv kinv eq) (a e1 e2 : K) xs :
  good K k0 ksub xs ->
  extrapolate2 (OpsAbs K k0 k1 kadd kmul ksub kopp kdiv) (map (bval K kadd kmul a e1 e2) xs) (cs0 K k1 ksub kdiv xs) (cs1 K k1 ksub kdiv xs)
  = repeat a (length xs - 2).
Proof. exact (extrapolate_removes_aliases K k0 k1 kadd kmul ksub kopp kdiv kinv Kth a e1 e2 xs). Qed.

(* ... and then the coefficient returned is exactly a: over the reals and over the complex numbers *)
Theorem C17_exact_real eps tiny huge thr c8 c15 (a e1 e2 : R) xs floors : (0 <= eps)%R ->
  good R 0%R Rminus xs -> (5 <= length xs)%nat -> length floors = (length xs - 4)%nat ->
  fst (fst (best (OpsR eps tiny huge) thr c8 c15
    (extrapolate2 (OpsR eps tiny huge) (map (bval R Rplus Rmult a e1 e2) xs) (cs0 R 1%R Rminus Rdiv xs) (cs1 R 1%R Rminus Rdiv xs)) floors)) = a.
Proof. intros He. exact (taylor_exact_R eps tiny huge thr c8 c15 He a e1 e2 xs floors). Qed.
Theorem C17_exact_complex eps tiny huge thr c8 c15 (a e1 e2 : C) xs floors : (0 <= eps)%R ->
  good C (0%R, 0%R) Csub xs -> (5 <= length xs)%nat -> length floors = (length xs - 4)%nat ->
  fst (fst (best (OpsC eps tiny huge) thr c8 c15
    (extrapolate2 (OpsC eps tiny huge) (map (bval C Cadd Cmul a e1 e2) xs) (cs0 C (1%R, 0%R) Csub Cdiv xs) (cs1 C (1%R, 0%R) Csub Cdiv xs)) floors)) = a.
Proof. intros He. exact (taylor_exact_C eps tiny huge thr c8 c15 He a e1 e2 xs floors). Qed.

(* derivative(): values and error estimates are multiplied entry by entry by the same factorials *)
Theorem C17_derivative_scaling {A} (Op : Ops A) facts l k d : (k < length l)%nat -> (k < length facts)%nat ->
  nth k (scale_by Op facts l) d = mul Op (nth k l d) (nth k facts d).
Proof. exact (scale_by_nth Op facts l k d). Qed.

Theorem C17_structure :
  check_fft_shape_ok = true /\ poor_convergence_shape_ok = true /\ check_convergence_shape_ok = true /\ taylor_call_shape_ok = true /\
  taylor_extrapolate_shape_ok = true /\ taylor_best_shape_ok = true /\ derivative_scales_values_and_errors = true /\
  taylor_initialize_resets_state = true /\ taylor_m1_m2_shape_ok = true /\ circle_shape_ok = true /\ taylor_function_is_class_call = true.
Proof. exact taylor_structure. Qed.
(* the defaults meet the hypotheses of C17_converged_has_four_circles *)
Theorem C17_defaults : taylor_default_num_extrap = 3%Z /\ taylor_default_max_iter = 30%Z /\ taylor_default_min_iter 30 = 15%Z /\
  (1 <= taylor_default_num_extrap)%Z /\ (0 <= taylor_default_min_iter taylor_default_max_iter)%Z.
Proof. exact taylor_defaults. Qed.
