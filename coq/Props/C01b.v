(* C01, exact-arithmetic core closed end to end (statement only; proof in Theory/DerivativeExact.v).
   MathComp vocabulary is used for the natural-number side conditions ((a < b)%N is ssrnat's boolean order);
   real-number expressions are Coq's Reals.  *)
From Coq Require Import Reals ZArith List Lia Lra.
From mathcomp Require Import all_ssreflect all_algebra.
Require Import NDT.Arith.Ops NDT.Arith.OpsR NDT.Arith.Rfield NDT.Gen.Spec NDT.Theory.RuleTables NDT.Theory.RuleTablesNat
               NDT.Theory.RuleStencil NDT.Model.Convolve NDT.Model.Pipeline NDT.Theory.RichardsonTheory NDT.Theory.DerivativeExact.
Delimit Scope R_scope with RR.

(* Derivative(f, n, method, order) on a polynomial f(x + d) = sum_{k < n + method_order} g_k d^k, in exact arithmetic:
   - stencil_value ... S hh is the body of the DifferenceFunctions stencil that the name dispatch selects for (method, n, order),
     applied to f at step hh (real displacements for the real-step stencils, complex ones x + hh*sqrt(i) etc. for the
     complex-step stencils; s = 1/R_sqrt.sqrt 2);
   - fdel are its values at the len steps h0 rho^t, hn the powers h^n, exactly what LogRule._apply receives;
   - rule is what rule() returns: the sign flip times a row of the inverse of the moment matrix that _fd_matrix builds from
     the regenerated tables (hypothesis rule_solves), rr a Richardson rule (weights summing to one);
   - pipeline is Model/Pipeline.v: _apply (convolution with the reversed rule, division by h^n, trimming), Richardson,
     dea3 when more than two estimates remain, outlier penalty, arg-min, gather.
   Then the value returned is EXACTLY n! g_n = f^(n)(x): for every method in {central, forward, backward, complex}, every
   n >= 1, order >= 1, step ratio 1/rho, base step h0, number of steps len >= terms + (length rr - 1). *)
Theorem C01_derivative_exact_on_polynomials (eps tiny huge tf c8 c15 ch : R) (s : R) (m : method) (n order : Z)
    (rho h0 : R) (g : nat -> R) (rule rr steps : list R) (len : nat) :
  (0 <= eps)%RR -> (s * s + s * s = 1)%RR ->
  Z.le (Zpos xH) n -> Z.le (Zpos xH) order -> m = Central \/ m = Forward \/ m = Backward \/ m = Complex ->
  h0 <> 0%RR -> rho <> 0%RR ->
  let O := OpsR eps tiny huge in
  let off := offN m n order in let st := stN m n order in let T := termsN m n order in let r := rowN m n order in
  let c0 := IZR (c0Z m n order) in
  let fl := if flip_fd_rule m n order then (-1)%RR else 1%RR in
  length rule = T ->
  (forall j, (j < T)%N ->
     wsum rule (fun i => (c0 / INR (Factorial.fact (off + st * j)) * rho ^ (i * (off + st * j)))%RR) = if Nat.eqb j r then fl else 0%RR) ->
  symcode O rule = Z0 \/ length rule = 1%N ->
  wsum rr (fun _ => 1%RR) = 1%RR -> (1 <= length rr)%N -> symcode O rr = Z0 \/ length rr = 1%N ->
  length steps = len -> (T + (length rr - 1) <= len)%N ->
  let fdel := List.map (fun t => stencil_value (F:=R_fieldType) s m n order g (stencil_of m n order) (h0 * rho ^ t)%RR) (List.seq 0 len) in
  let hn := List.map (fun t => ((h0 * rho ^ t) ^ Z.to_nat n)%RR) (List.seq 0 len) in
  fst (fst (fst (pipeline O tf (1/10000)%RR c8 c15 ch fdel hn steps rule rr))) = (INR (Factorial.fact (Z.to_nat n)) * g (Z.to_nat n))%RR.
Proof.
move=> He Hs Hn Ho Hm Hh Hr O off st T r c0 fl Hl Hsol Hp Hrs Hrl Hrp Hsl Hen fdel hn.
exact: (@derivative_exact_on_polynomials eps tiny huge tf c8 c15 ch He s Hs m n order Hn Ho Hm rho h0 g Hh Hr rule Hl Hsol Hp rr Hrs Hrl Hrp len steps Hsl Hen).
Qed.

(* the hypotheses are met by a real configuration: central, n = 1, order = 4, step ratio 2 (rho = 1/2), the rule
   [-1/3, 8/3] of the source's commented FD_RULES table, the trivial Richardson rule [1], two steps; s = 1/R_sqrt.sqrt 2 *)
Example C01_hypotheses_satisfiable :
  let s := (/ R_sqrt.sqrt 2)%RR in let rho := (1/2)%RR in let rule := [:: (-1/3)%RR; (8/3)%RR] in
  (s * s + s * s = 1)%RR /\ length rule = termsN Central 1 4 /\
  (forall j, (j < termsN Central 1 4)%N ->
     wsum rule (fun i => (IZR (c0Z Central 1 4) / INR (Factorial.fact (offN Central 1 4 + stN Central 1 4 * j)) * rho ^ (i * (offN Central 1 4 + stN Central 1 4 * j)))%RR)
     = if Nat.eqb j (rowN Central 1 4) then (if flip_fd_rule Central 1 4 then (-1)%RR else 1%RR) else 0%RR) /\
  symcode (OpsR 0 0 0) rule = Z0 /\ wsum [:: 1%RR] (fun _ => 1%RR) = 1%RR.
Proof.
move=> s rho rule.
have T2 : termsN Central 1 4 = 2%N by vm_compute.
split.
  rewrite /s.
  have h2 : (0 < R_sqrt.sqrt 2)%RR by apply: sqrt_lt_R0; lra.
  have sq2 : (R_sqrt.sqrt 2 * R_sqrt.sqrt 2 = 2)%RR by apply: sqrt_sqrt; lra.
  have -> : (/ R_sqrt.sqrt 2 * / R_sqrt.sqrt 2 + / R_sqrt.sqrt 2 * / R_sqrt.sqrt 2 = 2 / (R_sqrt.sqrt 2 * R_sqrt.sqrt 2))%RR by field; lra.
  by rewrite sq2; lra.
split; first by rewrite T2.
split.
  rewrite T2 => j.
  have -> : offN Central 1 4 = 1%N by vm_compute.
  have -> : stN Central 1 4 = 2%N by vm_compute.
  have -> : rowN Central 1 4 = 0%N by vm_compute.
  have -> : c0Z Central 1 4 = Zpos xH by vm_compute.
  have -> : flip_fd_rule Central 1 4 = false by vm_compute.
  case: j => [|[|j]] // _; rewrite /rule /rho /=; lra.
split; last by rewrite /=; lra.
rewrite /symcode /rule /=.
by rewrite /Reqb; repeat (case: Req_EM_T => ?; try lra).
Qed.
