(* C18 - Limit and Residue recover removable singularities and poles.  Statements only.
   Models: Model/Limit.v (_call_lim, the signed steps, Residue's multiplication by h^p) and Model/Pipeline.v
   (_extrapolate: Richardson, dea3, outlier penalty, arg-min), both compared bit-for-bit with limits.py on real
   data; the decision logic of limits.py is regenerated into Gen/Limits.v on every run.
   PARTIAL: proved = (a) entries where f is finite are returned unchanged, (b) exactness on sequences that are a
   polynomial of degree <= order in the step (Limit) / poles g(z)/(z - z0)^p with such g (Residue), for both signs,
   (c) the sign table, the rule used (order + 1 terms, step 1, order 1), enough steps for every ratio in [2,16]
   and order 1..8, (b') the exactness statement over the complex numbers (complex z0, spiral paths).
   NOT proved: the error bound for non-polynomial analytic g and the listed kernels (explored by the sweep
   against exact values). *)
From Coq Require Import String Reals ZArith QArith Qreals List Bool Lia Lra.
Require Import NDT.Arith.Ops NDT.Arith.OpsR NDT.Model.Limit NDT.Model.Convolve NDT.Model.Pipeline NDT.Theory.RichardsonTheory
               NDT.Theory.LimitTheory NDT.Theory.LimitSteps NDT.Theory.LimitGen NDT.Theory.RichardsonField NDT.Theory.LimitComplex NDT.Arith.OpsC NDT.Gen.Limits NDT.Gen.Guards.
Import ListNotations.

(* (a) any arithmetic: wherever f(z) is not NaN the value is f's own, with error estimate 0; shapes are kept *)
Theorem C18_finite_entries_unchanged {A} (Op : Ops A) fz lims i d : isnan Op (nth i fz d) = false -> (i < length fz)%nat ->
  nth i (fill Op fz lims) d = nth i fz d /\ nth i (fill_err Op fz lims) d = zero Op.
Proof. exact (fill_keeps_finite Op fz lims i d). Qed.
Theorem C18_shape_kept {A} (Op : Ops A) fz lims : length (fill Op fz lims) = length fz /\ length (fill_err Op fz lims) = length fz.
Proof. exact (fill_length Op fz lims). Qed.

Open Scope R_scope.
(* (b) Limit: f(z0 + h) = P(h), deg P <= order, at the signed steps s h0 rho^t: the value returned is P(0) *)
Theorem C18_limit_exact eps tiny huge tf c8 c15 ch s rho L h0 (a w : list R) len hs :
  0 <= eps ->
  wsum w (fun _ => 1) = 1 ->
  (forall k, (1 <= k <= length a)%nat -> wsum w (fun i => rho ^ (i * k)) = 0) ->
  (1 <= length w)%nat -> symcode (OpsR eps tiny huge) w = 0%Z \/ length w = 1%nat ->
  (length w <= len)%nat -> (len - (length w - 1) <= length hs)%nat ->
  fst (fst (fst (extrapolate (OpsR eps tiny huge) tf (1/10000) c8 c15 ch
                   (map (polyv L a) (lim_steps (OpsR eps tiny huge) s (geo h0 rho len))) hs w))) = L.
Proof. exact (limit_model_exact eps tiny huge tf c8 c15 ch s rho L h0 a w len hs). Qed.
(* Residue: f(z0 + h) = g(h) / h^p: multiplying by h^p cancels the pole exactly and the value returned is g(0) *)
Theorem C18_residue_exact eps tiny huge tf c8 c15 ch s rho L h0 (a w : list R) p len hs :
  0 <= eps -> s <> 0 -> h0 <> 0 -> rho <> 0 ->
  wsum w (fun _ => 1) = 1 ->
  (forall k, (1 <= k <= length a)%nat -> wsum w (fun i => rho ^ (i * k)) = 0) ->
  (1 <= length w)%nat -> symcode (OpsR eps tiny huge) w = 0%Z \/ length w = 1%nat ->
  (length w <= len)%nat -> (len - (length w - 1) <= length hs)%nat ->
  let steps := lim_steps (OpsR eps tiny huge) s (geo h0 rho len) in
  fst (fst (fst (extrapolate (OpsR eps tiny huge) tf (1/10000) c8 c15 ch
                   (residue_seq (OpsR eps tiny huge) p (map (fun h => polyv L a h / h ^ p) steps) steps) hs w))) = L.
Proof. exact (residue_model_exact eps tiny huge tf c8 c15 ch s rho L h0 a w p len hs). Qed.
(* the evaluation points are on the requested side *)
Theorem C18_side eps tiny huge z s steps : Forall (fun h => 0 < h) steps ->
  (s = 1 -> Forall (fun x => z < x) (lim_points (OpsR eps tiny huge) z (lim_steps (OpsR eps tiny huge) s steps))) /\
  (s = -1 -> Forall (fun x => x < z) (lim_points (OpsR eps tiny huge) z (lim_steps (OpsR eps tiny huge) s steps))).
Proof. exact (lim_points_side eps tiny huge z s steps). Qed.

(* (b') the same over the complex numbers C = R x R (numpy's lexicographic order, modulus as (|z|, 0), complex percentiles):
   complex z0 or complex-valued f, and spiral paths (complex h0 and complex step ratio rho) *)
Theorem C18_limit_exact_complex eps tiny huge (tf thr c8 c15 : C) (rho L h0 : C) (w : list C) (terms : list (C * nat)) len hs :
  0 <= eps ->
  wsumK C (0, 0) Cadd Cmul w (fun _ => (1, 0)) = (1, 0) ->
  (forall a k, In (a, k) terms -> wsumK C (0, 0) Cadd Cmul w (fun i => kpow C (1, 0) Cmul rho (i * k)) = (0, 0)) ->
  (2 <= length w)%nat -> symcode (OpsC eps tiny huge) w = 0%Z -> (length w <= len)%nat ->
  fst (fst (fst (extrapolate_c (OpsC eps tiny huge) tf thr c8 c15 (map (sqK C (0, 0) (1, 0) Cadd Cmul rho L h0 terms) (seq 0 len)) hs w))) = L.
Proof. intros He. exact (limit_exact_complex eps tiny huge He tf thr c8 c15 rho L h0 w terms len hs). Qed.

(* (c) the translated decision logic *)
Theorem C18_sign_table : lim_sign "above"%string = Some 1%Z /\ lim_sign "forward"%string = Some 1%Z /\ lim_sign "below"%string = Some (-1)%Z /\ lim_sign "backward"%string = Some (-1)%Z.
Proof. exact sign_table. Qed.
Theorem C18_sign_is_unit m s : lim_sign m = Some s -> s = 1%Z \/ s = (-1)%Z.
Proof. exact (sign_is_unit m s). Qed.
Theorem C18_rule o : lim_rich_num_terms o = (o + 1)%Z /\ lim_rich_step = 1%Z /\ lim_rich_order = 1%Z.
Proof. exact (rich_rule_of_limit o). Qed.
Theorem C18_residue_exponent p : residue_power p = p.
Proof. exact (residue_exponent p). Qed.
Theorem C18_residue_default_terms p : lim_rich_num_terms (residue_default_order p) = (p + 3)%Z.
Proof. exact (residue_default_terms p). Qed.
Theorem C18_enough_steps (r : R) (k o : Z) :
  2 <= r <= 16 -> Rabs (IZR k - Q2R cstep_round_numerator / ln r) <= 1/2 -> (1 <= o <= 8)%Z ->
  (13 <= cstep_num_steps_of_round k)%Z /\ (5 <= cstep_num_steps_of_round k - (lim_rich_num_terms o - 1))%Z.
Proof. exact (enough_steps r k o). Qed.
Theorem C18_structure :
  lim_steps_signed = true /\ lim_sequence_is_f_at_steps = true /\ lim_rich_ratio_is_generator_ratio = true /\
  limit_evaluates_f_at_z_plus_dz = true /\ residue_call_is_limit = true /\ limit_method_is_lim_at_x = true /\
  call_evaluates_f_at_zero_step = true /\ call_lim_replaces_nan_only = true /\ extrapolate_shape_ok = true /\
  limit_step_generator_ok = true /\ limit_vstack_size_guard = true.
Proof. exact limit_structure. Qed.
Theorem C18_step_generator :
  cstep_default_path_radial = true /\ cstep_user_num_steps_wins = true /\ cstep_ratio_radial_real_spiral_rotated = true /\
  cstep_dtheta_zero_on_radial = true /\ path_guard_in_constructor = true /\ (forall k, cstep_num_steps_of_round k = (2 * k + 1)%Z).
Proof. exact cstep_structure. Qed.

(* non-vacuity: order 1, ratio 1/4 (steps shrink by 4): w = [-1/3; 4/3] meets the hypotheses of C18_limit_exact with a = [a1] *)
Example C18_example : wsum [-1/3; 4/3] (fun _ => 1) = 1 /\ wsum [-1/3; 4/3] (fun i => (1/4) ^ (i * 1)) = 0.
Proof. cbn. split; lra. Qed.
