(* C09 - results depend only on (function, point, configuration), not on history.  Statements only;
   proofs in Theory/StateTheory.v.  The only hypothesis is that the cached value is a function of the
   key (the translator checks on the AST of LogRule.rule that the cache key is exactly the argument
   tuple of _fd_matrix and the value its pinv); dict get/set are atomic (CPython), and objects are not
   shared between threads (the property's own restriction). *)
From Coq Require Import List Bool ZArith.
Require Import NDT.Gen.Spec NDT.Theory.StateTheory.
Import ListNotations.

Section C09.
Variables (key val cfg pt res : Type).
Variable key_eqb : key -> key -> bool.
Hypothesis key_eqb_spec : forall a b, key_eqb a b = true <-> a = b.
Variable compute : key -> val.
Variable key_of : cfg -> pt -> key.
Variable finish : cfg -> pt -> val -> res.

(* any finite history of calls (incl. calls made only to pre-populate the cache) and cache clears,
   then a call: the observation is the stateless evaluation *)
Theorem C09_history_independent (ops : list (op cfg pt)) c x :
  snd (step key val cfg pt res key_eqb compute key_of finish
        (fold_left (fun m o => fst (step key val cfg pt res key_eqb compute key_of finish m o)) ops []) (Call cfg pt c x))
  = Some (pure key val cfg pt res compute key_of finish c x).
Proof. exact (history_independent key val cfg pt res key_eqb key_eqb_spec compute key_of finish ops c x). Qed.

(* any number of concurrent calls, any schedule of their atomic steps (lookup / compute / store / finish),
   from any consistent cache: every completed call returns the stateless evaluation *)
Theorem C09_schedule_independent (m0 : cache key val) (calls : list (cfg * pt)) (sched : list nat) :
  Inv key val key_eqb compute m0 ->
  let g := fold_left (gstep key val cfg pt res key_eqb compute key_of finish) sched
             (m0, map (fun cx => {| tc := fst cx; tx := snd cx; tpc := Start val res |}) calls) in
  forall t r, In t (snd g) -> tpc _ _ _ _ t = Done val res r -> r = pure key val cfg pt res compute key_of finish (tc _ _ _ _ t) (tx _ _ _ _ t).
Proof. exact (schedule_independent key val cfg pt res key_eqb key_eqb_spec compute key_of finish m0 calls sched). Qed.
End C09.

(* the cache key really is the argument tuple of the computation (structural fact from the translator) *)
Theorem C09_key_is_argument_of_compute : rule_key_is_fd_matrix_args = true.
Proof. reflexivity. Qed.

(* changing and then restoring n, order or the method restores the configuration; the n = 0 selector follows n *)
Theorem C09_setters_restore c a b a' : same_field a b = true -> same_field b a' = true ->
  apply_set (apply_set (apply_set c a) b) a' = apply_set c a'.
Proof. exact (setters_restore c a b a'). Qed.
Theorem C09_selector_follows_n c v : derivative_selector_zero (apply_set c (SetN v)) = Z.eqb v 0.
Proof. exact (selector_follows_n c v). Qed.

(* a (shared) step generator's output depends on its constructor options and the current call only *)
Theorem C09_generator_state_overwritten (opts st out : Type) (produce : opts -> st -> out) o (history : list st) s0 s :
  snd (gen_call opts st out produce o (fold_left (fun cur nxt => fst (gen_call opts st out produce o cur nxt)) history s0) s) = produce o s.
Proof. exact (gen_state_overwritten opts st out produce o history s0 s). Qed.
