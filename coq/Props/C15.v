(* C15 - fd_weights equal the exact Lagrange-derivative weights for any nodes.
   Statements only; proofs in Theory/FornbergTheory.v; model Model/Fornberg.v (tied bit-exactly to
   fornberg.fd_weights_all).  Any field, any distinct nodes in any order, any x0, any n < len(x). *)
From mathcomp Require Import all_ssreflect all_algebra.
Require Import NDT.Model.Fornberg NDT.Model.FdDerivative NDT.Theory.FornbergTheory.
Import GRing.Theory.
Local Open Scope ring_scope.

(* Lb xs i v is the Lagrange basis polynomial of the nodes x_0..x_i: value delta_uv at the nodes, degree <= i *)
Theorem C15_Lb_is_lagrange_basis (F : fieldType) (xs : seq F) i u v : uniq xs ->
  (i < size xs)%N -> (u <= i)%N -> (v <= i)%N ->
  (Lb xs i v).[nth 0 xs u] = (u == v)%:R /\ (size (Lb xs i v) <= i.+1)%N.
Proof. move=> un lt lu lv; split; [exact: Lb_node | exact: size_Lb]. Qed.

(* row k, column v of the model's output is the k-th derivative at x0 of the v-th Lagrange basis polynomial *)
Theorem C15_rows_are_lagrange_derivatives (F : fieldType) (xs : seq F) (x0 : F) n : uniq xs -> (n < size xs)%N ->
  exists w, fd_weights_all (FO F) xs x0 n = Some w /\
    forall k v, (k <= n)%N -> (v < size xs)%N ->
      nth 0 (nth [::] w k) v = ((Lb xs (size xs).-1 v)^`(k)).[x0].
Proof. move=> un lt; exact: fd_weights_all_spec. Qed.

(* applied to samples of any polynomial of degree < len(x): exact k-th derivative at x0 *)
Theorem C15_exact_on_polynomials (F : fieldType) (xs : seq F) (x0 : F) n (p : {poly F}) k : uniq xs ->
  (n < size xs)%N -> (k <= n)%N -> (size p <= size xs)%N ->
  \sum_(v < size xs) ((Lb xs (size xs).-1 v)^`(k)).[x0] * p.[nth 0 xs v] = (p^`(k)).[x0].
Proof. move=> un; exact: fd_weights_exact_on_poly. Qed.

(* row 0 interpolates *)
Corollary C15_row0_interpolates (F : fieldType) (xs : seq F) (x0 : F) (p : {poly F}) : uniq xs ->
  (0 < size xs)%N -> (size p <= size xs)%N ->
  \sum_(v < size xs) (Lb xs (size xs).-1 v).[x0] * p.[nth 0 xs v] = p.[x0].
Proof. move=> un m0 sp. have := @fd_weights_exact_on_poly F xs x0 0 un p 0 m0 (leqnn 0) sp. by rewrite derivn0. Qed.

(* rows k >= 1 sum to zero *)
Corollary C15_rows_sum_to_zero (F : fieldType) (xs : seq F) (x0 : F) n k : uniq xs ->
  (n < size xs)%N -> (0 < k <= n)%N ->
  \sum_(v < size xs) ((Lb xs (size xs).-1 v)^`(k)).[x0] = 0.
Proof.
move=> un lt /andP [k0 kn].
have sp : (size (1%R : {poly F}) <= size xs)%N by rewrite size_poly1; apply: leq_ltn_trans lt.
have := @fd_weights_exact_on_poly F xs x0 n un (1 : {poly F}) k lt kn sp.
have -> : ((1 : {poly F})^`(k)).[x0] = 0.
  by case: k k0 {kn} => // k _; rewrite derivSn -polyC1 derivC linear0 horner0.
move=> H; rewrite -[RHS]H; apply: eq_bigr => v _.
by rewrite /W -polyC1 hornerC mulr1.
Qed.

(* the guard: n >= len(x) is rejected (ValueError in the source, None in the model); fd_weights is row n *)
Theorem C15_guard {A} (O : FdOps A) (xs : seq A) x0 n : (size xs <= n)%N -> fd_weights_all O xs x0 n = None.
Proof. by rewrite /fd_weights_all ltnNge => ->. Qed.
Theorem C15_fd_weights_is_row_n {A} (O : FdOps A) (xs : seq A) x0 n w :
  fd_weights_all O xs x0 n = Some w -> fd_weights O xs x0 n = Some (nth [::] w n).
Proof. by rewrite /fd_weights => ->. Qed.
