(* C03 - Jacobian, Gradient, directionaldiff: right entries and shapes for any R^n -> R^m.  Statements only. *)
From Coq Require Import List Arith Field.
Require Import NDT.Model.JacShape NDT.Model.Shapes NDT.Theory.JacShapeTheory NDT.Theory.DirdiffTheory.
Import ListNotations.

(* vector-valued f : R^n -> R^m, every m >= 1 and n >= 1: the stencil results (n quotient vectors of length m)
   are laid out so that, after extrapolating each column and reshaping to (m, n), entry [i, j] comes from
   entry i of the quotient with respect to x_j *)
Theorem C03_jacobian_layout {T} (d : T) m (r : list (list T)) i j : i < m -> j < length r ->
  at2 d (length r) (vstack_row2 d m r) i j = nth i (nth j r []) d.
Proof. exact (jacobian_layout2 d m r i j). Qed.

(* ... paired with the step of variable j *)
Theorem C03_steps_layout {T} (d : T) m (h : list T) i j : i < m -> j < length h ->
  at2 d (length h) (vstack_row2 d m (expand_steps m h)) i j = nth j h d.
Proof. exact (steps_layout2 d m h i j). Qed.

(* matrix-valued f of shape (m, k): shape (m, n, k) with [i, j, l] the derivative of f[i, l] with respect to x_j *)
Theorem C03_jacobian_layout_matrix_valued {T} (d : T) m k (r : list (list (list T))) i j l :
  i < m -> j < length r -> l < k ->
  Forall (fun plane => length plane = m /\ Forall (fun row => length row = k) plane) r ->
  at3 d (length r) k (vstack_row3 m r) i j l = nth l (nth i (nth j r []) []) d.
Proof. exact (jacobian_layout3 d m k r i j l). Qed.

(* Gradient: the single Jacobian row (1, n) squeezed: shape (n), 0-d when x has one element; any-shaped x is ravelled *)
Theorem C03_gradient_shape (xs : shape) : squeeze [1; size xs] = if Nat.eqb (size xs) 1 then [] else [size xs].
Proof. unfold squeeze. cbn. destruct (Nat.eqb (size xs) 1); reflexivity. Qed.

(* directionaldiff: g(t) = f(x0 + t v) is, for affine and quadratic f, a polynomial of degree <= 2 whose
   linear coefficient is L v = grad f(x0) . v (then Derivative(g)(0) is exact by C01/C06) *)
Theorem C03_dirdiff_polynomial (R : Type) (r0 r1 : R) (radd rmul rsub : R -> R -> R) (ropp : R -> R) (rdiv : R -> R -> R) (rinv : R -> R)
  (Rth : field_theory r0 r1 radd rmul rsub ropp rdiv rinv eq) (two_neq0 : radd r1 r1 <> r0)
  (V : Type) (vadd : V -> V -> V) (smul : R -> V -> V) (x0 : V) (f : V -> R) (f0 : R) (L : V -> R) (B : V -> V -> R) :
  (forall u, f (vadd x0 u) = radd (radd f0 (L u)) (rdiv (B u u) (radd r1 r1))) ->
  (forall t u, L (smul t u) = rmul t (L u)) -> (forall t u w, B (smul t u) w = rmul t (B u w)) -> (forall t u w, B u (smul t w) = rmul t (B u w)) ->
  forall v t, f (vadd x0 (smul t v)) = radd (radd f0 (rmul t (L v))) (rmul (rmul t t) (rdiv (B v v) (radd r1 r1))).
Proof. intros H1 H2 H3 H4. exact (dirdiff_polynomial R r0 r1 radd rmul rsub ropp rdiv rinv Rth two_neq0 V vadd smul x0 f f0 L B H1 H2 H3 H4). Qed.
