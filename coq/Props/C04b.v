(* C04, exact core closed end to end (statements only; proofs in Theory/HessianEndToEnd.v): for a quadratic f of any number of
   variables, every Hessian entry computed by the executable stencil model at every trial step and then extrapolated and
   selected by Model/Pipeline.v's extrapolate is EXACTLY the second partial derivative B(e_i, e_j) -- 'forward', 'backward',
   'central2', 'central' (off and on the diagonal); any number of steps, any non-zero step per coordinate and trial; any
   Richardson rule with weights summing to one.  (Symmetry of the assembled matrix: C04_exactly_symmetric.) *)
From Coq Require Import Reals ZArith List Lia Lra RealField.
Require Import NDT.Arith.Ops NDT.Arith.OpsR NDT.Model.Convolve NDT.Model.Richardson NDT.Model.Pipeline NDT.Model.HessStencil
               NDT.Theory.RichardsonTheory NDT.Theory.HessianEndToEnd.
Import ListNotations.
Open Scope R_scope.

Section C04b.
Variables eps tiny huge tf c8 c15 ch : R.
Hypothesis eps_nn : 0 <= eps.
Let O := OpsR eps tiny huge.
Variable rr : list R.
Hypotheses (rr_sum : wsum rr (fun _ => 1) = 1) (rr_len : (1 <= length rr)%nat) (rr_plain : symcode O rr = 0%Z \/ length rr = 1%nat).
(* the quadratic, over a real vector space *)
Variable V : Type.
Variables (vadd : V -> V -> V) (vneg : V -> V) (smul : R -> V -> V).
Variables (x : V) (f : V -> R) (f0 : R) (L : V -> R) (B : V -> V -> R).
Hypothesis f_quad : forall u, f (vadd x u) = f0 + L u + B u u / (1 + 1).
Hypothesis L_add : forall u w, L (vadd u w) = L u + L w.
Hypothesis L_neg : forall u, L (vneg u) = - L u.
Hypothesis B_addl : forall u w z, B (vadd u w) z = B u z + B w z.
Hypothesis B_addr : forall u w z, B z (vadd u w) = B z u + B z w.
Hypothesis B_negl : forall u z, B (vneg u) z = - B u z.
Hypothesis B_negr : forall u z, B z (vneg u) = - B z u.
Hypothesis B_sym : forall u w, B u w = B w u.
Hypothesis B_scall : forall s u w, B (smul s u) w = s * B u w.
Hypothesis B_scalr : forall s u w, B u (smul s w) = s * B u w.
(* coordinates i and j: unit vectors, and the step sizes of trial t *)
Variables (ei ej : V) (hi hj : nat -> R).
Variable len : nat.
Hypothesis hi_nz : forall t, (t < len)%nat -> hi t <> 0.
Hypothesis hj_nz : forall t, (t < len)%nat -> hj t <> 0.
Variable hs : list R.
Hypotheses (enough : (length rr <= len)%nat) (hs_len : (len - (length rr - 1) <= length hs)%nat).
Notation a t := (smul (hi t) ei).
Notation b t := (smul (hj t) ej).

Theorem C04_hessian_forward_end_to_end :
  fst (fst (fst (extrapolate O tf (1/10000) c8 c15 ch
    (map (fun t => hess_forward_entry O (f (vadd x (vadd (a t) (b t)))) (f (vadd x (a t))) (f (vadd x (b t))) f0 (hi t) (hj t)) (seq 0 len)) hs rr)))
  = B ei ej.
Proof. eapply hessian_forward_end_to_end; eassumption. Qed.

Theorem C04_hessian_backward_end_to_end :
  fst (fst (fst (extrapolate O tf (1/10000) c8 c15 ch
    (map (fun t => hess_forward_entry O (f (vadd x (vadd (vneg (a t)) (vneg (b t))))) (f (vadd x (vneg (a t)))) (f (vadd x (vneg (b t)))) f0 (- hi t) (- hj t)) (seq 0 len)) hs rr)))
  = B ei ej.
Proof. eapply hessian_backward_end_to_end; eassumption. Qed.

Theorem C04_hessian_central2_end_to_end :
  fst (fst (fst (extrapolate O tf (1/10000) c8 c15 ch
    (map (fun t => hess_central2_entry O (f (vadd x (vadd (a t) (b t)))) (f (vadd x (vadd (vneg (a t)) (vneg (b t))))) (f (vadd x (a t))) (f (vadd x (b t)))
                     (f (vadd x (vneg (a t)))) (f (vadd x (vneg (b t)))) f0 (hi t) (hj t)) (seq 0 len)) hs rr)))
  = B ei ej.
Proof. eapply hessian_central2_end_to_end; eassumption. Qed.

Theorem C04_hessian_central_off_diagonal_end_to_end :
  fst (fst (fst (extrapolate O tf (1/10000) c8 c15 ch
    (map (fun t => hess_central_off_entry O (f (vadd x (vadd (a t) (b t)))) (f (vadd x (vadd (a t) (vneg (b t))))) (f (vadd x (vadd (vneg (a t)) (b t))))
                     (f (vadd x (vadd (vneg (a t)) (vneg (b t))))) (hi t) (hj t)) (seq 0 len)) hs rr)))
  = B ei ej.
Proof. eapply hessian_central_off_diagonal_end_to_end; eassumption. Qed.

Theorem C04_hessian_central_diagonal_end_to_end :
  fst (fst (fst (extrapolate O tf (1/10000) c8 c15 ch
    (map (fun t => hess_central_diag_entry O (f (vadd x (vadd (a t) (a t)))) (f (vadd x (vadd (vneg (a t)) (vneg (a t))))) f0 (hi t)) (seq 0 len)) hs rr)))
  = B ei ei.
Proof. eapply hessian_central_diagonal_end_to_end; eassumption. Qed.

End C04b.

(* the hypotheses are satisfiable with a non-trivial mixed derivative: V = R^2, f(u) = u_1 u_2, B(u, w) = u_1 w_2 + u_2 w_1, B(e_1, e_2) = 1 *)
Example C04_quadratic_exists :
  let V := (R * R)%type in
  let vadd (u w : V) := (fst u + fst w, snd u + snd w) in
  let vneg (u : V) := (- fst u, - snd u) in
  let smul (s : R) (u : V) := (s * fst u, s * snd u) in
  let f (u : V) := fst u * snd u in
  let B (u w : V) := fst u * snd w + snd u * fst w in
  let L (u : V) := 0 in
  (forall u, f (vadd (0, 0) u) = 0 + L u + B u u / (1 + 1)) /\ (forall u w, L (vadd u w) = L u + L w) /\ (forall u, L (vneg u) = - L u) /\
  (forall u w z, B (vadd u w) z = B u z + B w z) /\ (forall u w z, B z (vadd u w) = B z u + B z w) /\
  (forall u z, B (vneg u) z = - B u z) /\ (forall u z, B z (vneg u) = - B z u) /\ (forall u w, B u w = B w u) /\
  (forall s u w, B (smul s u) w = s * B u w) /\ (forall s u w, B u (smul s w) = s * B u w) /\ B (1, 0) (0, 1) = 1.
Proof.
  cbv zeta. repeat split; intros; cbn [fst snd]; try lra; try field.
Qed.
