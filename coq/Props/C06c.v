(* C06, layer (C): exactness of the rule (MathComp; any field of characteristic 0). *)
From mathcomp Require Import all_ssreflect all_algebra.
Require Import NDT.Theory.RuleExact.
Import GRing.Theory.
Local Open Scope ring_scope.

(* sigma: Taylor signature of the stencil; (off, st): progression of the moment system; T terms;
   r the row of the wanted derivative n; M the moment matrix as _fd_matrix builds it; w the rule row *)
Theorem C06_rule_exact (F : fieldType) (char0 : [char F] =i pred0) (off st T r n : nat) (rho h c0 fl : F) (sigma g w : nat -> F) :
  (0 < st)%N -> h != 0 -> c0 != 0 ->
  (off + st * r = n)%N -> (r < T)%N ->
  (forall k, (k < off + st * T)%N -> ~~ ((off <= k)%N && (st %| k - off)%N) -> sigma k = 0) ->
  sigma n * fl = c0 -> fl * fl = 1 ->
  (forall j, (j < T)%N -> \sum_(0 <= i < T) w i * (c0 / (off + st * j)`!%:R * rho ^+ (i * (off + st * j))) = (j == r)%:R) ->
  fl * (\sum_(0 <= i < T) w i * (\sum_(0 <= k < off + st * T) sigma k * g k * (h * rho ^+ i) ^+ k)) / h ^+ n = n`!%:R * g n.
Proof. move=> st0 h0 c0n idx rT supp lead fl2 wM. exact: (rule_exact char0 g st0 h0 c0n idx rT supp lead fl2 wM). Qed.

(* reindexing a sum supported on an arithmetic progression (used above) *)
Theorem C06_sum_progression (V : zmodType) (off st T : nat) (G : nat -> V) : (0 < st)%N ->
  (forall k, (k < off + st * T)%N -> ~~ ((off <= k)%N && (st %| k - off)%N) -> G k = 0) ->
  \sum_(0 <= k < off + st * T) G k = \sum_(0 <= j < T) G (off + st * j)%N.
Proof. exact: sum_progression. Qed.
