(* C06, layer (C): exactness of the rule (MathComp; any field of characteristic 0), and its composition with the
   regenerated tables of layer (B). *)
From Coq Require Import ZArith.
From mathcomp Require Import all_ssreflect all_algebra.
From mathcomp Require Import all_field.
Require Import NDT.Gen.Spec NDT.Arith.OpsField NDT.Theory.RuleTables NDT.Theory.RuleTablesNat NDT.Theory.RuleExact NDT.Theory.RuleComposed
               NDT.Theory.StencilSignatures NDT.Theory.StencilLinear NDT.Theory.RuleStencil.
Import GRing.Theory Num.Theory.
Local Open Scope ring_scope.

(* sigma: Taylor signature of the stencil; (off, st): progression of the moment system; T terms;
   r the row of the wanted derivative n; M the moment matrix as _fd_matrix builds it; w the rule row *)
Theorem C06_rule_exact (F : fieldType) (char0 : [char F] =i pred0) (off st T r n : nat) (rho h c0 fl : F) (sigma g w : nat -> F) :
  (0 < st)%N -> h != 0 -> c0 != 0 ->
  (off + st * r = n)%N -> (r < T)%N ->
  (forall k, (k < off + st * T)%N -> ~~ ((off <= k)%N && (st %| k - off)%N) -> sigma k = 0) ->
  sigma n * fl = c0 -> fl * fl = 1 ->
  (forall j, (j < T)%N -> \sum_(0 <= i < T) w i * (c0 / (off + st * j)`!%:R * rho ^+ (i * (off + st * j))) = (j == r)%:R) ->
  fl * (\sum_(0 <= i < T) w i * (\sum_(0 <= k < off + st * T) sigma k * g k * (h * rho ^+ i) ^+ k)) / h ^+ n = n`!%:R * g n.
Proof. move=> st0 h0 c0n idx rT supp lead fl2 wM. exact: (rule_exact char0 g st0 h0 c0n idx rT supp lead fl2 wM). Qed.

(* reindexing a sum supported on an arithmetic progression (used above) *)
Theorem C06_sum_progression (V : zmodType) (off st T : nat) (G : nat -> V) : (0 < st)%N ->
  (forall k, (k < off + st * T)%N -> ~~ ((off <= k)%N && (st %| k - off)%N) -> G k = 0) ->
  \sum_(0 <= k < off + st * T) G k = \sum_(0 <= j < T) G (off + st * j)%N.
Proof. exact: sum_progression. Qed.

(* (B) + (C) composed: for every method in {central, forward, backward, complex}, every n >= 1 and order >= 1, with the progression
   (offset, step), the number of terms, the row, c_0 and the sign flip READ FROM THE REGENERATED TABLES and the integer Taylor
   signature of the stencil the name dispatch selects: a rule solving the moment system of _fd_matrix gives n! g_n *)
Theorem C06_rule_exact_from_tables (F : fieldType) (char0 : [char F] =i pred0) (m : method) (n order : Z) (rho h : F) (g w : nat -> F) :
  Z.le (Zpos xH) n -> Z.le (Zpos xH) order -> m = Central \/ m = Forward \/ m = Backward \/ m = Complex -> h != 0 ->
  let off := offN m n order in let st := stN m n order in let T := termsN m n order in let r := rowN m n order in
  let c0 : F := field_ofZ F (c0Z m n order) in
  let fl : F := if flip_fd_rule m n order then -1 else 1 in
  let sig := fun k : nat => field_ofZ F (sigmaN m n order k) in
  (forall j, (j < T)%N -> \sum_(0 <= i < T) w i * (c0 / (off + st * j)`!%:R * rho ^+ (i * (off + st * j))) = (j == r)%:R) ->
  fl * (\sum_(0 <= i < T) w i * (\sum_(0 <= k < off + st * T) sig k * g k * (h * rho ^+ i) ^+ k)) / h ^+ (Z.to_nat n)
  = (Z.to_nat n)`!%:R * g (Z.to_nat n).
Proof. move=> Hn Ho Hm h0 off st T r c0 fl sig wM. exact: (rule_exact_from_tables char0 Hn Ho Hm g h0 wM). Qed.

(* (A) + (B) + (C) in one statement, with the stencil written as the source writes it.  f is any polynomial
   f(x + d) = sum_{k < K} g_k d^k, K = offset + step*terms = n + method_order (C06_remainder_matches_richardson), given on
   real displacements (polyr), on complex displacements (polyc) and at x itself; stencil_value S hh is the body of
   DifferenceFunctions._central/_central_even/_forward/_backward/_complex/_complex_odd/_complex_odd_higher/_complex_even/
   _complex_even_higher applied to that f at step hh (Theory/StencilLinear.v), S the name the dispatch selects.  A rule solving
   the moment system that _fd_matrix builds from the regenerated tables then returns n! g_n = f^(n)(x), for every method in
   {central, forward, backward, complex}, every n >= 1, every order >= 1, every step ratio for which such a rule exists,
   over any field of characteristic 0 containing s = 1/sqrt 2 (the components of _SQRT_J) *)
Theorem C06_rule_exact_on_stencil (F : fieldType) (char0 : [char F] =i pred0) (s : F) (m : method) (n order : Z) (rho h : F) (g w : nat -> F) :
  s * s + s * s = 1 ->
  Z.le (Zpos xH) n -> Z.le (Zpos xH) order -> m = Central \/ m = Forward \/ m = Backward \/ m = Complex -> h != 0 ->
  let off := offN m n order in let st := stN m n order in let T := termsN m n order in let r := rowN m n order in
  let c0 : F := field_ofZ F (c0Z m n order) in
  let fl : F := if flip_fd_rule m n order then -1 else 1 in
  (forall j, (j < T)%N -> \sum_(0 <= i < T) w i * (c0 / (off + st * j)`!%:R * rho ^+ (i * (off + st * j))) = (j == r)%:R) ->
  fl * (\sum_(0 <= i < T) w i * stencil_value s m n order g (stencil_of m n order) (h * rho ^+ i)) / h ^+ (Z.to_nat n)
  = (Z.to_nat n)`!%:R * g (Z.to_nat n).
Proof. move=> s2 Hn Ho Hm h0 off st T r c0 fl wM. exact: (rule_exact_on_stencil char0 s2 Hn Ho Hm g h0 wM). Qed.

(* the hypotheses on the field are satisfiable: the algebraic numbers have characteristic 0 and contain 1/sqrt 2 *)
Example C06_field_exists : exists (F : fieldType) (s : F), [char F] =i pred0 /\ s * s + s * s = 1.
Proof.
exists [fieldType of algC], (sqrtC (2%:R^-1)); split; first exact: Cchar.
rewrite -expr2 sqrtCK -mulr2n -(mulr_natl (2%:R^-1 : algC) 2) mulfV //.
by rewrite pnatr_eq0.
Qed.
