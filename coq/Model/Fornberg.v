(* Polymorphic executable model of fornberg._fd_weights_all / fd_weights_all *)
From mathcomp Require Import ssreflect ssrfun ssrbool eqtype ssrnat seq.
Set Implicit Arguments. Unset Strict Implicit. Unset Printing Implicit Defensive.

Record FdOps (A : Type) := MkFdOps {
  zero : A; one : A; add : A -> A -> A; sub : A -> A -> A; mul : A -> A -> A; div : A -> A -> A;
  ofnat : nat -> A }.

Section Model.
Variables (A : Type) (O : FdOps A).
Notation "0" := (zero O). Notation "1" := (one O).
Notation "x - y" := (sub O x y). Notation "x * y" := (mul O x y). Notation "x / y" := (div O x y).

(* j * weights[v, j-1]  (numpy wraps j-1 = -1 to the last column) *)
Definition c6 (row : seq A) (k : nat) : A :=
  ofnat O k * (if k is k'.+1 then nth 0 row k' else last 0 row).

Definition upd_old (c3 c4 : A) (jm : nat) (row : seq A) : seq A :=
  mkseq (fun k => if k <= jm then (c4 * nth 0 row k - c6 row k) / c3 else nth 0 row k) (size row).

Definition new_row (c1 c2 c5 : A) (jm : nat) (row : seq A) : seq A :=
  mkseq (fun k => if k <= jm then (c1 * (c6 row k - c5 * nth 0 row k)) / c2 else 0) (size row).

Definition stage (x : seq A) (x0 : A) (n i : nat) (st : seq (seq A) * A * A) :=
  let: (rows, c1, c4old) := st in
  let xi := nth 0 x i in
  let jm := minn i n in
  let c5 := c4old in
  let c4 := xi - x0 in
  let c2 := foldl (fun c v => c * (xi - nth 0 x v)) 1 (iota 0 i) in
  let rows' := mkseq (fun v =>
      if v < i then upd_old (xi - nth 0 x v) c4 jm (nth [::] rows v)
      else if v == i then new_row c1 c2 c5 jm (nth [::] rows i.-1)
      else nth [::] rows v) (size rows) in
  (rows', c2, c4).

Definition init_rows (m n : nat) : seq (seq A) :=
  mkseq (fun v => mkseq (fun k => if (v == 0%N) && (k == 0%N) then 1 else 0) n.+1) m.

Definition fdw_state (x : seq A) (x0 : A) (n : nat) (upto : nat) :=
  foldl (fun st i => stage x x0 n i st) (init_rows (size x) n, 1, nth 0 x 0 - x0) (iota 1 upto).

(* weights.T : row k, column v *)
Definition fd_weights_all (x : seq A) (x0 : A) (n : nat) : option (seq (seq A)) :=
  if n < size x then
    let rows := (fdw_state x x0 n (size x).-1).1.1 in
    Some (mkseq (fun k => mkseq (fun v => nth 0 (nth [::] rows v) k) (size x)) n.+1)
  else None.
End Model.
