(* binary64 instance of the evaluation-point model, with the stencil chosen by the name dispatch and the
   "evaluate f(x) first" decision taken from the definitions regenerated from /repo (Gen/Spec.v). *)
From Coq Require Import PrimFloat ZArith List Bool String. Import ListNotations.
Require Import NDT.Arith.Ops NDT.Arith.OpsFloat NDT.Gen.Spec NDT.Model.Points.
Definition q4f := (float * float * float * float)%type.
Definition q4_eq (a b : q4f) : bool :=
  let '(a1, a2, a3, a4) := a in let '(b1, b2, b3, b4) := b in feq a1 b1 && feq a2 b2 && feq a3 b3 && feq a4 b4.
Fixpoint pt_eq (a b : list q4f) : bool := match a, b with [], [] => true | x :: a', y :: b' => q4_eq x y && pt_eq a' b' | _, _ => false end.
Fixpoint pts_eq (a b : list (list q4f)) : bool := match a, b with [], [] => true | x :: a', y :: b' => pt_eq x y && pts_eq a' b' | _, _ => false end.
Definition complex_like (m : method) : bool := meqb m Complex || meqb m Multicomplex.
(* class ids: 0 Derivative, 1 Jacobian/Gradient, 2 Hessdiag, 3 Hessian *)
Definition model_calls (sr si sq2 : float) (cls : nat) (m : method) (n order : Z) (full_output : bool) (x : list float) (steps : list (list float)) : list (list q4f) :=
  match cls with
  | 0%nat => calls OpsF (complex_like m || eval_first_condition m n order || full_output) (pts_derivative OpsF sr si (diff_name m n order)) x steps
  | 1%nat => calls OpsF true (pts_jacobian OpsF sr si (jac_diff_name m n order)) x steps
  | 2%nat => calls OpsF (complex_like m || hd_eval_first_condition m n order || full_output) (pts_hessdiag OpsF sq2 (hd_diff_name m n order)) x steps
  | _ => calls OpsF (complex_like m || hs_eval_first_condition m n order || full_output)
           (if meqb m Backward then pts_hessian_backward OpsF else pts_hessian OpsF (hs_diff_name m n order)) x steps
  end.
Definition ok_points (c : float * float * float * nat * method * Z * Z * bool * list float * list (list float) * list (list q4f)) : bool :=
  let '(sr, si, sq2, cls, m, n, order, fo, x, steps, obs) := c in pts_eq (model_calls sr si sq2 cls m n order fo x steps) obs.
