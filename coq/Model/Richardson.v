(* Executable model of extrapolation.Richardson.__call__ / _estimate_error for one column, given
   the rule (the pinv row is an oracle), polymorphic in the arithmetic (DESIGN 4, C07). *)
From Coq Require Import ZArith List Bool.
Require Import NDT.Arith.Ops NDT.Model.Convolve.
Import ListNotations.

Section Richardson.
Context {A : Type} (Op : Ops A).
Variable tfact : A.     (* the literal 12.7062047361747 *)

Definition fact (rule : list A) : A :=
  let cov1 := fold_left (fun s r => add Op s (mul Op (abs Op r) (abs Op r))) rule (zero Op) in
  npmax Op (mul Op tfact (sqrt Op cov1)) (mul Op (c_eps Op) (ofZ Op 10)).

(* _estimate_error(new_sequence[:k], sequence, steps, rule) on the __call__ path *)
Definition est_err (new old steps rule : list A) : list A :=
  let fct := fact rule in
  let m := length new in let mold := length old in
  if Nat.ltb mold 2 then [mul Op (add Op (mul Op (abs Op (nthA Op new 0)) (c_eps Op)) (abs Op (nthA Op steps 0))) fct]
  else map (fun i =>
    let err := mul Op (abs Op (sub Op (nthA Op new (S i)) (nthA Op new i))) fct in
    let tol := mul Op (mul Op (maxabs Op (nthA Op new (S i)) (nthA Op new i)) (c_eps Op)) fct in
    if leb Op err tol then add Op err (mul Op tol (ofZ Op 10))
    else add Op err (mul Op (abs Op (sub Op (nthA Op new i) (nthA Op old (mold - m + 1 + i)%nat))) fct)) (seq 0 (m - 1)).

(* __call__: the rule has n_r + 1 entries; m = len - n_r outputs *)
Definition rich (seq_ steps rr : list A) : list A * list A * list A :=
  let L := length seq_ in let nr := (length rr - 1)%nat in let m := (L - nr)%nat in let k := Nat.min L (S m) in
  let new := conv Op seq_ (rev rr) (Z.of_nat (Nat.div nr 2)) in
  (firstn m new, firstn m (est_err (firstn k new) seq_ steps rr), firstn m steps).

(* number of terms actually used for a sequence of the given length *)
Definition terms_used (num_terms len : nat) : nat := Nat.min num_terms (len - 1).
End Richardson.
