(* Selection for complex estimates: limits._complex_percentile (lexicographic sort as np.sort, one-sided linear
   interpolation) inside _Limit._add_error_to_outliers; everything else as Model/Select.v. *)
From Coq Require Import ZArith List Bool.
Require Import NDT.Arith.Ops NDT.Model.Select.
Import ListNotations.

Section SelectC.
Context {A : Type} (Op : Ops A).
Variables (c_1em8 c_1p5 : A).
Definition pct1 (l : list A) (q : A) : A :=
  let s := sortA Op l in let n := length s in
  let pos := mul Op (div Op q (ofZ Op 100)) (ofnat Op (n - 1)) in
  let lo := floor_search Op pos 0 n in let hi := Nat.min (S lo) (n - 1) in
  add Op (nthA Op s lo) (mul Op (sub Op (nthA Op s hi) (nthA Op s lo)) (sub Op pos (ofnat Op lo))).
Definition penal1 (trim : A) (der errs : list A) : list A :=
  let p25 := pct1 der (ofZ Op 25) in let med := pct1 der (ofZ Op 50) in let p75 := pct1 der (ofZ Op 75) in
  let iqr := abs Op (sub Op p75 p25) in let am := abs Op med in
  map (fun ve => let '(v, e) := ve in
    (* the source combines boolean arrays with + and *: logical or / and, so the factor is 0 or 1 *)
    let o := b2a Op (((ltb Op (abs Op v) (div Op am trim) || ltb Op (mul Op am trim) (abs Op v)) && ltb Op c_1em8 am)
                     || (ltb Op v (sub Op p25 (mul Op c_1p5 iqr)) || ltb Op (add Op p75 (mul Op c_1p5 iqr)) v)) in
    add Op e (mul Op o (abs Op (sub Op v med)))) (combine der errs).
End SelectC.
