(* Executable model of limits._Limit selection for one column (DESIGN 4, C08/C02): np.percentile
   (linear interpolation, numpy's two-sided _lerp), the outlier penalty of _add_error_to_outliers,
   the arg-min with the middle-tie rule of _get_arg_min, and the gather.  Polymorphic in the arithmetic;
   `fl` is floor of a small non-negative number (used on the virtual percentile index). *)
From Coq Require Import ZArith List Bool.
Require Import NDT.Arith.Ops.
Import ListNotations.

Section Select.
Context {A : Type} (Op : Ops A).
Variables (c_1em8 c_1p5 c_half : A).      (* the literals 1e-8, 1.5 and 0.5 *)

Fixpoint insert (a : A) (l : list A) : list A :=
  match l with [] => [a] | b :: t => if ltb Op a b then a :: l else b :: insert a t end.
Definition sortA (l : list A) : list A := fold_right insert [] l.
Definition ofnat (k : nat) : A := ofZ Op (Z.of_nat k).
Definition lerp (a b t : A) : A :=
  let d := sub Op b a in if leb Op c_half t then sub Op b (mul Op d (sub Op (one Op) t)) else add Op a (mul Op d t).
Fixpoint floor_search (v : A) (k fuel : nat) : nat :=
  match fuel with O => k | S f => if leb Op (ofnat (S k)) v then floor_search v (S k) f else k end.
(* np.percentile(l, q), method 'linear' *)
Definition pct (l : list A) (q : A) : A :=
  let s := sortA l in let n := length s in
  let vi := mul Op (div Op q (ofZ Op 100)) (ofnat (n - 1)) in
  let lo := floor_search vi 0 n in let hi := Nat.min (S lo) (n - 1) in
  lerp (nthA Op s lo) (nthA Op s hi) (sub Op vi (ofnat lo)).
(* errors += outliers * |der - median| *)
Definition penal (trim : A) (der errs : list A) : list A :=
  let p25 := pct der (ofZ Op 25) in let med := pct der (ofZ Op 50) in let p75 := pct der (ofZ Op 75) in
  let iqr := abs Op (sub Op p75 p25) in let am := abs Op med in
  map (fun ve => let '(v, e) := ve in
    (* the source combines boolean arrays with + and *: logical or / and, so the factor is 0 or 1 *)
    let o := b2a Op (((ltb Op (abs Op v) (div Op am trim) || ltb Op (mul Op am trim) (abs Op v)) && ltb Op c_1em8 am)
                     || (ltb Op v (sub Op p25 (mul Op c_1p5 iqr)) || ltb Op (add Op p75 (mul Op c_1p5 iqr)) v)) in
    add Op e (mul Op o (abs Op (sub Op v med)))) (combine der errs).
(* nanargmin with ties broken by the middle index of the minimisers (NaN-free column) *)
Definition argmin_mid (errs : list A) : nat :=
  match errs with
  | [] => 0%nat
  | e0 :: rest =>
    let mn := fold_left (fun a b => if ltb Op b a then b else a) rest e0 in
    let idx := filter (fun i => eqb Op (nthA Op errs i) mn) (seq 0 (length errs)) in
    nth (Nat.div (length idx) 2) idx 0%nat
  end.
End Select.
