(* Executable model of fornberg.fd_weights / fd_derivative (DESIGN 4, C16), polymorphic in the arithmetic.
   fd_derivative is modelled for grids long enough for the stencil (2*mm+2 <= len), where the three
   loops of the source write disjoint index ranges; guards as in the source. *)
From mathcomp Require Import ssreflect ssrfun ssrbool eqtype ssrnat seq div.
Require Import NDT.Model.Fornberg.
Set Implicit Arguments. Unset Strict Implicit. Unset Printing Implicit Defensive.

Section Model.
Variables (A : Type) (O : FdOps A).
Definition dot (u v : seq A) : A := foldl (fun acc p => add O acc (mul O p.1 p.2)) (zero O) (zip u v).
(* fd_weights = last requested row of fd_weights_all *)
Definition fd_weights (x : seq A) (x0 : A) (n : nat) : option (seq A) :=
  if fd_weights_all O x x0 n is Some w then Some (nth [::] w n) else None.
Definition stencil (xw fw : seq A) (x0 : A) (n : nat) : A :=
  if fd_weights xw x0 n is Some w then dot w fw else zero O.
(* fd_derivative for grids long enough for the stencil (2*mm+2 <= len): the three loops write disjoint index ranges *)
Definition fd_derivative (fx x : seq A) (n m : nat) : option (seq A) :=
  let len := size x in
  if ~~ (n < len)%N || (len != size fx) then None else
  let mm := (n %/ 2 + m)%N in let sz := (2 * mm + 2)%N in
  Some (mkseq (fun i =>
    if (i < mm)%N then stencil (take sz x) (take sz fx) (nth (zero O) x i) n
    else if (i < len - mm)%N then stencil (take (2 * mm + 1) (drop (i - mm) x)) (take (2 * mm + 1) (drop (i - mm) fx)) (nth (zero O) x i) n
    else stencil (drop (len - sz) x) (drop (len - sz) fx) (nth (zero O) x i) n) len).
End Model.

