(* Executable model of extrapolation.EpsAlg (DESIGN 4, C14), polymorphic in the arithmetic.
   The table is the Python list `epstab`; one call appends s_n and sweeps the anti-diagonal in place. *)
From Coq Require Import List Bool.
Require Import NDT.Arith.Ops.
Import ListNotations.

Section EpsAlg.
Context {A : Type} (O : Ops A).
Variables (small big : A).     (* the literals 1.0e-60 and 1.0e+60 *)

(* for i = n, n-1, .., 1:  aux1 <- aux2; aux2 <- epstab[i-1]; delta <- epstab[i] - aux2;
   epstab[i-1] <- (|delta| <= small ? big : aux1 + 1/delta).
   [revold] is epstab[0..n-1] reversed, [cur] is the (new) value of epstab[i], [aux1] the old epstab[i]. *)
Fixpoint sweep (revold : list A) (cur aux1 : A) : list A :=
  match revold with
  | [] => []
  | o :: rest =>
      let delta := sub O cur o in
      let nw := if leb O (abs O delta) small then big else add O aux1 (div O (one O) delta) in
      nw :: sweep rest nw o
  end.
Definition push (tab : list A) (s : A) : list A := rev (sweep (rev tab) s (zero O)) ++ [s].
Definition estlim (tab : list A) : A := nth (Nat.modulo (length tab - 1) 2) tab (zero O).
(* state after feeding a list of terms; the value returned by the last call *)
Definition run (ss : list A) : list A := fold_left push ss [].
Definition call (tab : list A) (s : A) : list A * A := let t := push tab s in (t, estlim t).
End EpsAlg.
