(* Where the user function is evaluated (DESIGN 4, C05): executable model of the evaluation points of
   every difference function of finite_difference.py, in evaluation order, polymorphic in the arithmetic.
   A point has one 4-tuple (real, imag1, imag2, imag12) per coordinate: complex arguments use the first
   two components, Bicomplex arguments all four. *)
From Coq Require Import ZArith List Bool String.
Require Import NDT.Arith.Ops.
Import ListNotations.
Open Scope string_scope.
Open Scope list_scope.

Section Points.
Context {A : Type} (Op : Ops A).
Variables (sr si sq2 : A).     (* _SQRT_J = sr + i si (as computed by numpy) and np.sqrt(2) *)
Definition q4 := (A * A * A * A)%type.
Definition point := list q4.
Definition z : A := zero Op.
Definition base (x : list A) : point := map (fun v => (v, z, z, z)) x.
Definition two (a : A) : A := mul Op (ofZ Op 2) a.

(* elementwise binary operation of x with a displacement vector *)
Fixpoint map2 {B C D} (f : B -> C -> D) (a : list B) (b : list C) : list D :=
  match a, b with u :: a', v :: b' => f u v :: map2 f a' b' | _, _ => [] end.
(* e_k * h_k : zero except at coordinate k *)
Definition inc (h : list A) (k : nat) : list A := map (fun p => if Nat.eqb (fst p) k then snd p else z) (combine (seq 0 (List.length h)) h).

(* real displacements:  x + d,  x - d,  (x + d) + e, ... *)
Definition padd (x d : list A) : list A := map2 (add Op) x d.
Definition psub (x d : list A) : list A := map2 (sub Op) x d.
Definition real_pt (x : list A) : point := base x.
(* complex displacement (dre, dim) added to / subtracted from a real x *)
Definition cplus (x dre dim : list A) : point := map2 (fun xc d => (add Op xc (fst d), add Op z (snd d), z, z)) x (combine dre dim).
Definition cminus (x dre dim : list A) : point := map2 (fun xc d => (sub Op xc (fst d), sub Op z (snd d), z, z)) x (combine dre dim).
(* 1j * h : (0*h - 1*0, 0*0 + 1*h) *)
Definition i_times (h : list A) : list A * list A :=
  (map (fun v => sub Op (mul Op z v) (mul Op (one Op) z)) h, map (fun v => add Op (mul Op z z) (mul Op (one Op) v)) h).
(* h * _SQRT_J  (real times complex) *)
Definition w_times (h : list A) : list A * list A := (map (fun v => mul Op v sr) h, map (fun v => mul Op v si) h).
(* Bicomplex(x + 1j*a, b) *)
Definition bic (x a b : list A) : point :=
  let ia := i_times a in
  map2 (fun p q => (add Op (fst p) (fst (fst q)), add Op z (snd (fst q)), snd q, z)) (combine x x) (combine (combine (fst ia) (snd ia)) b).

(* ---- Derivative (DifferenceFunctions): x and h are arrays of one shape, every element shifted at once ---- *)
Definition pts_derivative (name : string) (x h : list A) : list point :=
  let ih := i_times h in let wh := w_times h in
  if String.eqb name "_central" || String.eqb name "_central_even" then [real_pt (padd x h); real_pt (psub x h)]
  else if String.eqb name "_forward" then [real_pt (padd x h)]
  else if String.eqb name "_backward" then [real_pt (psub x h)]
  else if String.eqb name "_complex" then [cplus x (fst ih) (snd ih)]
  else if String.eqb name "_complex_odd" || String.eqb name "_complex_odd_higher" || String.eqb name "_complex_even" || String.eqb name "_complex_even_higher"
       then [cplus x (fst wh) (snd wh); cminus x (fst wh) (snd wh)]
  else if String.eqb name "_multicomplex" then [bic x h (map (fun _ => z) h)]
  else if String.eqb name "_multicomplex2" then [bic x h h]
  else [].

(* ---- Jacobian (JacobianDifferenceFunctions): one coordinate at a time ---- *)
Definition pts_jacobian (name : string) (x h : list A) : list point :=
  List.concat (map (fun k =>
    let hi := inc h k in let ih := i_times hi in
    let jh := (map (fun v => mul Op sr v) hi, map (fun v => mul Op si v) hi) in   (* j_1 * ih : complex times real *)
    if String.eqb name "_central" || String.eqb name "_central_even" then [real_pt (padd x hi); real_pt (psub x hi)]
    else if String.eqb name "_forward" then [real_pt (padd x hi)]
    else if String.eqb name "_backward" then [real_pt (psub x hi)]
    else if String.eqb name "_complex" then [cplus x (fst ih) (snd ih)]
    else if String.eqb name "_complex_even" || String.eqb name "_complex_odd" then [cplus x (fst jh) (snd jh); cminus x (fst jh) (snd jh)]
    else if String.eqb name "_multicomplex" then [bic x hi (map (fun _ => z) hi)]
    else []) (seq 0 (List.length x))).

(* ---- Hessdiag ---- *)
Definition pts_hessdiag (name : string) (x h : list A) : list point :=
  List.concat (map (fun k =>
    let hi := inc h k in
    (* increments = identity * h * (1j + 1) / sqrt(2) *)
    (* numpy divides a complex number by a real one with Smith's formula, i.e. multiplies both components by 1/sqrt(2) *)
    let scl := div Op (one Op) sq2 in
    let ci := (map (fun v => mul Op (sub Op (mul Op v (one Op)) (mul Op z (one Op))) scl) hi, map (fun v => mul Op (add Op (mul Op v (one Op)) (mul Op z (one Op))) scl) hi) in
    if String.eqb name "_central2" then [real_pt (padd x (map two hi)); real_pt (psub x (map two hi)); real_pt (padd x hi); real_pt (psub x hi)]
    else if String.eqb name "_central_even" then [real_pt (padd x hi); real_pt (psub x hi)]
    else if String.eqb name "_forward" then [real_pt (padd x hi)]
    else if String.eqb name "_backward" then [real_pt (psub x hi)]
    else if String.eqb name "_multicomplex2" then [bic x hi hi]
    else if String.eqb name "_complex_even" then [cplus x (fst ci) (snd ci); cminus x (fst ci) (snd ci)]
    else []) (seq 0 (List.length x))).

(* ---- Hessian ---- *)
Definition pairs_ge (n : nat) : list (nat * nat) := List.concat (map (fun i => map (fun j => (i, j)) (seq i (n - i))) (seq 0 n)).
Definition pts_hessian (name : string) (x h : list A) : list point :=
  let n := List.length x in
  let e := fun k => inc h k in
  if String.eqb name "_complex_even" then
    List.concat (map (fun ij => let '(i, j) := ij in
      let ie := i_times (e i) in
      (* (x + 1j*e_i) + e_j  and  (x + 1j*e_i) - e_j *)
      [map2 (fun p d => (add Op (add Op (fst p) (fst (fst d))) (snd d), add Op (add Op z (snd (fst d))) z, z, z)) (combine x x) (combine (combine (fst ie) (snd ie)) (e j));
       map2 (fun p d => (sub Op (add Op (fst p) (fst (fst d))) (snd d), sub Op (add Op z (snd (fst d))) z, z, z)) (combine x x) (combine (combine (fst ie) (snd ie)) (e j))]) (pairs_ge n))
  else if String.eqb name "_multicomplex2" then
    map (fun ij => bic x (e (fst ij)) (e (snd ij))) (pairs_ge n)
  else if String.eqb name "_central_even" then
    List.concat (map (fun i =>
      [real_pt (padd x (map two (e i))); real_pt (psub x (map two (e i)))] ++
      List.concat (map (fun j => [real_pt (padd (padd x (e i)) (e j)); real_pt (psub (padd x (e i)) (e j));
                             real_pt (padd (psub x (e i)) (e j)); real_pt (psub (psub x (e i)) (e j))]) (seq (S i) (n - S i)))) (seq 0 n))
  else if String.eqb name "_central2" then
    List.concat (map (fun i => [real_pt (padd x (e i)); real_pt (psub x (e i))]) (seq 0 n)) ++
    List.concat (map (fun ij => [real_pt (padd (padd x (e (fst ij))) (e (snd ij))); real_pt (psub (psub x (e (fst ij))) (e (snd ij)))]) (pairs_ge n))
  else if String.eqb name "_forward" then
    map (fun i => real_pt (padd x (e i))) (seq 0 n) ++ map (fun ij => real_pt (padd (padd x (e (fst ij))) (e (snd ij)))) (pairs_ge n)
  else [].
(* Hessian._backward = _forward with -h *)
Definition pts_hessian_backward (x h : list A) : list point := pts_hessian "_forward" x (map (opp Op) h).

(* all evaluations of one call: f(x) first when required, then the stencil at each step *)
Definition calls (first : bool) (stencil : list A -> list A -> list point) (x : list A) (steps : list (list A)) : list point :=
  (if first then [real_pt x] else []) ++ List.concat (map (stencil x) steps).
End Points.
