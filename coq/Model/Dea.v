(* Executable model of the stateful extrapolation.Dea (DESIGN 4, C14), polymorphic in the arithmetic.
   The table is a list with *checked* reads and writes: ok = false records that the Python code
   would have raised IndexError (or ValueError in a slice assignment). *)
From Coq Require Import ZArith List Bool.
Require Import NDT.Arith.Ops.
Import ListNotations.

Section Dea.
Context {A : Type} (O : Ops A).
Variable thr : A.            (* the literal 1e-4 *)

Record st := mk { tab : list A; n_ : nat; nres : nat; ok : bool }.
Definition rd (l : list A) (i : nat) : A := nth i l (zero O).
Definition inb (l : list A) (i : nat) : bool := Nat.ltb i (length l).
Fixpoint upd (l : list A) (i : nat) (v : A) : list A :=
  match l with [] => [] | a :: t => match i with 0%nat => v :: t | S j => a :: upd t j v end end.
(* limexp setter: n = 2*(limexp//2)+1, table of n+5 zeros *)
Definition init (limexp : nat) : st := let n := (2 * Nat.div limexp 2 + 1)%nat in mk (repeat (zero O) (n + 5)) 0 0 true.
Definition limexp_of (s : st) : nat := (length (tab s) - 5)%nat.

(* python slice start:stop:2 (indices), clipped to the array *)
Fixpoint idx2 (start stop fuel len : nat) : list nat :=
  match fuel with 0%nat => [] | S f => if Nat.ltb start stop && Nat.ltb start len then start :: idx2 (start + 2) stop f len else [] end.
Definition shift_table (t : list A) (n newelm old_n : nat) : option (list A) :=
  let len := length t in
  let i0 := Nat.modulo old_n 2 in let iN := (2 * newelm + 2)%nat in
  let dst := idx2 i0 iN len len in let src := idx2 (i0 + 2) (iN + 2) len len in
  if negb (Nat.eqb (length dst) (length src)) then None else
  let vals := map (rd t) src in
  let t1 := fold_left (fun acc p => upd acc (fst p) (snd p)) (combine dst vals) t in
  if Nat.eqb old_n n then Some t1 else
  let d := (old_n - n)%nat in
  let srcr := filter (fun i => Nat.ltb i len) (seq d (n + 1)) in
  let dstr := filter (fun i => Nat.ltb i len) (seq 0 (n + 1)) in
  if negb (Nat.eqb (length dstr) (length srcr)) then None else
  Some (fold_left (fun acc p => upd acc (fst p) (snd p)) (combine dstr (map (rd t1) srcr)) t1).

(* the inner loop; returns (table, result, abserr, n, all_converged, ok) *)
Fixpoint loop (fuel i : nat) (t : list A) (k1 : nat) (result abserr : A) (n : nat)
  : list A * A * A * nat * bool * bool :=
  match fuel with
  | 0%nat => (t, result, abserr, n, false, true)
  | S f =>
    if negb (inb t (k1 + 2) && Nat.leb 2 k1) then (t, result, abserr, n, false, false) else
    let res := rd t (k1 + 2) in let e0 := rd t (k1 - 2) in let e1 := rd t (k1 - 1) in let e2 := res in
    let delta2 := sub O e2 e1 in let delta3 := sub O e1 e0 in
    let err2 := abs O delta2 in let err3 := abs O delta3 in let e1abs := abs O e1 in
    let tol2 := mul O (pymax O (abs O e2) e1abs) (c_eps O) in let tol3 := mul O (pymax O e1abs (abs O e0)) (c_eps O) in
    let allc := negb (ltb O tol2 err2 || ltb O tol3 err3) in
    if allc then (t, res, add O err2 err3, n, true, true) else
    let e3 := rd t k1 in let t := upd t k1 e1 in
    let delta1 := sub O e1 e3 in let err1 := abs O delta1 in let tol1 := mul O (pymax O e1abs (abs O e3)) (c_eps O) in
    let anyc0 := leb O err1 tol1 || leb O err2 tol2 || leb O err3 tol3 in
    let sss := sub O (add O (div O (one O) delta1) (div O (one O) delta2)) (div O (one O) delta3) in
    let anyc := if anyc0 then true else leb O (abs O (mul O sss e1)) thr in
    if anyc then (t, result, abserr, (2 * i)%nat, false, true) else
    let res := add O e1 (div O (one O) sss) in let t := upd t k1 res in
    let error := add O (add O err2 (abs O (sub O res e2))) err3 in
    let '(abserr, result) := if negb (ltb O abserr error) then (error, res) else (abserr, result) in
    loop f (S i) t (k1 - 2) result abserr n
  end.

Definition floor5 (abserr result : A) : A := pymax O abserr (mul O (mul O (ofZ O 5) (c_eps O)) (abs O result)).

Definition dea (s : st) : st * A * A :=
  let t := tab s in let n := n_ s in let limexp := limexp_of s in let len := length t in
  if negb (inb t (n + 2)) then (mk t n (nres s) false, zero O, zero O) else
  let result := rd t n in
  let t := upd t (n + 2) (rd t n) in
  let newelm := Nat.div n 2 in
  let t := upd t n (c_huge O) in
  let '(t, result, abserr, n', allc, okl) := loop newelm 0 t n result (c_huge O) n in
  if negb okl then (mk t n (nres s) false, zero O, zero O) else
  let nr := nres s in
  let n2 := if Nat.eqb n' (limexp - 1) then (limexp - 2)%nat else n' in
  let '(t, abserr, n'', oks) :=
    if allc then (t, abserr, n2, true) else
    match shift_table t n2 newelm n with
    | None => (t, abserr, n2, false)
    | Some t =>
      let r3 := fun j => rd t (len - 3 + j) in
      let abserr := if Nat.ltb 1 nr then fold_left (fun a j => add O a (abs O (sub O result (r3 j)))) (seq 0 (Nat.min nr 3)) (zero O) else abserr in
      let t := if Nat.ltb 2 nr then upd (upd (upd t (len - 3) (r3 1%nat)) (len - 2) (r3 2%nat)) (len - 1) result
               else upd t (len - 3 + nr) result in
      (t, abserr, n2, true)
    end in
  let abserr := floor5 abserr result in
  (mk t n'' (S nr) oks, result, abserr).

Definition call (s : st) (v : A) : st * A * A :=
  if negb (ok s) then (s, zero O, zero O) else
  let n := n_ s in
  if negb (inb (tab s) n) then (mk (tab s) n (nres s) false, zero O, zero O) else
  let t := upd (tab s) n v in
  match n with
  | 0%nat => (mk t 1 (nres s) true, v, floor5 (abs O v) v)
  | 1%nat => (mk t 2 (nres s) true, v, floor5 (mul O (ofZ O 6) (abs O (sub O v (rd t 0)))) v)
  | _ => let '(s', r, a) := dea (mk t n (nres s) true) in (mk (tab s') (S (n_ s')) (nres s') (ok s'), r, floor5 a r)
  end.

(* feed a whole sequence; outputs in order *)
Fixpoint feed (s : st) (vs : list A) : st * list (A * A) :=
  match vs with
  | [] => (s, [])
  | v :: rest => let '(s1, r, a) := call s v in let '(s2, out) := feed s1 rest in (s2, (r, a) :: out)
  end.
End Dea.
