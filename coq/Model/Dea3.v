(* Executable model of extrapolation.dea3 (DESIGN 4, C13), polymorphic in the arithmetic. *)
From Coq Require Import ZArith List Bool.
Require Import NDT.Arith.Ops.
Import ListNotations.

Section Dea3.
Context {A : Type} (O : Ops A).
Variable thr : A.   (* the literal 1.0e-4 of the irregular-behaviour guard *)

Definition dea3_conv (e0 e1 e2 : A) : bool :=
  let d2 := sub O e2 e1 in let d1 := sub O e1 e0 in
  let err2 := abs O d2 in let err1 := abs O d1 in
  let tol2 := mul O (maxabs O e2 e1) (c_eps O) in let tol1 := mul O (maxabs O e1 e0) (c_eps O) in
  let d1' := if ltb O err1 (c_tiny O) then c_tiny O else d1 in
  let d2' := if ltb O err2 (c_tiny O) then c_tiny O else d2 in
  let sss := add O (sub O (div O (one O) d2') (div O (one O) d1')) (c_tiny O) in
  let small := leb O (abs O (mul O sss e1)) thr in
  leb O err1 tol1 || leb O err2 tol2 || small.

Definition dea3k (e0 e1 e2 : A) : A * A :=
  let d2 := sub O e2 e1 in let d1 := sub O e1 e0 in
  let err2 := abs O d2 in let err1 := abs O d1 in
  let tol2 := mul O (maxabs O e2 e1) (c_eps O) in
  let d1' := if ltb O err1 (c_tiny O) then c_tiny O else d1 in
  let d2' := if ltb O err2 (c_tiny O) then c_tiny O else d2 in
  let sss := add O (sub O (div O (one O) d2') (div O (one O) d1')) (c_tiny O) in
  let conv := dea3_conv e0 e1 e2 in
  let res := if conv then mul O e2 (one O) else add O e1 (div O (one O) sss) in
  (res, add O (add O err1 err2) (if conv then mul O tol2 (ofZ O 10) else abs O (sub O res e2))).

(* elementwise on arrays (np.atleast_1d of equal shapes, ravelled) *)
Fixpoint map3 {B} (f : A -> A -> A -> B) (u v w : list A) : list B :=
  match u, v, w with a :: u', b :: v', c :: w' => f a b c :: map3 f u' v' w' | _, _, _ => [] end.

Definition dea3 (symmetric : bool) (u v w : list A) : list A * list A :=
  let r := map3 dea3k u v w in
  let res := map fst r in let err := map snd r in
  if symmetric && Nat.ltb 1 (length res) then (removelast res, tl err) else (res, err).
End Dea3.
