(* Executable model of the real-step Hessian and Hessdiag difference quotients of finite_difference.py
   (HessianDifferenceFunctions._forward/_backward/_central_even/_central2, HessdiagDifferenceFunctions._forward/
   _backward/_central_even/_central2): the combination of the function values, in the source's order of
   operations, and the division by np.outer(h, h)[j, i] = h[j] * h[i].  The function values are an oracle table
   (recorded in evaluation order); which points they belong to is the subject of Model/Points.v (C05). *)
From Coq Require Import ZArith List Bool.
Require Import NDT.Arith.Ops.
Import ListNotations.

Section HS.
Context {A : Type} (Op : Ops A).
Definition two : A := add Op (one Op) (one Op).
Definition four : A := add Op two two.
Notation "x + y" := (add Op x y). Notation "x - y" := (sub Op x y).
Notation "x * y" := (mul Op x y). Notation "x / y" := (div Op x y).

(* Hessian entries (i <= j); hi = h[i], hj = h[j] *)
Definition hess_forward_entry (fpp gi gj fx hi hj : A) : A := (fpp - gi - gj + fx) / (hj * hi).
Definition hess_central2_entry (fpp fmm pei pej mei mej fx hi hj : A) : A :=
  (fpp + fmm - pei - pej + fx - mei - mej + fx) / (two * (hj * hi)).
Definition hess_central_diag_entry (fp2 fm2 fx hi : A) : A := (fp2 - two * fx + fm2) / (four * (hi * hi)).
Definition hess_central_off_entry (fpp fpm fmp fmm hi hj : A) : A := (fpp - fpm - fmp + fmm) / (four * (hj * hi)).
(* Hessdiag partials *)
Definition hd_central2 (fp2 fm2 fp1 fm1 fx : A) : A := (fp2 + fm2 + two * fx - two * fp1 - two * fm1) / four.
Definition hd_central_even (fp fm fx : A) : A := (fp + fm) / two - fx.
Definition hd_forward (fp fx : A) : A := fp - fx.
Definition hd_backward (fm fx : A) : A := fx - fm.

(* the index pairs (i, j), i <= j < n, in the order of the source's double loop *)
Definition upper (n : nat) : list (nat * nat) := flat_map (fun i => map (fun j => (i, j)) (seq i (n - i))) (seq 0 n).
Definition strict_upper (n : nat) : list (nat * nat) := flat_map (fun i => map (fun j => (i, j)) (seq (S i) (n - S i))) (seq 0 n).
Definition nz (l : list A) (i : nat) : A := nth i l (zero Op).

(* upper triangle of the matrices, row by row.  g / pe / me: f(x +- e_i); pp, mm, ...: one value per pair in loop order *)
Definition hess_forward (h g pp : list A) (fx : A) : list A :=
  map (fun kp => let '(k, (i, j)) := kp in hess_forward_entry (nz pp k) (nz g i) (nz g j) fx (nz h i) (nz h j))
      (combine (seq 0 (length pp)) (upper (length h))).
Definition hess_backward (h g pp : list A) (fx : A) : list A := hess_forward (map (opp Op) h) g pp fx.
Definition hess_central2 (h pe me pp mm : list A) (fx : A) : list A :=
  map (fun kp => let '(k, (i, j)) := kp in
         hess_central2_entry (nz pp k) (nz mm k) (nz pe i) (nz pe j) (nz me i) (nz me j) fx (nz h i) (nz h j))
      (combine (seq 0 (length pp)) (upper (length h))).
Definition hess_central_diag (h fp2 fm2 : list A) (fx : A) : list A :=
  map (fun i => hess_central_diag_entry (nz fp2 i) (nz fm2 i) fx (nz h i)) (seq 0 (length h)).
Definition hess_central_off (h pp pm mp mm : list A) : list A :=
  map (fun kp => let '(k, (i, j)) := kp in hess_central_off_entry (nz pp k) (nz pm k) (nz mp k) (nz mm k) (nz h i) (nz h j))
      (combine (seq 0 (length pp)) (strict_upper (length h))).
End HS.
