(* Executable model of the post-evaluation pipeline of Derivative.__call__ for one column:
   rule application (LogRule._apply), Richardson, dea3 (when more than two rows), outlier penalty,
   arg-min, gather -- composed from the stage models (DESIGN 4, C01/C02/C08).  The finite-difference
   rule and the Richardson rule are oracles (pinv rows), h**n is an oracle (numpy power). *)
From Coq Require Import ZArith List Bool.
Require Import NDT.Arith.Ops NDT.Model.Convolve NDT.Model.Richardson NDT.Model.Dea3 NDT.Model.Select NDT.Model.SelectC.
Import ListNotations.

Section Pipeline.
Context {A : Type} (Op : Ops A).
Variables (tfact thr c_1em8 c_1p5 c_half : A).

Fixpoint triples (l : list A) : list (A * A) :=
  match l with a :: ((b :: c :: _) as t) => dea3k Op thr a b c :: triples t | _ => [] end.

(* LogRule._apply: convolve with the reversed rule, divide by h**n, keep max(len - n_r, 1) rows *)
Definition apply_rule (fdel hn steps rule : list A) : list A * list A :=
  let nr := (length rule - 1)%nat in
  let fdiff := conv Op fdel (rev rule) (Z.of_nat (Nat.div nr 2)) in
  let der := map (fun p => div Op (fst p) (snd p)) (combine fdiff hn) in
  let ns := Nat.max (length steps - nr) 1 in
  (firstn ns der, firstn ns steps).

(* _Limit._extrapolate for one column *)
Definition extrapolate (der hs rr : list A) : A * A * A * nat :=
  let '(d1, e1, s1) := rich Op tfact der hs rr in
  let '(d1, e1, s1) := if Nat.ltb 2 (length d1) then (map fst (triples d1), map snd (triples d1), skipn 2 s1) else (d1, e1, s1) in
  let errs := penal Op c_1em8 c_1p5 c_half (ofZ Op 10) d1 e1 in
  let ix := argmin_mid Op errs in
  (nthA Op d1 ix, nthA Op errs ix, nthA Op s1 ix, ix).

(* the same for complex estimates: the percentiles are those of limits._complex_percentile (Model/SelectC.v).
   Returns the table (estimates, penalised errors, steps) and the selection *)
Definition extrapolate_c_table (der hs rr : list A) : list A * list A * list A :=
  let '(d1, e1, s1) := rich Op tfact der hs rr in
  let '(d1, e1, s1) := if Nat.ltb 2 (length d1) then (map fst (triples d1), map snd (triples d1), skipn 2 s1) else (d1, e1, s1) in
  (d1, penal1 Op c_1em8 c_1p5 (ofZ Op 10) d1 e1, s1).
Definition extrapolate_c (der hs rr : list A) : A * A * A * nat :=
  let '(d1, errs, s1) := extrapolate_c_table der hs rr in
  let ix := argmin_mid Op errs in
  (nthA Op d1 ix, nthA Op errs ix, nthA Op s1 ix, ix).

Definition pipeline (fdel hn steps rule rr : list A) : A * A * A * nat :=
  let '(der, hs) := apply_rule fdel hn steps rule in extrapolate der hs rr.
End Pipeline.
