(* Layout of LogJacobianRule._vstack (DESIGN 4, C03).  One stencil result r has shape (n, m) for a
   vector-valued f : R^n -> R^m (row j = partial quotient w.r.t. x_j), or (n, m, k) for a matrix-valued f.
   _vstack swaps the first two axes and ravels: one row of f_del per step, one column per result entry;
   the extrapolated row is reshaped to (m, n) resp. (m, n, k). *)
From Coq Require Import List Arith.
Import ListNotations.

Section Layout.
Context {T : Type} (d : T).
(* r.transpose(1, 0) of a list of rows, all of length m *)
Definition transpose (m : nat) (r : list (list T)) : list (list T) :=
  map (fun i => map (fun row => nth i row d) r) (seq 0 m).
(* r.transpose(1, 0).ravel() *)
Definition vstack_row2 (m : nat) (r : list (list T)) : list T := concat (transpose m r).
(* 3-d: r.transpose(1, 0, 2).ravel(); r is a list (n) of lists (m) of lists (k) *)
Definition transpose3 (m : nat) (r : list (list (list T))) : list (list (list T)) :=
  map (fun i => map (fun plane => nth i plane []) r) (seq 0 m).
Definition vstack_row3 (m : nat) (r : list (list (list T))) : list T := concat (map (@concat T) (transpose3 m r)).
(* reshape of a flat row to (m, n): entry [i][j];  to (m, n, k): entry [i][j][l] *)
Definition at2 (n : nat) (flat : list T) (i j : nat) : T := nth (i * n + j) flat d.
Definition at3 (n k : nat) (flat : list T) (i j l : nat) : T := nth ((i * n + j) * k + l) flat d.
End Layout.

(* Jacobian._expand_steps: steps2[j][i] = h[j] for every output i (shape (n, m)) *)
Definition expand_steps {T} (m : nat) (h : list T) : list (list T) := map (fun hj => repeat hj m) h.
