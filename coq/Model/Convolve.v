(* scipy.ndimage.correlate1d / convolve1d (mode='reflect') as used by extrapolation.convolve,
   including scipy's origin convention and its symmetric / antisymmetric fast paths (which change
   the order of accumulation).  Polymorphic in the arithmetic (DESIGN 4, C07). *)
From Coq Require Import ZArith List Bool.
Require Import NDT.Arith.Ops.
Import ListNotations.

Definition reflectZ (i n : Z) : Z :=
  if (n =? 1)%Z then 0%Z else
  let p := (2 * n)%Z in let j := (i mod p)%Z in if (j <? n)%Z then j else (p - 1 - j)%Z.

Section Convolve.
Context {A : Type} (Op : Ops A).
Definition getr (x : list A) (i : Z) : A := nthA Op x (Z.to_nat (reflectZ i (Z.of_nat (length x)))).
(* 1 symmetric, -1 antisymmetric, 0 neither (odd filter sizes only; tolerance DBL_EPSILON) *)
Definition symcode (w : list A) : Z :=
  let fs := length w in let half := Nat.div fs 2 in
  if Nat.even fs then 0%Z else
  let idx := seq 1 half in
  if forallb (fun ii => negb (ltb Op (c_eps Op) (abs Op (sub Op (nthA Op w (ii + half)) (nthA Op w (half - ii)))))) idx then 1%Z
  else if forallb (fun ii => negb (ltb Op (c_eps Op) (abs Op (add Op (nthA Op w (half + ii)) (nthA Op w (half - ii)))))) idx then (-1)%Z else 0%Z.
Definition corr_at (x w : list A) (size1 : Z) (sc : Z) (i : nat) : A :=
  let fs := length w in let half := Nat.div fs 2 in
  let g := fun k : nat => getr x (Z.of_nat i + Z.of_nat k - size1)%Z in
  if (sc =? 1)%Z then fold_left (fun t jj => add Op t (mul Op (add Op (g jj) (g (fs - 1 - jj)%nat)) (nthA Op w jj))) (seq 0 half) (mul Op (g half) (nthA Op w half))
  else if (sc =? -1)%Z then fold_left (fun t jj => add Op t (mul Op (sub Op (g jj) (g (fs - 1 - jj)%nat)) (nthA Op w jj))) (seq 0 half) (mul Op (g half) (nthA Op w half))
  else fold_left (fun t jj => add Op t (mul Op (g jj) (nthA Op w jj))) (seq 0 (fs - 1)) (mul Op (g (fs - 1)%nat) (nthA Op w (fs - 1)%nat)).
Definition corr (x w : list A) (origin : Z) : list A :=
  let half := Nat.div (length w) 2 in
  map (corr_at x w (Z.of_nat half + origin)%Z (symcode w)) (seq 0 (length x)).
(* convolve1d(x, w, origin=o) = correlate1d(x, w[::-1], origin = -o (-1 more for even sizes)) *)
Definition conv (x w : list A) (origin : Z) : list A :=
  let o := (- origin - (if Nat.even (length w) then 1 else 0))%Z in corr x (rev w) o.
End Convolve.
