(* The moment matrix of LogRule._fd_matrix over Q, built from the tables regenerated from /repo:
   M[i][j] = c_0 / (step*j + offset)! * (1/step_ratio)^(i*(step*j + offset))   (DESIGN 4, C06). *)
From Coq Require Import ZArith QArith List.
Require Import NDT.Gen.Spec.
Import ListNotations.

Fixpoint factZ (n : nat) : Z := match n with O => 1%Z | S k => (Z.of_nat (S k) * factZ k)%Z end.
Definition moment_entry (parity : Z) (ratio : Q) (i j : nat) : Q :=
  let k := (step_tbl parity * Z.of_nat j + offset_tbl parity)%Z in
  (inject_Z (c0_tbl parity) / inject_Z (factZ (Z.to_nat k))) * Qpower (Qinv ratio) (Z.of_nat i * k).
Definition moment (parity : Z) (nterms : nat) (ratio : Q) : list (list Q) :=
  map (fun i => map (fun j => Qred (moment_entry parity ratio i j)) (seq 0 nterms)) (seq 0 nterms).
Definition tables : list (Z * Z * Z) := map (fun p => (step_tbl p, offset_tbl p, c0_tbl p)) [0; 1; 2; 3; 4; 5; 6]%Z.
