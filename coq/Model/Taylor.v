(* Executable model of fornberg.Taylor (DESIGN 4, C17): the radius search (_check_fft, _check_convergence and
   the main loop of __call__), fornberg._extrapolate / richardson for one coefficient, and
   _get_best_taylor_coefficients (dea3 on consecutive triples, FFT rounding floor, outlier penalty, arg-min).
   The data-dependent quantities (m1, m2 of _get_m1_m2 and the outcome of _poor_convergence) are oracles,
   one triple per iteration. *)
From Coq Require Import ZArith List Bool.
Require Import NDT.Arith.Ops NDT.Model.Dea3 NDT.Model.Select NDT.Model.SelectC NDT.Model.Pipeline.
Import ListNotations.

Section Search.
Context {A : Type} (Op : Ops A).
Variable c_1em8 : A.      (* the literal 1e-8 of _check_fft *)

Record tstate := { ratio : A; dchanges : nat; prev : option bool; degen : bool; nchanges : Z }.
Definition init_state (step_ratio : A) : tstate := {| ratio := step_ratio; dchanges := 0; prev := None; degen := false; nchanges := 0 |}.

(* _check_fft(m1, m2, check_degenerate) -> (degenerate, needs_smaller) *)
Definition check_fft (m1 m2 : A) (chk : bool) : bool * bool :=
  (chk && (ltb Op m1 (mul Op m2 c_1em8) || ltb Op m2 (mul Op m1 c_1em8)),
   isnan Op m1 || isnan Op m2 || ltb Op m1 m2).

(* one call of _check_convergence(i, z0, r, m, bn): (converged, r', state') *)
Definition check_convergence (num_extrap min_iter : Z) (i : nat) (r : A) (o : A * A * bool) (s : tstate) : bool * A * tstate :=
  let '(m1, m2, poor) := o in
  let counting := Nat.ltb 1 (dchanges s) || degen s in
  let nch := if counting then (nchanges s + 1)%Z else nchanges s in
  if counting && Z.leb (1 + num_extrap) nch
  then (true, r, {| ratio := ratio s; dchanges := dchanges s; prev := prev s; degen := degen s; nchanges := nch |})
  else
    let '(dg, ns) := if degen s then (true, false)
                     else let '(d, n) := check_fft m1 m2 (Z.ltb min_iter (Z.of_nat i)) in (d, n || poor) in
    let ns := if dg then Nat.even i else ns in
    let dch := match prev s with Some p => if Bool.eqb ns p then dchanges s else S (dchanges s) | None => dchanges s end in
    let rat := if Nat.ltb 0 dch then sqrt Op (ratio s) else ratio s in
    let r' := if ns then div Op r rat else mul Op r rat in
    (false, r', {| ratio := rat; dchanges := dch; prev := Some ns; degen := dg; nchanges := nch |}).

(* the loop of Taylor.__call__: `for i in range(max_iter)` with break on convergence.
   Result: (converged, last value of i, final r, radii used, final state) *)
Fixpoint search (num_extrap min_iter : Z) (fuel i : nat) (r : A) (s : tstate) (os : list (A * A * bool)) (rs : list A)
  : bool * nat * A * list A * tstate :=
  match fuel, os with
  | S f, o :: os' =>
      let '(cv, r', s') := check_convergence num_extrap min_iter i r o s in
      if cv then (true, i, r', rs ++ [r], s')
      else match f with
           | 0%nat => (false, i, r', rs ++ [r], s')
           | _ => search num_extrap min_iter f (S i) r' s' os' (rs ++ [r])
           end
  | _, _ => (false, Nat.pred i, r, rs, s)
  end.
Definition run (num_extrap min_iter : Z) (max_iter : nat) (r0 step_ratio : A) (os : list (A * A * bool)) :=
  search num_extrap min_iter max_iter 0 r0 (init_state step_ratio) os [].
(* info: failed = not converged; iterations = i; function_count = i * m *)
Definition failed_of (res : bool * nat * A * list A * tstate) : bool := negb (fst (fst (fst (fst res)))).
Definition iterations_of (res : bool * nat * A * list A * tstate) : nat := snd (fst (fst (fst res))).
Definition function_count_of (m : nat) (res : bool * nat * A * list A * tstate) : nat := (iterations_of res * m)%nat.
Definition radii_of (res : bool * nat * A * list A * tstate) : list A := snd (fst res).
Definition degenerate_of (res : bool * nat * A * list A * tstate) : bool := degen (snd res).
End Search.

Section Extrap.
Context {A : Type} (Op : Ops A).
Variable thr c_1em8 c_1p5 : A.
(* richardson(vals, k, c) = vals[k] - (vals[k] - vals[k-1]) / c *)
Definition rich1 (vk vk1 c : A) : A := sub Op vk (div Op (sub Op vk vk1) c).
(* c-parameters are oracles (1 - (r_{k-1}/r_k)^m is computed with numpy's pow): cs0 for the first pass, cs1 for the second *)
Fixpoint pass (vals cs : list A) : list A :=
  match vals, cs with
  | v0 :: ((v1 :: _) as t), c :: cs' => rich1 v1 v0 c :: pass t cs'
  | _, _ => []
  end.
(* fornberg._extrapolate for one coefficient index: bs = the scaled FFT coefficient on the successive circles *)
Definition extrapolate2 (bs cs0 cs1 : list A) : list A := pass (pass bs cs0) cs1.
(* _get_best_taylor_coefficients, the branch len(extrap) > 2, for one coefficient:
   dea3 on consecutive triples, + FFT rounding floors, outlier penalty (complex percentiles), arg-min *)
Definition best_table (extrap floors : list A) : list A * list A :=
  let t := triples Op thr extrap in
  let d := map fst t in
  let e := map (fun ef => add Op (fst ef) (snd ef)) (combine (map snd t) floors) in
  (d, penal1 Op c_1em8 c_1p5 (ofZ Op 10) d e).
Definition best (extrap floors : list A) : A * A * nat :=
  let '(d, errs) := best_table extrap floors in
  let ix := argmin_mid Op errs in
  (nthA Op d ix, nthA Op errs ix, ix).
(* derivative(): coefficients and error estimates are both multiplied by k! (facts = the factorials, an oracle) *)
Definition scale_by (facts l : list A) : list A := map (fun p => mul Op (fst p) (snd p)) (combine l facts).
End Extrap.
