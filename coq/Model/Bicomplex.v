(* Executable model of multicomplex.Bicomplex: ring operations and the component formulas of the
   elementary functions that have one (DESIGN 4, C12).  Polymorphic in the complex arithmetic: the
   complex elementary functions (numpy's) are fields of the record, i.e. oracles. *)
Record COps (C : Type) := MkCOps {
  c0 : C; c1 : C;
  cadd : C -> C -> C; csub : C -> C -> C; cmul : C -> C -> C; cneg : C -> C;
  cexp : C -> C; cexpm1 : C -> C; csin : C -> C; ccos : C -> C; csinh : C -> C; ccosh : C -> C }.
Arguments c0 {C}. Arguments c1 {C}. Arguments cadd {C}. Arguments csub {C}. Arguments cmul {C}. Arguments cneg {C}.
Arguments cexp {C}. Arguments cexpm1 {C}. Arguments csin {C}. Arguments ccos {C}. Arguments csinh {C}. Arguments ccosh {C}.

Section Bicomplex.
Context {C : Type} (K : COps C).
Definition bc := (C * C)%type.                       (* zeta = z1 + j z2 *)
Definition bc_add (a b : bc) : bc := (cadd K (fst a) (fst b), cadd K (snd a) (snd b)).
Definition bc_sub (a b : bc) : bc := (csub K (fst a) (fst b), csub K (snd a) (snd b)).
Definition bc_neg (a : bc) : bc := (cneg K (fst a), cneg K (snd a)).
Definition bc_mul (a b : bc) : bc :=
  (csub K (cmul K (fst a) (fst b)) (cmul K (snd a) (snd b)), cadd K (cmul K (fst a) (snd b)) (cmul K (snd a) (fst b))).
Definition bc_rsub (self other : bc) : bc := bc_neg (bc_sub self other).      (* other - self, as __rsub__ computes it *)
Definition bc_conj (a : bc) : bc := (fst a, cneg K (snd a)).
Definition bc_of_complex (z : C) : bc := (z, c0 K).                            (* _coerce *)

Definition bc_sin (a : bc) : bc :=
  (cmul K (ccosh K (snd a)) (csin K (fst a)), cmul K (csinh K (snd a)) (ccos K (fst a))).
Definition bc_cos (a : bc) : bc :=
  (cmul K (ccosh K (snd a)) (ccos K (fst a)), cmul K (cneg K (csinh K (snd a))) (csin K (fst a))).
Definition bc_cosh (a : bc) : bc :=
  (cmul K (ccosh K (fst a)) (ccos K (snd a)), cmul K (csinh K (fst a)) (csin K (snd a))).
Definition bc_sinh (a : bc) : bc :=
  (cmul K (csinh K (fst a)) (ccos K (snd a)), cmul K (ccosh K (fst a)) (csin K (snd a))).
Definition bc_exp (a : bc) : bc :=
  let e := cexp K (fst a) in (cmul K e (ccos K (snd a)), cmul K e (csin K (snd a))).
(* expm1: z1' = expm1(z1) cos z2 + (cos z2 - 1),  z2' = (expm1(z1) + 1) sin z2 *)
Definition bc_expm1 (a : bc) : bc :=
  let e := cexpm1 K (fst a) in let c := ccos K (snd a) in
  (cadd K (cmul K e c) (csub K c (c1 K)), cmul K (cadd K e (c1 K)) (csin K (snd a))).
End Bicomplex.
