(* Array inputs (DESIGN 4, C08): the model of Derivative.__call__ on an array x treats the
   (steps x elements) matrices column by column -- one column per element of x, in ravel order --
   and reshapes the gathered values to the shape of x. *)
From Coq Require Import ZArith List Bool.
Require Import NDT.Arith.Ops NDT.Model.Pipeline.
Import ListNotations.

Section ArrayCall.
Context {A : Type} (Op : Ops A).
Variables (tfact thr c_1em8 c_1p5 c_half : A).
(* column c of a row-major matrix given as a list of rows *)
Definition col (m : list (list A)) (c : nat) : list A := map (fun row => nthA Op row c) m.
Definition array_call (fdel hn steps : list (list A)) (rule rr : list A) (ncols : nat) : list (A * A * A * nat) :=
  map (fun c => pipeline Op tfact thr c_1em8 c_1p5 c_half (col fdel c) (col hn c) (col steps c) rule rr) (seq 0 ncols).
End ArrayCall.

(* _Limit._extrapolate on matrices whose rows are steps and whose columns are the (ravelled) result entries:
   Richardson, dea3, selection, column by column (used as is by Hessian, whose rule application is the identity) *)
Section ArrayExtrapolate.
Context {A : Type} (Op : Ops A).
Variables (tfact thr c_1em8 c_1p5 c_half : A).
Definition array_extrapolate (der hs : list (list A)) (rr : list A) (ncols : nat) : list (A * A * A * nat) :=
  map (fun c => extrapolate Op tfact thr c_1em8 c_1p5 c_half (col Op der c) (col Op hs c) rr) (seq 0 ncols).
End ArrayExtrapolate.
