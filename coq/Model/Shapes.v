(* numpy shape plumbing used by the wrappers (DESIGN 4, C03/C19): shapes are lists of naturals. *)
From Coq Require Import List Arith Bool.
Import ListNotations.
Definition shape := list nat.
Definition size (s : shape) : nat := fold_right Nat.mul 1 s.
Definition atleast_1d (s : shape) : shape := match s with [] => [1] | _ => s end.
Definition atleast_2d (s : shape) : shape := match s with [] => [1; 1] | [n] => [1; n] | _ => s end.
Definition ravel (s : shape) : shape := [size s].
Definition squeeze (s : shape) : shape := filter (fun d => negb (Nat.eqb d 1)) s.
