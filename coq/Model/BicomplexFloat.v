(* binary64 instance of the Bicomplex model: complex numbers are pairs of floats, products are the
   plain four-multiplication formula (what numpy computes for Python scalars and 0-d arrays), and the
   complex elementary functions are looked up in a table recorded from the run (oracles). *)
From Coq Require Import PrimFloat List Bool. Import ListNotations.
Require Import NDT.Arith.OpsFloat NDT.Model.Bicomplex.
Open Scope float_scope.
Definition cf := (float * float)%type.
Definition cf_add (a b : cf) : cf := (fst a + fst b, snd a + snd b).
Definition cf_sub (a b : cf) : cf := (fst a - fst b, snd a - snd b).
Definition cf_mul (a b : cf) : cf := (fst a * fst b - snd a * snd b, fst a * snd b + snd a * fst b).
Definition cf_neg (a : cf) : cf := (- fst a, - snd a).
Definition cf_eq (a b : cf) : bool := feq (fst a) (fst b) && feq (snd a) (snd b).
(* oracle table: (function id, argument, value); ids: 0 exp 1 expm1 2 sin 3 cos 4 sinh 5 cosh *)
Definition otable := list (nat * cf * cf).
Definition look (t : otable) (id : nat) (z : cf) : cf :=
  match find (fun r => Nat.eqb (fst (fst r)) id && cf_eq (snd (fst r)) z) t with Some r => snd r | None => (nan, nan) end.
Definition KF (t : otable) : COps cf :=
  MkCOps cf (0, 0) (1, 0) cf_add cf_sub cf_mul cf_neg (look t 0) (look t 1) (look t 2) (look t 3) (look t 4) (look t 5).
Definition bc_eq (a b : cf * cf) : bool := cf_eq (fst a) (fst b) && cf_eq (snd a) (snd b).
(* operation codes: 0 add 1 sub 2 mul 3 neg 4 conj 5 rsub(self, other) 6 sin 7 cos 8 sinh 9 cosh 10 exp 11 expm1 *)
Definition apply_op (t : otable) (op : nat) (a b : cf * cf) : cf * cf :=
  let K := KF t in
  match op with
  | 0%nat => bc_add K a b | 1%nat => bc_sub K a b | 2%nat => bc_mul K a b | 3%nat => bc_neg K a | 4%nat => bc_conj K a
  | 5%nat => bc_rsub K a b | 6%nat => bc_sin K a | 7%nat => bc_cos K a | 8%nat => bc_sinh K a | 9%nat => bc_cosh K a
  | 10%nat => bc_exp K a | _ => bc_expm1 K a end.
(* numpy multiplies complex arrays (0-d included) with fused multiply-adds, so products are compared
   within 2^-49 * (1-norm scale of the operands); additions, subtractions, negation, conjugation bit-exactly *)
Definition n1 (z : cf) : float := abs (fst z) + abs (snd z).
Definition bn1 (a : cf * cf) : float := n1 (fst a) + n1 (snd a).
Definition close_cf (tol : float) (a b : cf) : bool :=
  (feq (fst a) (fst b) || PrimFloat.leb (abs (fst a - fst b)) tol) && (feq (snd a) (snd b) || PrimFloat.leb (abs (snd a - snd b)) tol).
Definition close_bc (tol : float) (a b : cf * cf) : bool := close_cf tol (fst a) (fst b) && close_cf tol (snd a) (snd b).
Definition tscale (t : otable) : float := fold_left (fun s r => s + n1 (snd r)) t 1.
Definition ok_bc (c : nat * otable * (cf * cf) * (cf * cf) * (cf * cf)) : bool :=
  let '(op, t, a, b, r) := c in
  let r' := apply_op t op a b in
  match op with
  | 2%nat => close_bc (0x1p-49 * (bn1 a * bn1 b)) r' r
  | 0%nat | 1%nat | 3%nat | 4%nat | 5%nat => bc_eq r' r
  | _ => close_bc (0x1p-49 * (tscale t * tscale t)) r' r
  end.
