(* Executable model of step_generators.Basic{Max,Min}StepGenerator.__call__ and of the
   base_step * step_nom composition (DESIGN 4, C10).  `pw e` stands for step_ratio ** e (oracle). *)
From Coq Require Import ZArith List Bool.
Require Import NDT.Arith.Ops.
Import ListNotations.

(* exponents in generation order.  Max: i = 0..num-1, exponent -i + offset.
   Min: i = num-1..0, exponent i + offset. *)
Definition exps (is_max : bool) (num : nat) (offset : Z) : list Z :=
  if is_max then map (fun i => (- Z.of_nat i + offset)%Z) (seq 0 num)
  else map (fun i => (Z.of_nat i + offset)%Z) (rev (seq 0 num)).

Section Steps.
Context {A : Type} (O : Ops A).
(* one yielded step for an array-valued base step *)
Definition step_at (pw : Z -> A) (base : list A) (e : Z) : list A := map (fun b => mul O b (pw e)) base.
(* `if (np.abs(step) > 0).all(): yield step` *)
Definition keep (s : list A) : bool := forallb (fun v => ltb O (zero O) (abs O v)) s.
Definition basic_steps (pw : Z -> A) (base : list A) (is_max : bool) (num : nat) (offset : Z) : list (list A) :=
  filter keep (map (step_at pw base) (exps is_max num offset)).
(* MinStepGenerator.step_generator_function: base_step * step_nom, then make_exact when use_exact_steps *)
Definition make_exact (h : A) : A := sub O (add O h (one O)) (one O).
Definition gen_base (base_step : A) (step_nom : list A) (exact : bool) : list A :=
  map (fun s => let b := mul O base_step s in if exact then make_exact b else b) step_nom.
End Steps.
