(* Executable model of Limit._call_lim (DESIGN 4, C18): f is evaluated at the requested points; only the
   entries where f(z) is NaN are replaced by the computed limits (np.where / np.put on flat indices, in
   order), every other entry is returned unchanged with error estimate 0. *)
From Coq Require Import List Bool.
Require Import NDT.Arith.Ops.
Import ListNotations.
Section Limit.
Context {A : Type} (Op : Ops A).
(* fz: f at the requested points (ravelled); lims: the limits computed for the NaN positions, in order *)
Fixpoint fill (fz lims : list A) : list A :=
  match fz with
  | [] => []
  | v :: t => if isnan Op v then match lims with l :: ls => l :: fill t ls | [] => zero Op :: fill t [] end
              else v :: fill t lims
  end.
(* error estimates: the limit's estimate at NaN positions, 0 elsewhere *)
Fixpoint fill_err (fz errs : list A) : list A :=
  match fz with
  | [] => []
  | v :: t => if isnan Op v then match errs with e :: es => e :: fill_err t es | [] => zero Op :: fill_err t [] end
              else zero Op :: fill_err t errs
  end.
Definition nan_positions (fz : list A) : list nat := filter (fun i => isnan Op (nth i fz (zero Op))) (seq 0 (length fz)).
End Limit.

(* Limit._lim / Residue._fun: the steps of the generator are multiplied by the sign of the method, f is
   evaluated at z + h for each signed step h, and (Residue) every value is multiplied by h^pole_order. *)
Section Lim.
Context {A : Type} (Op : Ops A).
Definition lim_steps (sign : A) (steps : list A) : list A := map (mul Op sign) steps.
Definition lim_points (z : A) (hs : list A) : list A := map (add Op z) hs.
Fixpoint powA (d : A) (p : nat) : A := match p with 0%nat => one Op | S q => mul Op d (powA d q) end.
Definition residue_seq (p : nat) (fvals hs : list A) : list A := map (fun fh => mul Op (fst fh) (powA (snd fh) p)) (combine fvals hs).
End Lim.
