(* binary64 instance of the Fornberg models, used by the correspondence check only *)
From Coq Require Import PrimFloat Uint63 List ZArith Bool. Import ListNotations.
Require Import NDT.Arith.OpsFloat NDT.Model.Fornberg NDT.Model.FdDerivative.
Definition FOpsF : FdOps float :=
  MkFdOps 0%float 1%float PrimFloat.add PrimFloat.sub PrimFloat.mul PrimFloat.div (fun k => of_uint63 (Uint63.of_Z (Z.of_nat k))).
Definition ok_weights (c : list float * float * nat * option (list (list float))) : bool :=
  let '(x, x0, n, w) := c in
  match fd_weights_all FOpsF x x0 n, w with
  | Some w', Some w => lleqf w w'
  | None, None => true
  | _, _ => false
  end.
(* fd_derivative: windows and weights are bit-exact; the final np.dot goes through BLAS (accumulation
   order unknown), so the value is compared within  4*len*u*sum|w_i f_i| *)
Definition absdot (u v : list float) : float := fold_left (fun a p => (a + abs (fst p * snd p))%float) (combine u v) 0%float.
Definition close (a b bound : float) : bool :=
  feq a b || PrimFloat.leb (abs (a - b)%float) bound.
Definition stencil_bound (xw fw : list float) (x0 : float) (n : nat) : float :=
  match fd_weights FOpsF xw x0 n with
  | Some w => (0x1p-50 * of_uint63 (Uint63.of_Z (Z.of_nat (length w))) * absdot w fw)%float
  | None => 0%float end.
Definition fdd_bounds (fx x : list float) (n m : nat) : list float :=
  let len := length x in let mm := (Nat.div n 2 + m)%nat in let sz := (2 * mm + 2)%nat in
  map (fun i =>
    if Nat.ltb i mm then stencil_bound (firstn sz x) (firstn sz fx) (nth i x 0%float) n
    else if Nat.ltb i (len - mm) then stencil_bound (firstn (2 * mm + 1) (skipn (i - mm) x)) (firstn (2 * mm + 1) (skipn (i - mm) fx)) (nth i x 0%float) n
    else stencil_bound (skipn (len - sz) x) (skipn (len - sz) fx) (nth i x 0%float) n) (seq 0 len).
Fixpoint all3 (f : float -> float -> float -> bool) (a b c : list float) : bool :=
  match a, b, c with [], [], [] => true | x :: a', y :: b', z :: c' => f x y z && all3 f a' b' c' | _, _, _ => false end.
Definition ok_fdd (c : list float * list float * nat * nat * option (list float)) : bool :=
  let '(fx, x, n, m, r) := c in
  match fd_derivative FOpsF fx x n m, r with
  | Some d, Some r => all3 close d r (fdd_bounds fx x n m)
  | None, None => true
  | _, _ => false
  end.
