(* Real-number instance (theorems that need an order).  EPS / TINY / HUGE are parameters. *)
From Coq Require Import Reals ZArith Bool.
Require Import NDT.Arith.Ops.
Open Scope R_scope.

Definition Rltb (a b : R) : bool := if Rlt_dec a b then true else false.
Definition Rleb (a b : R) : bool := if Rle_dec a b then true else false.
Definition Reqb (a b : R) : bool := if Req_EM_T a b then true else false.

Definition OpsR (eps tiny huge : R) : Ops R := {|
  zero := 0; one := 1; add := Rplus; sub := Rminus; mul := Rmult; div := Rdiv;
  opp := Ropp; abs := Rabs; sqrt := R_sqrt.sqrt; ofZ := IZR;
  leb := Rleb; ltb := Rltb; eqb := Reqb; isnan := fun _ => false;
  c_eps := eps; c_tiny := tiny; c_huge := huge |}.

Lemma Rltb_true a b : Rltb a b = true <-> a < b.
Proof. unfold Rltb; destruct (Rlt_dec a b); split; intros; auto; discriminate. Qed.
Lemma Rltb_false a b : Rltb a b = false <-> ~ a < b.
Proof. unfold Rltb; destruct (Rlt_dec a b); split; intros; auto; try discriminate; contradiction. Qed.
Lemma Rleb_true a b : Rleb a b = true <-> a <= b.
Proof. unfold Rleb; destruct (Rle_dec a b); split; intros; auto; discriminate. Qed.
Lemma Rleb_false a b : Rleb a b = false <-> ~ a <= b.
Proof. unfold Rleb; destruct (Rle_dec a b); split; intros; auto; try discriminate; contradiction. Qed.
