(* Coq's real numbers as a MathComp fieldType of characteristic 0, so that the theorems proved over an arbitrary
   fieldType (C06 rule exactness, C15/C16 Fornberg weights) can be composed with the theorems proved over R with lra
   (Richardson, dea3, selection).  The construction is the classical one (equality by Req_EM_T, choice by Hilbert's
   epsilon); besides the real-number axioms it relies on Coq.Logic.Epsilon.epsilon_statement and
   functional_extensionality_dep -- standard-library axioms, reported by Print Assumptions for every theorem that uses it. *)
From Coq Require Import Reals Epsilon FunctionalExtensionality.
From mathcomp Require Import all_ssreflect all_algebra.
Set Implicit Arguments. Unset Strict Implicit. Unset Printing Implicit Defensive.
Import GRing.Theory.
Local Open Scope R_scope.

Definition eqr (r1 r2 : R) : bool := if Req_EM_T r1 r2 is left _ then true else false.
Lemma eqrP : Equality.axiom eqr.
Proof. by move=> r1 r2; rewrite /eqr; case: Req_EM_T => H; apply: (iffP idP). Qed.
Canonical R_eqMixin := EqMixin eqrP.
Canonical R_eqType := Eval hnf in EqType R R_eqMixin.

Fact inhR : inhabited R. Proof. exact: (inhabits 0). Qed.
Definition pickR (P : pred R) (n : nat) := let x := epsilon inhR P in if P x then Some x else None.
Fact pickR_some P n x : pickR P n = Some x -> P x.
Proof. by rewrite /pickR; case: (boolP (P _)) => // Px [<-]. Qed.
Fact pickR_ex (P : pred R) : (exists x : R, P x) -> exists n, pickR P n.
Proof. by move=> exP; exists O; rewrite /pickR; have -> := epsilon_spec inhR P exP. Qed.
Fact pickR_ext (P Q : pred R) : P =1 Q -> pickR P =1 pickR Q.
Proof.
move=> PEQ n; rewrite /pickR; set u := epsilon _ _; set v := epsilon _ _.
suff -> : u = v by rewrite PEQ.
by congr (epsilon _ _); apply: functional_extensionality => x; rewrite PEQ.
Qed.
Definition R_choiceMixin : choiceMixin R := Choice.Mixin pickR_some pickR_ex pickR_ext.
Canonical R_choiceType := Eval hnf in ChoiceType R R_choiceMixin.

Fact RplusA : associative Rplus. Proof. by move=> *; rewrite Rplus_assoc. Qed.
Definition R_zmodMixin := ZmodMixin RplusA Rplus_comm Rplus_0_l Rplus_opp_l.
Canonical R_zmodType := Eval hnf in ZmodType R R_zmodMixin.

Fact RmultA : associative Rmult. Proof. by move=> *; rewrite Rmult_assoc. Qed.
Fact R1_neq_0 : R1 != R0. Proof. by apply/eqP/R1_neq_R0. Qed.
Definition R_ringMixin := RingMixin RmultA Rmult_1_l Rmult_1_r Rmult_plus_distr_r Rmult_plus_distr_l R1_neq_0.
Canonical R_ringType := Eval hnf in RingType R R_ringMixin.
Canonical R_comRingType := Eval hnf in ComRingType R Rmult_comm.

Definition Rinvx (r : R) : R := if (r != 0) then / r else r.
Definition unit_R (r : R) : bool := r != 0.
Lemma RmultRinvx : {in unit_R, left_inverse 1 Rinvx Rmult}.
Proof. by move=> r; rewrite -topredE /unit_R /Rinvx => /= rNZ /=; rewrite rNZ Rinv_l //; apply/eqP. Qed.
Lemma RinvxRmult : {in unit_R, right_inverse 1 Rinvx Rmult}.
Proof. by move=> r; rewrite -topredE /unit_R /Rinvx => /= rNZ /=; rewrite rNZ Rinv_r //; apply/eqP. Qed.
Lemma intro_unit_R (x y : R) : y * x = 1 /\ x * y = 1 -> unit_R x.
Proof.
move=> [yx1 _]; apply/eqP => x0; move: yx1; rewrite x0 Rmult_0_r => /esym.
exact: R1_neq_R0.
Qed.
Lemma Rinvx_out : {in predC unit_R, Rinvx =1 id}.
Proof. by move=> x; rewrite inE /= /Rinvx -if_neg => ->. Qed.
Definition R_unitRingMixin := UnitRingMixin RmultRinvx RinvxRmult intro_unit_R Rinvx_out.
Canonical R_unitRing := Eval hnf in UnitRingType R R_unitRingMixin.
Canonical R_comUnitRingType := Eval hnf in [comUnitRingType of R].

Lemma R_idomainMixin (x y : R) : x * y = 0 -> (x == 0) || (y == 0).
Proof.
move=> xy0; case: (boolP (x == 0)) => //= /eqP xn; apply/eqP.
by case: (Rmult_integral _ _ xy0).
Qed.
Canonical R_idomainType := Eval hnf in IdomainType R R_idomainMixin.
Lemma R_fieldMixin : GRing.Field.mixin_of [unitRingType of R]. Proof. by []. Qed.
Definition R_fieldIdomainMixin := FieldIdomainMixin R_fieldMixin.
Canonical R_fieldType := FieldType R R_fieldMixin.

(* ---- translations between the two vocabularies ---- *)
Local Open Scope ring_scope.
Lemma RaddE (x y : R) : x + y = Rplus x y. Proof. by []. Qed.
Lemma RmulE (x y : R) : x * y = Rmult x y. Proof. by []. Qed.
Lemma RoppE (x : R) : - x = Ropp x. Proof. by []. Qed.
Lemma RsubE (x y : R) : x - y = Rminus x y. Proof. by []. Qed.
Lemma R0E : (0 : R) = R0. Proof. by []. Qed.
Lemma R1E : (1 : R) = R1. Proof. by []. Qed.
Lemma RinvE (x : R) : x != 0 -> x^-1 = Rinv x.
Proof. by move=> x0; rewrite /GRing.inv /= /Rinvx x0. Qed.
Lemma RdivE (x y : R) : y != 0 -> x / y = Rdiv x y.
Proof. by move=> y0; rewrite /Rdiv -RinvE. Qed.
Lemma RexpE (x : R) k : x ^+ k = pow x k.
Proof. by elim: k => [|k IH] //=; rewrite exprS IH. Qed.
Lemma RnatE k : (k%:R : R) = INR k.
Proof.
elim: k => [|k IH] //; rewrite S_INR -IH -[in LHS]addn1 natrD.
by [].
Qed.
Lemma RneqE (x y : R) : (x != y) <-> (x <> y).
Proof. by split => [/eqP|/eqP]. Qed.
Lemma Rchar0 : [char R_fieldType] =i pred0.
Proof.
move=> p; rewrite !inE; apply/negbTE/negP => /andP[pp /eqP p0].
have : INR p = INR 0 by rewrite -RnatE.
by move/INR_eq => e; move: pp; rewrite e.
Qed.
