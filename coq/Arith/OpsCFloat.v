(* complex binary64 instance (pairs of floats), following numpy's conventions:
   - abs is the modulus, returned as (|z|, 0); computed with scaling (within a few ulp of npy_cabs = hypot);
   - multiplication is the textbook formula (numpy's SIMD loops may fuse multiply-adds: last-bit differences);
   - division is Smith's algorithm exactly as in numpy's loops;
   - comparisons are lexicographic (real part first), as numpy orders complex numbers; NaN if either part is.
   Used by the tolerance-based correspondence of the complex-valued stages (C17, C18). *)
From Coq Require Import PrimFloat Uint63 ZArith List Bool.
Require Import NDT.Arith.Ops NDT.Arith.OpsFloat.
Import ListNotations.
Open Scope float_scope.

Definition cfloat := (float * float)%type.
Definition c_re (z : cfloat) := fst z.
Definition c_im (z : cfloat) := snd z.
Definition c_add (a b : cfloat) : cfloat := (c_re a + c_re b, c_im a + c_im b).
Definition c_sub (a b : cfloat) : cfloat := (c_re a - c_re b, c_im a - c_im b).
Definition c_mul (a b : cfloat) : cfloat := (c_re a * c_re b - c_im a * c_im b, c_re a * c_im b + c_im a * c_re b).
Definition c_div (a b : cfloat) : cfloat :=
  let '(ar, ai) := a in let '(br, bi) := b in
  if PrimFloat.leb (PrimFloat.abs bi) (PrimFloat.abs br) then
    let rat := bi / br in let scl := 1 / (br + bi * rat) in ((ar + ai * rat) * scl, (ai - ar * rat) * scl)
  else
    let rat := br / bi in let scl := 1 / (bi + br * rat) in ((ar * rat + ai) * scl, (ai * rat - ar) * scl).
Definition c_modulus (z : cfloat) : float :=
  let a := PrimFloat.abs (c_re z) in let b := PrimFloat.abs (c_im z) in
  let m := if PrimFloat.ltb a b then b else a in
  if f_isnan a || f_isnan b then nan
  else if PrimFloat.eqb m 0 then 0
  else if PrimFloat.eqb m infinity then infinity
  else let x := a / m in let y := b / m in m * PrimFloat.sqrt (x * x + y * y).
Definition c_ltb (a b : cfloat) : bool := PrimFloat.ltb (c_re a) (c_re b) || (PrimFloat.eqb (c_re a) (c_re b) && PrimFloat.ltb (c_im a) (c_im b)).
Definition c_leb (a b : cfloat) : bool := PrimFloat.ltb (c_re a) (c_re b) || (PrimFloat.eqb (c_re a) (c_re b) && PrimFloat.leb (c_im a) (c_im b)).
Definition c_eqb (a b : cfloat) : bool := PrimFloat.eqb (c_re a) (c_re b) && PrimFloat.eqb (c_im a) (c_im b).
Definition c_isnan (a : cfloat) : bool := f_isnan (c_re a) || f_isnan (c_im a).
Definition c_real (x : float) : cfloat := (x, 0).

Definition OpsCF : Ops cfloat := {|
  zero := (0, 0); one := (1, 0);
  add := c_add; sub := c_sub; mul := c_mul; div := c_div;
  opp := fun z => (- c_re z, - c_im z); abs := fun z => c_real (c_modulus z); sqrt := fun z => c_real (PrimFloat.sqrt (c_re z));
  ofZ := fun z => c_real (f_ofZ z);
  leb := c_leb; ltb := c_ltb; eqb := c_eqb; isnan := c_isnan;
  c_eps := c_real 0x1p-52; c_tiny := c_real 0x1p-1022; c_huge := c_real 0x1.fffffffffffffp+1023 |}.

(* closeness used by the complex case files: |a - b| <= tol * max(|a|, |b|) (or bit-equal / both NaN) *)
Definition fclose (tol a b : float) : bool :=
  feq a b || PrimFloat.leb (PrimFloat.abs (a - b)) (tol * (if PrimFloat.ltb (PrimFloat.abs a) (PrimFloat.abs b) then PrimFloat.abs b else PrimFloat.abs a)).
Definition cclose (tol : float) (a b : cfloat) : bool :=
  (feq (c_re a) (c_re b) && feq (c_im a) (c_im b)) ||
  PrimFloat.leb (c_modulus (c_sub a b)) (tol * (if PrimFloat.ltb (c_modulus a) (c_modulus b) then c_modulus b else c_modulus a)).
Fixpoint lcclose (tol : float) (a b : list cfloat) : bool :=
  match a, b with [], [] => true | x :: a', y :: b' => cclose tol x y && lcclose tol a' b' | _, _ => false end.
