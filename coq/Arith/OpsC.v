(* Complex numbers as pairs of reals with numpy's conventions: modulus returned as (|z|, 0), lexicographic
   comparisons (real part first).  Used for the exact-arithmetic theorems about complex-valued data (C17, C18). *)
From Coq Require Import Reals ZArith Bool Lra Field.
Require Import NDT.Arith.Ops NDT.Arith.OpsR.
Open Scope R_scope.

Definition C := (R * R)%type.
Definition Cre (z : C) := fst z.
Definition Cim (z : C) := snd z.
Definition Cadd (a b : C) : C := (Cre a + Cre b, Cim a + Cim b).
Definition Csub (a b : C) : C := (Cre a - Cre b, Cim a - Cim b).
Definition Cmul (a b : C) : C := (Cre a * Cre b - Cim a * Cim b, Cre a * Cim b + Cim a * Cre b).
Definition Copp (a : C) : C := (- Cre a, - Cim a).
Definition Cnorm2 (a : C) : R := Cre a * Cre a + Cim a * Cim a.
Definition Cinv (a : C) : C := (Cre a / Cnorm2 a, - Cim a / Cnorm2 a).
Definition Cdiv (a b : C) : C := Cmul a (Cinv b).
Definition Cmod (a : C) : R := R_sqrt.sqrt (Cnorm2 a).
Definition Cltb (a b : C) : bool := Rltb (Cre a) (Cre b) || (Reqb (Cre a) (Cre b) && Rltb (Cim a) (Cim b)).
Definition Cleb (a b : C) : bool := Rltb (Cre a) (Cre b) || (Reqb (Cre a) (Cre b) && Rleb (Cim a) (Cim b)).
Definition Ceqb (a b : C) : bool := Reqb (Cre a) (Cre b) && Reqb (Cim a) (Cim b).
Definition CofR (x : R) : C := (x, 0).

Definition OpsC (eps tiny huge : R) : Ops C := {|
  zero := (0, 0); one := (1, 0); add := Cadd; sub := Csub; mul := Cmul; div := Cdiv; opp := Copp;
  abs := fun z => CofR (Cmod z); sqrt := fun z => CofR (R_sqrt.sqrt (Cre z)); ofZ := fun z => CofR (IZR z);
  leb := Cleb; ltb := Cltb; eqb := Ceqb; isnan := fun _ => false;
  c_eps := CofR eps; c_tiny := CofR tiny; c_huge := CofR huge |}.

Lemma C_eq (a b : C) : Cre a = Cre b -> Cim a = Cim b -> a = b.
Proof. destruct a, b; cbn; intros -> ->; reflexivity. Qed.

Lemma Cnorm2_pos a : a <> (0, 0) -> 0 < Cnorm2 a.
Proof.
  destruct a as [x y]; unfold Cnorm2; cbn. intros H.
  destruct (Req_dec x 0) as [->|Hx].
  - destruct (Req_dec y 0) as [->|Hy]; [congruence|]. nra.
  - nra.
Qed.

(* the complex numbers are a field *)
Lemma C_field_theory : field_theory (0, 0) (1, 0) Cadd Cmul Csub Copp Cdiv Cinv eq.
Proof.
  constructor; [constructor| | |].
  - intros x. apply C_eq; cbn; ring.
  - intros x y. apply C_eq; cbn; ring.
  - intros x y z. apply C_eq; cbn; ring.
  - intros x. apply C_eq; cbn; ring.
  - intros x y. apply C_eq; cbn; ring.
  - intros x y z. apply C_eq; cbn; ring.
  - intros x y z. apply C_eq; cbn; ring.
  - intros x y. apply C_eq; cbn; ring.
  - intros x. apply C_eq; cbn; ring.
  - intros H. injection H as H. lra.
  - intros p q. reflexivity.
  - intros p Hp. pose proof (Cnorm2_pos p Hp) as Hn. destruct p as [x y]. unfold Cnorm2 in *. cbn in *.
    apply C_eq; cbn; unfold Cnorm2; cbn; field; lra.
Qed.
