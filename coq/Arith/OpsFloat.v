(* binary64 instance: the one the correspondence check runs. *)
From Coq Require Import PrimFloat Uint63 ZArith List Bool.
Require Import NDT.Arith.Ops.
Import ListNotations.
Open Scope float_scope.

Definition f_ofZ (z : Z) : float :=
  match z with
  | Z0 => 0
  | Zpos _ => of_uint63 (Uint63.of_Z z)
  | Zneg p => - of_uint63 (Uint63.of_Z (Zpos p))
  end.
Definition f_isnan (a : float) : bool := negb (PrimFloat.eqb a a).

Definition OpsF : Ops float := {|
  zero := 0; one := 1;
  add := PrimFloat.add; sub := PrimFloat.sub; mul := PrimFloat.mul; div := PrimFloat.div;
  opp := PrimFloat.opp; abs := PrimFloat.abs; sqrt := PrimFloat.sqrt;
  ofZ := f_ofZ;
  leb := PrimFloat.leb; ltb := PrimFloat.ltb; eqb := PrimFloat.eqb;
  isnan := f_isnan;
  c_eps := 0x1p-52; c_tiny := 0x1p-1022; c_huge := 0x1.fffffffffffffp+1023 |}.

(* comparison used by every case file: bit-exact up to the sign of zero; all NaNs identified *)
Definition feq (a b : float) : bool :=
  match PrimFloat.compare a b with
  | FEq => true
  | FNotComparable => f_isnan a && f_isnan b
  | _ => false
  end.
Fixpoint leqf (a b : list float) : bool :=
  match a, b with [], [] => true | x :: a', y :: b' => feq x y && leqf a' b' | _, _ => false end.
Fixpoint lleqf (a b : list (list float)) : bool :=
  match a, b with [], [] => true | x :: a', y :: b' => leqf x y && lleqf a' b' | _, _ => false end.

(* generic runner: ids of the cases on which [ok] is false *)
Fixpoint failing_from {C : Type} (ok : C -> bool) (i : nat) (l : list C) : list nat :=
  match l with [] => [] | c :: t => if ok c then failing_from ok (S i) t else i :: failing_from ok (S i) t end.
Definition failing {C : Type} (ok : C -> bool) (l : list C) : list nat := failing_from ok 0 l.
