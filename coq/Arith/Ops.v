(* One definition, several arithmetics (DESIGN 3.1).
   A model written over [Ops A] is instantiated with binary64 ([OpsFloat.v]) for the
   correspondence check and with R / an abstract field for the theorems. *)
From Coq Require Import ZArith List Bool.
Import ListNotations.

Record Ops (A : Type) := MkOps {
  zero : A; one : A;
  add : A -> A -> A; sub : A -> A -> A; mul : A -> A -> A; div : A -> A -> A;
  opp : A -> A; abs : A -> A; sqrt : A -> A;
  ofZ : Z -> A;
  leb : A -> A -> bool; ltb : A -> A -> bool; eqb : A -> A -> bool;
  isnan : A -> bool;
  (* named source constants *)
  c_eps : A; c_tiny : A; c_huge : A }.

Arguments zero {A}. Arguments one {A}. Arguments add {A}. Arguments sub {A}.
Arguments mul {A}. Arguments div {A}. Arguments opp {A}. Arguments abs {A}.
Arguments sqrt {A}. Arguments ofZ {A}. Arguments leb {A}. Arguments ltb {A}.
Arguments eqb {A}. Arguments isnan {A}. Arguments c_eps {A}. Arguments c_tiny {A}.
Arguments c_huge {A}.

Section Derived.
Context {A : Type} (O : Ops A).
(* numpy.maximum: propagates NaN (first NaN wins) *)
Definition npmax (a b : A) : A :=
  if isnan O a then a else if isnan O b then b else if ltb O a b then b else a.
(* Python builtin max(a, b): returns b only if b > a *)
Definition pymax (a b : A) : A := if ltb O a b then b else a.
Definition maxabs (a b : A) : A := npmax (abs O a) (abs O b).
Definition nthA (l : list A) (i : nat) : A := nth i l (zero O).
Definition sumA (l : list A) : A := fold_left (add O) l (zero O).
Definition b2a (b : bool) : A := if b then one O else zero O.
End Derived.
