(* Abstract-field instance over a mathcomp fieldType (no order: guards that compare magnitudes are
   idealised away -- leb/ltb are constantly false -- which is what "as long as no table
   difference vanishes / outside the guards" means in exact arithmetic). *)
From Coq Require Import ZArith Arith.
From mathcomp Require Import all_ssreflect all_algebra.
Require Import NDT.Arith.Ops.
Set Implicit Arguments. Unset Strict Implicit. Unset Printing Implicit Defensive.
Import GRing.Theory.
Local Open Scope ring_scope.

Definition field_ofZ (F : fieldType) (z : Z) : F :=
  match z with Z0 => 0 | Zpos p => (Pos.to_nat p)%:R | Zneg p => - (Pos.to_nat p)%:R end.

Definition OpsField (F : fieldType) : Ops F :=
  @MkOps F 0 1 +%R (fun a b => a - b) *%R (fun a b => a / b) -%R id id (@field_ofZ F)
        (fun _ _ => false) (fun _ _ => false) (fun a b => a == b) (fun _ => false) 0 0 0.

(* stdlib list functions used by the models vs their mathcomp counterparts *)
Lemma app_cat {T} (a b : seq T) : (a ++ b)%list = a ++ b.
Proof. by []. Qed.
Lemma Lrev_rev {T} (l : seq T) : List.rev l = rev l.
Proof. by elim: l => [|a l IH] //=; rewrite IH rev_cons -cats1. Qed.
Lemma Llength_size {T} (l : seq T) : length l = size l.
Proof. by []. Qed.
Lemma Lnth_nth {T} (d : T) (l : seq T) i : List.nth i l d = nth d l i.
Proof. by elim: l i => [|a l IH] [|i] //=. Qed.
Lemma Lmap_map {T U} (f : T -> U) (l : seq T) : List.map f l = map f l.
Proof. by []. Qed.
Lemma fold_left_foldl {T U} (f : U -> T -> U) (l : seq T) z : List.fold_left f l z = foldl f z l.
Proof. by elim: l z => [|a l IH] z //=. Qed.

Lemma modulo_modn a b : (0 < b)%N -> Nat.modulo a b = (a %% b)%N.
Proof.
move=> b0; symmetry; apply: (Nat.mod_unique a b (a %/ b)%N (a %% b)%N).
  by apply/ltP; rewrite ltn_mod.
by rewrite {1}(divn_eq a b) mulnC.
Qed.
Lemma div_divn a b : (0 < b)%N -> Nat.div a b = (a %/ b)%N.
Proof.
move=> b0; symmetry; apply: (Nat.div_unique a b (a %/ b)%N (a %% b)%N).
  by apply/ltP; rewrite ltn_mod.
by rewrite {1}(divn_eq a b) mulnC.
Qed.
