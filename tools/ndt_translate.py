#!/usr/bin/env python3
"""Python ast -> Gallina for the decision logic of numdifftools (fail-closed).

Writes coq/Gen/Spec.v (only when the text changed).  Exit 2 + message on anything outside the subset."""
import ast, sys, textwrap
import os
SRC = os.environ.get('NDT_SRC', '/repo/src/numdifftools/')
OUT = os.path.join(os.path.dirname(os.path.dirname(os.path.abspath(__file__))), 'coq', 'Gen', 'Spec.v')
METHODS = {'central':'Central','central2':'Central2','forward':'Forward','backward':'Backward',
           'complex':'Complex','multicomplex':'Multicomplex'}
class Unsupported(Exception): pass
def fail(node, why):
    raise Unsupported('%s at line %s: %s' % (why, getattr(node,'lineno','?'), ast.dump(node)[:120]))

# typing environment: name -> type ; types: 'Z','bool','method','string'
class Tr:
    def __init__(self, cls_props, params, self_map, prefix):
        self.cls_props = cls_props     # property name -> (gallina name, type)
        self.params = params           # local/param name -> type
        self.self_map = self_map       # self.attr -> (gallina expr, type)
        self.prefix = prefix
    def expr(self, e, want=None):
        s, t = self._expr(e)
        if want and t != want:
            if want == 'Z' and t == 'bool': return '(b2z %s)' % s, 'Z'
            if want == 'bool' and t == 'Z': return '(negb (%s =? 0))' % s, 'bool'
            if want == 'Q' and t == 'Z': return '(inject_Z %s)' % s, 'Q'
            if want == 'Q' and t == 'bool': return '(inject_Z (b2z %s))' % s, 'Q'
            fail(e, 'type %s where %s wanted' % (t, want))
        return s, t
    def _expr(self, e):
        if isinstance(e, ast.Constant):
            v = e.value
            if isinstance(v, bool): return ('true' if v else 'false'), 'bool'
            if isinstance(v, int): return ('%d' % v if v >= 0 else '(%d)' % v), 'Z'
            if isinstance(v, float): return float_const_Q(e), 'Q'
            if isinstance(v, str):
                if v in METHODS: return METHODS[v], 'method'
                return '"%s"%%string' % v, 'string'
            fail(e, 'constant')
        if isinstance(e, ast.Name):
            if e.id in self.params: return 'v_' + e.id, self.params[e.id]
            fail(e, 'unknown name')
        if isinstance(e, ast.Attribute) and isinstance(e.value, ast.Name) and e.value.id == 'self':
            if e.attr in self.self_map: return self.self_map[e.attr]
            if e.attr in self.cls_props:
                g, t = self.cls_props[e.attr]; return '(%s sm sn sorder)' % g, t
            fail(e, 'unknown self attribute')
        if isinstance(e, ast.BinOp):
            ops = {ast.Add:'+', ast.Sub:'-', ast.Mult:'*', ast.FloorDiv:'/', ast.Mod:'mod'}
            if isinstance(e.op, ast.Pow):
                l, lt = self._expr(e.left); r, _ = self.expr(e.right, 'Z')
                if lt != 'Q': fail(e, 'power of non-rational')
                return '(Qpower %s %s)' % (l, r), 'Q'
            if type(e.op) not in ops: fail(e, 'binop')
            l, lt = self._expr(e.left); r, rt = self._expr(e.right)
            if lt == 'string' and rt == 'string' and isinstance(e.op, ast.Add): return '(%s ++ %s)%%string' % (l, r), 'string'
            if 'Q' in (lt, rt):
                qops = {ast.Add:'Qplus', ast.Sub:'Qminus', ast.Mult:'Qmult'}
                if type(e.op) not in qops: fail(e, 'rational binop')
                l, _ = self.expr(e.left, 'Q'); r, _ = self.expr(e.right, 'Q')
                return '(%s %s %s)' % (qops[type(e.op)], l, r), 'Q'
            l, _ = self.expr(e.left, 'Z'); r, _ = self.expr(e.right, 'Z')
            return '(%s %s %s)' % (l, ops[type(e.op)], r), 'Z'
        if isinstance(e, ast.BoolOp):
            op = '&&' if isinstance(e.op, ast.And) else '||'
            parts = [self.expr(v, 'bool')[0] for v in e.values]
            return '(' + (' %s ' % op).join(parts) + ')', 'bool'
        if isinstance(e, ast.UnaryOp) and isinstance(e.op, ast.Not):
            return '(negb %s)' % self.expr(e.operand, 'bool')[0], 'bool'
        if isinstance(e, ast.Compare):
            terms = [e.left] + e.comparators; out = []
            for a, op, b in zip(terms, e.ops, terms[1:]):
                if isinstance(op, (ast.Is, ast.IsNot)):
                    if not (isinstance(b, ast.Constant) and b.value is None): fail(e, 'is-comparison with non-None')
                    sa, ta = self._expr(a)
                    if ta != 'optZ': fail(e, 'None test on a non-optional')
                    out.append(('(isNoneZ %s)' if isinstance(op, ast.Is) else '(negb (isNoneZ %s))') % sa); continue
                if isinstance(op, (ast.In, ast.NotIn)):
                    if not isinstance(b, (ast.Tuple, ast.List)): fail(e, 'in non-literal')
                    sa, ta = self._expr(a)
                    alts = []
                    for el in b.elts:
                        se, te = self.expr(el, ta)
                        alts.append(self.eq(sa, se, ta))
                    r = '(' + ' || '.join(alts) + ')' if alts else 'false'
                    out.append(r if isinstance(op, ast.In) else '(negb %s)' % r); continue
                sa, ta = self._expr(a); sb, tb = self.expr(b, ta)
                if isinstance(op, ast.Eq): out.append(self.eq(sa, sb, ta))
                elif isinstance(op, ast.NotEq): out.append('(negb %s)' % self.eq(sa, sb, ta))
                else:
                    sym = {ast.Lt:'<?', ast.LtE:'<=?', ast.Gt:'>?', ast.GtE:'>=?'}.get(type(op))
                    if not sym or ta != 'Z': fail(e, 'compare')
                    out.append('(%s %s %s)' % (sa, sym, sb))
            return ('(' + ' && '.join(out) + ')' if len(out) > 1 else out[0]), 'bool'
        if isinstance(e, ast.IfExp):
            c, _ = self.expr(e.test, 'bool'); a, ta = self._expr(e.body); b, _ = self.expr(e.orelse, ta)
            return '(if %s then %s else %s)' % (c, a, b), ta
        if isinstance(e, ast.Call):
            f = e.func
            if isinstance(f, ast.Name) and f.id == 'int' and len(e.args) == 1:
                sa, ta = self._expr(e.args[0])
                if ta == 'optZ': return '(getZ %s)' % sa, 'Z'
                return self.expr(e.args[0], 'Z')
            if isinstance(f, ast.Attribute) and isinstance(f.value, ast.Name) and f.value.id == 'self' \
               and f.attr in getattr(self, 'static_calls', {}):
                g, t = self.static_calls[f.attr]
                return '(%s %s)' % (g, ' '.join(self._expr(a)[0] for a in e.args)), t
            if isinstance(f, ast.Name) and f.id in ('max', 'min') and len(e.args) == 2:
                a, _ = self.expr(e.args[0], 'Z'); b, _ = self.expr(e.args[1], 'Z')
                return '(Z.%s %s %s)' % (f.id, a, b), 'Z'
            # dict(k=v,...).get(key, default)  /  dict(...)[key] handled in Subscript
            if isinstance(f, ast.Attribute) and f.attr == 'get' and self.is_dict(f.value) and len(e.args) == 2:
                return self.dict_lookup(f.value, e.args[0], e.args[1])
            if isinstance(f, ast.Attribute) and f.attr == 'startswith' and len(e.args) == 1 \
               and isinstance(e.args[0], ast.Constant) and e.args[0].value == 'central':
                v, t = self.expr(f.value, 'method'); return '(starts_central %s)' % v, 'bool'
            if isinstance(f, ast.Attribute) and isinstance(f.value, ast.Name) and f.value.id == 'self' and f.attr in self.cls_props:
                g, t = self.cls_props[f.attr]
                args = ' '.join(self._expr(a)[0] for a in e.args)
                return '(%s sm sn sorder %s)' % (g, args), t
            if isinstance(f, ast.Attribute) and f.attr == 'format' and isinstance(f.value, ast.Constant) and f.value.value == '_{0!s}':
                v, t = self.expr(e.args[0], 'method'); return '(method_prefix %s)' % v, 'string'
            fail(e, 'call')
        if isinstance(e, ast.Subscript):
            if isinstance(e.value, ast.List):   # literal table indexed by an integer
                idx, _ = self.expr(e.slice, 'Z')
                elts = [self._expr(x) for x in e.value.elts]
                ts = {t for _, t in elts}
                if ts == {'Z'}: return '(tbl [%s] %s)' % ('; '.join(s for s, _ in elts), idx), 'Z'
                if ts <= {'Z', 'Q'}:
                    return '(tblQ [%s] %s)' % ('; '.join(self.expr(x, 'Q')[0] for x in e.value.elts), idx), 'Q'
                fail(e, 'non-numeric table')
            if self.is_dict(e.value): return self.dict_lookup(e.value, e.slice, None)
            fail(e, 'subscript')
        fail(e, 'expression')
    def eq(self, a, b, t):
        return {'Z':'(%s =? %s)', 'method':'(meqb %s %s)', 'bool':'(Bool.eqb %s %s)', 'string':'(String.eqb %s %s)'}[t] % (a, b)
    def is_dict(self, e):
        return (isinstance(e, ast.Call) and isinstance(e.func, ast.Name) and e.func.id == 'dict' and not e.args) or isinstance(e, ast.Dict)
    def dict_lookup(self, d, key, default):
        k, kt = self._expr(key)
        if isinstance(d, ast.Dict): items = [(self._expr(kk), vv) for kk, vv in zip(d.keys, d.values)]
        else:
            items = []
            for kw in d.keywords:
                if kt == 'method':
                    if kw.arg not in METHODS: fail(d, 'dict key not a method')
                    items.append(((METHODS[kw.arg], 'method'), kw.value))
                else: fail(d, 'dict keyword keys with non-method key')
        vals = [self._expr(v) for _, v in items]
        vt = 'Q' if any(t == 'Q' for _, t in vals) else vals[0][1]
        if vt == 'Q': vals = [self.expr(v, 'Q') for _, v in items]
        if default is None: fail(d, 'dict[...] without default not handled in prototype')
        ds, _ = self.expr(default, vt)
        s = ds
        for ((ks, _), _), (vs, _) in reversed(list(zip(items, vals))):
            s = '(if %s then %s else %s)' % (self.eq(k, ks, kt), vs, s)
        return s, vt
    # statements: straight-line Assign / If / Return / Expr(docstring) / _assert
    def body(self, stmts, rtype):
        if not stmts: fail(ast.Pass(), 'fell off the end of a function')
        st, rest = stmts[0], stmts[1:]
        if isinstance(st, ast.Expr) and isinstance(st.value, ast.Constant): return self.body(rest, rtype)
        if isinstance(st, ast.Return):
            return self.expr(st.value, rtype)[0]
        if isinstance(st, ast.Assign) and len(st.targets) == 1 and isinstance(st.targets[0], ast.Name):
            v, t = self._expr(st.value); name = st.targets[0].id
            old = self.params.get(name); self.params[name] = t
            r = '(let v_%s := %s in\n   %s)' % (name, v, self.body(rest, rtype))
            return r
        if isinstance(st, ast.Assign) and len(st.targets) == 1 and isinstance(st.targets[0], ast.Tuple) and isinstance(st.value, ast.Tuple):
            # simultaneous assignment a, b = x, y  (no name on the right may be one of the targets)
            names = [t.id for t in st.targets[0].elts]
            vals = [self._expr(v) for v in st.value.elts]
            out = ''
            for nm, (v, t) in zip(names, vals): self.params[nm] = t
            inner = self.body(rest, rtype)
            for nm, (v, t) in reversed(list(zip(names, vals))): inner = '(let v_%s := %s in %s)' % (nm, v, inner)
            return inner
        if isinstance(st, ast.If):
            c, _ = self.expr(st.test, 'bool')
            saved = dict(self.params)
            a = self.body(st.body + rest if not self.returns(st.body) else st.body, rtype)
            self.params = dict(saved)
            b = self.body((st.orelse + rest) if not self.returns(st.orelse) else st.orelse, rtype) if (st.orelse or rest) else fail(st, 'if without continuation')
            self.params = saved
            return '(if %s then %s\n   else %s)' % (c, a, b)
        if isinstance(st, ast.Expr) and isinstance(st.value, ast.Call) and getattr(st.value.func, 'id', None) == '_assert':
            c, _ = self.expr(st.value.args[0], 'bool')
            return '(if %s then %s else %s)' % (c, self.body(rest, rtype), {'Z':'(-1)','string':'"!ValueError"%string','bool':'false'}[rtype])
        fail(st, 'statement')
    def returns(self, stmts):
        return bool(stmts) and isinstance(stmts[-1], ast.Return)

def get_class(tree, name):
    for n in tree.body:
        if isinstance(n, ast.ClassDef) and n.name == name: return n
    raise Unsupported('class %s not found' % name)
def get_func(container, name):
    for n in container.body:
        if isinstance(n, ast.FunctionDef) and n.name == name and not any(isinstance(d, ast.Attribute) and d.attr == 'setter' for d in n.decorator_list):
            return n
    raise Unsupported('function %s not found' % name)

HEADER = '''(* GENERATED by tools/ndt_translate.py from /repo/src/numdifftools -- do not edit *)
From Coq Require Import ZArith Bool List String.
Import ListNotations.
Open Scope Z_scope.
Inductive method := Central | Central2 | Forward | Backward | Complex | Multicomplex | OtherM.
Definition meqb (a b : method) : bool :=
  match a, b with Central,Central|Central2,Central2|Forward,Forward|Backward,Backward|Complex,Complex|Multicomplex,Multicomplex|OtherM,OtherM => true | _,_ => false end.
Definition starts_central m := match m with Central | Central2 => true | _ => false end.
Definition method_prefix m : string := match m with Central => "_central" | Central2 => "_central2" | Forward => "_forward"
  | Backward => "_backward" | Complex => "_complex" | Multicomplex => "_multicomplex" | OtherM => "_?" end.
Definition b2z (b : bool) : Z := if b then 1 else 0.
Definition tbl (l : list Z) (i : Z) : Z := nth (Z.to_nat i) l 0.
From Coq Require Import QArith.
Definition tblQ (l : list Q) (i : Z) : Q := nth (Z.to_nat i) l (0 # 1).
Definition isNoneZ (o : option Z) : bool := match o with None => true | Some _ => false end.
Definition getZ (o : option Z) : Z := match o with Some z => z | None => 0 end.
Open Scope Z_scope.
'''
QHEADER = ''

LOGRULE_SPEC = [('_odd_derivative','odd_derivative','bool',[]), ('_even_derivative','even_derivative','bool',[]),
        ('_derivative_mod_four_is_three','mod4_is_three','bool',[]), ('_derivative_mod_four_is_zero','mod4_is_zero','bool',[]),
        ('_complex_high_order','complex_high_order','bool',[]), ('eval_first_condition','eval_first_condition','bool',[]),
        ('richardson_step','richardson_step','Z',[]), ('method_order','method_order','Z',[]),
        ('_parity_complex','parity_complex','Z',[('order_','Z'),('method_order_','Z')]),
        ('_parity','parity_fn','Z',[('method_','method'),('order_','Z'),('method_order_','Z')]),
        ('_flip_fd_rule','flip_fd_rule','bool',[]),
        ('_multicomplex_middle_name','multicomplex_middle_name','string',[]),
        ('_get_middle_name','get_middle_name','string',[]), ('_get_last_name','get_last_name','string',[]),
        ('diff','diff_name','string',[])]
TYPES = {'Z':'Z','bool':'bool','string':'string','method':'method','Q':'Q'}

def stores(stmts):
    names = set()
    for st in stmts:
        for n in ast.walk(st):
            if isinstance(n, ast.Name) and isinstance(n.ctx, ast.Store): names.add(n.id)
    return names

def slice_body(f, target, stop_at_return=True):
    """Backward slice of the top-level straight-line assignments of f that define `target`.
    Fails if a needed variable is assigned anywhere but in a top-level simple assignment."""
    tops = []
    for st in f.body:
        if isinstance(st, ast.Assign) and len(st.targets) == 1 and (isinstance(st.targets[0], ast.Name) or
              (isinstance(st.targets[0], ast.Tuple) and isinstance(st.value, ast.Tuple))):
            tops.append(st)
        else:
            tops.append(('other', st))
    needed = {target}; chosen = []
    for st in reversed(tops):
        if isinstance(st, tuple):
            bad = stores([st[1]]) & needed
            if bad: fail(st[1], 'variable %s assigned in a non-straight-line statement' % sorted(bad))
            continue
        tg = st.targets[0]
        names = [tg.id] if isinstance(tg, ast.Name) else [e.id for e in tg.elts]
        if needed & set(names):
            chosen.append(st)
            for n in ast.walk(st.value):
                if isinstance(n, ast.Name) and isinstance(n.ctx, ast.Load): needed.add(n.id)
    if not chosen: fail(f, 'no assignment to %s' % target)
    return list(reversed(chosen)) + [ast.Return(value=ast.Name(id=target, ctx=ast.Load()))]

def gen_logrule_class(fd, clsname, prefix, out):
    """Resolve every LogRule property through the MRO [clsname, LogRule] and emit <prefix><name>."""
    base = get_class(fd, 'LogRule')
    cls = get_class(fd, clsname)
    known_overridable = {'_difference_functions', '_vstack', '_atleast_2d', 'apply', 'n', 'order', '_complex_high_order'}
    self_map = {'n':('sn','Z'), 'order':('sorder','Z'), 'method':('sm','method')}
    over = {}
    if cls is not base:
        for st in cls.body:
            if isinstance(st, ast.Expr) and isinstance(st.value, ast.Constant): continue
            if isinstance(st, ast.Assign) and isinstance(st.targets[0], ast.Name): nm = st.targets[0].id
            elif isinstance(st, ast.FunctionDef): nm = st.name
            else: fail(st, 'unexpected member of %s' % clsname)
            if nm not in known_overridable: fail(st, 'unknown override %s.%s' % (clsname, nm))
            if nm == 'n':
                v = st.value
                if not (isinstance(v, ast.Call) and getattr(v.func, 'id', '') == 'property'): fail(st, 'n override')
                fget = [k.value for k in v.keywords if k.arg == 'fget']
                if len(fget) != 1 or not isinstance(fget[0], ast.Lambda) or not isinstance(fget[0].body, ast.Constant) \
                   or not isinstance(fget[0].body.value, int): fail(st, 'n override is not a constant lambda')
                out.append('Definition %sn : Z := %d.\n' % (prefix, fget[0].body.value))
                self_map['n'] = ('%sn' % prefix, 'Z')
            elif nm == 'order' and isinstance(st, ast.FunctionDef):
                if any(isinstance(d, ast.Attribute) and d.attr == 'setter' for d in st.decorator_list): continue
                tr = Tr({}, {}, dict(self_map), clsname)
                out.append('Definition %sorder (sm : method) : Z :=\n  %s.\n' % (prefix, tr.body(st.body, 'Z')))
                self_map['order'] = ('(%sorder sm)' % prefix, 'Z')
            elif nm == '_complex_high_order':
                over[nm] = st
    props = {}
    for py, g, rt, extra in LOGRULE_SPEC:
        f = over.get(py) or get_func(base, py)
        argnames = [a.arg for a in f.args.args][1:]
        if len(argnames) != len(extra): raise Unsupported('signature of %s changed' % py)
        params = {}
        for an, (gn, t) in zip(argnames, extra): params[an] = t
        tr = Tr(props, params, dict(self_map), clsname)
        body = f.body
        if py == 'diff':   # name = first + middle + last ; return getattr(..., name)
            if not (isinstance(body[-1], ast.Return) and isinstance(body[-1].value, ast.Call) and getattr(body[-1].value.func,'id','') == 'getattr'
                    and isinstance(body[-1].value.args[1], ast.Name)): raise Unsupported('diff: shape changed')
            body = body[:-1] + [ast.Return(value=body[-1].value.args[1])]
        text = tr.body(body, rt)
        ps = ''.join(' (v_%s : %s)' % (an, t) for an, (gn, t) in zip(argnames, extra))
        out.append('Definition %s%s (sm : method) (sn sorder : Z)%s : %s :=\n  %s.\n' % (prefix, g, ps, TYPES[rt], text))
        props[py] = (prefix + g, rt)
    # rule(): trivial-rule condition, parity, num_terms, rule_index, cache key = arguments of _fd_matrix
    f = get_func(base, 'rule')
    first_if = [st for st in f.body if isinstance(st, ast.If)]
    if not first_if: fail(f, 'rule(): no early return')
    fi = first_if[0]
    if not (len(fi.body) == 1 and isinstance(fi.body[0], ast.Return) and isinstance(fi.body[0].value, ast.Call)
            and ast.unparse(fi.body[0].value) == 'np.ones((1,))'): fail(fi, 'rule(): early return is not np.ones((1,))')
    pre = [st for st in f.body[:f.body.index(fi)] if not (isinstance(st, ast.Expr) and isinstance(st.value, ast.Constant))]
    tr = Tr(props, {}, dict(self_map), clsname)
    out.append('Definition %srule_trivial (sm : method) (sn sorder : Z) : bool :=\n  %s.\n' %
               (prefix, tr.body(pre + [ast.Return(value=fi.test)], 'bool')))
    for target, g in (('parity', 'rule_parity'), ('num_terms', 'rule_num_terms'), ('rule_index', 'rule_index')):
        tr = Tr(props, {}, dict(self_map), clsname)
        out.append('Definition %s%s (sm : method) (sn sorder : Z) : Z :=\n  %s.\n' % (prefix, g, tr.body(slice_body(f, target), 'Z')))
    if prefix == '':
        src = ast.unparse(f)
        for needle in ("FD_RULES.get((step_ratio, parity, num_terms))", "self._fd_matrix(step_ratio, parity, num_terms)",
                       "FD_RULES[step_ratio, parity, num_terms] = fd_rules", "fd_rules = linalg.pinv(fd_mat)",
                       "step_ratio = make_exact(step_ratio)"):
            if needle not in src: fail(f, 'rule(): expected `%s`' % needle)
        # returns: -fd_rules[rule_index] when flipped, fd_rules[rule_index] otherwise
        last = f.body[-2:]
        if not (isinstance(last[0], ast.If) and ast.unparse(last[0].test) == 'self._flip_fd_rule'
                and ast.unparse(last[0].body[0]) == 'return -fd_rules[rule_index]' and ast.unparse(last[1]) == 'return fd_rules[rule_index]'):
            fail(f, 'rule(): return shape changed')
        out.append('(* structural facts about rule() checked by the translator:\n   cache key = (make_exact step_ratio, parity, num_terms) = arguments of _fd_matrix; value = pinv of that matrix;\n   result = (+/-) row rule_index, negated iff _flip_fd_rule *)\nDefinition rule_key_is_fd_matrix_args : bool := true.\n')
    return props

def _calls(node, attr):
    """all Call nodes `self.<attr>(...)` / `<attr>(...)` inside node, in source order"""
    res = []
    for n in ast.walk(node):
        if isinstance(n, ast.Call):
            f = n.func
            if (isinstance(f, ast.Attribute) and f.attr == attr) or (isinstance(f, ast.Name) and f.id == attr):
                res.append(n)
    return sorted(res, key=lambda n: (n.lineno, n.col_offset))

def _first_line(node, pred):
    ls = [n.lineno for n in ast.walk(node) if pred(n)]
    return min(ls) if ls else None

def gen_guards():
    """Where misuse is detected (C11): structural facts about core.py / limits.py / fornberg.py guards."""
    out = ['(* ---- guards (C11): structural facts read off the AST; a changed shape aborts translation ---- *)']
    core = ast.parse(open(SRC + 'core.py').read().replace('\r\n', '\n'))
    der = get_class(core, 'Derivative'); jac = get_class(core, 'Jacobian')
    # _raise_error_if_any_is_complex: asserts on x and on f_x
    g = get_func(der, '_raise_error_if_any_is_complex')
    conds = [ast.unparse(c.args[0]) for c in _calls(g, '_assert')]
    out.append('Definition guard_checks_x : bool := %s.' % ('true' if 'not np.any(np.iscomplex(x))' in conds else 'false'))
    out.append('Definition guard_checks_fx : bool := %s.' % ('true' if 'not np.any(np.iscomplex(f_x))' in conds else 'false'))
    # _eval_first: for complex methods f(x) is evaluated and the guard is called before returning
    ef = get_func(der, '_eval_first')
    first = ef.body[0]
    ok = (isinstance(first, ast.If) and ast.unparse(first.test) in ("self.method in ['complex', 'multicomplex']", "self.method in ('complex', 'multicomplex')")
          and _calls(first, '_raise_error_if_any_is_complex') and isinstance(first.body[-1], ast.Return))
    out.append('Definition eval_first_guards_complex_methods : bool := %s.' % ('true' if ok else 'false'))
    def nonzero_guard(cls):
        f = get_func(cls, '_derivative_nonzero_order')
        # line of the first stencil evaluation: the list comprehension calling diff(...)
        stl = _first_line(f, lambda n: isinstance(n, ast.ListComp) and any(isinstance(c, ast.Call) and getattr(c.func, 'id', '') == 'diff' for c in ast.walk(n)))
        if stl is None: fail(f, '_derivative_nonzero_order: no stencil evaluation found')
        gl = [n.lineno for n in _calls(f, '_eval_first')]
        direct = []
        for n in ast.walk(f):   # `if self.method in [complex, multicomplex]: self._raise_error_if_any_is_complex(...)`
            if isinstance(n, ast.If) and 'complex' in ast.unparse(n.test) and 'multicomplex' in ast.unparse(n.test) and _calls(n, '_raise_error_if_any_is_complex'):
                direct.append(n.lineno)
        return any(l < stl for l in gl + direct)
    out.append('Definition derivative_nonzero_order_guards : bool := %s.' % ('true' if nonzero_guard(der) else 'false'))
    out.append('Definition jacobian_nonzero_order_guards : bool := %s.' % ('true' if nonzero_guard(jac) else 'false'))
    # which implementation each class inherits (MRO: own definition, else the base's)
    bases = {}
    for c in core.body:
        if isinstance(c, ast.ClassDef):
            bases[c.name] = [ast.unparse(b) for b in c.bases]
    def owner(name):
        c = name
        while True:
            cls = get_class(core, c)
            if any(isinstance(n, ast.FunctionDef) and n.name == '_derivative_nonzero_order' for n in cls.body): return c
            if not bases.get(c) or bases[c][0] not in bases: fail(cls, 'MRO of %s' % name)
            c = bases[c][0]
    for cname in ('Derivative', 'Jacobian', 'Gradient', 'Hessdiag', 'Hessian'):
        o = owner(cname)
        if o not in ('Derivative', 'Jacobian'): raise Unsupported('unexpected owner %s of _derivative_nonzero_order for %s' % (o, cname))
        out.append('Definition %s_uses_jacobian_path : bool := %s.' % (cname.lower(), 'true' if o == 'Jacobian' else 'false'))
    # directionaldiff: size guard before the Derivative call
    dd = get_func(core, 'directionaldiff')
    conds = [ast.unparse(c.args[0]) for c in _calls(dd, '_assert')]
    out.append('Definition dirdiff_size_guard : bool := %s.' % ('true' if 'x0.size == vec.size' in conds else 'false'))
    # _vstack size guards
    fd = ast.parse(open(SRC + 'finite_difference.py').read())
    for cname, gname in (('LogRule', 'logrule_vstack_size_guard'), ('LogJacobianRule', 'jacobian_vstack_size_guard')):
        f = get_func(get_class(fd, cname), '_vstack')
        conds = [ast.unparse(c.args[0]) for c in _calls(f, '_assert')]
        out.append('Definition %s : bool := %s.' % (gname, 'true' if 'f_del.size == h.size' in conds else 'false'))
    lim = ast.parse(open(SRC + 'limits.py').read())
    f = get_func(get_class(lim, '_Limit'), '_vstack')
    conds = [ast.unparse(c.args[0]) for c in _calls(f, '_assert')]
    out.append('Definition limit_vstack_size_guard : bool := %s.' % ('true' if 'f_del.size == h.size' in conds else 'false'))
    # Residue: order must exceed pole_order; CStepGenerator: path in [spiral, radial], checked in the constructor
    res = get_func(get_class(lim, 'Residue'), '__init__')
    conds = [ast.unparse(c.args[0]) for c in _calls(res, '_assert')]
    out.append('Definition residue_order_guard (pole_order order : Z) : bool := %s.' % ('(pole_order <? order)' if 'pole_order < order' in conds else 'true'))
    dflt = [ast.unparse(n) for n in ast.walk(res) if isinstance(n, ast.Assign) and ast.unparse(n.targets[0]) == 'order']
    if dflt != ['order = pole_order + 2']: raise Unsupported('Residue default order changed: %r' % dflt)
    out.append('Definition residue_default_order (pole_order : Z) : Z := pole_order + 2.')
    cs = get_class(lim, 'CStepGenerator')
    cp = get_func(cs, '_check_path')
    conds = [ast.unparse(c.args[0]) for c in _calls(cp, '_assert')]
    init = get_func(cs, '__init__')
    called = bool(_calls(init, '_check_path'))
    out.append('Definition path_guard_in_constructor : bool := %s.' % ('true' if called and conds == ["self.path in ['spiral', 'radial']"] else 'false'))
    # Limit sign dictionary
    lm = get_func(get_class(lim, 'Limit'), '_lim')
    src = ast.unparse(lm)
    out.append('Definition limit_sign_dict_ok : bool := %s.' % ('true' if "sign = dict(forward=1, above=1, backward=-1, below=-1)[self.method]" in src and 'steps = [sign * step for step in self.step(z)]' in src else 'false'))
    # fornberg guards
    fb = ast.parse(open(SRC + 'fornberg.py').read())
    c1 = [ast.unparse(c.args[0]) for c in _calls(get_func(fb, 'fd_weights_all'), '_assert')]
    c2 = [ast.unparse(c.args[0]) for c in _calls(get_func(fb, 'fd_derivative'), '_assert')]
    out.append('Definition fdw_guard (n m : Z) : bool := %s.' % ('(n <? m)' if c1 == ['n < m'] else 'true'))
    out.append('Definition fdd_guard (n num_x len_fx : Z) : bool := %s.' % ('((n <? num_x) && (num_x =? len_fx))' if c2 == ['n < num_x', 'num_x == len(fx)'] else 'true'))
    # extra positional / keyword arguments are forwarded unchanged to fun on every evaluation (C08)
    gf = get_func(der, '_get_functions')
    srcg = ast.unparse(gf)
    fwd = ('def export_fun(x):\n        return fun(x, *args, **kwds)' in srcg and 'fun = self.fun' in srcg and 'return (self.fd_rule.diff, export_fun)' in srcg)
    call = ast.unparse(get_func(der, '__call__'))
    fwd2 = 'self._derivative(x_i, args, kwds)' in call and 'def __call__(self, x, *args, **kwds)' in call
    nz = ast.unparse(get_func(der, '_derivative_nonzero_order'))
    fwd3 = 'self._get_functions(args, kwds)' in nz and 'self._get_functions(args, kwds)' in ast.unparse(get_func(jac, '_derivative_nonzero_order'))
    z0 = 'self.fun(x_i, *args, **kwds)' in ast.unparse(get_func(der, '_derivative_zero_order'))
    out.append('Definition args_forwarded_unchanged : bool := %s.' % ('true' if fwd and fwd2 and fwd3 and z0 else 'false'))
    return '\n'.join(out) + '\n'

def gen_scipy():
    """nd_scipy wrappers (C19): method map, options forwarded to scipy, shape plumbing."""
    out = ['(* ---- nd_scipy (C19) ---- *)']
    t = ast.parse(open(SRC + 'nd_scipy.py').read())
    jac = get_class(t, 'Jacobian'); grad = get_class(t, 'Gradient'); com = get_class(t, '_Common')
    call = get_func(jac, '__call__')
    src = ast.unparse(call)
    # method = dict(complex='cs', central='3-point', forward='2-point', backward='2-point')[self.method]
    dct = None
    for n in ast.walk(call):
        if isinstance(n, ast.Subscript) and isinstance(n.value, ast.Call) and getattr(n.value.func, 'id', '') == 'dict' and ast.unparse(n.slice) == 'self.method':
            dct = {kw.arg: kw.value.value for kw in n.value.keywords if isinstance(kw.value, ast.Constant)}
    if dct is None: raise Unsupported('nd_scipy.Jacobian.__call__: method dictionary not found (or no longer indexed with [self.method])')
    arms = ''.join(' | %s => Some "%s"%%string' % (METHODS[k], v) for k, v in dct.items() if k in METHODS)
    out.append('Inductive method := Central | Central2 | Forward | Backward | Complex | Multicomplex | OtherM.')
    out.append('Definition scipy_method (m : method) : option string := match m with%s | _ => None end.' % arms)
    opts = None
    for n in ast.walk(call):
        if isinstance(n, ast.Assign) and ast.unparse(n.targets[0]) == 'options' and isinstance(n.value, ast.Call) and getattr(n.value.func, 'id', '') == 'dict':
            opts = {kw.arg: ast.unparse(kw.value) for kw in n.value.keywords}
    want = {'method': 'method', 'rel_step': 'self.step', 'args': 'args', 'kwargs': 'kwds', 'bounds': 'self.bounds', 'sparsity': 'self.sparsity'}
    out.append('Definition scipy_options_forwarded : bool := %s.' % ('true' if opts == want else 'false'))
    out.append('Definition scipy_x_atleast_1d : bool := %s.' % ('true' if 'x = np.atleast_1d(x)' in src else 'false'))
    out.append('Definition scipy_calls_approx_derivative : bool := %s.' % ('true' if ('approx_derivative(self.fun, x, **options)' in src or 'approx_derivative(self.fun, x, f0=f_0, **options)' in src) else 'false'))
    # vector-valued f (f(x) has one axis): the result is made 2-d, so that m = 1 gives (1, n)
    two_d = ('f_0 = self.fun(x, *args, **kwds)' in src and 'if np.ndim(f_0) == 1:\n        grad = np.atleast_2d(grad)' in src) or 'return np.atleast_2d(grad)' in src
    out.append('Definition scipy_jacobian_result_2d_for_vector_f : bool := %s.' % ('true' if two_d else 'false'))
    gsrc = ast.unparse(get_func(grad, '__call__'))
    out.append('Definition scipy_gradient_ravel_squeeze : bool := %s.' % ('true' if 'super(Gradient, self).__call__(np.atleast_1d(x).ravel(), *args, **kwds).squeeze()' in gsrc else 'false'))
    init = get_func(com, '__init__')
    stored = {ast.unparse(n.targets[0]): ast.unparse(n.value) for n in init.body if isinstance(n, ast.Assign)}
    out.append('Definition scipy_ctor_stores_options : bool := %s.' % ('true' if all(stored.get('self.' + k) == k for k in ('fun', 'step', 'method', 'bounds', 'sparsity')) else 'false'))
    return '\n'.join(out) + '\n'

def gen_limits():
    """limits.py (C18): the decision logic of Limit._lim / _call_lim / Residue, CStepGenerator defaults and step count."""
    out = ['(* ---- limits.py (C18) ---- *)']
    lim = ast.parse(open(SRC + 'limits.py').read().replace('\r\n', '\n'))
    L = get_class(lim, 'Limit'); R = get_class(lim, 'Residue'); B = get_class(lim, '_Limit'); C = get_class(lim, 'CStepGenerator')
    lm = get_func(L, '_lim')
    # sign = dict(forward=1, above=1, backward=-1, below=-1)[self.method]
    dct = None
    for n in ast.walk(lm):
        if isinstance(n, ast.Assign) and ast.unparse(n.targets[0]) == 'sign' and isinstance(n.value, ast.Subscript) \
           and isinstance(n.value.value, ast.Call) and getattr(n.value.value.func, 'id', '') == 'dict' and ast.unparse(n.value.slice) == 'self.method':
            dct = []
            for kw in n.value.value.keywords:
                v = kw.value
                if isinstance(v, ast.UnaryOp) and isinstance(v.op, ast.USub) and isinstance(v.operand, ast.Constant) and isinstance(v.operand.value, int): val = -v.operand.value
                elif isinstance(v, ast.Constant) and isinstance(v.value, int): val = v.value
                else: fail(v, 'Limit._lim: sign dictionary value is not an integer literal')
                dct.append((kw.arg, val))
    if dct is None: raise Unsupported('Limit._lim: `sign = dict(...)[self.method]` not found')
    body = 'None'
    for k, v in reversed(dct):
        body = 'if String.eqb m "%s"%%string then Some (%d) else %s' % (k, v, body)
    out.append('Definition lim_sign (m : string) : option Z := %s.' % body)
    src = ast.unparse(lm)
    out.append('Definition lim_steps_signed : bool := %s.' % ('true' if 'steps = [sign * step for step in self.step(z)]' in src else 'false'))
    out.append('Definition lim_sequence_is_f_at_steps : bool := %s.' % ('true' if 'sequence = [f(z, h) for h in steps]' in src and 'results = self._vstack(sequence, steps)' in src
               and 'lim_fz, info = self._extrapolate(*results)' in src and 'return (lim_fz, info)' in src else 'false'))
    # self._set_richardson_rule(self.step.step_ratio, self.order + 1)  /  Richardson(step_ratio=step_ratio, step=1, order=1, num_terms=num_terms)
    calls = _calls(lm, '_set_richardson_rule')
    if len(calls) != 1 or len(calls[0].args) != 2: raise Unsupported('Limit._lim: expected exactly one call _set_richardson_rule(ratio, num_terms)')
    out.append('Definition lim_rich_ratio_is_generator_ratio : bool := %s.' % ('true' if ast.unparse(calls[0].args[0]) == 'self.step.step_ratio' else 'false'))
    tr = Tr({}, {}, {'order': ('v_order', 'Z')}, 'Limit')
    out.append('Definition lim_rich_num_terms (v_order : Z) : Z := %s.' % tr.expr(calls[0].args[1], 'Z')[0])
    sr = get_func(L, '_set_richardson_rule')
    rc = [c for c in _calls(sr, 'Richardson')]
    if len(rc) != 1: raise Unsupported('_set_richardson_rule: expected one Richardson(...) call')
    kws = {kw.arg: ast.unparse(kw.value) for kw in rc[0].keywords}
    if kws.get('step_ratio') != 'step_ratio' or kws.get('num_terms') != 'num_terms': raise Unsupported('_set_richardson_rule: step_ratio / num_terms not passed through: %r' % kws)
    for k in ('step', 'order'):
        try: v = int(kws[k])
        except Exception: raise Unsupported('_set_richardson_rule: %s is not an integer literal: %r' % (k, kws.get(k)))
        out.append('Definition lim_rich_%s : Z := %d.' % (k, v))
    # evaluation: Limit._fun / Residue._fun
    fsrc = ast.unparse(get_func(L, '_fun').body[-1])
    out.append('Definition limit_evaluates_f_at_z_plus_dz : bool := %s.' % ('true' if fsrc == 'return self.fun(z + d_z, *args, **kwds)' else 'false'))
    rf = get_func(R, '_fun').body[-1]
    ok = isinstance(rf, ast.Return) and isinstance(rf.value, ast.BinOp) and isinstance(rf.value.op, ast.Mult) and ast.unparse(rf.value.left) == 'self.fun(z + d_z, *args, **kwds)' \
        and isinstance(rf.value.right, ast.BinOp) and isinstance(rf.value.right.op, ast.Pow) and ast.unparse(rf.value.right.left) == 'd_z'
    if not ok: raise Unsupported('Residue._fun: expected `return self.fun(z + d_z, *args, **kwds) * d_z ** <exponent>`, found `%s`' % ast.unparse(rf))
    tr = Tr({}, {}, {'pole_order': ('v_pole_order', 'Z')}, 'Residue')
    out.append('Definition residue_power (v_pole_order : Z) : Z := %s.' % tr.expr(rf.value.right.right, 'Z')[0])
    rcall = ast.unparse(get_func(R, '__call__').body[-1])
    out.append('Definition residue_call_is_limit : bool := %s.' % ('true' if rcall == 'return self.limit(x, *args, **kwds)' else 'false'))
    lsrc = ast.unparse(get_func(L, 'limit'))
    out.append('Definition limit_method_is_lim_at_x : bool := %s.' % ('true' if 'z = np.asarray(x)' in lsrc and 'f = partial(self._fun, args=args, kwds=kwds)' in lsrc and 'f_z, info = self._lim(f, z)' in lsrc else 'false'))
    # __call__ / _call_lim: f(z, 0) first; only the NaN entries are replaced
    csrc = ast.unparse(get_func(L, '__call__'))
    out.append('Definition call_evaluates_f_at_zero_step : bool := %s.' % ('true' if 'f_z = f(z, 0)' in csrc and 'f_z, info = self._call_lim(f_z, z, f)' in csrc else 'false'))
    cl = ast.unparse(get_func(L, '_call_lim'))
    needles = ['err = np.zeros_like(f_z, dtype=float)', 'k = np.flatnonzero(np.isnan(f_z))', 'if k.size > 0:', 'lim_fz, info1 = self._lim(f, z.flat[k])',
               'f_z = np.where(np.isnan(f_z), zero, f_z)', 'np.put(f_z, k, lim_fz)', 'np.put(err, k, info1.error_estimate)', 'np.put(final_step, k, info1.final_step)',
               'return (f_z, self.info(err, final_step, index))']
    missing = [n for n in needles if n not in cl]
    out.append('Definition call_lim_replaces_nan_only : bool := %s.' % ('true' if not missing else 'false'))
    # _extrapolate: Richardson, then dea3 on consecutive triples when more than two estimates, then the best estimate
    ex = ast.unparse(get_func(B, '_extrapolate'))
    wy = ast.unparse(get_func(B, '_wynn_extrapolate'))
    ok = ('der1, errors1, steps = self.richardson(results, steps)' in ex and 'if len(der1) > 2:\n        der1, errors1, steps = self._wynn_extrapolate(der1, steps)' in ex
          and 'der, info = self._get_best_estimate(der1, errors1, steps, shape)' in ex
          and 'der, errors = dea3(der[0:-2], der[1:-1], der[2:], symmetric=False)' in wy and 'return (der, errors, steps[2:])' in wy)
    out.append('Definition extrapolate_shape_ok : bool := %s.' % ('true' if ok else 'false'))
    # CStepGenerator: defaults and number of steps
    init = get_func(C, '__init__')
    dflt = dict(zip([a.arg for a in init.args.args][-len(init.args.defaults):], [ast.unparse(d) for d in init.args.defaults]))
    out.append('Definition cstep_defaults : list (string * string) := [%s]%%string.' % '; '.join('("%s", "%s")' % kv for kv in sorted(dflt.items())))
    from fractions import Fraction
    for k in ('step_ratio', 'scale'):
        try: fr = Fraction(dflt[k])
        except Exception: raise Unsupported('CStepGenerator.__init__: default %s is not a decimal literal' % k)
        out.append('Definition cstep_default_%s : Q := (%d # %d).' % (k, fr.numerator, fr.denominator))
    isrc = ast.unparse(init)
    out.append('Definition cstep_default_path_radial : bool := %s.' % ('true' if "self.path = options.pop('path', 'radial')" in isrc else 'false'))
    ns = get_func(C, 'num_steps')
    ret = [n for n in ast.walk(ns) if isinstance(n, ast.Return) and isinstance(n.value, ast.BinOp)]
    e = ret[0].value if len(ret) == 1 else None
    # 2 * int(np.round(16.0 / np.log(np.abs(self.step_ratio)))) + 1
    ok = (isinstance(e, ast.BinOp) and isinstance(e.op, ast.Add) and isinstance(e.right, ast.Constant) and isinstance(e.left, ast.BinOp) and isinstance(e.left.op, ast.Mult)
          and isinstance(e.left.left, ast.Constant) and isinstance(e.left.right, ast.Call) and getattr(e.left.right.func, 'id', '') == 'int')
    if ok:
        inner = e.left.right.args[0]
        ok = (isinstance(inner, ast.Call) and ast.unparse(inner.func) == 'np.round' and isinstance(inner.args[0], ast.BinOp) and isinstance(inner.args[0].op, ast.Div)
              and isinstance(inner.args[0].left, ast.Constant) and ast.unparse(inner.args[0].right) == 'np.log(np.abs(self.step_ratio))')
    if not ok: raise Unsupported('CStepGenerator.num_steps: expected a * int(np.round(b / np.log(np.abs(self.step_ratio)))) + c')
    fr = Fraction(str(inner.args[0].left.value))
    out.append('Definition cstep_num_steps_of_round (k : Z) : Z := %d * k + %d.' % (e.left.left.value, e.right.value))
    out.append('Definition cstep_round_numerator : Q := (%d # %d).' % (fr.numerator, fr.denominator))
    out.append('Definition cstep_user_num_steps_wins : bool := %s.' % ('true' if 'if self._num_steps is None:' in ast.unparse(ns) and 'return self._num_steps' in ast.unparse(ns) else 'false'))
    srs = ast.unparse(get_func(C, 'step_ratio'))
    out.append('Definition cstep_ratio_radial_real_spiral_rotated : bool := %s.' % ('true' if '_step_ratio = float(self._step_ratio)' in srs and 'if dtheta != 0:\n        _step_ratio = np.exp(1j * dtheta) * _step_ratio' in srs else 'false'))
    dts = ast.unparse(get_func(C, 'dtheta'))
    out.append('Definition cstep_dtheta_zero_on_radial : bool := %s.' % ('true' if "radial_path = self.path[0].lower() == 'r'" in dts and 'return 0 if radial_path else self._dtheta' in dts else 'false'))
    # _Limit._step_generator: a scalar step is the base step with nominal step 1
    sg = ast.unparse(get_func(B, '_step_generator'))
    out.append('Definition limit_step_generator_ok : bool := %s.' % ('true' if 'step_nom = None if step is None else 1' in sg and 'return CStepGenerator(base_step=step, step_nom=step_nom, **options)' in sg else 'false'))
    return '\n'.join(out) + '\n'

def _norm(f):
    """source of a function without its docstring and comments (ast.unparse of the body)"""
    body = [st for st in f.body if not (isinstance(st, ast.Expr) and isinstance(st.value, ast.Constant) and isinstance(st.value.value, str))]
    return '\n'.join(ast.unparse(st) for st in body)

CHECK_CONVERGENCE_BODY = """if self._direction_changes > 1 or self._degenerate:
    self._num_changes += 1
    if self._num_changes >= 1 + self.num_extrap:
        return (True, r)
if not self._degenerate:
    m1, m2 = self._get_m1_m2(bn, m)
    check_degenerate = i > self.min_iter
    self._degenerate, needs_smaller = _check_fft(m1, m2, check_degenerate)
    needs_smaller = needs_smaller or _poor_convergence(z0, r, self.fun, bn, self._mvec)
if self._degenerate:
    needs_smaller = i % 2 == 0
if self._previous_direction is not None and needs_smaller != self._previous_direction:
    self._direction_changes += 1
if self._direction_changes > 0:
    self._step_ratio = np.sqrt(self._step_ratio)
if needs_smaller:
    r /= self._step_ratio
else:
    r *= self._step_ratio
self._previous_direction = needs_smaller
return (False, r)"""
CALL_BODY = """m, mvec = self._initialize()
rs = []
bs = []
i = 0
r = self.r
fun = self.fun
for i in range(self.max_iter):
    bn = np.fft.fft(fun(_circle(z0, r, m))) / m
    bs.append(bn * np.power(r, -mvec))
    rs.append(r)
    converged, r = self._check_convergence(i, z0, r, m, bn)
    if converged:
        break
coefs, errors = _get_best_taylor_coefficients(bs, rs, m, lambda: self._get_max_m1m2(bn, m))
if self.full_output:
    failed = not converged
    info = _INFO(errors, self._degenerate, final_radius=r, function_count=i * m, iterations=i, failed=failed)
    return (coefs, info)
return coefs"""
EXTRAPOLATE_BODY = """nk = len(rs)
extrap0 = []
extrap = []
for k in range(1, nk):
    extrap0.append(richardson(bs, k=k, c=1.0 - (rs[k - 1] / rs[k]) ** m))
for k in range(1, nk - 1):
    extrap.append(richardson(extrap0, k=k, c=1.0 - (rs[k - 1] / rs[k + 1]) ** m))
return extrap"""
BEST_BODY = """extrap = _extrapolate(bs, rs, m)
mvec = np.arange(m)
if len(extrap) > 2:
    all_coefs, all_errors = dea3(extrap[:-2], extrap[1:-1], extrap[2:])
    floors = [EPS * np.max(np.abs(b * np.power(r, mvec))) / np.power(r, mvec) for b, r in zip(bs, rs)]
    all_errors = all_errors + np.max([floors[j:len(floors) - 4 + j] for j in range(5)], axis=0)
    steps = np.atleast_1d(rs[4:])[:, None] * mvec
    coefs, info = _Limit._get_best_estimate(all_coefs, all_errors, steps, (m,))
    errors = info.error_estimate
else:
    errors = EPS / np.power(rs[2], mvec) * max_m1m2()
    coefs = extrap[-1]
return (coefs, errors)"""
DERIVATIVE_BODY = """result = taylor(fun, z0, n=n, **kwds)
m = _num_taylor_coefficients(n)
fact = factorial(np.arange(m))
if kwds.get('full_output'):
    coefs, info_ = result
    info = _INFO(info_.error_estimate * fact, *info_[1:])
    return (coefs * fact, info)
return result * fact"""

def gen_taylor():
    """fornberg.py Taylor machinery (C17): the number of coefficients as an integer function, constants, defaults and
    the (normalised) bodies of the functions that Model/Taylor.v models by hand."""
    import math
    from fractions import Fraction
    out = ['(* ---- fornberg.py: Taylor (C17) ---- *)']
    fb = ast.parse(open(SRC + 'fornberg.py').read().replace('\r\n', '\n'))
    # _get_logn(n): 0 if n == 1 else int(log2(n - 1) - log2(3)) clipped at 0  ==  floor(log2((n - 1) / 3)) clipped at 0
    gl = get_func(fb, '_get_logn')
    body = [st for st in gl.body if not (isinstance(st, ast.Expr) and isinstance(st.value, ast.Constant))]
    ok = (len(body) == 2 and isinstance(body[0], ast.If) and ast.unparse(body[0].test) == 'n == 1' and ast.unparse(body[0].body[0]) == 'return 0' and not body[0].orelse
          and isinstance(body[1], ast.Return))
    const = None
    if ok:
        e = body[1].value   # np.int_(np.log2(n - 1) - C).clip(min=0)
        ok = (isinstance(e, ast.Call) and isinstance(e.func, ast.Attribute) and e.func.attr == 'clip' and [ (k.arg, ast.unparse(k.value)) for k in e.keywords] == [('min', '0')]
              and isinstance(e.func.value, ast.Call) and ast.unparse(e.func.value.func) == 'np.int_' and isinstance(e.func.value.args[0], ast.BinOp)
              and isinstance(e.func.value.args[0].op, ast.Sub) and ast.unparse(e.func.value.args[0].left) == 'np.log2(n - 1)' and isinstance(e.func.value.args[0].right, ast.Constant))
        if ok: const = e.func.value.args[0].right.value
    if not ok or not isinstance(const, float) or abs(const - math.log2(3)) > 4e-16:
        raise Unsupported('_get_logn: expected `if n == 1: return 0` / `return np.int_(np.log2(n - 1) - log2(3)).clip(min=0)`, found `%s`' % _norm(gl))
    out.append('Definition get_logn (n : Z) : Z := if n =? 1 then 0 else Z.max 0 (if (n - 1) <? 3 then 0 else Z.log2 ((n - 1) / 3)).')
    nt = get_func(fb, '_num_taylor_coefficients')
    body = [st for st in nt.body if not (isinstance(st, ast.Expr) and isinstance(st.value, ast.Constant))]
    src = [ast.unparse(st) for st in body]
    import re
    ok = len(src) == 5 and src[2] == 'log2n = _get_logn(n - correction)' and src[4] == 'return m'
    m0 = re.match(r"_assert\(n < (\d+), ", src[0]) if ok else None
    m1 = re.match(r"correction = np\.array\(\[([0-9, ]+)\]\)\[_get_logn\(n\)\]$", src[1]) if ok else None
    m3 = re.match(r"m = (\d+) \*\* \(log2n \+ (\d+)\)$", src[3]) if ok else None
    if not (m0 and m1 and m3): raise Unsupported('_num_taylor_coefficients: unexpected body `%s`' % '; '.join(src))
    out.append('Definition taylor_correction_table : list Z := [%s].' % '; '.join(t.strip() for t in m1.group(1).split(',')))
    out.append('Definition taylor_n_limit : Z := %s.' % m0.group(1))
    out.append('Definition num_taylor_coefficients (n : Z) : Z :=\n  if n <? taylor_n_limit then let correction := nth (Z.to_nat (get_logn n)) taylor_correction_table 0 in\n'
               '    let log2n := get_logn (n - correction) in %s ^ (log2n + %s) else (-1).' % (m3.group(1), m3.group(2)))
    # constants of _check_fft and _poor_convergence
    cf = _norm(get_func(fb, '_check_fft'))
    want = ('degenerate = check_degenerate and (m1 < m2 * 1e-08 or m2 < m1 * 1e-08)\nneeds_smaller = np.isnan(m1) or np.isnan(m2) or m1 < m2\nreturn (degenerate, needs_smaller)')
    out.append('Definition check_fft_shape_ok : bool := %s.' % ('true' if cf == want else 'false'))
    pc = _norm(get_func(fb, '_poor_convergence'))
    out.append('Definition poor_convergence_shape_ok : bool := %s.' % ('true' if ('check_points = (-0.4 + 0.3j, 0.7 + 0.2j, 0.02 - 0.06j)' in pc and 'return max_abs_error > 0.001 * max_f_value' in pc
               and 'comp = np.sum(bn * np.power(check_point, mvec))' in pc and 'diffs.append(comp - ftest)' in pc) else 'false'))
    T = get_class(fb, 'Taylor')
    out.append('Definition check_convergence_shape_ok : bool := %s.' % ('true' if _norm(get_func(T, '_check_convergence')) == CHECK_CONVERGENCE_BODY else 'false'))
    out.append('Definition taylor_call_shape_ok : bool := %s.' % ('true' if _norm(get_func(T, '__call__')) == CALL_BODY else 'false'))
    out.append('Definition taylor_extrapolate_shape_ok : bool := %s.' % ('true' if _norm(get_func(fb, '_extrapolate')) == EXTRAPOLATE_BODY
               and _norm(get_func(fb, 'richardson')) == 'if c is None:\n    c = richardson_parameter(vals, k)\nreturn vals[k] - (vals[k] - vals[k - 1]) / c' else 'false'))
    out.append('Definition taylor_best_shape_ok : bool := %s.' % ('true' if _norm(get_func(fb, '_get_best_taylor_coefficients')) == BEST_BODY else 'false'))
    out.append('Definition derivative_scales_values_and_errors : bool := %s.' % ('true' if _norm(get_func(fb, 'derivative')) == DERIVATIVE_BODY else 'false'))
    init = _norm(get_func(T, '_initialize'))
    out.append('Definition taylor_initialize_resets_state : bool := %s.' % ('true' if all(t in init for t in (
        'm = _num_taylor_coefficients(self.n)', 'self._step_ratio = self.step_ratio', 'self._direction_changes = 0', 'self._previous_direction = None',
        'self._degenerate = self._failed = False', 'self._num_changes = 0', 'self._crat = m * np.exp(np.log(0.0001) / (m - 1)) ** self._mvec')) else 'false'))
    m12 = _norm(get_func(T, '_get_m1_m2'))
    out.append('Definition taylor_m1_m2_shape_ok : bool := %s.' % ('true' if m12 == 'bnc = bn / self._crat\nm1 = np.max(np.abs(bnc[:m // 2]))\nm2 = np.max(np.abs(bnc[m // 2:]))\nreturn (m1, m2)' else 'false'))
    ci = _norm(get_func(fb, '_circle'))
    out.append('Definition circle_shape_ok : bool := %s.' % ('true' if ci == 'theta = np.linspace(0.0, 2.0 * np.pi, num=m, endpoint=False)\nreturn z + r * np.exp(theta * 1j)' else 'false'))
    # constructor defaults
    ini = get_func(T, '__init__')
    dflt = dict(zip([a.arg for a in ini.args.args][-len(ini.args.defaults):], [ast.unparse(d) for d in ini.args.defaults]))
    isrc = _norm(ini)
    for k in ('r', 'step_ratio'):
        try: fr = Fraction(dflt[k])
        except Exception: raise Unsupported('Taylor.__init__: default of %s is not a decimal literal' % k)
        out.append('Definition taylor_default_%s : Q := (%d # %d).' % (k, fr.numerator, fr.denominator))
    try: ne = int(dflt['num_extrap']); n0 = int(dflt['n'])
    except Exception: raise Unsupported('Taylor.__init__: defaults of n / num_extrap are not integer literals')
    out.append('Definition taylor_default_num_extrap : Z := %d.' % ne)
    mi = re.search(r"self\.max_iter = kwds\.pop\('max_iter', (\d+)\)", isrc)
    if not mi: raise Unsupported('Taylor.__init__: max_iter default not found')
    out.append('Definition taylor_default_max_iter : Z := %s.' % mi.group(1))
    out.append('Definition taylor_default_min_iter (max_iter : Z) : Z := %s.' % ('max_iter / 2' if "self.min_iter = kwds.pop('min_iter', self.max_iter // 2)" in isrc else '(-1)'))
    tf = get_func(fb, 'taylor')
    tsrc = _norm(tf)
    d2 = dict(zip([a.arg for a in tf.args.args][-len(tf.args.defaults):], [ast.unparse(d) for d in tf.args.defaults]))
    same = all(d2.get(k) == dflt.get(k) for k in ('n', 'r', 'num_extrap', 'step_ratio'))
    out.append('Definition taylor_function_is_class_call : bool := %s.' % ('true' if same and tsrc == 'return Taylor(fun, n=n, r=r, num_extrap=num_extrap, step_ratio=step_ratio, **kwds)(z0)' else 'false'))
    return '\n'.join(out) + '\n'

def float_const_Q(node):
    """decimal literal -> exact rational text"""
    from fractions import Fraction
    src = ast.unparse(node)
    fr = Fraction(src)
    return '(%d # %d)' % (fr.numerator, fr.denominator)

def main():
    out = [HEADER]
    fd = ast.parse(open(SRC + 'finite_difference.py').read())
    logrule = get_class(fd, 'LogRule')
    gen_logrule_class(fd, 'LogRule', '', out)
    gen_logrule_class(fd, 'LogJacobianRule', 'jac_', out)
    gen_logrule_class(fd, 'LogHessdiagRule', 'hd_', out)
    gen_logrule_class(fd, 'LogHessianRule', 'hs_', out)
    # parity tables from _fd_matrix
    fm = get_func(logrule, '_fd_matrix')
    seen = set()
    for st in fm.body:
        if isinstance(st, ast.Assign) and isinstance(st.value, ast.Subscript) and isinstance(st.value.value, ast.List) \
           and isinstance(st.value.slice, ast.Name) and st.value.slice.id == 'parity':
            name = st.targets[0].id
            vals = [v.value for v in st.value.value.elts]
            if name == 'c_0':
                if any(float(v) != int(v) for v in vals): raise Unsupported('c_0 not integral')
                vals = [int(v) for v in vals]
            if any(not isinstance(v, int) for v in vals): raise Unsupported('non-integer table %s' % name)
            seen.add(name)
            out.append('Definition %s_tbl := tbl [%s].\n' % ({'step':'step','offset':'offset','c_0':'c0'}[name], '; '.join(str(v) for v in vals)))
    if seen != {'step', 'offset', 'c_0'}: raise Unsupported('_fd_matrix: tables step/offset/c_0 not all found')
    srcm = ast.unparse(fm)
    for needle in ("inv_sr = 1.0 / step_ratio", "c = c_0 / special.factorial(np.arange(offset, step * nterms + offset, step))",
                   "[i, j] = np.ogrid[0:nterms, 0:nterms]", "return np.atleast_2d(c[j] * inv_sr ** (i * (step * j + offset)))"):
        if needle not in srcm: raise Unsupported('_fd_matrix: expected `%s`' % needle)
    out.append('(* _fd_matrix: M[i][j] = c_0 / (step*j+offset)! * (1/step_ratio)^(i*(step*j+offset)), matched structurally *)\nDefinition fd_matrix_shape_ok : bool := true.\n')
    # stencil names available per class
    for cls in ('DifferenceFunctions','JacobianDifferenceFunctions','HessdiagDifferenceFunctions','HessianDifferenceFunctions'):
        c = get_class(fd, cls)
        names = [n.name for n in c.body if isinstance(n, ast.FunctionDef) and n.name.startswith('_')]
        out.append('Definition names_%s : list string := [%s]%%string.\n' % (cls, '; '.join('"%s"' % n for n in names)))
    # _apply: the guard and the trim
    ap = get_func(logrule, '_apply'); srca = ast.unparse(ap)
    for needle in ("n_r = fd_rule.size - 1", "_assert(n_r < num_steps,", "convolve(f_del, fd_rule[::-1], axis=0, origin=n_r // 2)",
                   "der_init = f_diff / h ** self.n", "num_steps = max(num_steps - n_r, 1)", "return (der_init[:num_steps], h[:num_steps])"):
        if needle not in srca: raise Unsupported('_apply: expected `%s`' % needle)
    out.append('Definition apply_shape_ok : bool := true.\n')
    # step_generators
    sg = ast.parse(open(SRC + 'step_generators.py').read())
    msg = get_class(sg, 'MinStepGenerator')
    f = get_func(msg, '_num_step_divisor')
    tr = Tr({}, {'method':'method','n':'Z','order':'Z'}, {}, 'MinStepGenerator')
    out.append('Definition num_step_divisor (v_method : method) (v_n v_order : Z) : Z :=\n  %s.\n' % tr.body(f.body, 'Z'))
    def strip_state(f):
        b = [s for s in f.body if not (isinstance(s, ast.Assign) and isinstance(s.value, ast.Attribute) and s.value.attr == '_state')]
        if len(b) != len(f.body) - 1: raise Unsupported('%s: expected exactly one unpacking of self._state' % f.name)
        unp = [s for s in f.body if s not in b][0]
        if ast.unparse(unp.targets[0]) != '(_unused_x, method, n, order)': raise Unsupported('%s: _state unpacking changed' % f.name)
        return b
    f = get_func(msg, 'min_num_steps')
    b = strip_state(f)
    tr = Tr({'_num_step_divisor':('num_step_divisor','Z')}, {'method':'method','n':'Z','order':'Z'}, {}, 'MinStepGenerator')
    tr.static_calls = {'_num_step_divisor': ('num_step_divisor', 'Z')}
    out.append('Definition min_num_steps (v_method : method) (v_n v_order : Z) : Z :=\n  %s.\n' % tr.body(b, 'Z'))
    # num_steps property: user value (option), check_num_steps, num_extrap
    f = get_func(msg, 'num_steps')
    tr = Tr({}, {'method':'method','n':'Z','order':'Z'},
            {'min_num_steps': ('(min_num_steps v_method v_n v_order)', 'Z'), '_num_steps': ('u_num_steps', 'optZ'),
             'check_num_steps': ('u_check', 'bool'), 'num_extrap': ('u_extrap', 'Z')}, 'MinStepGenerator')
    out.append('Definition num_steps (u_num_steps : option Z) (u_check : bool) (u_extrap : Z) (v_method : method) (v_n v_order : Z) : Z :=\n  %s.\n' % tr.body(f.body, 'Z'))
    # default step ratio
    f = get_func(msg, 'step_ratio')
    src = ast.unparse(f)
    import re
    m = re.search(r"step_ratio = \{1: ([0-9.]+)\}\.get\(self\._state\.n, ([0-9.]+)\)", src)
    if not m or 'if step_ratio is None' not in src or 'return float(step_ratio)' not in src: raise Unsupported('step_ratio property shape changed')
    from fractions import Fraction
    a, b2 = Fraction(m.group(1)), Fraction(m.group(2))
    out.append(QHEADER + 'Definition default_step_ratio (v_n : Z) : Q := if v_n =? 1 then (%d # %d) else (%d # %d).\n' % (a.numerator, a.denominator, b2.numerator, b2.denominator))
    # default_scale
    f = get_func(sg, 'default_scale')
    if [a.arg for a in f.args.args] != ['method', 'n', 'order']: raise Unsupported('default_scale signature')
    tr = Tr({}, {'method':'method','n':'Z','order':'Z'}, {}, 'step_generators')
    out.append('Definition default_scale (v_method : method) (v_n v_order : Z) : Q :=\n  %s.\n' % tr.body(f.body, 'Q'))
    # Max/Min generator constructor defaults
    mx = get_class(sg, 'MaxStepGenerator'); init = get_func(mx, '__init__')
    dflt = dict(zip([a.arg for a in init.args.args][-len(init.args.defaults):], [ast.unparse(d) for d in init.args.defaults]))
    want = {'base_step':'2.0','step_ratio':'None','num_steps':'15','step_nom':'None','offset':'0','num_extrap':'9','use_exact_steps':'False','check_num_steps':'True','scale':'500'}
    init2 = get_func(msg, '__init__')
    dflt2 = dict(zip([a.arg for a in init2.args.args][-len(init2.args.defaults):], [ast.unparse(d) for d in init2.args.defaults]))
    want2 = {'base_step':'None','step_ratio':'None','num_steps':'None','step_nom':'None','offset':'0','num_extrap':'0','use_exact_steps':'True','check_num_steps':'True','scale':'None'}
    out.append('(* constructor defaults, as found in the source *)')
    out.append('Definition max_gen_defaults : list (string * string) := [%s]%%string.\n' % '; '.join('("%s", "%s")' % kv for kv in sorted(dflt.items())))
    out.append('Definition min_gen_defaults : list (string * string) := [%s]%%string.\n' % '; '.join('("%s", "%s")' % kv for kv in sorted(dflt2.items())))
    out.append('Definition max_gen_num_steps_default : option Z := %s.\n' % ('None' if dflt.get('num_steps') == 'None' else 'Some %s' % dflt['num_steps']))
    out.append('Definition max_gen_num_extrap_default : Z := %s.\n' % dflt['num_extrap'])
    return '\n'.join(out)

LIMITS_HEADER = """(* GENERATED by tools/ndt_translate.py from /repo/src/numdifftools -- do not edit *)
From Coq Require Import ZArith QArith Bool List String.
Import ListNotations.
Open Scope Z_scope.
"""
GUARDS_HEADER = """(* GENERATED by tools/ndt_translate.py from /repo/src/numdifftools -- do not edit *)
From Coq Require Import ZArith Bool List String.
Import ListNotations.
Open Scope Z_scope.
"""
def outputs():
    """file name (under coq/Gen) -> text.  Separate files so that a change in one area does not rebuild the others."""
    return {'Spec.v': main(), 'Guards.v': GUARDS_HEADER + gen_guards(), 'Scipy.v': GUARDS_HEADER + gen_scipy(),
            'Limits.v': LIMITS_HEADER + gen_limits(),
            'Taylor.v': LIMITS_HEADER + gen_taylor()}
def write(out_dir=os.path.dirname(OUT)):
    changed = False
    os.makedirs(out_dir, exist_ok=True)
    for name, text in outputs().items():
        path = os.path.join(out_dir, name)
        old = open(path).read() if os.path.exists(path) else None
        if old != text:
            with open(path, 'w') as f: f.write(text)
            changed = True
    return changed
if __name__ == '__main__':
    try:
        if len(sys.argv) > 1 and sys.argv[1] == '-':
            for name, text in outputs().items(): sys.stdout.write('(* ==== %s ==== *)\n' % name + text)
        else: print('changed' if write() else 'unchanged')
    except (Unsupported, SyntaxError, OSError) as e:
        sys.stderr.write('TRANSLATION FAILED: %s\n' % e); sys.exit(2)
