#!/bin/sh
# usage: verify_seeded.sh <worktree> <PID>  -- confirms: demo exit 0 unpatched / 1 patched; passing-test set unchanged.
# (uses checkout/apply, never `git stash`: the stash stack is shared between worktrees)
WT=$1; PID=$2
cd $WT || exit 2
git -C $WT checkout -q -- src
PYTHONPATH=$WT/src /venv/bin/python $WT/demo_$PID.py > /tmp/seed_${PID}_demo0.log 2>&1; echo "demo unpatched exit=$?"
PYTHONPATH=$WT/src /venv/bin/python -m pytest -q -p no:cacheprovider --timeout=900 --continue-on-collection-errors -rA src 2>&1 | grep "^PASSED" | sort > /tmp/seed_${PID}_pass0.txt
git -C $WT apply $WT/patch.diff || exit 3
PYTHONPATH=$WT/src /venv/bin/python $WT/demo_$PID.py > /tmp/seed_${PID}_demo1.log 2>&1; echo "demo patched exit=$?"
PYTHONPATH=$WT/src /venv/bin/python -m pytest -q -p no:cacheprovider --timeout=900 --continue-on-collection-errors -rA src 2>&1 | grep "^PASSED" | sort > /tmp/seed_${PID}_pass1.txt
echo "passed before: $(wc -l < /tmp/seed_${PID}_pass0.txt) after: $(wc -l < /tmp/seed_${PID}_pass1.txt) diff lines: $(diff /tmp/seed_${PID}_pass0.txt /tmp/seed_${PID}_pass1.txt | wc -l)"
