#!/bin/sh
# runs every property's check on the current /repo tree; usage: tools/fullpass.sh [tier] [seed ...]
cd /verif
tier=${1:-quick}; shift
seeds=${*:-0}
for s in $seeds; do
  for i in 01 02 03 04 05 06 07 08 09 10 11 12 13 14 15 16 17 18 19; do
    VERIF_SEED=$s ./check C$i --tier $tier 2>&1 | grep -E '^(OK|VIOLATION|KNOWN|BROKEN|FAIL|Traceback)' 
  done
done
