#!/bin/sh
# Parallel lanes for rehearsals with seeded changes: each lane is a private copy of the repository's working tree (a git worktree of
# /repo's HEAD) and of /verif (with its Coq build), under /var/tmp/ndtlanes -- outside /repo and /verif.  The registered checks never use
# lanes; they always run in /verif against /repo.
#   tools/lanes.sh make N        create lanes 1..N
#   tools/lanes.sh run  L PATCH PROP [tier]   apply PATCH in lane L, run the check of PROP there, restore; prints the result lines
#   tools/lanes.sh sync          refresh the lanes' copy of /verif/tools and /verif/coq sources (after editing the checks)
#   tools/lanes.sh drop          remove all lanes
BASE=/var/tmp/ndtlanes
cmd=$1; shift
case "$cmd" in
  make)
    mkdir -p $BASE
    for i in $(seq 1 $1); do
      [ -d $BASE/$i/repo ] || git -C /repo worktree add --detach $BASE/$i/repo HEAD >/dev/null 2>&1
      mkdir -p $BASE/$i/verif
      rsync -a --delete --exclude .git --exclude replays --exclude evidence /verif/ $BASE/$i/verif/
      mkdir -p $BASE/$i/verif/replays $BASE/$i/verif/evidence
    done ;;
  sync)
    for d in $BASE/*/; do
      rsync -a --exclude .git --exclude build --exclude replays --exclude evidence --exclude '*.vo' --exclude '*.vok' --exclude '*.vos' --exclude '*.glob' --exclude '.*.aux' --exclude 'Gen/*.v' /verif/ $d/verif/
    done ;;
  run)
    L=$1; PATCH=$2; PROP=$3; TIER=${4:-quick}
    R=$BASE/$L/repo; V=$BASE/$L/verif
    git -C $R checkout -q -- . ; git -C $R apply $PATCH || { echo "PATCH DOES NOT APPLY"; exit 2; }
    (cd $V && NDT_REPO=$R NDT_SRC=$R/src/numdifftools/ ./check $PROP --tier $TIER 2>&1 | grep -v '^KNOWN' | tail -4)
    git -C $R checkout -q -- . ;;
  drop)
    for d in $BASE/*/; do git -C /repo worktree remove --force $d/repo 2>/dev/null; done
    rm -rf $BASE ;;
esac
