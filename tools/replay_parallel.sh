#!/bin/sh
# replays every stored seeded change against the quick check of its property, in parallel lanes (tools/lanes.sh); prints one line per change.
# usage: tools/replay_parallel.sh [N lanes, default 6]    (creates the lanes if needed, syncs the current checks into them)
N=${1:-6}
cd /verif
[ -d /var/tmp/ndtlanes/$N ] || tools/lanes.sh make $N
tools/lanes.sh sync
i=0
for d in /verif/seeded/*/; do
  L=$(( i % N + 1 )); i=$((i+1))
  echo "$d" >> /var/tmp/ndtlanes/queue.$L
done
for L in $(seq 1 $N); do
  ( while read d; do
      name=$(basename $d); pid=$(echo $name | cut -c1-3)
      out=$(tools/lanes.sh run $L $d/patch.diff $pid quick 2>&1 | tail -1)
      echo "$name: $out"
    done < /var/tmp/ndtlanes/queue.$L; rm -f /var/tmp/ndtlanes/queue.$L ) &
done
wait
