"""C14 - streaming epsilon algorithms: EpsAlg matches the Shanks table; Dea is total."""
from fractions import Fraction

import numpy as np

from .core import blit, coq_eval_many, flist, flit, parse_count_fail, proof_stage

HDR = '''Require Import NDT.Arith.Ops NDT.Arith.OpsFloat NDT.Model.Dea NDT.Model.EpsAlg.
From Coq Require Import PrimFloat List Bool. Import ListNotations.
Definition THR := 0x1.a36e2eb1c432dp-14%float.
Definition SMALL := 0x1.9b604aaaca626p-200%float.   (* 1.0e-60 *)
Definition BIG := 0x1.3e9e4e4c2f344p+199%float.     (* 1.0e+60 *)
Fixpoint runD (s : @st float) (xs : list float) (exp : list (float*float*nat*nat)) : bool * @st float :=
  match xs with [] => (true, s) | x :: xt =>
    let '(s', r, a) := Dea.call OpsF THR s x in
    if negb (ok s') then (match exp with [] => true | _ => false end, s')
    else match exp with [] => (false, s') | (r0,a0,n0,nr0) :: et =>
      if feq r r0 && feq a a0 && Nat.eqb (n_ s') n0 && Nat.eqb (nres s') nr0 then runD s' xt et else (false, s') end end.
Definition checkD (c : nat * list float * list (float*float*nat*nat) * bool * list float) : bool :=
  let '(limexp, xs, exp, raised, final) := c in
  let '(okk, s) := runD (Dea.init OpsF limexp) xs exp in
  okk && Bool.eqb (negb (ok s)) raised && (raised || leqf (tab s) final).
Fixpoint runE (t : list float) (xs exp : list float) : bool :=
  match xs, exp with [], [] => true | x :: xt, e :: et => let '(t', r) := EpsAlg.call OpsF SMALL BIG t x in feq r e && runE t' xt et | _, _ => false end.
Definition checkE (c : list float * list float * list float) : bool :=
  let '(xs, exp, final) := c in runE [] xs exp && leqf (EpsAlg.run OpsF SMALL BIG xs) final.
'''


def gen_seq(rng, kind, length):
    L, a, q = rng.normal(), rng.normal(), rng.uniform(-0.95, 0.95)
    q2, q3 = rng.uniform(-0.5, 0.5), rng.uniform(-0.3, 0.3)
    out = []
    for k in range(length):
        if kind == 0:
            s = L + a * q ** k
        elif kind == 1:
            s = rng.normal()
        elif kind == 2:
            s = L + a * q ** k + 0.3 * q2 ** k
        elif kind == 3:
            s = L if k > 4 else L + a * q ** k          # eventually constant
        elif kind == 4:
            s = float(rng.integers(0, 3))               # small integers: ties
        elif kind == 5:
            s = 1.0 + 0.5 ** k                          # exactly representable geometric
        elif kind == 6:
            s = L + a * q ** k + 0.3 * q2 ** k + 0.1 * q3 ** k
        elif kind == 8:
            # middle term small compared with the differences: |e_1 (1/d2 - 1/d1)| sweeps the decade around the irregular-behaviour
            # threshold 1e-4 that Dea shares with dea3 (m - 1, m, m + 1/2, ...: limit m + 1)
            if k == 0:
                m8 = float(rng.choice([-1, 1]) * 10.0 ** rng.uniform(-5.5, -2.5))
            s = m8 + 1.0 - 2.0 * 0.5 ** k
        else:
            s = float(np.sum(1.0 / np.arange(1, k + 2) ** 2))   # slowly convergent series
        out.append(float(s))
    return out


def run_dea(limexp, seq):
    from numdifftools.extrapolation import Dea
    d = Dea(limexp=limexp)
    outs, raised = [], None
    for s in seq:
        try:
            r, ab = d(s)
            outs.append((float(r), float(ab), int(d._n), int(d._nres)))
        except (IndexError, ValueError) as ex:
            raised = ex
            break
    return d, outs, raised


def exact_eps_table(seq):
    """Wynn's table in exact rationals; returns per term the entry of highest even order, or None when a difference vanishes."""
    tab, out, bad = [], [], False
    for n, s in enumerate(seq):
        tab.append(Fraction(s))
        if n > 0 and not bad:
            aux2 = Fraction(0)
            for i in range(n, 0, -1):
                aux1, aux2 = aux2, tab[i - 1]
                delta = tab[i] - aux2
                if delta == 0:
                    bad = True
                    break
                tab[i - 1] = aux1 + 1 / delta
        out.append(None if bad else tab[n % 2])
    return out


def search(ctx, N):
    """Property-level exploration on the implementation alone."""
    from numdifftools.extrapolation import Dea, EpsAlg, dea3
    rng = ctx.rng(5)
    eps = 2.0 ** -52
    found = 0
    seen_cls = set()
    orig_violation = ctx.violation

    def once(key, what, replay):   # one report per class of failure (first, i.e. usually shortest, input)
        cls = key.split(':')[0]
        if cls in seen_cls:
            return False
        seen_cls.add(cls)
        return orig_violation(cls, what, replay)
    ctx_violation = once
    for k in range(N):
        limexp = int(rng.integers(3, 61)) if k % 2 else int(rng.integers(3, 9))
        kind = int(rng.integers(0, 10))
        length = int(rng.integers(1, 201)) if k % 4 == 0 else int(rng.integers(3, 60))
        seq = gen_seq(rng, kind, length)
        if k % 5 == 4:
            # the same sequence at a very large magnitude (1e45 .. 1e57, far from overflow; scaling by a power of two is exact): nothing in Dea may
            # carry an absolute scale
            sc = 2.0 ** int(rng.integers(150, 191))
            if all(np.isfinite(s) and abs(s) < 1e6 for s in seq):
                seq = [float(s * sc) for s in seq]
        d, outs, raised = run_dea(limexp, seq)
        ctx.count(1)
        if raised is not None:
            # shrink: shortest prefix that raises
            key = 'dea-raises:limexp=%d:kind=%d' % (limexp, kind)
            if ctx_violation(key, 'Dea(limexp=%d) raises %s at term %d of a %d-term sequence' % (limexp, type(raised).__name__, len(outs) + 1, len(seq)),
                             {'limexp': limexp, 'sequence': seq[:len(outs) + 1], 'raises': repr(raised),
                              'how': 'd = Dea(limexp=%d); [d(s) for s in sequence]' % limexp}):
                found += 1
        else:
            for i, (r, ab, n_, nres) in enumerate(outs):
                if not (np.isfinite(r) and np.isfinite(ab)):
                    if ctx_violation('dea-nonfinite:limexp=%d:kind=%d' % (limexp, kind), 'Dea(limexp=%d) returns non-finite (%r, %r) at term %d for finite input' % (limexp, r, ab, i + 1),
                                     {'limexp': limexp, 'sequence': seq[:i + 1], 'result': r, 'abserr': ab}):
                        found += 1
                    break
                if i >= 2 and not ab >= 5 * eps * abs(r):
                    if ctx_violation('dea-floor', 'Dea(limexp=%d): abserr %r < 5*eps*|result| (%r) at term %d' % (limexp, ab, 5 * eps * abs(r), i + 1),
                                     {'limexp': limexp, 'sequence': seq[:i + 1], 'result': r, 'abserr': ab}):
                        found += 1
                    break
            if len(seq) >= 3:
                r3, a3 = dea3(seq[0], seq[1], seq[2])
                r, ab = outs[2][0], outs[2][1]
                # same value on the first three terms (dea3's TINY and Dea's HUGE sentinel differ by O(eps) relative at most)
                if not abs(r - float(r3[0])) <= 64 * eps * max(abs(r), abs(float(r3[0])), abs(seq[1])) * (1 + abs(1 / ((seq[2] - seq[1]) or 1)) * 0):
                    cond = abs(r - seq[1]) + abs(seq[1])
                    if not abs(r - float(r3[0])) <= 1e-9 * cond:
                        if ctx_violation('dea-vs-dea3', 'Dea and dea3 disagree on the first three terms: %r vs %r' % (r, float(r3[0])), {'sequence': seq[:3]}):
                            found += 1
        # EpsAlg against the exact table
        if kind in (0, 2, 6) and length <= 40:
            e = EpsAlg()
            vals = [float(e(s)) for s in seq[:12]]
            ex = exact_eps_table(seq[:12])
            kk = {0: 1, 2: 2, 6: 3}[kind]
            idx = 2 * kk   # after 2k+1 terms the limit is recovered (from exactly rounded inputs: compare with the exact table)
            if idx < len(vals) and ex[idx] is not None:
                # conditioning-free check at low order only: 3 terms
                v, x3 = vals[2], ex[2]
                if x3 is not None and abs(Fraction(v) - x3) > Fraction(1, 2 ** 30) * (abs(x3) + abs(Fraction(seq[1]))):
                    if ctx_violation('epsalg-table', 'EpsAlg after 3 terms returns %r, exact epsilon table entry is %r' % (v, float(x3)), {'sequence': seq[:3]}):
                        found += 1


def epsalg_scales(ctx, N):
    """EpsAlg on L + sum_{i<=k} a_i q_i^n scaled by powers of two (exact in binary64): every value returned is the entry of highest even
    order of the exact-rational table, and the limit is recovered from 2k+1 terms, at every scale (no table difference vanishes)."""
    from numdifftools.extrapolation import EpsAlg
    rng = ctx.rng(15)
    for t in range(N):
        k = int(rng.integers(1, 5))
        qs = [Fraction(int(v), 16) for v in rng.choice([-11, -9, -7, -5, -3, 3, 5, 7, 9, 11, 13], size=k, replace=False)]
        As = [Fraction(int(rng.integers(1, 9)) * int(rng.choice([-1, 1])), 4) for _ in range(k)]
        L = Fraction(int(rng.integers(-8, 9)), 4)
        scale = Fraction(1, 2 ** int(rng.choice([0, 20, 45, 60, 100, 150])))
        exact_terms = [scale * (L + sum(a * q ** n for a, q in zip(As, qs))) for n in range(2 * k + 1)]
        seq = [float(v) for v in exact_terms]
        e = EpsAlg()
        vals = [float(e(s)) for s in seq]
        ex = exact_eps_table(seq)
        ctx.count(1)
        desc = {'k': k, 'scale': float(scale), 'sequence': seq, 'returned': vals}
        cond = max(abs(Fraction(v)) for v in seq) or Fraction(1)
        for i in range(0, len(seq), 2):          # after an odd number of terms the highest even-order entry is epsilon_{i}^{(0)}
            if ex[i] is None:
                break
            # (the k = 4 table is ill-conditioned: a few digits are lost legitimately; the failures of interest are gross)
            if abs(Fraction(vals[i]) - ex[i]) > Fraction(1, 10 ** 3) * abs(ex[i]) + Fraction(1, 10 ** 5) * cond:
                ctx.violation('epsalg-table', 'EpsAlg after %d terms of a sequence of magnitude %.3g returns %r, the exact epsilon table entry of order %d is %r' % (
                    i + 1, float(cond), vals[i], i, float(ex[i])), desc)
                return


def run(ctx):
    from numdifftools.extrapolation import EpsAlg
    proof_stage(ctx, 'Props/C14.v')
    rng = ctx.rng(1)
    N = ctx.n(600, 6000)
    cases, descs = [], []
    nraised = 0
    for c in range(N):
        limexp = int(rng.integers(3, 14)) if c % 3 else int(rng.integers(3, 61))
        kind = c % 8
        length = int(rng.integers(3, 40)) if c % 5 else int(rng.integers(40, 201))
        seq = gen_seq(rng, kind, length)
        d, outs, raised = run_dea(limexp, seq)
        nraised += raised is not None
        final = [float(v) for v in d.epstab]
        steps = '[' + ';'.join('(%s,%s,%d%%nat,%d%%nat)' % (flit(r), flit(ab), n, nr) for r, ab, n, nr in outs) + ']'
        cases.append('(%d%%nat, %s, %s, %s, %s)' % (limexp, flist(seq[:len(outs) + (1 if raised else 0)]), steps, blit(raised is not None),
                                                   flist(final) if raised is None else '[]'))
        descs.append({'limexp': limexp, 'kind': kind, 'sequence': seq[:len(outs) + 1] if raised else seq, 'raised': repr(raised) if raised else None,
                      'outputs': outs[-3:]})
        resets = sum(1 for i in range(1, len(outs)) if outs[i][2] <= outs[i - 1][2] and outs[i - 1][2] > 2)
        ctx.count(1, ('dea', kind, min(limexp, 14) // 4, 'raised' if raised else ('reset' if resets else 'plain'), length > 40))
        if c < 2:
            ctx.sample({'limexp': limexp, 'sequence': seq[:6], 'first_outputs': outs[:4]})
    ecases, edescs = [], []
    for c in range(ctx.n(300, 3000)):
        kind = c % 8
        seq = gen_seq(rng, kind, int(rng.integers(1, 30)))
        if c % 10 == 9:
            seq[int(rng.integers(0, len(seq)))] = seq[0]     # provoke vanishing differences (the 1e-60 guard)
        e = EpsAlg()
        outs = [float(e(s)) for s in seq]
        ecases.append('(%s, %s, %s)' % (flist(seq), flist(outs), flist([float(v) for v in e.epstab])))
        edescs.append({'sequence': seq, 'outputs': outs})
        guard = any(abs(v) == 1e60 for v in e.epstab)
        ctx.count(1, ('epsalg', kind, 'guard' if guard else 'plain', len(seq) > 10))
    items = []
    for s in range(0, len(cases), 100):
        items.append(('C14_D%d' % s, HDR + 'Definition cases := [\n' + ';\n'.join(cases[s:s + 100]) + '].\nEval vm_compute in (List.length cases, failing checkD cases).\n'))
    for s in range(0, len(ecases), 300):
        items.append(('C14_E%d' % s, HDR + 'Definition cases := [\n' + ';\n'.join(ecases[s:s + 300]) + '].\nEval vm_compute in (List.length cases, failing checkE cases).\n'))
    res = coq_eval_many(items)
    nbad = 0
    for name, (rc, out) in sorted(res.items()):
        s = int(name.split('_')[1][1:])
        isD = name.split('_')[1][0] == 'D'
        pr = parse_count_fail(out)
        if rc != 0 or pr is None:
            ctx.brk('correspondence', 'case file %s could not be evaluated' % name, out[-1500:])
            continue
        for i in pr[1]:
            nbad += 1
            if nbad <= 5:
                ctx.brk('correspondence', ('Dea' if isD else 'EpsAlg') + ' disagrees with its model (result, abserr, n, nres, final table, or raising)',
                        (descs if isD else edescs)[s + i])
    ctx.cov['traces_validated_against_impl'] = len(cases) + len(ecases)
    ctx.cov['correspondence_disagreements'] = nbad
    ctx.cov['dea_histories_that_raised'] = nraised
    # the property itself says Dea never raises: a raising history is a failing input whatever the model says
    search(ctx, ctx.n(400, 6000) if (nraised or ctx.broken or ctx.thorough) else 120)
    epsalg_scales(ctx, ctx.n(60, 600))
    ctx.assumptions += ['EpsAlg theorems hold over any field with the 1e-60 guard idealised away (no table difference vanishes); Dea theorems over R / any Ops',
                        'finiteness of Dea\'s outputs for finite float input and agreement with dea3/EpsAlg outside the guards are explored (sweep), not proved']
    return ctx.finish(level='proof', checker_cmd='make -C coq Props/C14.vo + coqc build/cases/C14_*.v',
                      rule='8 sequence families (1-3 geometric transients, random, eventually constant, small integers, exact 1+2^-k, partial sums) x limexp 3..60 x lengths 3..200, fed term by term; '
                           'every call compared (result, abserr, _n, _nres) and the final table; distinct = (algorithm, family, limexp class, raised/reset/plain, long) combinations hit')
