"""Shared machinery of the checks (DESIGN 3.6).

Everything here is run by /venv/bin/python with PYTHONPATH=/repo/src so that
`import numdifftools` is the working tree of /repo.
"""
import fcntl
import hashlib
import json
import os
import re
import subprocess
import sys
import time
from fractions import Fraction

VERIF = os.path.dirname(os.path.dirname(os.path.dirname(os.path.abspath(__file__))))
COQ = os.path.join(VERIF, 'coq')
BUILD = os.path.join(VERIF, 'build')
# one directory of generated case files per (property, tier): two checks running at the same time must not remove each other's files
_P = next((a_ for a_ in sys.argv[1:] if re.fullmatch(r'C\d\d', a_)), 'misc')
_T = 'thorough' if (any('thorough' in a_ for a_ in sys.argv[1:]) or os.environ.get('VERIF_TIER') == 'thorough') else 'quick'
CASES = os.path.join(BUILD, 'cases', '%s-%s' % (_P, _T))
REPO = os.environ.get('NDT_REPO', '/repo')
SRC = os.path.join(REPO, 'src', 'numdifftools')
COQFLAGS = ['-q', '-w', '-all', '-Q', COQ, 'NDT']
NPROC = int(os.environ.get('VERIF_JOBS', '16'))


def sh(cmd, timeout=600, cwd=None, env=None, input=None):
    """Run under `timeout -s KILL` (a diverging tactic ignored SIGTERM while prototyping)."""
    full = ['timeout', '-s', 'KILL', str(int(timeout))] + list(cmd)
    p = subprocess.run(full, cwd=cwd, env=env, input=input, stdout=subprocess.PIPE, stderr=subprocess.STDOUT, text=True)
    return p.returncode, p.stdout


class Lock:
    def __enter__(self):
        os.makedirs(BUILD, exist_ok=True)
        self.f = open(os.path.join(BUILD, '.lock'), 'w')
        fcntl.flock(self.f, fcntl.LOCK_EX)
        return self

    def __exit__(self, *a):
        fcntl.flock(self.f, fcntl.LOCK_UN)
        self.f.close()


# ---------------------------------------------------------------- literals
def flit(x):
    """binary64 -> Coq primitive-float literal (bit exact)."""
    x = float(x)
    if x != x:
        return 'nan'
    if x == float('inf'):
        return 'infinity'
    if x == float('-inf'):
        return 'neg_infinity'
    h = x.hex()
    return '(%s)%%float' % h


def flist(v):
    return '[' + '; '.join(flit(a) for a in v) + ']'


def fllist(m):
    return '[' + '; '.join(flist(r) for r in m) + ']'


def qlit(fr):
    fr = Fraction(fr)
    return '(%d # %d)%%Q' % (fr.numerator, fr.denominator)


def zlit(z):
    z = int(z)
    return '(%d)%%Z' % z


def blit(b):
    return 'true' if b else 'false'


METHOD = {'central': 'Central', 'central2': 'Central2', 'forward': 'Forward', 'backward': 'Backward',
          'complex': 'Complex', 'multicomplex': 'Multicomplex'}


# ---------------------------------------------------------------- translator and build
def translate():
    with Lock():       # (the generated files are read by make: never rewrite them while another check builds)
        rc, out = sh([sys.executable, os.path.join(VERIF, 'tools', 'ndt_translate.py')], timeout=60)
    return rc == 0, out.strip()


def ensure_makefile():
    mk = os.path.join(COQ, 'Makefile')
    proj = os.path.join(COQ, '_CoqProject')
    if not os.path.exists(mk) or os.path.getmtime(mk) < os.path.getmtime(proj):
        sh(['coq_makefile', '-f', '_CoqProject', '-o', 'Makefile'], cwd=COQ, timeout=60)


def coq_make(targets, timeout=1500):
    """Full .vo build of the given targets (and their cones).  Returns (ok, log)."""
    with Lock():
        ensure_makefile()
        rc, out = sh(['make', '-j%d' % NPROC, '-k'] + list(targets), cwd=COQ, timeout=timeout)
    return rc == 0, out


def broken_from_log(log):
    """Names of files / first error lines from a failed make."""
    errs = []
    for m in re.finditer(r'File "\./([^"]+)", line (\d+), characters [^\n]*\n(Error:[^\n]*(?:\n[^\n]+){0,3})', log):
        errs.append({'file': m.group(1), 'line': int(m.group(2)), 'error': m.group(3)[:400]})
    return errs


def theorem_at(file_rel, line):
    """Name of the Theorem/Lemma enclosing `line` of coq/<file_rel>."""
    try:
        src = open(os.path.join(COQ, file_rel)).read().split('\n')
    except OSError:
        return None
    for i in range(min(line, len(src)) - 1, -1, -1):
        m = re.match(r'\s*(Theorem|Lemma|Corollary|Example|Fact|Definition|Fixpoint)\s+([A-Za-z0-9_\']+)', src[i])
        if m:
            return m.group(2)
    return None


def cone(prop_file_rel):
    """Transitive local dependencies (coq/<...>.v) of a Props file, from coqdep."""
    with Lock():
        ensure_makefile()
    rc, out = sh(['coqdep', '-Q', '.', 'NDT'] + [l.strip() for l in open(os.path.join(COQ, '_CoqProject')) if l.strip().endswith('.v')],
                 cwd=COQ, timeout=120)
    deps = {}
    for line in out.split('\n'):
        if ':' not in line:
            continue
        lhs, rhs = line.split(':', 1)
        tg = [t for t in lhs.split() if t.endswith('.vo')]
        if not tg:
            continue
        v = tg[0][:-1]
        deps[v] = [d[:-1] for d in rhs.split() if d.endswith('.vo')]
    seen, todo = [], [prop_file_rel]
    while todo:
        f = todo.pop()
        if f in seen:
            continue
        seen.append(f)
        todo.extend(deps.get(f, []))
    return seen


STMT = re.compile(r'^\s*(?:Local\s+|Global\s+)?(Theorem|Lemma|Corollary|Example|Fact|Proposition)\s+([A-Za-z0-9_\']+)', re.M)


def count_obligations(files):
    n, done = 0, 0
    for f in files:
        src = open(os.path.join(COQ, f)).read()
        k = len(STMT.findall(src))
        n += k
        if os.path.exists(os.path.join(COQ, f + 'o')) and os.path.getmtime(os.path.join(COQ, f + 'o')) >= os.path.getmtime(os.path.join(COQ, f)):
            done += k
    return n, done


def hygiene():
    """No Admitted/admit/Axiom/... anywhere in the development.  Returns list of offending lines."""
    bad = []
    pat = re.compile(r'\b(Admitted|admit|Axiom|Axioms|Parameter|Parameters|Conjecture|Hypothesis|Hypotheses|Variable|Variables|Admit Obligations|bypass_check|native_compute)\b|Unset Guard|type-in-type|impredicative-set')
    for root, _, files in os.walk(COQ):
        for fn in files:
            if not fn.endswith('.v'):
                continue
            p = os.path.join(root, fn)
            depth = 0
            for i, line in enumerate(open(p), 1):
                code = re.sub(r'\(\*.*?\*\)', '', line)
                if re.match(r'\s*(Section|Module)\s', code):
                    depth += 1
                if re.match(r'\s*End\s', code):
                    depth = max(0, depth - 1)
                m = pat.search(code)
                if m:
                    w = m.group(0)
                    if w in ('Variable', 'Variables', 'Hypothesis', 'Hypotheses') and depth > 0:
                        continue
                    if w == 'Parameter' and re.search(r'\(\*|Arguments', line):
                        continue
                    bad.append('%s:%d: %s' % (os.path.relpath(p, COQ), i, line.strip()))
    return bad


def coq_eval(name, text, timeout=600):
    """Compile one generated file under build/cases; returns (rc, stdout)."""
    os.makedirs(CASES, exist_ok=True)
    p = os.path.join(CASES, name + '.v')
    with open(p, 'w') as f:
        f.write(text)
    return sh(['coqc'] + COQFLAGS + [p], timeout=timeout, cwd=CASES)


def coq_eval_many(items, timeout=600):
    """items: list of (name, text).  Runs up to NPROC coqc in parallel.  Returns {name: (rc, out)}."""
    os.makedirs(CASES, exist_ok=True)
    # case files of earlier runs of the same property are stale: remove them (keeps build/cases small)
    prefixes = {name.split('_')[0] for name, _ in items}
    for fn in os.listdir(CASES):
        if fn.split('_')[0] in prefixes or fn.lstrip('.').split('_')[0] in prefixes:
            try:
                os.remove(os.path.join(CASES, fn))
            except OSError:
                pass
    procs, res, pending = [], {}, list(items)
    def start(name, text):
        p = os.path.join(CASES, name + '.v')
        with open(p, 'w') as f:
            f.write(text)
        return name, subprocess.Popen(['timeout', '-s', 'KILL', str(int(timeout)), 'coqc'] + COQFLAGS + [p], cwd=CASES,
                                      stdout=subprocess.PIPE, stderr=subprocess.STDOUT, text=True)
    while pending or procs:
        while pending and len(procs) < NPROC:
            procs.append(start(*pending.pop(0)))
        name, pr = procs.pop(0)
        out, _ = pr.communicate()
        res[name] = (pr.returncode, out)
    return res


def parse_count_fail(out):
    """Parse `= (N, [a; b; c])` printed by `Eval vm_compute in (length cases, failing ...)`.  None if absent."""
    flat = ' '.join(out.split())
    m = re.search(r'= \((\d+)(?:%nat)?, \[([^\]]*)\]\)', flat)
    if not m:
        return None
    ids = [int(t.replace('%nat', '')) for t in m.group(2).split(';') if t.strip()]
    return int(m.group(1)), ids


def print_assumptions(module, thms):
    text = 'Require Import NDT.%s.\n' % module + ''.join('Print Assumptions %s.\n' % t for t in thms)
    rc, out = coq_eval('assm_' + module.replace('.', '_'), text, timeout=300)
    res, cur = {}, None
    axioms = set()
    blocks = re.split(r'\n(?=Closed under the global context|Axioms:)', '\n' + out)
    k = 0
    for b in blocks:
        b = b.strip()
        if not b:
            continue
        if k < len(thms):
            res[thms[k]] = b
            k += 1
        if b.startswith('Axioms:'):
            for m in re.finditer(r'^([A-Za-z0-9_.\']+)\s*:', b[len('Axioms:'):], re.M):
                axioms.add(m.group(1))
    return rc == 0 and k == len(thms), res, sorted(axioms)


def theorems_of(props_rel):
    return [m.group(2) for m in STMT.finditer(open(os.path.join(COQ, props_rel)).read())]


# ---------------------------------------------------------------- known findings / reporting
def known_findings():
    p = os.path.join(VERIF, 'known_findings.json')
    if not os.path.exists(p):
        return []
    return json.load(open(p)).get('findings', [])


class Ctx:
    """State of one check run."""
    def __init__(self, prop, tier, seed):
        self.prop, self.tier, self.seed = prop, tier, seed
        self.t0 = time.time()
        self.broken = []        # list of dicts {kind, what, detail}
        self.violations = []    # list of dicts {key, what, replay}
        self.cov = {'evaluations': 0, 'distinct_nontrivial': 0, 'samples': [], 'trusted_base': [], 'rule': ''}
        self.assumptions = []
        self.distinct = set()
        self.notes = []
        self.known_printed = set()

    @property
    def thorough(self):
        return self.tier == 'thorough'

    def n(self, quick, thorough):
        return thorough if self.thorough else quick

    def rng(self, salt=0):
        import numpy as np
        return np.random.default_rng([self.seed, salt])

    def count(self, n=1, tag=None):
        self.cov['evaluations'] += n
        if tag is not None:
            self.distinct.add(tag)

    def sample(self, s, cap=6):
        if len(self.cov['samples']) < cap:
            self.cov['samples'].append(s)

    def brk(self, kind, what, detail=None):
        self.broken.append({'kind': kind, 'what': what, 'detail': detail})

    def violation(self, key, what, replay):
        """A concrete failing input.  `key` identifies it for known_findings.json."""
        for kf in known_findings():
            if kf.get('property') == self.prop and kf.get('status') == 'known' and kf.get('key') == key:
                if key not in self.known_printed:
                    print('KNOWN-FINDING: property=%s %s' % (self.prop, kf.get('what', what)))
                    self.known_printed.add(key)
                return False
        if any(v['key'] == key for v in self.violations):
            return False            # one report per identifying key
        self.violations.append({'key': key, 'what': what, 'replay': replay})
        return True

    def finish(self, level='proof', checker_cmd='', rule=''):
        """Print VIOLATION lines, write evidence, return exit code."""
        rc = 0
        os.makedirs(os.path.join(VERIF, 'replays'), exist_ok=True)
        for kf in known_findings():     # every listed (unrepaired) finding of this property is announced on every run
            if kf.get('property') == self.prop and kf.get('status') == 'known' and kf.get('key') not in self.known_printed:
                print('KNOWN-FINDING: property=%s %s' % (self.prop, kf.get('what', '')))
                self.known_printed.add(kf.get('key'))
        if self.broken and not self.violations:
            # a proof obligation / the tie no longer checks and the search found no failing input
            body = {'property': self.prop, 'no_failing_input_found': True, 'broken': self.broken}
            h = hashlib.sha1(json.dumps(body, sort_keys=True, default=str).encode()).hexdigest()[:10]
            path = os.path.join(VERIF, 'replays', '%s-%s.json' % (self.prop, h))
            json.dump(body, open(path, 'w'), indent=1, default=str)
            print('VIOLATION property=%s replay=%s no-failing-input-found' % (self.prop, path))
            rc = 1
        for v in self.violations:
            body = {'property': self.prop, 'key': v['key'], 'what': v['what'], 'replay': v['replay'], 'broken': self.broken}
            h = hashlib.sha1(json.dumps(body, sort_keys=True, default=str).encode()).hexdigest()[:10]
            path = os.path.join(VERIF, 'replays', '%s-%s.json' % (self.prop, h))
            json.dump(body, open(path, 'w'), indent=1, default=str)
            print('VIOLATION property=%s replay=%s' % (self.prop, path))
            rc = 1
        self.cov['distinct_nontrivial'] = len(self.distinct)
        if rule:
            self.cov['rule'] = rule
        if checker_cmd:
            self.cov['checker_cmd'] = checker_cmd.replace('build/cases/', 'build/cases/%s-%s/' % (_P, _T))
        ev = {'property_id': self.prop, 'tier': self.tier, 'seed': int(self.seed), 'level': level,
              'coverage': self.cov, 'assumptions': self.assumptions, 'wall_s': round(time.time() - self.t0, 2),
              'violations': len(self.violations) + (1 if (self.broken and not self.violations) else 0)}
        if self.notes:
            ev['coverage']['notes'] = self.notes
        os.makedirs(os.path.join(VERIF, 'evidence'), exist_ok=True)
        json.dump(ev, open(os.path.join(VERIF, 'evidence', self.prop + '.json'), 'w'), indent=1, default=str)
        if rc == 0:
            print('OK property=%s tier=%s seed=%d evaluations=%d obligations=%s/%s wall=%.1fs' % (
                self.prop, self.tier, self.seed, self.cov['evaluations'], self.cov.get('discharged'), self.cov.get('obligations'), time.time() - self.t0))
        return rc


TRUSTED_COMMON = [
    'Coq 8.16.1 kernel incl. vm_compute and primitive floats (no native_compute, no -type-in-type)',
    'tools/ndt_translate.py (Python ast -> Gallina; validated each run on an exhaustive small grid)',
    'the Python correspondence harness (tools/ndtcheck) and numpy/scipy/CPython as platform',
]


def proof_stage(ctx, props_rel, extra_targets=()):
    """Steps 1-2 of DESIGN 3.6 + hygiene + Print Assumptions.  props_rel: one Props file or a list of them.
    Returns True when all obligations discharged."""
    props = [props_rel] if isinstance(props_rel, str) else list(props_rel)
    ok, msg = translate()
    if not ok:
        ctx.brk('translator', 'translation of /repo failed (source left the supported subset)', msg)
    ok2, log = coq_make([p + 'o' for p in props] + list(extra_targets))
    files = []
    for p in props:
        for f in cone(p):
            if f not in files:
                files.append(f)
    nob, ndone = count_obligations(files)
    # make succeeded <=> every statement in the cone was re-checked (or is up to date) by coqc
    ctx.cov['obligations'], ctx.cov['discharged'] = nob, nob if ok2 else min(ndone, nob - 1)
    ctx.cov['cone'] = files
    if not ok2:
        errs = broken_from_log(log)
        for e in errs:
            e['theorem'] = theorem_at(e['file'], e['line'])
        ctx.brk('proof', 'proof obligations no longer check: ' + ', '.join('%s (%s)' % (e.get('theorem'), e['file']) for e in errs) if errs else 'coq build failed',
                errs or log[-2000:])
    bad = hygiene()
    if bad:
        ctx.brk('hygiene', 'forbidden declarations in the development', bad[:20])
    ctx.cov['theorems'] = []
    ctx.cov['print_assumptions'] = {}
    allax = set()
    for p in props:
        thms = theorems_of(p)
        ctx.cov['theorems'] += thms
        if ok2:
            mod = p[:-2].replace('/', '.')
            ok3, per, axioms = print_assumptions(mod, thms)
            ctx.cov['print_assumptions'].update({k: (v if len(v) < 600 else v[:600] + '...') for k, v in per.items()})
            allax.update(axioms)
            if not ok3:
                ctx.brk('proof', 'Print Assumptions failed for ' + mod, per)
    if ok2:
        ctx.cov['trusted_base'] = TRUSTED_COMMON + ['axioms (Print Assumptions): ' + (', '.join(sorted(allax)) if allax else 'none - closed under the global context')]
    else:
        ctx.cov['trusted_base'] = TRUSTED_COMMON
    return ok and ok2 and not bad
