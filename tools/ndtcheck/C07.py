"""C07 - Richardson extrapolation removes exactly the modelled error terms."""
from fractions import Fraction

import numpy as np

from .core import coq_eval_many, flist, fllist, flit, parse_count_fail, proof_stage, zlit

HDR = '''Require Import NDT.Arith.Ops NDT.Arith.OpsFloat NDT.Model.Convolve NDT.Model.Richardson.
From Coq Require Import PrimFloat ZArith List Bool. Import ListNotations.
Definition TF := 0x1.96993aacc4d21p+3%float.   (* 12.7062047361747 *)
Definition okC (c : list float * list float * Z * list float) : bool :=
  let '(x, w, o, r) := c in leqf (conv OpsF x w o) r.
Definition okR (c : list float * list float * list float * (list float * list float * list float)) : bool :=
  let '(sq, st, rr, (d, e, s)) := c in
  let '(d', e', s') := rich OpsF TF sq st rr in leqf d d' && leqf e e' && leqf s s'.
'''


def gen_rule(rng, n):
    k = int(rng.integers(0, 6))
    if k == 0:      # symmetric
        h = rng.normal(size=(n + 1) // 2)
        w = np.concatenate([h, h[::-1][n % 2:]])
    elif k == 1:    # antisymmetric
        h = rng.normal(size=n // 2)
        w = np.concatenate([h, [0.0] * (n % 2), -h[::-1]])
    elif k == 2:    # nearly symmetric (within a few eps): scipy's tolerance DBL_EPSILON
        h = rng.normal(size=(n + 1) // 2)
        w = np.concatenate([h, h[::-1][n % 2:]])
        w = w * (1 + 2.0 ** -52 * rng.integers(-2, 3, size=w.size))
    elif k == 3:
        w = rng.integers(-3, 4, size=n).astype(float)
    else:
        w = rng.normal(size=n) * 10.0 ** rng.integers(-3, 4)
    return np.asarray(w[:n], dtype=float)


def rule_certificate(ratio, step, order, T, w):
    """|w . R - e_0| in exact rationals; returns (residual_inf, bound)."""
    rho = 1 / Fraction(ratio)
    W = [Fraction(float(v)) for v in w]
    res = []
    for c in range(T + 1):
        col = [Fraction(1) if c == 0 else rho ** (i * (step * (c - 1) + order)) for i in range(T + 1)]
        res.append(abs(sum(wi * ci for wi, ci in zip(W, col)) - (1 if c == 0 else 0)))
    norm1 = sum(abs(v) for v in W)
    return max(res), 64 * Fraction(1, 2 ** 53) * norm1 * (T + 1)


class GQ:
    """Gaussian rationals (exact complex arithmetic for the certificate of complex ratios)."""
    __slots__ = ('re', 'im')

    def __init__(self, re, im=0):
        self.re, self.im = Fraction(re), Fraction(im)

    def __mul__(self, o):
        return GQ(self.re * o.re - self.im * o.im, self.re * o.im + self.im * o.re)

    def __add__(self, o):
        return GQ(self.re + o.re, self.im + o.im)

    def __sub__(self, o):
        return GQ(self.re - o.re, self.im - o.im)

    def inv(self):
        d = self.re * self.re + self.im * self.im
        return GQ(self.re / d, -self.im / d)

    def pow(self, k):
        out, b = GQ(1), self
        while k:
            if k & 1:
                out = out * b
            b = b * b
            k >>= 1
        return out

    def abs1(self):
        return abs(self.re) + abs(self.im)


def complex_rule_certificate(ratio, step, order, T, w):
    rho = GQ(float(ratio.real), float(ratio.imag)).inv()
    W = [GQ(float(np.real(v)), float(np.imag(v))) for v in w]
    res = Fraction(0)
    for c in range(T + 1):
        acc = GQ(0)
        for i in range(T + 1):
            col = GQ(1) if c == 0 else rho.pow(i * (step * (c - 1) + order))
            acc = acc + W[i] * col
        if c == 0:
            acc = acc - GQ(1)
        res = max(res, acc.abs1())
    norm1 = sum(v.abs1() for v in W)
    return res, 256 * Fraction(1, 2 ** 53) * norm1 * (T + 1)


def complex_certificates(ctx, N):
    """Always run: rules for complex ratios r*exp(i*theta) satisfy w.R = e_0 (exact Gaussian rationals)."""
    from numdifftools.extrapolation import Richardson
    rng = ctx.rng(21)
    for k in range(N):
        r, th = float(rng.uniform(1.5, 8)), float(rng.uniform(0.1, 3.0))
        ratio = complex(r * np.cos(th), r * np.sin(th))
        step, order, T = int(rng.integers(1, 5)), int(rng.integers(1, 5)), int(rng.integers(1, 4))
        w = Richardson(step_ratio=ratio, step=step, order=order, num_terms=T).rule()
        res, bound = complex_rule_certificate(ratio, step, order, T, w)
        ctx.count(1, ('complex-rule', T, step))
        if res > bound and res < Fraction(1, 10 ** 6):
            ctx.brk('oracle-certificate', 'rule for a complex ratio fails its residual certificate', {'ratio': [ratio.real, ratio.imag], 'step': step, 'order': order, 'terms': T, 'residual': float(res)})
        elif res >= Fraction(1, 10 ** 6):
            # far beyond rounding: the weights do not annihilate the modelled powers at all
            if ctx.violation('complex-weights', 'Richardson(step_ratio=%r, step=%d, order=%d, num_terms=%d).rule() does not satisfy w.R = e_0: residual %.3g' % (ratio, step, order, T, float(res)),
                             {'ratio': [ratio.real, ratio.imag], 'step': step, 'order': order, 'terms': T, 'weights': [[float(np.real(v)), float(np.imag(v))] for v in w],
                              'how': 'Richardson(step_ratio=complex(*ratio), step=..., order=..., num_terms=...).rule(); check sum_i w_i (1/ratio)**(i*(order+step*j)) for j < num_terms'}):
                return


ILL_CONDITIONED = [(2.0, 2, 3, 5), (4.0, 1, 4, 4), (1.3, 1, 2, 4), (1.6, 2, 2, 4), (2.0, 1, 6, 4), (1.2, 1, 1, 3), (3.0, 2, 2, 4), (1.5, 1, 1, 5)]


def search(ctx, N, complex_too=True):
    """Property-level sweep on the implementation: exact rationals as oracle."""
    from numdifftools.extrapolation import Richardson
    rng = ctx.rng(9)
    u = Fraction(1, 2 ** 53)
    for k in range(N):
        ratio = float(rng.choice([2.0, 1.6, 4.0, 1.2, 10.0, rng.uniform(1.05, 100)]))
        step, order, T = int(rng.integers(1, 5)), int(rng.integers(1, 9)), int(rng.integers(0, 6))
        length = int(rng.integers(1, 21))
        ncols = int(rng.integers(1, 4))
        # the ratio in the number types a caller may write: 2, np.int64(4), np.float32(1.6) mean the same ratios as the floats
        ratio_given, ratio_kind = ratio, 'float'
        if k % 5 == 3:
            ratio = float(rng.choice([2.0, 3.0, 4.0, 10.0]))
            ratio_given, ratio_kind = [(int(ratio), 'int'), (np.int64(ratio), 'np.int64'), (np.int32(ratio), 'np.int32')][(k // 5) % 3]
        elif k % 5 == 4:
            ratio_given, ratio_kind = np.float32(ratio), 'np.float32'
            ratio = float(ratio_given)
        if k < len(ILL_CONDITIONED):
            # a fixed set of moderately ill-conditioned r-matrices first (smallest / largest singular value 1e-6 .. 1e-10, exact weights of
            # moderate size): the pseudo-inverse must still resolve them -- only a numerically SINGULAR matrix excuses other weights
            ratio, step, order, T = ILL_CONDITIONED[k]
            ratio_given, ratio_kind = ratio, 'float'
            length = max(length, T + 2)
        R = Richardson(step_ratio=ratio_given, step=step, order=order, num_terms=T)
        reconfigured = None
        if k % 4 == 2:
            # the instance starts life with ANOTHER configuration, is used, and is then given this one through its public attributes
            # (what Derivative-like objects may do between calls): the weights must follow the attributes
            reconfigured = {'step_ratio': (ratio_given if k % 8 == 2 else float(rng.choice([2.0, 1.6, 3.0]))), 'step': int(step % 4 + 1), 'order': int(order % 8 + 1), 'num_terms': T}
            R = Richardson(**reconfigured)
            R.rule(length)
            R(np.cos(np.arange(length * 1, dtype=float)).reshape(length, 1), np.full((length, 1), 0.1) * (1.0 / reconfigured['step_ratio']) ** np.arange(length)[:, None])
            R.step_ratio, R.step, R.order, R.num_terms = ratio_given, step, order, T
            ctx.count(1, ('reconfigured-instance',))
        Tu = min(T, length - 1)
        h0 = Fraction(float(rng.uniform(0.05, 0.5)))
        Ls = [Fraction(float(rng.normal())) for _ in range(ncols)]
        As = [[Fraction(float(rng.normal())) for _ in range(Tu)] for _ in range(ncols)]
        rho = 1 / Fraction(ratio)
        seq = np.array([[float(Ls[c] + sum(As[c][j] * (h0 * rho ** i) ** (order + step * j) for j in range(Tu))) for c in range(ncols)] for i in range(length)])
        steps = np.array([[float(h0 * rho ** i)] * ncols for i in range(length)])
        if k % 2:
            # the same instance is first used on a (usually shorter) sequence: that call must leave nothing behind
            ls = int(rng.integers(1, T + 2))
            R(np.cos(np.arange(ls * ncols, dtype=float)).reshape(ls, ncols), np.full((ls, ncols), 0.1) * (1.0 / ratio) ** np.arange(ls)[:, None])
            ctx.count(1, ('reused-instance', ls <= T))
        w = R.rule(length)
        out, err, st = R(seq, steps)
        ctx.count(1, ('search', ratio_kind))
        key = 'ratio=%r (given as %s),step=%d,order=%d,terms=%d,len=%d' % (ratio, ratio_kind, step, order, T, length)
        rep = {'step_ratio': ratio, 'step': step, 'order': order, 'num_terms': T, 'length': length, 'L': [float(x) for x in Ls],
               'sequence': seq.tolist(), 'output': np.asarray(out).tolist(),
               'how': 'Richardson(step_ratio, step, order, num_terms)(sequence, steps)' + ('; the same instance was called on a shorter sequence just before' if k % 2 else '')
                      + ('; the instance was built as Richardson(**%r), used once, and then given these values through its attributes' % (reconfigured,) if reconfigured else '')}
        if out.shape[0] != length - Tu or st.shape[0] != out.shape[0]:
            if ctx.violation('count', 'Richardson(%s): %d outputs for length %d with %d terms usable (expected %d)' % (key, out.shape[0], length, Tu, length - Tu), rep):
                return
        if not (np.asarray(err) >= 0).all():
            if ctx.violation('negative-error', 'Richardson(%s): negative error estimate' % key, rep):
                return
        res, _ = rule_certificate(ratio, step, order, Tu, w) if Tu > 0 else (Fraction(0), 0)
        kappa_ok = res <= Fraction(1, 10 ** 6)
        if not kappa_ok:
            # a large residual is excused only when the r-matrix itself is numerically singular (pinv truncates): decided on the EXACT matrix
            from .C06 import inverse
            rho_ = 1 / Fraction(ratio)
            Rm = [[Fraction(1) if c == 0 else rho_ ** (i * (step * (c - 1) + order)) for c in range(Tu + 1)] for i in range(Tu + 1)]
            Rinv = inverse(Rm)
            # w . R = e_0  <=>  w = row 0 of R^-1
            w_ex = Rinv[0] if Rinv is not None else None
            if w_ex is not None and sum(abs(v) for v in w_ex) <= 10 ** 6:
                if ctx.violation('weights', 'Richardson(%s).rule(%d) = %r but the r-matrix is well conditioned and the exact weights are %r' % (
                        key, length, [float(v) for v in w], [float(v) for v in w_ex]), dict(rep, weights=[float(v) for v in w], exact_weights=[float(v) for v in w_ex])):
                    return
            continue        # numerically singular rule (pinv truncated): outside the statement
        if abs(sum(Fraction(float(v)) for v in w) - 1) > 64 * u * sum(abs(Fraction(float(v))) for v in w) * (Tu + 1) + res:
            if ctx.violation('weights-sum', 'Richardson(%s): weights sum to %r' % (key, float(np.sum(w))), rep):
                return
        for c in range(ncols):
            scale = max(abs(Fraction(float(v))) for v in seq[:, c]) + abs(Ls[c])
            bound = (64 * u * (Tu + 2) + 4 * res) * sum(abs(Fraction(float(v))) for v in w) * scale
            for i in range(out.shape[0]):
                if abs(Fraction(float(out[i, c])) - Ls[c]) > bound:
                    if ctx.violation('not-annihilated', 'Richardson(%s): output slot %d of column %d is %r, limit %r (bound %.3g)' % (
                            key, i, c, float(out[i, c]), float(Ls[c]), float(bound)), rep):
                        return
                    break
        # columns independent
        if ncols > 1:
            o1, e1, _ = R(seq[:, :1].copy(), steps[:, :1].copy())
            if not (np.array_equal(o1[:, 0], out[:, 0]) and np.array_equal(e1[:, 0], np.asarray(err)[:, 0])):
                if ctx.violation('columns', 'Richardson(%s): column 0 of a %d-column call differs from the 1-column call' % (key, ncols), rep):
                    return
    # sequences of whole numbers given with an INTEGER dtype (and as float32): the same outputs as for the float64 array with the same
    # elements -- the extrapolation is real arithmetic whatever the container's element type
    for k in range(max(N // 20, 6)):
        step, order, T = int(rng.integers(1, 3)), int(rng.integers(1, 3)), int(rng.integers(0, 3))
        length, ncols = int(rng.integers(max(T, 1) + 1, 7)), int(rng.integers(1, 4))
        hs = 2.0 ** np.arange(length - 1, -1, -1)
        Ls = rng.integers(-9, 10, size=ncols)
        As = rng.integers(-3, 4, size=(ncols, max(T, 1)))
        seq = np.array([[float(Ls[c] + sum(As[c][j] * hs[i] ** (order + step * j) for j in range(T))) for c in range(ncols)] for i in range(length)])
        steps = np.repeat(hs[:, None], ncols, axis=1)
        R = Richardson(step_ratio=2.0, step=step, order=order, num_terms=T)
        out, err, _ = R(seq.copy(), steps.copy())
        for dt in (np.int64, np.int32, np.float32):
            try:
                out2, err2, _ = Richardson(step_ratio=2.0, step=step, order=order, num_terms=T)(seq.astype(dt), steps.copy())
            except Exception as ex:   # noqa
                if ctx.violation('dtype-raises', 'Richardson(2.0, step=%d, order=%d, num_terms=%d) raises %r for a sequence of dtype %s' % (step, order, T, ex, np.dtype(dt).name), {'sequence': seq.tolist(), 'dtype': np.dtype(dt).name}):
                    return
                continue
            ctx.count(1, ('sequence-dtype', np.dtype(dt).name))
            tol = 1e-9 * (1.0 + float(np.max(np.abs(seq))))
            if np.shape(out2) != np.shape(out) or not np.all(np.abs(np.asarray(out2, dtype=float) - out) <= tol):
                if ctx.violation('sequence-dtype', 'Richardson(step_ratio=2.0, step=%d, order=%d, num_terms=%d): a sequence of whole numbers given with dtype %s is extrapolated to %r, the float64 array with the same elements to %r (limit %r)' % (
                        step, order, T, np.dtype(dt).name, np.asarray(out2).tolist(), out.tolist(), Ls.tolist()),
                        {'step_ratio': 2.0, 'step': step, 'order': order, 'num_terms': T, 'sequence': seq.tolist(), 'steps': steps.tolist(), 'dtype': np.dtype(dt).name, 'L': Ls.tolist(),
                         'how': 'Richardson(step_ratio, step, order, num_terms)(np.array(sequence, dtype=dtype), np.array(steps))'}):
                    return
    if complex_too:
        for k in range(N // 4):
            r, th = float(rng.uniform(1.5, 8)), float(rng.uniform(0.1, 1.2))
            ratio = r * np.exp(1j * th)
            step, order, T = int(rng.integers(1, 3)), int(rng.integers(1, 4)), int(rng.integers(1, 4))
            length = int(rng.integers(T + 1, T + 6)) if k % 5 else 1
            R = Richardson(step_ratio=ratio, step=step, order=order, num_terms=T)
            L = complex(rng.normal(), rng.normal())
            a = [complex(rng.normal(), rng.normal()) for _ in range(T)]
            h0 = 0.3
            hs = np.array([h0 * ratio ** (-i) for i in range(length)])
            seq = np.array([[L + sum(a[j] * hs[i] ** (order + step * j) for j in range(T))] for i in range(length)])
            if length == 1:
                seq = np.array([[L]])
            try:
                out, err, st = R(seq, hs.reshape(-1, 1))
            except Exception as ex:  # noqa
                if ctx.violation('complex-raises', 'Richardson with complex ratio raises %r' % (ex,), {'ratio': [ratio.real, ratio.imag], 'step': step, 'order': order, 'terms': T, 'length': length}):
                    return
                continue
            ctx.count(1)
            w = R.rule(length)
            tol = 1e-9 * np.sum(np.abs(w)) * (np.max(np.abs(seq)) + abs(L))
            if np.max(np.abs(out[:, 0] - L)) > tol:
                if ctx.violation('complex-not-annihilated', 'Richardson with complex ratio %r misses the limit by %.3g' % (ratio, float(np.max(np.abs(out[:, 0] - L)))),
                                 {'ratio': [ratio.real, ratio.imag], 'step': step, 'order': order, 'terms': T, 'length': length}):
                    return
            if not (np.isrealobj(err) and (np.asarray(err) >= 0).all()):
                if ctx.violation('complex-error-not-real', 'error estimate for a complex sequence of length %d with complex steps is not a non-negative real: %r' % (length, np.asarray(err).ravel().tolist()[:2]),
                                 {'ratio': [ratio.real, ratio.imag], 'step': step, 'order': order, 'terms': T, 'length': length, 'sequence': [[z.real, z.imag] for z in seq[:, 0]],
                                  'steps': [[z.real, z.imag] for z in hs], 'how': 'Richardson(step_ratio=complex(*ratio), step, order, num_terms)(sequence, steps)'}):
                    return


def run(ctx):
    from numdifftools import extrapolation as ex
    proof_stage(ctx, 'Props/C07.v')
    rng = ctx.rng(1)
    # (a) convolve
    ccases, cdesc = [], []
    for k in range(ctx.n(1200, 12000)):
        nr = int(rng.integers(0, 7))
        L = int(rng.integers(nr + 1, nr + 12)) if k % 6 else int(rng.integers(1, 4))
        w = gen_rule(rng, nr + 1)
        x = rng.normal(size=L) if k % 5 else rng.integers(-5, 6, size=L).astype(float)
        origin = nr // 2
        if L < 1 or (nr + 1) // 2 + origin > L + 5:
            continue
        try:
            out = ex.convolve(x.reshape(-1, 1), w, axis=0, origin=origin)[:, 0]
        except Exception:    # noqa  (scipy rejects origins outside the filter)
            continue
        ccases.append('(%s, %s, %s, %s)' % (flist(x), flist(w), zlit(origin), flist(out)))
        cdesc.append({'x': x.tolist(), 'weights': w.tolist(), 'origin': origin, 'out': out.tolist()})
        half = (nr + 1) // 2
        sym = 'even' if (nr + 1) % 2 == 0 else ('sym' if all(abs(w[half + i] - w[half - i]) <= 2.0 ** -52 for i in range(1, half + 1)) else
                                                 ('antisym' if all(abs(w[half + i] + w[half - i]) <= 2.0 ** -52 for i in range(1, half + 1)) else 'plain'))
        ctx.count(1, ('conv', nr, sym, 'short' if L <= nr else 'long'))
    # (b) Richardson.__call__ with the recorded rule
    rcases, rdesc, certbad = [], [], []
    for k in range(ctx.n(800, 8000)):
        ratio = float(rng.choice([2.0, 1.6, 4.0, 1.2, 10.0, rng.uniform(1.05, 100)]))
        step, order, T = int(rng.integers(1, 5)), int(rng.integers(1, 9)), int(rng.integers(0, 6))
        length = int(rng.integers(1, 21))
        ncols = 1 if k % 3 else int(rng.integers(2, 4))
        R = ex.Richardson(step_ratio=ratio, step=step, order=order, num_terms=T)
        kind = k % 4
        if kind == 0:
            seq = rng.normal(size=(length, ncols))
        elif kind == 1:   # converging: exercises the `converged` branch of the error estimate
            seq = 1.0 + rng.normal(size=(1, ncols)) * (0.5 ** (8 * np.arange(length)))[:, None]
        elif kind == 2:
            seq = np.ones((length, ncols)) * rng.normal()
        else:
            seq = rng.integers(-3, 4, size=(length, ncols)).astype(float)
        steps = (0.5 * ratio ** (-np.arange(length)))[:, None] * np.ones((1, ncols))
        w = R.rule(length)
        out, err, st = R(seq.copy(), steps.copy())
        Tu = min(T, length - 1)
        if Tu > 0:
            res, bound = rule_certificate(ratio, step, order, Tu, w)
            if res > bound and res > Fraction(1, 10 ** 6):
                pass       # numerically singular: counted, not a failure
            elif res > bound:
                certbad.append({'ratio': ratio, 'step': step, 'order': order, 'terms': Tu, 'residual': float(res), 'bound': float(bound)})
        for c in range(ncols):
            rcases.append('(%s, %s, %s, (%s, %s, %s))' % (flist(seq[:, c]), flist(steps[:, c]), flist(w), flist(out[:, c]), flist(np.asarray(err)[:, c]), flist(st[:, c])))
            rdesc.append({'step_ratio': ratio, 'step': step, 'order': order, 'num_terms': T, 'sequence': seq[:, c].tolist(), 'column': c, 'of': ncols,
                          'output': out[:, c].tolist(), 'abserr': np.asarray(err)[:, c].tolist()})
        ctx.count(1, ('rich', Tu, kind, 'len1' if length == 1 else ('short' if length <= T else 'long'), ncols > 1))
        if k < 2:
            ctx.sample(rdesc[-1])
    items = []
    for s in range(0, len(ccases), 400):
        items.append(('C07_C%d' % s, HDR + 'Definition cases := [\n' + ';\n'.join(ccases[s:s + 400]) + '].\nEval vm_compute in (List.length cases, failing okC cases).\n'))
    for s in range(0, len(rcases), 300):
        items.append(('C07_R%d' % s, HDR + 'Definition cases := [\n' + ';\n'.join(rcases[s:s + 300]) + '].\nEval vm_compute in (List.length cases, failing okR cases).\n'))
    res = coq_eval_many(items)
    nbad = 0
    for name, (rc, out) in sorted(res.items()):
        s = int(name.split('_')[1][1:])
        isC = name.split('_')[1][0] == 'C'
        pr = parse_count_fail(out)
        if rc != 0 or pr is None:
            ctx.brk('correspondence', 'case file %s could not be evaluated' % name, out[-1500:])
            continue
        for i in pr[1]:
            nbad += 1
            if nbad <= 5:
                ctx.brk('correspondence', ('extrapolation.convolve' if isC else 'Richardson.__call__/_estimate_error') + ' disagrees bit-for-bit with its model',
                        (cdesc if isC else rdesc)[s + i])
    for c in certbad[:3]:
        ctx.brk('oracle-certificate', 'pinv row fails its residual certificate w.R = e_0', c)
    ctx.cov['traces_validated_against_impl'] = len(ccases) + len(rcases)
    ctx.cov['correspondence_disagreements'] = nbad
    complex_certificates(ctx, ctx.n(60, 600))
    search(ctx, ctx.n(300, 3000) if (ctx.broken or ctx.thorough) else 60)     # a small always-on search; larger when something is broken
    ctx.assumptions += ['the rule (first row of pinv of the r-matrix) is an oracle: its residual |w.R - e_0| is certified in exact rationals each run; numerically singular configurations are counted and excluded (the property excludes nothing here, but pinv truncation is LAPACK\'s)',
                        'scipy.ndimage.convolve1d is modelled as documented (reflect, origin, symmetric fast paths) and validated bit-exactly; complex sequences/ratios are covered by the sweep only']
    return ctx.finish(level='proof', checker_cmd='make -C coq Props/C07.vo + coqc build/cases/C07_*.v',
                      rule='convolve: filter sizes 1..7 (symmetric, antisymmetric, nearly symmetric, integer, random) x lengths; Richardson: ratio grid+random x step 1..4 x order 1..8 x terms 0..5 x length 1..20 x 1-3 columns x 4 sequence kinds; '
                           'distinct = (stage, terms/filter size, kind/symmetry class, length class, multi-column) combinations hit')
