"""Capture of one derivative call's stages and conversion into cases for Model/Pipeline.v (shared by C01, C02, C08)."""
import warnings

import numpy as np

from .core import flist, flit

HDR = '''Require Import NDT.Arith.Ops NDT.Arith.OpsFloat NDT.Model.Pipeline.
From Coq Require Import PrimFloat List Bool. Import ListNotations.
Definition TF := 0x1.96993aacc4d21p+3%float.   (* 12.7062047361747 *)
Definition THR := 0x1.a36e2eb1c432dp-14%float.  (* 1e-4 *)
Definition C1EM8 := 0x1.5798ee2308c3ap-27%float. (* 1e-8 *)
Definition okP (c : list float * list float * list float * list float * list float * (float * float * float * nat)) : bool :=
  let '(fdel, hn, steps, rule, rr, (v, e, s, ix)) := c in
  let '(v', e', s', ix') := pipeline OpsF TF THR C1EM8 0x1.8p+0%float 0x1p-1%float fdel hn steps rule rr in
  feq v v' && feq e e' && feq s s' && Nat.eqb ix ix'.
Definition okE (c : list float * list float * list float * (float * float * float * nat)) : bool :=
  let '(der, hs, rr, (v, e, s, ix)) := c in
  let '(v', e', s', ix') := extrapolate OpsF TF THR C1EM8 0x1.8p+0%float 0x1p-1%float der hs rr in
  feq v v' && feq e e' && feq s s' && Nat.eqb ix ix'.
'''


class Capture:
    """Records, for one call, the inputs of LogRule._apply (difference quotients, steps, rule) and the Richardson rule."""

    def __init__(self):
        self.rec = {}

    def __enter__(self):
        from numdifftools import extrapolation as ex
        from numdifftools import finite_difference as fdm
        self.fdm, self.ex = fdm, ex
        self.o_apply, self.o_rrule = fdm.LogRule._apply, ex.Richardson.rule
        rec = self.rec
        o_apply, o_rrule = self.o_apply, self.o_rrule

        def _apply(slf, f_del, h, step_ratio=2.0):
            rec['f_del'] = np.array(f_del, copy=True)
            rec['h'] = np.array(h, copy=True)
            rec['rule'] = np.array(np.atleast_1d(slf.rule(step_ratio)), copy=True)
            rec['n'] = slf.n
            rec['hn'] = np.array(h, copy=True) ** slf.n
            rec['apply_ratio'] = step_ratio
            rec['rule_obj'] = slf
            return o_apply(slf, f_del, h, step_ratio)

        def rrule(slf, *a, **kw):
            w = o_rrule(slf, *a, **kw)
            rec.setdefault('rr', []).append(np.array(w, copy=True))
            return w
        from numdifftools import limits as lim
        self.lim = lim
        self.o_extra = lim._Limit._extrapolate
        o_extra = self.o_extra

        def _extrapolate(slf, results, steps, shape):
            rec['ex_results'] = np.array(results, copy=True)
            rec['ex_steps'] = np.array(steps, copy=True)
            rec['ex_shape'] = tuple(shape)
            return o_extra(slf, results, steps, shape)
        lim._Limit._extrapolate = _extrapolate
        fdm.LogRule._apply = _apply
        ex.Richardson.rule = rrule
        return self

    def __exit__(self, *a):
        self.fdm.LogRule._apply = self.o_apply
        self.ex.Richardson.rule = self.o_rrule
        self.lim._Limit._extrapolate = self.o_extra


def capture_call(d, x):
    """d: derivative object with full_output=True.  Returns (value, info, rec) or raises."""
    with Capture() as c, np.errstate(all='ignore'), warnings.catch_warnings():
        warnings.simplefilter('ignore')
        val, info = d(x)
    return val, info, c.rec


def column_cases(val, info, rec):
    """One Coq case per column of the (steps x elements) matrices.  Returns (cases, skipped_reason)."""
    if 'f_del' not in rec or 'rr' not in rec:
        return [], 'stages not observed'
    f_del, h, hn = rec['f_del'], rec['h'], rec['hn']
    if np.iscomplexobj(f_del) or np.iscomplexobj(h):
        return [], 'complex data'
    ncols = f_del.shape[1]
    v = np.ravel(val)
    e = np.ravel(info.error_estimate)
    s = np.ravel(info.final_step)
    ix = np.ravel(info.index)
    if not (len(v) == len(e) == len(s) == len(ix) == ncols):
        return [], 'shape mismatch between matrices and result'
    if not np.isfinite(f_del).all():
        return [], 'non-finite difference quotients'
    rr = rec['rr'][-1]
    cases = []
    for c in range(ncols):
        cases.append('(%s, %s, %s, %s, %s, (%s, %s, %s, %d%%nat))' % (
            flist(f_del[:, c]), flist(hn[:, c]), flist(h[:, c]), flist(rec['rule']), flist(rr),
            flit(v[c]), flit(e[c]), flit(s[c]), int(ix[c]) // ncols))
    return cases, None


def extrapolate_cases(val, info, rec):
    """One Coq case per column of the matrices handed to _Limit._extrapolate (all classes, Hessian included)."""
    if 'ex_results' not in rec or 'rr' not in rec:
        return [], 'stages not observed'
    der, hs = rec['ex_results'], rec['ex_steps']
    if np.iscomplexobj(der) or np.iscomplexobj(hs):
        return [], 'complex data'
    if not np.isfinite(der).all():
        return [], 'non-finite estimates'
    ncols = der.shape[1]
    v, e, s, ix = np.ravel(val), np.ravel(info.error_estimate), np.ravel(info.final_step), np.ravel(info.index)
    if not (len(v) == len(e) == len(s) == len(ix) == ncols):
        return [], 'shape mismatch between matrices and result'
    rr = rec['rr'][-1]
    return ['(%s, %s, %s, (%s, %s, %s, %d%%nat))' % (flist(der[:, c]), flist(hs[:, c]), flist(rr), flit(v[c]), flit(e[c]), flit(s[c]), int(ix[c]) // ncols)
            for c in range(ncols)], None


def context_certificate(rec):
    """The recorded oracles of one call, certified IN THE CONTEXT of that call: the finite-difference rule that _apply used must be the rule
    of the object's (method, n, order) for the step ratio of the steps it is applied to.  Returns None or a description of what is wrong.
    (The rule row itself is certified against the exact inverse of the moment matrix by C06; here the question is whether the RIGHT rule
    reaches the data: a stale or pre-filled cache entry, a ratio that is not passed on, a rule built for another configuration.)"""
    if 'rule' not in rec or 'h' not in rec or 'rule_obj' not in rec:
        return None
    h = np.asarray(rec['h'])
    if np.iscomplexobj(h) or h.ndim != 2 or h.shape[0] < 2 or not np.isfinite(h).all() or np.any(h[1:] == 0):
        return None
    ratios = h[:-1] / h[1:]
    r_obs = float(np.median(ratios))
    if not np.all(np.abs(ratios - r_obs) <= 1e-9 * abs(r_obs)) or not r_obs > 1:
        return None                  # not a geometric sequence (user-defined steps): nothing to certify
    try:
        r_apply = float(rec['apply_ratio'])
    except Exception:   # noqa
        return 'the step ratio handed to LogRule._apply is %r' % (rec.get('apply_ratio'),)
    if abs(r_apply - r_obs) > 1e-9 * r_obs:
        return 'the steps decrease by the ratio %r but the rule was asked for the ratio %r' % (r_obs, r_apply)
    from numdifftools import finite_difference as fdm
    obj = rec['rule_obj']
    saved = dict(fdm.FD_RULES)
    try:
        fdm.FD_RULES.clear()
        fresh = np.atleast_1d(type(obj)(n=obj.n, method=obj.method, order=obj.order).rule(r_apply))
    except Exception:   # noqa
        return None
    finally:
        fdm.FD_RULES.clear()
        fdm.FD_RULES.update(saved)
    # the Richardson rule of the same call: the weights applied must be those of (ratio of the steps, richardson_step, method_order)
    try:
        from numdifftools.extrapolation import Richardson
        rr_used = np.atleast_1d(rec['rr'][-1]) if rec.get('rr') else None
        if rr_used is not None and rr_used.size >= 2:
            rr_fresh = np.atleast_1d(Richardson(step_ratio=r_apply, step=obj.richardson_step, order=obj.method_order, num_terms=rr_used.size - 1).rule())
            if rr_used.shape != rr_fresh.shape or not np.allclose(rr_used, rr_fresh, rtol=1e-10, atol=1e-12 * float(np.max(np.abs(rr_fresh)))):
                return 'the Richardson weights applied %r are not those of (step_ratio=%r, step=%d, order=%d) computed by a fresh Richardson object: %r' % (
                    rr_used.tolist(), r_apply, obj.richardson_step, obj.method_order, rr_fresh.tolist())
    except Exception:   # noqa
        pass
    used = np.atleast_1d(rec['rule'])
    if used.shape != fresh.shape or not np.allclose(used, fresh, rtol=1e-12, atol=1e-12 * float(np.max(np.abs(fresh)))):
        return 'the rule applied %r is not the rule of (%s, n=%d, order=%d) for the ratio %r computed afresh with an empty cache: %r' % (
            used.tolist(), obj.method, obj.n, obj.order, r_apply, fresh.tolist())
    return None
