"""C10 - step generators produce the documented geometric sequences, and enough steps."""
import itertools
import math
import warnings
from fractions import Fraction

import numpy as np

from . import trval
from .core import METHOD, blit, coq_eval_many, flist, fllist, flit, parse_count_fail, proof_stage, qlit, zlit

HDR = '''Require Import NDT.Arith.Ops NDT.Arith.OpsFloat NDT.Gen.Spec NDT.Model.Steps.
From Coq Require Import PrimFloat ZArith QArith Qabs List Bool. Import ListNotations.
Open Scope Z_scope.
Record case := { c_max : bool; c_method : method; c_n : Z; c_order : Z;
  c_unum : option Z; c_check : bool; c_extrap : Z; c_obs_num : Z;
  c_bstep : float; c_nom : list float; c_exact : bool; c_obs_base : list float;
  c_ratio_in : float; c_ratio_q : Q; c_ratio_default : bool; c_obs_ratio : float; c_obs_ratio_q : Q;
  c_offset : Z; c_pw : list (Z * float * Q); c_obs : list (list float) }.
Definition lookup (t : list (Z * float * Q)) (e : Z) : float :=
  match find (fun r => Z.eqb (fst (fst r)) e) t with Some r => snd (fst r) | None => nan end.
Definition qabs (q : Q) := Qabs q.
Definition pow_ok (rq : Q) (r : Z * float * Q) : bool :=
  let '(e, _, vq) := r in let ex := Qpower rq e in
  Qle_bool (Qabs (vq - ex)) ((1 # 2251799813685248) * Qabs ex).
Definition ok (c : case) : bool :=
  (num_steps c.(c_unum) c.(c_check) c.(c_extrap) c.(c_method) c.(c_n) c.(c_order) =? c.(c_obs_num))
  && leqf (gen_base OpsF c.(c_bstep) c.(c_nom) c.(c_exact)) c.(c_obs_base)
  && feq (if c.(c_exact) then make_exact OpsF c.(c_ratio_in) else c.(c_ratio_in)) c.(c_obs_ratio)
  && (negb c.(c_ratio_default) || Qle_bool (Qabs (default_step_ratio c.(c_n) - c.(c_ratio_q))) ((1 # 4503599627370496) * Qabs c.(c_ratio_q)))
  && forallb (pow_ok c.(c_obs_ratio_q)) c.(c_pw)
  && lleqf (basic_steps OpsF (lookup c.(c_pw)) c.(c_obs_base) c.(c_max) (Z.to_nat c.(c_obs_num)) c.(c_offset)) c.(c_obs).
'''


def one_case(rng, kind, malformed=False):
    from numdifftools.step_generators import MaxStepGenerator, MinStepGenerator
    method = str(rng.choice(list(METHOD)))
    n = int(rng.integers(1, 11))
    order = int(rng.integers(1, 11))
    opts = {}
    if rng.random() < 0.6:
        opts['base_step'] = float(rng.choice([2.0, 0.5, 1e-3, 0.25, 1.0, 10.0 ** rng.uniform(-6, 1)]))
    if malformed and rng.random() < 0.5:
        opts['base_step'] = 0.0 if rng.random() < 0.5 else 1e-320
    if rng.random() < 0.6:
        opts['step_ratio'] = float(rng.choice([2.0, 4.0, 1.6, 3.0, 10.0, rng.uniform(1.05, 10)]))
    if rng.random() < 0.5:
        opts['num_steps'] = int(rng.integers(1, 26))
    if rng.random() < 0.4:
        opts['step_nom'] = float(rng.choice([1.0, 2.0, rng.uniform(0.1, 5)]))
    if rng.random() < 0.4:
        opts['offset'] = int(rng.integers(-4, 5))
    if rng.random() < 0.4:
        opts['num_extrap'] = int(rng.integers(0, 10))
    if rng.random() < 0.5:
        opts['use_exact_steps'] = bool(rng.random() < 0.5)
    if rng.random() < 0.3:
        opts['check_num_steps'] = bool(rng.random() < 0.5)
    if rng.random() < 0.3:
        opts['scale'] = float(rng.choice([1.2, 2.5, 500, rng.uniform(1, 20)]))
    cls = MaxStepGenerator if kind == 'max' else MinStepGenerator
    g = cls(**opts)
    shape = [(), (1,), (3,), (2, 2)][int(rng.integers(0, 4))]
    x = np.asarray(10.0 ** rng.uniform(-3, 2, size=shape) * rng.choice([-1, 1], size=shape)) if shape else np.asarray(float(10.0 ** rng.uniform(-3, 2)) * float(rng.choice([-1, 1])))
    if malformed and rng.random() < 0.3:
        x = np.asarray(0.0)
    with np.errstate(all='ignore'), warnings.catch_warnings():
        warnings.simplefilter('ignore')
        sg = g.step_generator_function(x, method, n, order)
        obs = [np.atleast_1d(np.asarray(s, dtype=float)).ravel() for s in sg()]
    # oracles, recorded from the same numpy
    bstep = float(g.base_step)                 # user value or EPS ** (1/scale)
    nom = np.atleast_1d(np.asarray(g.step_nom, dtype=float)).ravel()   # user value or log(1.718+|x|).clip(1)
    exact = bool(g.use_exact_steps)
    ratio_in = float(g.step_ratio)
    obs_ratio = float(sg.step_ratio)
    sgn = -1 if kind == 'max' else 1
    num = int(sg.num_steps)
    offset = sg.offset
    exps = [sgn * i + offset for i in range(num)]
    with np.errstate(all='ignore'):
        pw = [(int(e), float(sg.step_ratio ** e)) for e in sorted(set(exps))]
    obs_base = np.atleast_1d(np.asarray(sg.base_step, dtype=float)).ravel()
    case = ('{| c_max := %s; c_method := %s; c_n := %s; c_order := %s; c_unum := %s; c_check := %s; c_extrap := %s; c_obs_num := %s;\n'
            '   c_bstep := %s; c_nom := %s; c_exact := %s; c_obs_base := %s; c_ratio_in := %s; c_ratio_q := %s; c_ratio_default := %s;\n'
            '   c_obs_ratio := %s; c_obs_ratio_q := %s; c_offset := %s; c_pw := [%s]; c_obs := %s |}') % (
        blit(kind == 'max'), METHOD[method], zlit(n), zlit(order),
        'None' if g._num_steps is None else 'Some %s' % zlit(g._num_steps), blit(g.check_num_steps), zlit(g.num_extrap), zlit(num),
        flit(bstep), flist(nom), blit(exact), flist(obs_base), flit(ratio_in), qlit(Fraction(ratio_in)), blit(g._step_ratio is None),
        flit(obs_ratio), qlit(Fraction(obs_ratio)), zlit(offset),
        '; '.join('(%s, %s, %s)' % (zlit(e), flit(v), qlit(Fraction(v)) if math.isfinite(v) else '(0 # 1)') for e, v in pw), fllist(obs))
    dropped = num - len(obs)
    tag = (kind, method, 'exact' if exact else 'inexact', 'user_num' if g._num_steps is not None else 'default_num',
           'dropped' if dropped else 'full', len(shape), 'default_base' if g._base_step is None else 'user_base')
    desc = {'generator': cls.__name__, 'options': opts, 'x': np.asarray(x).tolist(), 'method': method, 'n': n, 'order': order,
            'num_steps': num, 'yielded': len(obs)}
    # oracle certificates (not modelled in Coq): base step and nominal step
    cert = []
    if g._base_step is None:
        sc = g.scale
        want = math.exp(math.log(2.0 ** -52) / sc)
        if not abs(bstep - want) <= 1e-13 * want:
            cert.append('EPS**(1/scale): %r vs %r' % (bstep, want))
    if g._step_nom is None:
        want = np.maximum(np.log(1.718281828459045 + np.abs(np.asarray(x, dtype=float))), 1).ravel()
        if not np.allclose(nom, want, rtol=1e-14, atol=0):
            cert.append('nominal step: %r vs %r' % (nom.tolist(), want.tolist()))
    return case, tag, desc, cert


def closed_form_search(ctx, nmax):
    """Independent closed form, exact rationals, on the implementation alone: finds a concrete failing input."""
    from numdifftools.step_generators import MaxStepGenerator, MinStepGenerator
    import numdifftools as nd
    rng = ctx.rng(77)
    found = 0
    for k in range(nmax):
        kind = 'max' if rng.random() < 0.5 else 'min'
        cls = MaxStepGenerator if kind == 'max' else MinStepGenerator
        base = float(rng.choice([2.0, 0.5, 1e-3, 0.25]))
        ratio = float(rng.choice([2.0, 4.0, 1.6, 3.0]))
        num = int(rng.integers(1, 12))
        off = int(rng.integers(-3, 4))
        g = cls(base_step=base, step_ratio=ratio, num_steps=num, step_nom=1.0, offset=off, check_num_steps=False, use_exact_steps=False)
        obs = [float(s) for s in g(np.asarray(1.0), 'forward', 1, 2)]
        sgn = -1 if kind == 'max' else 1
        rng_i = range(num) if kind == 'max' else range(num - 1, -1, -1)
        want = [Fraction(base) * Fraction(ratio) ** (sgn * i + off) for i in rng_i]
        ok = len(obs) == len(want) and all(abs(Fraction(o) - w) <= Fraction(1, 2 ** 50) * abs(w) for o, w in zip(obs, want))
        ctx.count(1)
        if not ok:
            found += 1
            ctx.violation('closed-form:%s' % kind, '%s(base_step=%r, step_ratio=%r, num_steps=%d, offset=%d) does not yield base*ratio**(%si+offset)' % (
                cls.__name__, base, ratio, num, off, '-' if kind == 'max' else '+'),
                {'generator': cls.__name__, 'base_step': base, 'step_ratio': ratio, 'num_steps': num, 'offset': off,
                 'observed': obs, 'expected': [float(w) for w in want],
                 'how': "list(%s(base_step=..., step_ratio=..., num_steps=..., step_nom=1.0, offset=..., check_num_steps=False, use_exact_steps=False)(1.0))" % cls.__name__})
            if found >= 3:
                return
    # CStepGenerator as documented: num_steps defaults to 2 * int(round(16 / log(abs(step_ratio)))) + 1 -- |step_ratio| is the real ratio on both paths --
    # and the steps are base * nom * (exp(1j*dtheta) * ratio) ** (i + offset): moduli in geometric progression, arguments advancing by dtheta
    from numdifftools.limits import CStepGenerator as _CS
    for path in ('radial', 'spiral'):
        for ratio in (2.0, 3.0, 4.0, 8.0, 16.0, 1.6):
            for dtheta in ((np.pi / 8, np.pi / 4, 0.1, -np.pi / 8, -0.3) if path == 'spiral' else (np.pi / 8, -np.pi / 8)):
                for extra in ({}, {'num_steps': 7}, {'offset': 2}):
                    kw = dict(base_step=0.125, step_ratio=ratio, step_nom=1.0, use_exact_steps=False, path=path, dtheta=dtheta, **extra)
                    try:
                        obs = [complex(np.ravel(s)[0]) for s in _CS(**kw)(0.0)]
                    except Exception as ex:   # noqa
                        ctx.violation('raises:CStepGenerator', 'CStepGenerator(%r)(0.0) raises %r' % (kw, ex), {'options': {k_: (float(v_) if isinstance(v_, float) else v_) for k_, v_ in kw.items()}})
                        continue
                    ctx.count(1, ('cstep', path))
                    want_n = extra.get('num_steps', 2 * int(round(16.0 / math.log(abs(ratio)))) + 1)
                    off = extra.get('offset', 0)
                    th = dtheta if path == 'spiral' else 0.0
                    want = [0.125 * (np.exp(1j * th) * ratio) ** (i + off) for i in range(want_n - 1, -1, -1)]
                    ok = len(obs) == want_n and all(abs(o - w) <= 1e-12 * abs(w) for o, w in zip(obs, want))
                    if not ok:
                        ctx.violation('cstep-sequence:%s' % path, 'CStepGenerator(step_ratio=%r, path=%r, dtheta=%r, %r) yields %d steps %r...; documented: %d steps base * (exp(1j*dtheta) * ratio)**(i + offset), i = num_steps-1 .. 0, num_steps = 2*int(round(16/log|ratio|)) + 1 by default' % (
                            ratio, path, dtheta, extra, len(obs), obs[:2], want_n),
                            {'step_ratio': ratio, 'path': path, 'dtheta': dtheta, 'options': extra, 'observed_count': len(obs), 'documented_count': want_n,
                             'observed_first': [repr(o) for o in obs[:3]], 'documented_first': [repr(w) for w in want[:3]],
                             'how': 'from numdifftools.limits import CStepGenerator; list(CStepGenerator(base_step=0.125, step_ratio=ratio, step_nom=1.0, use_exact_steps=False, path=path, dtheta=dtheta, ...)(0.0))'})
                        return
    # zero steps are dropped: a step is yielded only if EVERY component is non-zero (array-valued base steps, explicit zeros and underflow)
    from numdifftools.limits import CStepGenerator
    for cls, kw in ((MinStepGenerator, {}), (MaxStepGenerator, {}), (CStepGenerator, {'path': 'radial'}), (CStepGenerator, {'path': 'spiral'})):
        for base, num, ratio in ((np.array([0.25, 0.0, 1.0]), 4, 2.0), (np.array([1.0, 1e-320]), 20, 2.0), (np.array([0.5, 0.25]), 5, 2.0), (0.0, 3, 2.0), (-0.25, 3, 2.0)):
            g = cls(base_step=base, step_ratio=ratio, num_steps=num, step_nom=1.0, use_exact_steps=False, **kw)
            x = np.zeros(np.shape(base))
            obs = [np.atleast_1d(t) for t in g(x)]
            is_max = cls is MaxStepGenerator
            rq = Fraction(ratio)
            want = []
            for i in (range(num) if is_max else range(num - 1, -1, -1)):
                comps = [float(Fraction(float(b)) * rq ** ((-i) if is_max else i)) for b in np.atleast_1d(base)]      # correctly rounded: underflow to 0 included
                if all(c != 0 for c in comps):
                    want.append(comps)
            ctx.count(1)
            ok = len(obs) == len(want) and all(np.allclose(np.abs(o), np.abs(w), rtol=1e-3, atol=0) for o, w in zip(obs, want))     # (loose: subnormal components carry few bits; the subject here is which steps are dropped)
            if not ok:
                ctx.violation('zero-steps:%s' % cls.__name__, '%s(base_step=%r, step_ratio=%r, num_steps=%d, %r) yields %d steps (%d of them with a zero component); with zero steps dropped the sequence has %d steps' % (
                    cls.__name__, np.asarray(base).tolist(), ratio, num, kw, len(obs), sum(1 for o in obs if np.any(o == 0)), len(want)),
                    {'generator': cls.__name__, 'base_step': np.asarray(base).tolist(), 'step_ratio': ratio, 'num_steps': num, 'options': kw,
                     'observed': [np.abs(o).tolist() for o in obs], 'expected_magnitudes': want})
                return
    # default count against the independent closed form: max((n + order - 1) // divisor, 1) + num_extrap with divisor 2 for central and
    # multicomplex (their rules advance by two orders per term), 4 for complex once n > 1 or order >= 4 (else 2), 1 for the one-sided methods
    for method, n, order in itertools.product(['central', 'central2', 'forward', 'backward', 'complex', 'multicomplex'], range(1, 11), range(1, 11)):
        div = {'central': 2, 'central2': 2, 'multicomplex': 2, 'complex': 4 if (n > 1 or order >= 4) else 2}.get(method, 1)
        for extrap in (0, 3):
            for cls in (MinStepGenerator, MaxStepGenerator):
                g = cls(num_extrap=extrap) if cls is MinStepGenerator else cls(num_steps=None, num_extrap=extrap)
                got = len(list(g(np.asarray(0.5), method, n, order)))
                want = max((n + order - 1) // div, 1) + extrap
                ctx.count(1)
                if got != want:
                    ctx.violation('default-count:%s' % method, '%s(num_extrap=%d)(0.5, %r, n=%d, order=%d) yields %d steps, the documented default count is %d' % (
                        cls.__name__, extrap, method, n, order, got, want), {'generator': cls.__name__, 'num_extrap': extrap, 'method': method, 'n': n, 'order': order, 'observed': got, 'documented': want})
                    return
    # the documented defaults end to end (independent closed form): base step EPS**(1/scale) with the scale table per (method, n, order),
    # nominal step max(log(1.718281828459045 + |x|), 1), exact-step rounding (h + 1) - 1 of base step and ratio, ratio 2 for n = 1 else 1.6
    def doc_scale(method, n, order):
        high = int(n > 1 or order >= 4)
        o2 = max(order // 2 - 1, 0)
        n4, nm = n // 4, n % 4
        c = [n4 * (10 + 1.5 * int(n > 10)), 3.65 + n4 * (5 + 1.5 ** n4), 3.65 + n4 * (5 + 1.7 ** n4), 7.30 + n4 * (5 + 2.1 ** n4)][nm] if high else 0
        return ({'multicomplex': 1.06, 'complex': 1.06 + c}.get(method, 2.5) + int(n - 1) * {'multicomplex': 0, 'complex': 0.0}.get(method, 1.3)
                + o2 * {'central': 3, 'forward': 2, 'backward': 2}.get(method, 0))
    eps_ = 2.0 ** -52
    for method, n, order in itertools.product(['central', 'forward', 'backward', 'complex', 'multicomplex'], range(1, 18), (1, 2, 3, 4, 6, 9)):
        for x in (0.0, 0.3, -0.9, 5.0, -40.0, 1e3):
            for exact in (True, False):
                g = MinStepGenerator(use_exact_steps=exact, num_extrap=2)
                obs = [float(t) for t in g(np.asarray(x), method, n, order)]
                nom = max(math.log(1.718281828459045 + abs(x)), 1.0)
                base = eps_ ** (1.0 / doc_scale(method, n, order)) * nom
                ratio = 2.0 if n == 1 else 1.6
                if exact:
                    base, ratio = (base + 1.0) - 1.0, (ratio + 1.0) - 1.0
                want = [base * ratio ** i for i in range(len(obs) - 1, -1, -1)]
                ctx.count(1)
                if not all(abs(o - w) <= 1e-12 * abs(w) for o, w in zip(obs, want)):
                    ctx.violation('default-sequence:%s' % method, 'MinStepGenerator(use_exact_steps=%r, num_extrap=2)(%r, %r, n=%d, order=%d) yields %r, the documented defaults give %r' % (
                        exact, x, method, n, order, obs[:3], want[:3]), {'x': x, 'method': method, 'n': n, 'order': order, 'use_exact_steps': exact, 'observed': obs, 'documented': want})
                    return
    # defaults: ratio, count >= rule demand (the real classes, default generators)
    for method, n, order in itertools.product(['central', 'forward', 'backward', 'complex', 'multicomplex'], range(1, 11), range(1, 11)):
        if method == 'multicomplex' and n > 2:
            continue
        for cls, nn in ((nd.Derivative, n), (nd.Jacobian, 1), (nd.Hessdiag, 2)):
            if cls is not nd.Derivative and n > 1:
                continue
            with warnings.catch_warnings():
                warnings.simplefilter('ignore')
                d = cls(np.exp, method=method, order=order, **({'n': n} if cls is nd.Derivative else {}))
                x = np.asarray(1.0) if cls is nd.Derivative else np.asarray([1.0, 2.0])
                sgf = d.step.step_generator_function(x, d.method, d.n, d.method_order)
                nsteps = len(list(sgf()))
                rsize = d.fd_rule.rule(sgf.step_ratio).size
            ctx.count(1)
            if not rsize - 1 < nsteps:
                ctx.violation('coupling:%s:%s:%d:%d' % (cls.__name__, method, d.n, order),
                              '%s(method=%r, n=%d, order=%d): default step count %d < rule size %d' % (cls.__name__, method, d.n, order, nsteps, rsize),
                              {'class': cls.__name__, 'method': method, 'n': d.n, 'order': order, 'num_steps': nsteps, 'rule_size': rsize,
                               'how': 'nd.%s(np.exp, method=..., n=..., order=...)(x) raises ValueError num_steps must be larger' % cls.__name__})
                return
            exp_ratio = 2.0 if d.n == 1 else 1.6
            if float(sgf.step_ratio) != exp_ratio and method not in ():
                ctx.violation('default-ratio:%d' % d.n, 'default step_ratio for n=%d is %r, documented %r' % (d.n, float(sgf.step_ratio), exp_ratio),
                              {'n': d.n, 'observed': float(sgf.step_ratio), 'documented': exp_ratio})
                return


def run(ctx):
    proof_stage(ctx, 'Props/C10.v')
    trval.run(ctx)
    rng = ctx.rng(1)
    N = ctx.n(600, 6000)
    cases, descs = [], []
    cert_fail = []
    for k in range(N):
        kind = 'max' if rng.random() < 0.5 else 'min'
        c, tag, desc, cert = one_case(rng, kind, malformed=(k % 10 == 9))
        cases.append(c)
        descs.append(desc)
        ctx.count(1, tag)
        if k < 3:
            ctx.sample(desc)
        if cert:
            cert_fail.append((desc, cert))
    items = []
    for s in range(0, len(cases), 100):
        text = HDR + 'Definition cases : list case := [\n' + ';\n'.join(cases[s:s + 100]) + '].\n' + \
            'Eval vm_compute in (List.length cases, failing ok cases).\n'
        items.append(('C10_%d' % s, text))
    res = coq_eval_many(items)
    nbad = 0
    for name, (rc, out) in sorted(res.items()):
        s = int(name.split('_')[1])
        pr = parse_count_fail(out)
        if rc != 0 or pr is None:
            ctx.brk('correspondence', 'case file %s could not be evaluated' % name, out[-1500:])
            continue
        for i in pr[1]:
            nbad += 1
            if nbad <= 5:
                ctx.brk('correspondence', 'step generator disagrees with Model/Steps.v + Gen/Spec.v', descs[s + i])
    for desc, cert in cert_fail[:5]:
        ctx.brk('oracle-certificate', 'recorded oracle value fails its specification', {'case': desc, 'cert': cert})
    ctx.cov['traces_validated_against_impl'] = len(cases)
    ctx.cov['correspondence_disagreements'] = nbad
    closed_form_search(ctx, ctx.n(300, 3000) if (ctx.broken or ctx.thorough) else 60)
    ctx.assumptions += ['float ** int (libm pow), EPS**(1/scale), log(1.718+|x|) are oracles: recorded and certified per run (pow in Q inside Coq to 2u; the other two against libm in Python)',
                        'exact-arithmetic theorems over R (Reals axioms) and Z; float behaviour tied by bit-exact correspondence only']
    return ctx.finish(level='proof', checker_cmd='make -C coq Props/C10.vo (coqc 8.16.1) + coqc build/cases/C10_*.v',
                      rule='random option combinations of Min/MaxStepGenerator x method x n,order in 1..10 x scalar/array x; 1 in 10 malformed (zero/subnormal base step, x=0); '
                           'distinct = (generator, method, exact?, user/default count, dropped?, rank of x, user/default base) combinations hit')
