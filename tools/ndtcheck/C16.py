"""C16 - fd_derivative is exact on polynomials at every point of any grid."""
from fractions import Fraction

import numpy as np

from .core import coq_eval_many, flist, flit, parse_count_fail, proof_stage

HDR = '''Require Import NDT.Arith.OpsFloat NDT.Model.Fornberg NDT.Model.FdDerivative NDT.Model.FornbergFloat.
From Coq Require Import PrimFloat List Bool. Import ListNotations.
'''


def gen_grid(rng, length, kind):
    if kind == 0:
        x = np.linspace(-1, 1, length)
    elif kind == 1:
        x = np.cumsum(rng.uniform(0.05, 0.3, size=length))
    elif kind == 2:
        x = -np.cumsum(rng.uniform(0.05, 0.3, size=length))        # decreasing
    elif kind == 3:
        x = np.linspace(0, 1, length) ** 2 * 3                       # smoothly non-uniform
    elif kind == 4:                                                  # uniform up to a relative jitter of 1e-6 of the spacing: NOT uniform
        x = np.linspace(-1, 1, length)
        x = x + 1e-6 * (x[1] - x[0]) * rng.uniform(-1, 1, size=length)
    elif kind == 5:                                                  # non-uniform with spacings of order 1e-9
        x = 1e-9 * np.cumsum(rng.uniform(0.5, 1.5, size=length))
    elif kind == 6:                                                  # structured: the steps alternate h1, h2, h1, h2, ...
        h1, h2 = float(rng.uniform(0.05, 0.2)), float(rng.uniform(0.25, 0.5))
        x = np.cumsum([h1 if i % 2 else h2 for i in range(length)])
    else:                                                            # structured: mirror-symmetric about its centre (Chebyshev-like)
        x = -np.cos(np.pi * (np.arange(length) + 0.5) / length)
    return np.asarray(x, dtype=float)


def search(ctx, N):
    from numdifftools.fornberg import fd_derivative
    rng = ctx.rng(4)
    for t in range(N):
        n = int(rng.integers(1, 4)) if t % 3 else int(rng.integers(1, 6))
        m = int(rng.integers(1, 3)) if t % 3 else int(rng.integers(1, 5))
        mm = n // 2 + m
        length = int(rng.integers(2 * mm + 2, 2 * mm + 12))
        x = gen_grid(rng, length, int(rng.integers(0, 8)))
        deg = int(rng.integers(0, 2 * mm + 1)) if t % 2 else 2 * mm - int(rng.integers(0, 2))      # every second case at (or just below) the top degree 2 (n//2 + m)
        coef = [Fraction(int(c)) for c in rng.integers(-5, 6, size=deg + 1)]
        X = [Fraction(float(v)) for v in x]
        fx = np.array([float(sum(c * xv ** i for i, c in enumerate(coef))) for xv in X])
        d = coef
        for _ in range(n):
            d = [i * c for i, c in enumerate(d)][1:] or [Fraction(0)]
        exact = [sum(c * xv ** i for i, c in enumerate(d)) for xv in X]
        try:
            got = fd_derivative(fx, x, n, m)
        except Exception as ex:   # noqa
            if ctx.violation('raises', 'fd_derivative(n=%d, m=%d) raises %r on a valid grid of length %d (minimum %d)' % (n, m, ex, length, 2 * mm + 2),
                             {'x': x.tolist(), 'coefficients_low_to_high': [int(c) for c in coef], 'n': n, 'm': m}):
                return
            continue
        ctx.count(1)
        if len(got) != length:
            if ctx.violation('length', 'fd_derivative output length %d for input length %d' % (len(got), length), {'x': x.tolist(), 'n': n, 'm': m}):
                return
            continue
        h = float(np.min(np.abs(np.diff(x))))
        scale = max(max(abs(e) for e in exact), Fraction(max(abs(fx)))) or Fraction(1)
        tol = Fraction(1e-10) * scale / Fraction(h) ** n * 100
        ctx.cov['search_worst_ratio_to_tolerance'] = max(ctx.cov.get('search_worst_ratio_to_tolerance', 0.0), max(float(abs(Fraction(float(got[i])) - exact[i]) / tol) for i in range(length)))
        for i in range(length):
            if abs(Fraction(float(got[i])) - exact[i]) > tol:
                where = 'left boundary' if i < mm else ('right boundary' if i >= length - mm else 'interior')
                if ctx.violation('inexact', 'fd_derivative(n=%d, m=%d) at grid index %d (%s) of %d is %r, exact %r for a degree-%d polynomial' % (
                        n, m, i, where, length, float(got[i]), float(exact[i]), deg),
                        {'x': x.tolist(), 'coefficients_low_to_high': [int(c) for c in coef], 'n': n, 'm': m, 'index': i, 'got': float(got[i]), 'exact': float(exact[i]),
                         'how': 'numdifftools.fornberg.fd_derivative(polyval(x), x, n, m)'}):
                    return
                break


def run(ctx):
    from numdifftools.fornberg import fd_derivative
    proof_stage(ctx, 'Props/C16.v')
    rng = ctx.rng(1)
    cases, descs = [], []
    for t in range(ctx.n(400, 4000)):
        n = int(rng.integers(1, 7))
        m = int(rng.integers(1, 5))
        mm = n // 2 + m
        length = int(rng.integers(2 * mm + 2, min(2 * mm + 2 + 20, 61)))
        kind = int(rng.integers(0, 4))
        x = gen_grid(rng, length, kind)
        fx = rng.normal(size=length) if t % 2 else np.polyval(rng.integers(-3, 4, size=int(rng.integers(1, 2 * mm + 2))), x)
        malformed = t % 15 == 14
        if malformed:
            if rng.random() < 0.5:
                fx = fx[:-1]
            else:
                n = length + int(rng.integers(0, 3))
        try:
            d = fd_derivative(fx, x, n, m)
            res, out = 'Some %s' % flist(d), 'ok'
        except ValueError:
            res, out = 'None', 'ValueError'
        cases.append('(%s, %s, %d%%nat, %d%%nat, %s)' % (flist(fx), flist(x), n, m, res))
        descs.append({'x': x.tolist(), 'fx': np.asarray(fx).tolist(), 'n': n, 'm': m, 'outcome': out})
        ctx.count(1, (kind, n, m, out, 'minimal' if length == 2 * mm + 2 else 'longer'))
        if t < 2:
            ctx.sample({'x': x.tolist()[:6], 'n': n, 'm': m, 'length': length, 'outcome': out})
    items = [('C16_%d' % s, HDR + 'Definition cases := [\n' + ';\n'.join(cases[s:s + 50]) + '].\nEval vm_compute in (List.length cases, failing ok_fdd cases).\n')
             for s in range(0, len(cases), 50)]
    res = coq_eval_many(items)
    nbad = 0
    for name, (rc, out) in sorted(res.items()):
        s = int(name.split('_')[1])
        pr = parse_count_fail(out)
        if rc != 0 or pr is None:
            ctx.brk('correspondence', 'case file %s could not be evaluated' % name, out[-1500:])
            continue
        for i in pr[1]:
            nbad += 1
            if nbad <= 5:
                ctx.brk('correspondence', 'fd_derivative disagrees with Model/FdDerivative.v (windows, weights bit-exact; dot product within its rounding bound; guards)', descs[s + i])
    ctx.cov['traces_validated_against_impl'] = len(cases)
    ctx.cov['correspondence_disagreements'] = nbad
    search(ctx, ctx.n(200, 1500) if (ctx.broken or ctx.thorough) else 40)
    ctx.assumptions += ['np.dot goes through BLAS: the model computes the dot product sequentially and the comparison allows 4*len*u*sum|w_i f_i|; everything else is bit-exact',
                        'grids shorter than 2*mm+2 (slices silently shrink in the source) are outside the property and outside the model',
                        '"up to conditioning-scaled rounding" is explored with exact rational polynomials, not proved']
    return ctx.finish(level='proof', checker_cmd='make -C coq Props/C16.vo + coqc build/cases/C16_*.v',
                      rule='grids of length 2*mm+2..60 (uniform, random increasing, decreasing, smoothly non-uniform) x n 1..6 x m 1..4, random and polynomial samples; 1 in 15 malformed (length mismatch, n >= len); '
                           'distinct = (grid kind, n, m, outcome, minimal-length?) combinations hit')
