"""C09 - results depend only on (function, point, configuration), not on history."""
import json
import os
import subprocess
import sys
import threading
from fractions import Fraction

import numpy as np

from .core import METHOD, REPO, coq_eval_many, parse_count_fail, proof_stage, qlit, zlit

HDR = '''Require Import NDT.Gen.Spec NDT.Theory.StateTheory.
From Coq Require Import ZArith QArith List Bool. Import ListNotations.
Definition subset (a b : list (Q * Z * Z)) : bool := forallb (fun k => existsb (key_eqb3 k) b) a.
Definition ok (c : list hop * list (Q * Z * Z)) : bool := let '(ops, ks) := c in let m := keys_after ops in subset m ks && subset ks m.
'''

FUNCS = {'exp': 'np.exp', 'sin': 'np.sin', 'poly': 'lambda x: x**3 + x**2', 'rat': 'lambda x: 1/(1+x*x)', 'tanh': 'np.tanh'}
VFUNCS = {'sumsq': 'lambda x: np.sum(x**2)', 'prod': 'lambda x: x[0]*x[1] + np.sin(x[0])', 'vec': 'lambda x: np.array([x[0]*x[1], x[0]+x[1]**2])'}


def hexify(v):
    a = np.atleast_1d(np.asarray(v))
    if np.iscomplexobj(a):
        return [[float(z.real).hex(), float(z.imag).hex()] for z in a.ravel()]
    return [float(z).hex() for z in a.ravel()]


def evaluate(nd, spec):
    """One stateless evaluation described by a JSON-able spec; returns hex strings of value and info."""
    cls = getattr(nd, spec['class'])
    f = eval(spec['fsrc'], {'np': np})
    kw = dict(spec['kw'])
    if spec.get('step') is not None:
        kw['step'] = getattr(nd, 'MaxStepGenerator' if spec['step'].get('_kind') == 'max' else 'MinStepGenerator')(
            **{k: (np.array(v) if isinstance(v, list) else v) for k, v in spec['step'].items() if k != '_kind'})
    d = cls(f, full_output=True, **kw)
    val, info = d(np.array(spec['x']) if isinstance(spec['x'], list) else spec['x'])
    return {'value': hexify(val), 'error_estimate': hexify(info.error_estimate), 'final_step': hexify(info.final_step), 'index': [int(i) for i in np.atleast_1d(info.index).ravel()]}


REF_SCRIPT = r'''
import json, sys, warnings
import numpy as np
warnings.simplefilter('ignore'); np.seterr(all='ignore')
sys.path.insert(0, %(tools)r)
import numdifftools as nd
from numdifftools import finite_difference as fdm
from ndtcheck.C09 import evaluate
specs = json.load(open(sys.argv[1]))
out = []
for s in specs:
    fdm.FD_RULES.clear()
    out.append(evaluate(nd, s))
json.dump(out, open(sys.argv[2], 'w'))
'''


def fresh_reference(specs, tag):
    """Evaluate specs in a new interpreter (no history at all)."""
    from .core import BUILD, VERIF
    os.makedirs(BUILD, exist_ok=True)
    pin, pout, ps = os.path.join(BUILD, 'c09_%s_in.json' % tag), os.path.join(BUILD, 'c09_%s_out.json' % tag), os.path.join(BUILD, 'c09_%s.py' % tag)
    json.dump(specs, open(pin, 'w'))
    open(ps, 'w').write(REF_SCRIPT % {'tools': os.path.join(VERIF, 'tools')})
    env = dict(os.environ, PYTHONPATH=os.path.join(REPO, 'src'), PYTHONHASHSEED='0')
    p = subprocess.run([sys.executable, ps, pin, pout], env=env, stdout=subprocess.PIPE, stderr=subprocess.STDOUT, text=True, timeout=900)
    if p.returncode != 0:
        return None, p.stdout[-1500:]
    return json.load(open(pout)), ''


def random_spec(rng):
    cls = str(rng.choice(['Derivative', 'Derivative', 'Gradient', 'Jacobian', 'Hessdiag', 'Hessian']))
    method = str(rng.choice(['central', 'forward', 'backward', 'complex', 'multicomplex']))
    kw = {'method': method}
    if cls == 'Derivative':
        kw['n'] = int(rng.integers(1, 5)) if method != 'multicomplex' else int(rng.integers(1, 3))
        kw['order'] = int(rng.choice([1, 2, 3, 4, 6]))
        fname = str(rng.choice(list(FUNCS)))
        fsrc = FUNCS[fname]
        x = float(rng.uniform(0.2, 2.0)) if rng.random() < 0.7 else [float(v) for v in rng.uniform(0.2, 2.0, size=3)]
        if rng.random() < 0.5:      # either sign, |x| up to 6 (all five functions are entire or analytic on the real axis)
            sc = float(rng.choice([-1.0, -3.0, 3.0]))
            x = sc * x if isinstance(x, float) else [sc * v for v in x]
    else:
        if cls != 'Hessian':
            kw['order'] = int(rng.choice([2, 4]))
        fname = 'vec' if cls == 'Jacobian' and rng.random() < 0.5 else str(rng.choice(['sumsq', 'prod']))
        fsrc = VFUNCS[fname]
        x = [float(v) for v in rng.uniform(0.3, 1.5, size=2)]
        if rng.random() < 0.5:
            x = [float(v * rng.choice([-1.0, 1.0, -3.0])) for v in x]
    step = None
    if rng.random() < 0.3:
        step = {'_kind': 'min', 'base_step': float(rng.choice([1e-2, 1e-3, 0.05])), 'step_ratio': float(rng.choice([2.0, 1.6, 4.0, 1.5, 1.75, 2.5, 2.25])), 'num_steps': int(rng.integers(6, 12))}     # (ratios that share an integer part with each other and with the defaults 2 and 1.6)
    return {'class': cls, 'fsrc': fsrc, 'kw': kw, 'x': x, 'step': step}


def history_run(ctx, rng, nd, length):
    """A random history on live objects; returns the (spec, observed) pairs of its Call operations."""
    from numdifftools import finite_difference as fdm
    pool, obs = [], []
    # one generator with an explicit ratio, one with the default (n-dependent) ratio
    shared = nd.MinStepGenerator(base_step=0.01, step_ratio=2.0, num_steps=9) if rng.random() < 0.5 else nd.MinStepGenerator(base_step=0.01, num_steps=9)
    shared_default_ratio = shared._step_ratio is None
    for _ in range(length):
        op = str(rng.choice(['construct', 'call', 'call', 'call', 'set-restore', 'set-keep', 'share-gen', 'clear', 'prepopulate']))
        if op == 'construct' or not pool:
            s = random_spec(rng)
            f = eval(s['fsrc'], {'np': np})
            kw = dict(s['kw'])
            if s['step'] is not None:
                kw['step'] = nd.MinStepGenerator(**{k: v for k, v in s['step'].items() if k != '_kind'})
            pool.append((s, getattr(nd, s['class'])(f, full_output=True, **kw)))
        elif op == 'call':
            s, d = pool[int(rng.integers(0, len(pool)))]
            s2 = dict(s)
            if rng.random() < 0.5:        # same object, another point
                s2['x'] = [float(v) for v in rng.uniform(0.3, 1.5, size=len(s['x']))] if isinstance(s['x'], list) else float(rng.uniform(0.2, 2.0))
            val, info = d(np.array(s2['x']) if isinstance(s2['x'], list) else s2['x'])
            obs.append((s2, {'value': hexify(val), 'error_estimate': hexify(info.error_estimate), 'final_step': hexify(info.final_step),
                             'index': [int(i) for i in np.atleast_1d(info.index).ravel()]}))
        elif op == 'set-restore':
            s, d = pool[int(rng.integers(0, len(pool)))]
            if s['class'] == 'Derivative':
                which = str(rng.choice(['n', 'order', 'method']))
                old = getattr(d, which)
                tmp = {'n': int(rng.choice([2, 3])) if old == 1 else int(rng.choice([0, 1, 1, 4])), 'order': int(rng.choice([2, 4, 6])), 'method': str(rng.choice(['central', 'forward', 'backward']))}[which] if which != 'n' or True else None
                if which == 'method' and s['kw']['method'] in ('complex', 'multicomplex'):
                    continue          # the property speaks of restoring a real-step method
                setattr(d, which, tmp)
                if rng.random() < 0.8:
                    try:
                        d(0.7)
                    except Exception:   # noqa  (e.g. too few user steps for the temporary configuration)
                        pass
                setattr(d, which, old)
                # the restored object must behave as a fresh one
                val, info = d(np.array(s['x']) if isinstance(s['x'], list) else s['x'])
                obs.append((s, {'value': hexify(val), 'error_estimate': hexify(info.error_estimate), 'final_step': hexify(info.final_step),
                                'index': [int(i) for i in np.atleast_1d(info.index).ravel()]}))
        elif op == 'set-keep':
            # call, change order (any class) or n / method (Derivative) for good, call again: the object must now behave as a fresh object
            # constructed with the new configuration (the rule, the step generator and the extrapolator all follow the attribute)
            i = int(rng.integers(0, len(pool)))
            s, d = pool[i]
            if s['step'] is not None or s['class'] == 'Hessian':
                continue
            which = 'order' if s['class'] != 'Derivative' else str(rng.choice(['order', 'order', 'n']))
            new_val = int(rng.choice([2, 4, 6])) if which == 'order' else int(rng.choice([1, 2, 3]))
            if s['kw'].get('method') in ('complex', 'multicomplex') and which == 'n':
                continue
            try:
                d(np.array(s['x']) if isinstance(s['x'], list) else s['x'])
            except Exception:   # noqa
                pass
            setattr(d, which, new_val)
            s2 = dict(s, kw=dict(s['kw'], **{which: new_val}))
            pool[i] = (s2, d)
            try:
                val, info = d(np.array(s2['x']) if isinstance(s2['x'], list) else s2['x'])
            except Exception:   # noqa
                continue
            obs.append((s2, {'value': hexify(val), 'error_estimate': hexify(info.error_estimate), 'final_step': hexify(info.final_step),
                             'index': [int(i_) for i_ in np.atleast_1d(info.index).ravel()]}))
        elif op == 'share-gen':
            s = random_spec(rng)
            s['step'] = {'_kind': 'min', 'base_step': 0.01, 'num_steps': 9} if shared_default_ratio else {'_kind': 'min', 'base_step': 0.01, 'step_ratio': 2.0, 'num_steps': 9}
            if s['class'] == 'Derivative' and s['kw'].get('n', 1) + s['kw'].get('order', 2) > 9:
                continue
            f = eval(s['fsrc'], {'np': np})
            pool.append((s, getattr(nd, s['class'])(f, full_output=True, step=shared, **s['kw'])))
        elif op == 'clear':
            fdm.FD_RULES.clear()
        elif op == 'prepopulate':
            for m_, n_, o_ in [('central', 1, 2), ('forward', 2, 3), ('complex', 3, 4)]:
                fdm.LogRule(n=n_, method=m_, order=o_).rule(float(rng.choice([2.0, 1.6])))
        ctx.count(1, ('op', op))
    return obs


def detour_grid(ctx, nd):
    """Deterministic change-and-restore detours on reused Derivative objects: every attribute (n incl. 0, order, method) is moved to every
    other value of a small grid, the object is called there, the attribute is restored and the object is called at its own point; the
    observation must equal the fresh evaluation of the ORIGINAL configuration."""
    obs = []
    fsrc = FUNCS[sorted(FUNCS)[0]]
    f = eval(fsrc, {'np': np})
    for method in ('central', 'forward', 'backward', 'complex'):
        for n in (1, 2, 3):
            for order in (2, 4):
                s = {'class': 'Derivative', 'fsrc': fsrc, 'kw': {'method': method, 'n': n, 'order': order}, 'x': 0.9, 'step': None}
                d = nd.Derivative(f, full_output=True, **s['kw'])
                detours = [('n', v) for v in (0, 1, 2, 3, 4) if v != n] + [('order', v) for v in (2, 4, 6) if v != order]
                if method not in ('complex',):
                    detours += [('method', v) for v in ('central', 'forward', 'backward') if v != method]
                for which, tmp in detours:
                    old = getattr(d, which)
                    setattr(d, which, tmp)
                    try:
                        vd, infod = d(0.7)
                        if not (which == 'method' and False):
                            obs.append((dict(s, kw=dict(s['kw'], **{which: tmp}), x=0.7, detour_call=[which, tmp]),
                                        {'value': hexify(vd), 'error_estimate': hexify(infod.error_estimate), 'final_step': hexify(infod.final_step),
                                         'index': [int(i) for i in np.atleast_1d(infod.index).ravel()]}))
                    except Exception:   # noqa
                        pass
                    setattr(d, which, old)
                    val, info = d(s['x'])
                    obs.append((dict(s, detour=[which, tmp]), {'value': hexify(val), 'error_estimate': hexify(info.error_estimate), 'final_step': hexify(info.final_step),
                                                              'index': [int(i) for i in np.atleast_1d(info.index).ravel()]}))
                    ctx.count(1, ('detour', which))
    # objects built with a plain numeric step exist (and were called) before default-step objects are evaluated at |x| > 1
    for h in (0.01, 1e-3):
        dn = nd.Derivative(f, step=h, full_output=True)
        dn(0.5)
        nd.Gradient(eval(VFUNCS['sumsq'], {'np': np}), step=h)(np.array([0.5, 0.25]))
        for cname, fs, kw, x in (('Derivative', fsrc, {'method': 'central'}, 5.0), ('Derivative', fsrc, {'method': 'forward', 'n': 2}, -4.0),
                                 ('Derivative', fsrc, {'method': 'complex'}, 3.0), ('Gradient', VFUNCS['sumsq'], {'method': 'central'}, [2.0, 3.0]),
                                 ('Hessdiag', VFUNCS['sumsq'], {'method': 'central'}, [2.0, -3.0])):
            ff = eval(fs, {'np': np})
            val, info = getattr(nd, cname)(ff, full_output=True, **kw)(np.array(x) if isinstance(x, list) else x)
            obs.append(({'class': cname, 'fsrc': fs, 'kw': dict(kw), 'x': x, 'step': None, 'after': 'objects with a numeric step'},
                        {'value': hexify(val), 'error_estimate': hexify(info.error_estimate), 'final_step': hexify(info.final_step),
                         'index': [int(i) for i in np.atleast_1d(info.index).ravel()]}))
            ctx.count(1, ('after-numeric-step', cname))
    return obs


def array_step_histories(ctx, nd):
    """Generators built with an ndarray base step (one step size per coordinate), reused: the same object called at x1 (|x1| > 1, so the
    nominal step is not 1) and then at x2, and one generator shared by two objects.  Every call must equal the fresh evaluation."""
    obs = []
    fsrc = VFUNCS['sumsq']
    f = eval(fsrc, {'np': np})
    for kind, base in (('min', [1e-4, 2e-4]), ('max', [0.5, 0.25]), ('min', [1e-3, 1e-3])):
        for cname, kw in (('Gradient', {'method': 'central'}), ('Hessdiag', {'method': 'central'}), ('Jacobian', {'method': 'forward'})):
            stepspec = {'_kind': kind, 'base_step': base, 'num_steps': 9, 'step_ratio': 2.0}
            mk = lambda: getattr(nd, 'MaxStepGenerator' if kind == 'max' else 'MinStepGenerator')(base_step=np.array(base), num_steps=9, step_ratio=2.0)     # noqa
            fs = fsrc if cname != 'Jacobian' else VFUNCS['vec']
            ff = eval(fs, {'np': np})
            gen = mk()
            d = getattr(nd, cname)(ff, full_output=True, step=gen, **kw)
            d2 = getattr(nd, cname)(ff, full_output=True, step=gen, **kw)          # a second object sharing the generator
            for obj, x in ((d, [3.0, -7.5]), (d, [0.4, 0.9]), (d2, [0.4, 0.9]), (d, [12.0, 0.1]), (d2, [3.0, -7.5])):
                try:
                    val, info = obj(np.array(x))
                except Exception:   # noqa
                    continue
                s = {'class': cname, 'fsrc': fs, 'kw': dict(kw), 'x': x, 'step': stepspec}
                obs.append((s, {'value': hexify(val), 'error_estimate': hexify(info.error_estimate), 'final_step': hexify(info.final_step),
                                'index': [int(i) for i in np.atleast_1d(info.index).ravel()]}))
                ctx.count(1, ('array-step-history', cname, kind))
    return obs


def key_histories(ctx, rng, N):
    from numdifftools import finite_difference as fdm
    cases, descs = [], []
    for _ in range(N):
        fdm.FD_RULES.clear()
        ops, txt = [], []
        for _ in range(int(rng.integers(1, 13))):
            if rng.random() < 0.15:
                fdm.FD_RULES.clear()
                ops.append('HClear')
                txt.append('clear')
            else:
                m = str(rng.choice(list(METHOD)))
                n, o = int(rng.integers(0, 9)), int(rng.integers(1, 9))
                if m == 'multicomplex' and n > 2:
                    n = 2
                ratio = float(rng.choice([2.0, 1.6, 4.0, 3.0]))
                fdm.LogRule(n=n, method=m, order=o).rule(ratio)
                ops.append('HCall %s %s %s %s' % (qlit(Fraction((ratio + 1.0) - 1.0)), METHOD[m], zlit(n), zlit(o)))
                txt.append((m, n, o, ratio))
        try:
            keys = ['(%s, %s, %s)' % (qlit(Fraction(float(k[0]))), zlit(k[1]), zlit(k[2])) for k in fdm.FD_RULES.keys()]
        except (IndexError, TypeError, ValueError):
            ctx.brk('correspondence', 'FD_RULES keys no longer have the shape (step_ratio, parity, num_terms)', {'keys': [repr(k) for k in list(fdm.FD_RULES.keys())[:5]]})
            fdm.FD_RULES.clear()
            return cases, descs
        cases.append('([%s], [%s])' % ('; '.join(ops), '; '.join(keys)))
        descs.append({'ops': txt, 'keys': [repr(k) for k in fdm.FD_RULES.keys()]})
        ctx.count(1, ('keys', len(ops) > 6))
    fdm.FD_RULES.clear()
    return cases, descs


def threads_run(ctx, rng, nd, nthreads, ncalls):
    specs = [[random_spec(rng) for _ in range(ncalls)] for _ in range(nthreads)]
    results = [[None] * ncalls for _ in range(nthreads)]
    errors = []

    def work(t):
        try:
            for i, s in enumerate(specs[t]):
                results[t][i] = evaluate(nd, s)
        except Exception as ex:   # noqa
            errors.append((t, repr(ex)))
    ths = [threading.Thread(target=work, args=(t,)) for t in range(nthreads)]
    for t in ths:
        t.start()
    for t in ths:
        t.join()
    return specs, results, errors


def run(ctx):
    import numdifftools as nd
    proof_stage(ctx, 'Props/C09.v')
    rng = ctx.rng(1)
    # (a) the cache key set after a history is the one the model predicts from the regenerated tables
    cases, descs = key_histories(ctx, rng, ctx.n(150, 1500))
    items = [('C09_%d' % s, HDR + 'Definition cases := [\n' + ';\n'.join(cases[s:s + 150]) + '].\nFixpoint failing (i : nat) (l : list _) : list nat := match l with [] => [] | c :: t => if ok c then failing (S i) t else i :: failing (S i) t end.\nEval vm_compute in (List.length cases, failing 0%nat cases).\n')
             for s in range(0, len(cases), 150)]
    res = coq_eval_many(items)
    for name, (rc, out) in sorted(res.items()):
        s = int(name.split('_')[1])
        pr = parse_count_fail(out)
        if rc != 0 or pr is None:
            ctx.brk('correspondence', 'case file %s could not be evaluated' % name, out[-1500:])
        else:
            for i in pr[1][:3]:
                ctx.brk('correspondence', 'FD_RULES key set after a history differs from the model (key = (make_exact ratio, parity, num_terms) from the regenerated tables)', descs[s + i])
    # (b) histories on live objects vs a fresh interpreter, bit for bit
    all_obs = []
    for h in range(ctx.n(12, 120)):
        all_obs += history_run(ctx, rng, nd, int(rng.integers(4, 13)) if not ctx.thorough else int(rng.integers(8, 41)))
    all_obs += detour_grid(ctx, nd)
    all_obs += array_step_histories(ctx, nd)
    ref, err = fresh_reference([s for s, _ in all_obs], 'hist')
    if ref is None:
        ctx.brk('correspondence', 'fresh-interpreter reference evaluation failed', err)
    else:
        for (s, o), r in zip(all_obs, ref):
            if o != r:
                ctx.violation('history:%s:%s' % (s['class'], s['kw'].get('method')),
                              'nd.%s(%s, %s)(%r) returned a different value/record after a history of other operations than in a fresh interpreter' % (s['class'], s['fsrc'], s['kw'], s['x']),
                              {'spec': s, 'after_history': o, 'fresh': r, 'how': 'evaluate the spec in a new python process and compare float.hex of value, error_estimate, final_step, index'})
                break
    # a few truly fresh single-evaluation processes
    for k, (s, o) in enumerate(all_obs[:ctx.n(3, 12)]):
        r1, err = fresh_reference([s], 'one%d' % k)
        if r1 is not None and r1[0] != o:
            ctx.violation('history-single:%s' % s['class'], 'evaluation in its own fresh process differs from the value observed after a history', {'spec': s, 'after_history': o, 'fresh': r1[0]})
    ctx.cov['traces_validated_against_impl'] = len(all_obs) + len(cases)
    # (c) threads: disjoint objects used concurrently
    specs, results, errors = threads_run(ctx, rng, nd, ctx.n(8, 16), ctx.n(6, 25))
    if errors:
        ctx.violation('threads-raise', 'concurrent use of disjoint derivative objects raised %s' % errors[0][1], {'errors': errors[:3]})
    flat = [s for row in specs for s in row]
    ref, err = fresh_reference(flat, 'thr')
    if ref is not None and not errors:
        got = [r for row in results for r in row]
        for s, g, r in zip(flat, got, ref):
            ctx.count(1, ('thread-call', s['class']))
            if g != r:
                ctx.violation('threads:%s' % s['class'], 'a call made while other threads used other derivative objects differs from the fresh evaluation', {'spec': s, 'concurrent': g, 'fresh': r})
                break
    for s, o in all_obs[:2]:
        ctx.sample({'spec': s, 'observed': {k: v[:2] for k, v in o.items()}})
    ctx.assumptions += ['theorems: the cached value is a function of the key (structural fact checked on the AST), dict get/set atomic, no derivative/generator object shared between threads',
                        'real OS scheduling is not what the schedule theorem is about; the thread run is supporting evidence',
                        'fresh-interpreter comparison is bit-for-bit (float.hex) on value, error_estimate, final_step, index']
    return ctx.finish(level='proof', checker_cmd='make -C coq Props/C09.vo + coqc build/cases/C09_*.v + fresh python subprocesses',
                      rule='random histories (construct, call at old/new point, set+restore n/order/method, share a generator, clear / pre-populate the cache) over a pool of configurations of all five classes; '
                           'key-set histories of rule() calls; concurrent disjoint objects; distinct = operation kinds and classes exercised')
