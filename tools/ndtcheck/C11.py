"""C11 - misuse fails loudly with ValueError instead of returning numbers."""
import itertools
import warnings

import numpy as np

from . import trval
from .core import METHOD, blit, coq_eval_many, parse_count_fail, proof_stage, zlit

HDR = '''Require Import NDT.Gen.Spec NDT.Gen.Guards NDT.Theory.GuardsTheory.
From Coq Require Import ZArith Bool List String. Import ListNotations. Open Scope Z_scope.
Definition oeq (a b : outcome) : bool := match a, b with Value, Value | ValueError, ValueError => true | _, _ => false end.
Definition ok (c : dclass * method * Z * bool * bool * outcome) : bool :=
  let '(cls, m, n, xc, fc, o) := c in
  (* model: complex guard, then the multicomplex n <= 2 guard *)
  let o' := match complex_outcome cls m xc fc with ValueError => ValueError | Value =>
              if String.eqb (get_middle_name m n 2) "!ValueError" then ValueError else Value end in
  oeq o o'.
'''
CLS = {'Derivative': 'CDerivative', 'Jacobian': 'CJacobian', 'Gradient': 'CGradient', 'Hessdiag': 'CHessdiag', 'Hessian': 'CHessian'}


def outcome(fn):
    try:
        with warnings.catch_warnings():
            warnings.simplefilter('ignore')
            r = fn()
        return 'Value', r
    except ValueError as ex:
        return 'ValueError', ex
    except Exception as ex:      # noqa
        return type(ex).__name__, ex


def run(ctx):
    import numdifftools as nd
    from numdifftools import fornberg, limits
    proof_stage(ctx, 'Props/C11.v')
    trval.run(ctx)
    rng = ctx.rng(1)
    cases, descs = [], []
    # ---- complex-step methods x classes x {complex x, complex-valued f, both, neither} x dimensions x n/order
    for cname, method, xc, fc, dim in itertools.product(CLS, ['complex', 'multicomplex', 'central', 'forward'], [False, True], [False, True], [1, 2, 3]):
        for n in (([1, 2] if method == 'multicomplex' else [1, 2, 3, 4, 5, 8]) if cname == 'Derivative' else [None]):
            for order in ([2, 4] if cname not in ('Hessian',) else [None]):
                kw = {'method': method}
                if n is not None:
                    kw['n'] = n
                if order is not None:
                    kw['order'] = order
                scalar_out = cname in ('Gradient', 'Hessdiag', 'Hessian')
                if fc:
                    f = (lambda x: np.sum(x ** 2) * (1 + 1j)) if scalar_out else (lambda x: x ** 2 * (1 + 1j))
                else:
                    f = (lambda x: np.sum(x ** 2)) if scalar_out else (lambda x: x ** 2)
                x = rng.uniform(0.5, 2, size=dim)
                if xc:
                    x = x + 1j * np.r_[1.0, np.zeros(dim - 1)]
                if cname == 'Derivative' and dim == 1:
                    x = x[0]
                obj = getattr(nd, cname)(f, **kw)
                o, r = outcome(lambda: obj(x))
                nn = 2 if cname in ('Hessdiag', 'Hessian') else (n or 1)
                desc = {'class': cname, 'method': method, 'n': nn, 'order': order, 'x_complex': xc, 'f_complex': fc, 'dim': dim, 'outcome': o,
                        'x': [complex(v).real if not xc else [complex(v).real, complex(v).imag] for v in np.atleast_1d(x)]}
                ctx.count(1, (cname, method, xc, fc))
                if method in ('complex', 'multicomplex'):
                    if o not in ('Value', 'ValueError'):
                        # neither a number nor the documented ValueError
                        if xc or fc:
                            ctx.violation('complex-misuse:%s:%s:%s' % (cname, 'x' if xc else '', 'f' if fc else ''),
                                          'nd.%s(f, method=%r)(x) with %s raises %s instead of ValueError' % (cname, method, 'complex x' if xc else 'complex-valued f', o), desc)
                        continue
                    cases.append('(%s, %s, %s, %s, %s, %s)' % (CLS[cname], METHOD[method], zlit(nn), blit(xc), blit(fc), o))
                    descs.append(desc)
                    if (xc or fc) and o == 'Value':
                        ctx.violation('complex-misuse:%s:%s:%s' % (cname, 'x' if xc else '', 'f' if fc else ''),
                                      'nd.%s(f, method=%r)(x) with %s returns numbers (%s) instead of raising ValueError' % (
                                          cname, method, ' and '.join(t for t, b in (('complex x', xc), ('complex-valued f', fc)) if b), str(np.ravel(r)[:2])), desc)
    # the same misuse at every magnitude: an imaginary part of 1e-15 or 1e-30 (of f or of x) is complex data all the same
    for cname, method, mag in itertools.product(CLS, ['complex', 'multicomplex'], [1e-6, 1e-13, 1e-15, 1e-18, 1e-30]):
        scalar_out = cname in ('Gradient', 'Hessdiag', 'Hessian')
        kw = {'method': method}
        for which in ('f', 'x'):
            if which == 'f':
                f = (lambda x, mag=mag: np.sum(np.exp(x)) * (mag * 1j)) if scalar_out else (lambda x, mag=mag: np.exp(x) * (mag * 1j))
                x = np.array([0.5, 1.25])
            else:
                f = (lambda x: np.sum(x ** 2)) if scalar_out else (lambda x: x ** 2)
                x = np.array([0.5, 1.25]) + 1j * np.array([mag, 0.0])
            if cname == 'Derivative':
                x = x[0]
            o, r = outcome(lambda: getattr(nd, cname)(f, **kw)(x))
            ctx.count(1, ('tiny-imag', cname, method, which))
            if o != 'ValueError':
                ctx.violation('complex-misuse:%s:%s:tiny' % (cname, which),
                              'nd.%s(f, method=%r)(x) with %s of magnitude %g %s instead of raising ValueError' % (
                                  cname, method, 'a purely imaginary f' if which == 'f' else 'an imaginary part of x', mag, 'returns numbers (%s)' % str(np.ravel(r)[:2]) if o == 'Value' else 'raises ' + o),
                              {'class': cname, 'method': method, 'magnitude': mag, 'complex': which})
    # multicomplex n > 2
    for n in (3, 4, 7):
        o, r = outcome(lambda: nd.Derivative(np.exp, method='multicomplex', n=n)(1.0))
        cases.append('(CDerivative, Multicomplex, %s, false, false, %s)' % (zlit(n), o if o in ('Value', 'ValueError') else 'Value'))
        descs.append({'class': 'Derivative', 'method': 'multicomplex', 'n': n, 'outcome': o})
        ctx.count(1, ('mc-n', n))
        if o != 'ValueError':
            ctx.violation('multicomplex-n:%d' % n, 'Derivative(method="multicomplex", n=%d) gives %s instead of ValueError' % (n, o), {'n': n})
    # ---- the other listed misuse shapes: the grid itself is the search
    def expect_ve(key, what, fn, rep):
        o, r = outcome(fn)
        ctx.count(1, (key.split(':')[0],))
        if o != 'ValueError':
            ctx.violation(key, '%s: %s instead of ValueError' % (what, 'returns ' + str(r)[:80] if o == 'Value' else 'raises ' + o), rep)

    def expect_ok(key, what, fn, rep):
        o, r = outcome(fn)
        ctx.count(1, (key.split(':')[0], 'valid'))
        if o != 'Value':
            ctx.brk('correspondence', '%s: valid use raises %s (%s)' % (what, o, r), rep)

    # function that does not return one value per input element
    for m, k in itertools.product([2, 3, 5], [0, 1, 4]):
        if k == m:
            continue
        fbad = (lambda x, k=k: np.ones(k)) if k else (lambda x: 1.0)
        expect_ve('size:Derivative:%d->%d' % (m, k), 'Derivative(f)(x) with f returning %d values for %d inputs' % (k, m),
                  lambda: nd.Derivative(fbad)(np.linspace(1, 2, m)), {'inputs': m, 'outputs': k})
    expect_ok('size', 'Derivative of an elementwise f', lambda: nd.Derivative(np.exp)(np.linspace(1, 2, 3)), {})
    # fewer steps than the rule needs
    for method, n, order in [('central', 1, 6), ('forward', 3, 4), ('complex', 5, 4)]:
        expect_ve('few-steps:%s:%d:%d' % (method, n, order), 'Derivative with a single user step for a rule that needs more',
                  lambda: nd.Derivative(np.exp, n=n, order=order, method=method, step=nd.MinStepGenerator(base_step=0.1, num_steps=1, check_num_steps=False))(1.0),
                  {'method': method, 'n': n, 'order': order})
    # directionaldiff sizes
    expect_ve('dirdiff', 'directionaldiff with vec of another size', lambda: nd.directionaldiff(lambda x: np.sum(x ** 2), [1.0, 2.0], [1.0, 2.0, 3.0]), {})
    expect_ok('dirdiff', 'directionaldiff', lambda: nd.directionaldiff(lambda x: np.sum(x ** 2), [1.0, 2.0], [1.0, 2.0]), {})
    # fd_weights / fd_derivative
    for m, n in [(3, 3), (3, 5), (1, 1)]:
        expect_ve('fdw:%d:%d' % (m, n), 'fd_weights with n >= len(x)', lambda: fornberg.fd_weights(np.arange(m, dtype=float), 0.0, n), {'m': m, 'n': n})
        expect_ve('fdwa:%d:%d' % (m, n), 'fd_weights_all with n >= len(x)', lambda: fornberg.fd_weights_all(np.arange(m, dtype=float), 0.0, n), {'m': m, 'n': n})
    for m in range(1, 8):
        for n in (m, m + 1, m + 3):
            expect_ve('fdw:%d:%d' % (m, n), 'fd_weights with n >= len(x)', lambda: fornberg.fd_weights(np.linspace(-1.0, 2.0, m), 0.3, n), {'m': m, 'n': n})
            expect_ve('fdwa:%d:%d' % (m, n), 'fd_weights_all with n >= len(x)', lambda: fornberg.fd_weights_all(list(range(m)), 0.5, n), {'m': m, 'n': n, 'nodes': 'list of ints'})
            expect_ve('fdd:n:%d:%d' % (m, n), 'fd_derivative with n >= len(x)', lambda: fornberg.fd_derivative(np.ones(m), np.arange(float(m)), n, 1), {'len': m, 'n': n})
        if m >= 2:
            expect_ok('fdw', 'fd_weights with n = len(x) - 1', lambda: fornberg.fd_weights(np.linspace(-1.0, 2.0, m), 0.3, m - 1), {'m': m})
        for dl in (-1, 1, 3):
            if m + dl >= 1:
                expect_ve('fdd:len:%d:%+d' % (m, dl), 'fd_derivative with len(fx) != len(x)', lambda: fornberg.fd_derivative(np.ones(m + dl), np.arange(float(m)) if m > 1 else np.arange(2.0), 1, 1),
                          {'len_x': max(m, 2), 'len_fx': m + dl}) if (m + dl) != max(m, 2) else None
    for shp_x, shp_v in (((3,), (2,)), ((2,), (3,)), ((2, 2), (3,)), ((4,), (2, 3)), ((1,), (2,))):
        expect_ve('dirdiff:%r:%r' % (shp_x, shp_v), 'directionaldiff with x0 of shape %r and vec of shape %r' % (shp_x, shp_v),
                  lambda: nd.directionaldiff(lambda x: np.sum(np.asarray(x) ** 2), np.ones(shp_x), np.ones(shp_v)), {'x0_shape': list(shp_x), 'vec_shape': list(shp_v)})
    # fewer steps than the rule needs: the other classes and generators
    for cname, kw in (('Gradient', dict(order=6)), ('Jacobian', dict(order=6)), ('Hessdiag', dict(order=6)), ('Derivative', dict(n=4, order=4, method='forward'))):
        for gen in (nd.MinStepGenerator(base_step=0.1, num_steps=1, check_num_steps=False), nd.MaxStepGenerator(base_step=0.1, num_steps=1, check_num_steps=False)):
            fsc = (lambda x: np.sum(np.asarray(x) ** 2)) if cname != 'Jacobian' else (lambda x: np.asarray(x) ** 2)
            xx = 1.0 if cname == 'Derivative' else np.array([1.0, 2.0])
            expect_ve('few-steps:%s:%s' % (cname, type(gen).__name__), '%s with a single user step (%s) for a rule that needs more' % (cname, type(gen).__name__),
                      lambda: getattr(nd, cname)(fsc if cname != 'Derivative' else np.exp, step=gen, **kw)(xx), {'class': cname, 'options': {k_: v_ for k_, v_ in kw.items()}, 'generator': type(gen).__name__})
    expect_ve('fdd:len', 'fd_derivative with len(fx) != len(x)', lambda: fornberg.fd_derivative(np.ones(9), np.arange(10.0), 1, 2), {})
    expect_ve('fdd:n', 'fd_derivative with n >= len(x)', lambda: fornberg.fd_derivative(np.ones(6), np.arange(6.0), 6, 1), {})
    expect_ok('fdd', 'fd_derivative', lambda: fornberg.fd_derivative(np.arange(10.0) ** 2, np.arange(10.0), 1, 2), {})
    # Residue order, Limit path
    for p, o_ in [(1, 1), (2, 2), (3, 1), (1, 0), (2, 0), (0, 0), (3, 0), (2, -1), (1, -2)]:
        expect_ve('residue:%d:%d' % (p, o_), 'Residue(pole_order=%d, order=%d)' % (p, o_), lambda: limits.Residue(lambda z: 1 / z, pole_order=p, order=o_), {'pole_order': p, 'order': o_})
    expect_ok('residue', 'Residue default order', lambda: limits.Residue(lambda z: 1 / z, pole_order=2), {})
    for path in ('diagonal', 'Radial ', '', 'straight', 'ray', 'radials', 'spirals', 'sideways', 'r', 's', 'SPIRAL'):
        expect_ve('path:%s' % path, 'Limit(path=%r)' % path, lambda: limits.Limit(np.sin, path=path), {'path': path})
    expect_ok('path', 'Limit(path="spiral")', lambda: limits.Limit(np.sin, path='spiral'), {})
    items = [('C11_%d' % s, HDR + 'Definition cases := [\n' + ';\n'.join(cases[s:s + 400]) + '].\nFixpoint failing (i : nat) (l : list _) : list nat := match l with [] => [] | c :: t => if ok c then failing (S i) t else i :: failing (S i) t end.\nEval vm_compute in (List.length cases, failing 0%nat cases).\n')
             for s in range(0, len(cases), 400)]
    res = coq_eval_many(items)
    nbad = 0
    for name, (rc, out) in sorted(res.items()):
        s = int(name.split('_')[1])
        pr = parse_count_fail(out)
        if rc != 0 or pr is None:
            ctx.brk('correspondence', 'case file %s could not be evaluated' % name, out[-1500:])
            continue
        for i in pr[1]:
            nbad += 1
            if nbad <= 5:
                ctx.brk('correspondence', 'outcome (numbers / ValueError) differs from the guard model built from Gen/Guards.v', descs[s + i])
    for d in descs[:2]:
        ctx.sample(d)
    ctx.cov['traces_validated_against_impl'] = len(cases)
    ctx.cov['correspondence_disagreements'] = nbad
    ctx.cov['exhaustive'] = True
    ctx.assumptions += ['the guard facts (which guard is reached before the first stencil evaluation, which conditions are asserted) are read off the AST by the translator; exceptions raised by numpy itself for dtype reasons are outside the model and are observed by the grid',
                        'the grid of misuse shapes is finite and enumerated completely each run']
    return ctx.finish(level='proof', checker_cmd='make -C coq Props/C11.vo + coqc build/cases/C11_*.v',
                      rule='5 classes x 4 methods x {complex x} x {complex f} x dims 1..3 x n/order; multicomplex n>2; size mismatch shapes; few steps; directionaldiff sizes; fd_weights/fd_derivative sizes; Residue orders; Limit paths; '
                           'distinct = (class, method, complex x, complex f) and misuse kinds exercised')
