"""Expression programs over the operator set of C01, with a numpy evaluator (works on floats, complex and
Bicomplex) and an independent mpmath evaluator (the oracle: derivatives by high-precision differentiation)."""
import sys

import numpy as np

UNARY = ['exp', 'log', 'sqrt', 'sin', 'cos', 'tan', 'sinh', 'cosh', 'tanh', 'arctan', 'arcsin', 'arcsinh', 'arctanh', 'expm1', 'log1p']
MP = {'arctan': 'atan', 'arcsin': 'asin', 'arcsinh': 'asinh', 'arctanh': 'atanh'}


def mp():
    p = '/opt/veriftools/pyvenv/lib/python3.11/site-packages'
    if p not in sys.path:
        sys.path.append(p)
    import mpmath
    mpmath.mp.dps = 60
    return mpmath


def gen(rng, depth):
    """Random expression tree (nested tuples)."""
    if depth == 0 or rng.random() < 0.15:
        return ('x',) if rng.random() < 0.75 else ('c', float(rng.choice([0.5, 1.0, 2.0, 3.0, -1.5, 0.25])))
    r = rng.random()
    if r < 0.45:
        return ('u', str(rng.choice(UNARY)), gen(rng, depth - 1))
    if r < 0.85:
        return ('b', str(rng.choice(['+', '-', '*', '/'])), gen(rng, depth - 1), gen(rng, depth - 1))
    if r < 0.95:
        return ('ipow', int(rng.choice([2, 3, -1, -2])), gen(rng, depth - 1))
    return ('rpow', float(rng.choice([0.5, 1.5, 2.5])), gen(rng, depth - 1))


def show(e):
    if e[0] == 'x':
        return 'x'
    if e[0] == 'c':
        return repr(e[1])
    if e[0] == 'u':
        return 'np.%s(%s)' % (e[1], show(e[2]))
    if e[0] == 'b':
        return '(%s %s %s)' % (show(e[2]), e[1], show(e[3]))
    return '(%s)**%r' % (show(e[2]), e[1])


def has_x(e):
    return e[0] == 'x' or any(has_x(s) for s in e[1:] if isinstance(s, tuple))


def ev_np(e, x):
    if e[0] != 'c' and not has_x(e):
        # constant sub-expressions are Python literals in a user's program, not numpy scalars
        return float(_ev_np(e, x))
    return _ev_np(e, x)


def _ev_np(e, x):
    if e[0] == 'x':
        return x
    if e[0] == 'c':
        return e[1]
    if e[0] == 'u':
        return getattr(np, e[1])(ev_np(e[2], x))
    if e[0] == 'b':
        a, b = ev_np(e[2], x), ev_np(e[3], x)
        return a + b if e[1] == '+' else a - b if e[1] == '-' else a * b if e[1] == '*' else a / b
    return ev_np(e[2], x) ** e[1]


def ev_mp(m, e, x):
    if e[0] == 'x':
        return x
    if e[0] == 'c':
        return m.mpf(e[1])
    if e[0] == 'u':
        v = ev_mp(m, e[2], x)
        if e[1] == 'expm1':
            return m.expm1(v)
        if e[1] == 'log1p':
            return m.log1p(v)
        return getattr(m, MP.get(e[1], e[1]))(v)
    if e[0] == 'b':
        a, b = ev_mp(m, e[2], x), ev_mp(m, e[3], x)
        return a + b if e[1] == '+' else a - b if e[1] == '-' else a * b if e[1] == '*' else a / b
    return ev_mp(m, e[2], x) ** (e[1] if isinstance(e[1], int) else m.mpf(e[1]))


def well_defined(m, e, x0, radius=0.3):
    """f real-analytic and tame in a neighbourhood of x0: sub-expression values stay in the functions' domains
    (checked on a few real points and on a small complex circle), magnitudes moderate."""
    def ok_val(name, v):
        re = m.re(v)
        if name in ('log', 'sqrt') and re < 0.2:
            return False
        if name == 'log1p' and re < -0.8:
            return False
        if name in ('arcsin', 'arctanh') and abs(re) > 0.8:
            return False
        if name in ('tan',) and abs(m.cos(v)) < 0.2:
            return False
        if name in ('exp', 'sinh', 'cosh', 'expm1') and abs(re) > 8:
            return False
        return True

    def walk(e, x):
        if e[0] == 'x':
            return x
        if e[0] == 'c':
            return m.mpf(e[1])
        if e[0] == 'u':
            v = walk(e[2], x)
            if v is None or not ok_val(e[1], v):
                return None
            return ev_mp(m, ('u', e[1], ('c', 0.0)), x) if False else _apply(m, e[1], v)
        if e[0] == 'b':
            a, b = walk(e[2], x), walk(e[3], x)
            if a is None or b is None:
                return None
            if e[1] == '/' and abs(b) < 0.2:
                return None
            return a + b if e[1] == '+' else a - b if e[1] == '-' else a * b if e[1] == '*' else a / b
        v = walk(e[2], x)
        if v is None:
            return None
        if (isinstance(e[1], float) or e[1] < 0) and (m.re(v) < 0.2 if isinstance(e[1], float) else abs(v) < 0.2):
            return None
        return v ** (e[1] if isinstance(e[1], int) else m.mpf(e[1]))
    # dense sampling of the real segment and of three circles: poles and branch points inside the disc are
    # found through the magnitude / domain tests of the intermediate values
    pts = [m.mpf(x0) + radius * (k - 20) / 20 for k in range(41)]
    for rr in (radius / 3, 2 * radius / 3, radius):
        pts += [m.mpf(x0) + rr * m.exp(1j * m.pi * k / 8) for k in range(16)]
    vals = []
    for p in pts:
        v = walk(e, p)
        if v is None or not m.isfinite(v) or abs(v) > 1e4:
            return False
        vals.append(abs(v))
    # tame: the function does not vary by orders of magnitude over the disc
    return max(vals) <= 1e3 * max(min(vals), 1e-3)


def _apply(m, name, v):
    if name == 'expm1':
        return m.expm1(v)
    if name == 'log1p':
        return m.log1p(v)
    return getattr(m, MP.get(name, name))(v)


def derivs(m, e, x0, nmax):
    """[f(x0), f'(x0), ..., f^(nmax)(x0)] at 60 digits (Taylor coefficients by contour integration: independent of the library)."""
    c = m.taylor(lambda t: ev_mp(m, e, t), m.mpf(x0), nmax, singular=False, radius=m.mpf('0.05'), method='quad') if False else \
        m.taylor(lambda t: ev_mp(m, e, t), m.mpf(x0), nmax)
    return [c[k] * m.factorial(k) for k in range(nmax + 1)]
