"""C01 - Derivative returns the true n-th derivative within the accuracy envelope (partial)."""
import math

import numpy as np

from . import exprs, pipe
from .core import coq_eval_many, parse_count_fail, proof_stage

# relative envelope per n (all methods), measured against S = max_{k<=8} |f^(k)(x)|; calibrated on the unchanged tree
# (tools/ndtcheck/exprs.py family, 4 x 40 expressions) with a margin of >= 100
ENVELOPE = {0: 1e-11, 1: 1e-8, 2: 1e-6, 3: 1e-5, 4: 1e-4, 5: 1e-3, 6: 1e-2}
# user-supplied nd.MinStepGenerator() left at its defaults: base step EPS**(1/default_scale), exactly as many steps as the rule needs (no extrapolation
# margin), so the attainable accuracy is lower; relative envelope per n, calibrated on the unchanged tree (np.exp: 4e-10, 9e-8, 2e-6, 5e-5, 6e-4, 4e-3)
ENVELOPE_MIN = {1: 1e-8, 2: 1e-6, 3: 1e-4, 4: 1e-3, 5: 1e-2, 6: 1e-1}
NMAX = {'central': 6, 'forward': 6, 'backward': 6, 'complex': 6, 'multicomplex': 2}
FUNCS = {'exp': np.exp, 'sin': np.sin, 'cubic': lambda x: x ** 3 + x ** 2, 'rational': lambda x: 1 / (1 + x * x), 'tanh': np.tanh, 'log1p': np.log1p,
         'atan': np.arctan}


def sweep(ctx, N):
    """Accuracy sweep against the independent oracle (mpmath Taylor coefficients of the same expression)."""
    import numdifftools as nd
    m = exprs.mp()
    rng = ctx.rng(31)
    done = 0
    tries = 0
    while done < N and tries < 40 * N:
        tries += 1
        e = exprs.gen(rng, int(rng.integers(1, 4)))
        if 'x' not in exprs.show(e).replace('exp', '').replace('expm1', ''):
            continue                      # constant expressions are not functions of x
        x0 = float(rng.choice([-1, 1]) * 10.0 ** rng.uniform(-2.0, 0.6))
        try:
            if not exprs.well_defined(m, e, x0, radius=0.3 * max(1.0, abs(x0))):
                continue
            D = exprs.derivs(m, e, x0, 8)
        except Exception:   # noqa
            continue
        S = max(float(max(abs(d) for d in D)), 1e-300)
        if float(max(abs(d) for d in D[1:])) < 1e-6:
            continue                      # (numerically) constant: x/x, x - x, ...
        done += 1
        src = exprs.show(e)

        def f(x, e=e):
            return exprs.ev_np(e, x)
        for method in NMAX:
            for n in range(0, NMAX[method] + 1):
                extra = int(rng.choice([1, 3, 5, 6, 7, 8]))        # every order 1..8 is met over the sweep
                for order in ([2, 4] if n <= 4 else [2]) + [extra]:
                    xs = x0 if (done + n) % 3 else np.array([x0, x0])
                    if order == extra and order > 4 and n > 0 and method in ('central', 'forward', 'backward'):
                        # a long rule leaves no estimate free of the largest default steps: the whole stencil must lie where f is tame
                        try:
                            from .C02 import steps_of
                            hi = steps_of(nd.Derivative(f, n=n, method=method, order=order), x0)[1]
                            if not exprs.well_defined(m, e, x0, radius=1.05 * hi * (2 if method == 'central' and n % 2 == 0 else 1)):
                                continue
                        except Exception:   # noqa
                            continue
                    try:
                        got = nd.Derivative(f, n=n, method=method, order=order)(xs)
                        got = float(np.ravel(got)[0])
                    except Exception as ex:   # noqa
                        ctx.violation('raises:%s:%d' % (method, n), 'nd.Derivative(lambda x: %s, n=%d, method=%r, order=%d)(%r) raises %r' % (src, n, method, order, x0, ex),
                                      {'f': src, 'x': x0, 'n': n, 'method': method, 'order': order})
                        continue
                    if not np.isfinite(got) and n > 0:
                        from .C02 import domain_ok
                        if not domain_ok(f, x0, nd.Derivative(f, n=n, method=method, order=order)):
                            continue      # the stencil leaves the domain of f (NaN evaluations): not an accuracy statement
                    ctx.count(1, ('sweep', method, n))
                    err = abs(got - float(D[n]))
                    if not err <= 100 * ENVELOPE[n] * S:
                        inv_trig = method == 'multicomplex' and n == 2 and any(t in src for t in ('arcsin', 'arccos', 'arctan('))
                        ctx.violation('accuracy:%s:%d%s' % (method, n, ':inverse-trig' if inv_trig else ''),
                                      'nd.Derivative(lambda x: %s, n=%d, method=%r, order=%d)(%r) = %r, exact %r (error %.3g, envelope %.3g x local scale %.3g)' % (
                                          src, n, method, order, x0, got, float(D[n]), err, 100 * ENVELOPE[n], S),
                                      {'f': src, 'x': x0, 'n': n, 'method': method, 'order': order, 'got': got, 'exact': float(D[n]), 'local_scale': S,
                                       'how': 'import numpy as np, numdifftools as nd; nd.Derivative(lambda x: <f>, n=n, method=method, order=order)(x)'})
                # the same call with the OTHER documented step ratio given by the user (2.0 where the default is 1.6 and vice versa): the rule is
                # then looked up / built for a ratio the defaults never ask for
                if method != 'multicomplex' and 1 <= n <= (4 if method in ('forward', 'backward') else 6):
                    order = [2, 4, 1, 3][(done + n) % 4]
                    ratio = 1.6 if n == 1 else 2.0
                    try:
                        got = float(np.ravel(nd.Derivative(f, n=n, method=method, order=order, step_ratio=ratio)(x0))[0])
                    except Exception as ex:   # noqa
                        ctx.violation('raises-user-ratio:%s:%d' % (method, n), 'nd.Derivative(lambda x: %s, n=%d, method=%r, order=%d, step_ratio=%r)(%r) raises %r' % (src, n, method, order, ratio, x0, ex),
                                      {'f': src, 'x': x0, 'n': n, 'method': method, 'order': order, 'step_ratio': ratio})
                        got = float('nan')
                    if np.isfinite(got):
                        ctx.count(1, ('sweep-user-ratio', method, n))
                        err = abs(got - float(D[n]))
                        ctx.cov['user_ratio_worst'] = max(ctx.cov.get('user_ratio_worst', 0.0), err / (100 * ENVELOPE[n] * S))
                        if not err <= 100 * ENVELOPE[n] * S:
                            ctx.violation('accuracy-user-ratio:%s:%d' % (method, n),
                                          'nd.Derivative(lambda x: %s, n=%d, method=%r, order=%d, step_ratio=%r)(%r) = %r, exact %r (error %.3g, envelope %.3g x local scale %.3g)' % (
                                              src, n, method, order, ratio, x0, got, float(D[n]), err, 100 * ENVELOPE[n], S),
                                          {'f': src, 'x': x0, 'n': n, 'method': method, 'order': order, 'step_ratio': ratio, 'got': got, 'exact': float(D[n]), 'local_scale': S})
                # the same call with a default-constructed MinStepGenerator (its base step comes from default_scale(method, n, order))
                if method != 'multicomplex' and n >= 1:
                    order = 2 if (done + n) % 2 else 4
                    try:
                        from .C02 import steps_of
                        dmin = nd.Derivative(f, n=n, method=method, order=order, step=nd.MinStepGenerator())
                        if steps_of(dmin, x0)[1] > 0.3 * max(1.0, abs(x0)):
                            continue          # every step is used: the stencil must stay inside the disc on which f was checked to be tame
                        got = float(np.ravel(dmin(x0))[0])
                    except Exception as ex:   # noqa
                        ctx.violation('raises-min-default:%s:%d' % (method, n), 'nd.Derivative(lambda x: %s, n=%d, method=%r, order=%d, step=nd.MinStepGenerator())(%r) raises %r' % (src, n, method, order, x0, ex),
                                      {'f': src, 'x': x0, 'n': n, 'method': method, 'order': order})
                        continue
                    if not np.isfinite(got):
                        continue
                    ctx.count(1, ('sweep-min-default', method, n))
                    err = abs(got - float(D[n]))
                    if not err <= 100 * ENVELOPE_MIN[n] * S:
                        ctx.violation('accuracy-min-default:%s:%d' % (method, n),
                                      'nd.Derivative(lambda x: %s, n=%d, method=%r, order=%d, step=nd.MinStepGenerator())(%r) = %r, exact %r (error %.3g, envelope %.3g x local scale %.3g)' % (
                                          src, n, method, order, x0, got, float(D[n]), err, 100 * ENVELOPE_MIN[n], S),
                                      {'f': src, 'x': x0, 'n': n, 'method': method, 'order': order, 'step': 'nd.MinStepGenerator()', 'got': got, 'exact': float(D[n]), 'local_scale': S})
    ctx.cov['sweep_expressions'] = done


def large_x_cases(ctx):
    """Points far from the origin (|x| = 27 .. 100): the default steps scale with the nominal step log(1.718 + |x|) >= 1, so functions that vary on
    a unit scale must still be resolved.  sin and cos(0.7 x) with their closed-form derivatives; envelope as in the sweep (local scale 1)."""
    import numdifftools as nd
    for fname, f, dk in (('np.sin(x)', np.sin, lambda x, k: math.sin(x + k * math.pi / 2)),
                         ('np.cos(0.7*x)', lambda x: np.cos(0.7 * x), lambda x, k: 0.7 ** k * math.cos(0.7 * x + k * math.pi / 2))):
        for x0 in (27.0, -55.0, 80.0, 100.0):
            for method in ('central', 'forward', 'backward', 'complex'):
                for n in (1, 2, 3, 4):
                    for order in (2, 4):
                        try:
                            got = float(np.ravel(nd.Derivative(f, n=n, method=method, order=order)(x0))[0])
                        except Exception as ex:   # noqa
                            ctx.violation('raises:%s:%d' % (method, n), 'nd.Derivative(lambda x: %s, n=%d, method=%r, order=%d)(%r) raises %r' % (fname, n, method, order, x0, ex), {'f': fname, 'x': x0, 'n': n, 'method': method, 'order': order})
                            continue
                        ctx.count(1, ('large-x', method, n))
                        exact = dk(x0, n)
                        err = abs(got - exact)
                        ctx.cov['large_x_worst'] = max(ctx.cov.get('large_x_worst', 0.0), err / (100 * ENVELOPE[n]))
                        if not err <= 100 * ENVELOPE[n]:
                            return ctx.violation('accuracy-large-x:%s:%d' % (method, n),
                                                 'nd.Derivative(lambda x: %s, n=%d, method=%r, order=%d)(%r) = %r, exact %r (error %.3g, envelope %.3g x local scale 1)' % (
                                                     fname, n, method, order, x0, got, exact, err, 100 * ENVELOPE[n]),
                                                 {'f': fname, 'x': x0, 'n': n, 'method': method, 'order': order, 'got': got, 'exact': exact})
    # complex-valued f with the real-step methods (the property's last clause): exp((1+2j) x) and 1/(x + 1j), every n and rule length
    import cmath
    for fname, f, dk in (('np.exp((1+2j)*x)', lambda x: np.exp((1 + 2j) * x), lambda x, k: (1 + 2j) ** k * cmath.exp((1 + 2j) * x)),
                         ('1/(x + 1j)', lambda x: 1.0 / (x + 1j), lambda x, k: (-1) ** k * math.factorial(k) / (x + 1j) ** (k + 1))):
        for method in ('central', 'forward', 'backward'):
            for n in (0, 1, 2, 3):
                for order in (2, 4, 6):
                    for xs in (0.3, np.array([0.3, -0.6])):
                        try:
                            got = complex(np.ravel(nd.Derivative(f, n=n, method=method, order=order)(xs))[0])
                        except Exception as ex:   # noqa
                            return ctx.violation('raises-complex-f:%s:%d' % (method, n), 'nd.Derivative(lambda x: %s, n=%d, method=%r, order=%d)(%r) raises %r' % (fname, n, method, order, xs, ex),
                                                 {'f': fname, 'n': n, 'method': method, 'order': order})
                        ctx.count(1, ('complex-f', method, n))
                        exact = dk(0.3, n)
                        if not abs(got - exact) <= 1e-6 * max(1.0, abs(exact)) * 10.0 ** n:
                            return ctx.violation('accuracy-complex-f:%s:%d' % (method, n),
                                                 'nd.Derivative(lambda x: %s, n=%d, method=%r, order=%d)(%r)[0] = %r, exact %r' % (fname, n, method, order, np.asarray(xs).tolist(), got, exact),
                                                 {'f': fname, 'x': np.asarray(xs).tolist(), 'n': n, 'method': method, 'order': order, 'got': repr(got), 'exact': repr(exact)})
    # the offset option of the default generator (steps base * ratio**(-i + offset)): a negative offset only shrinks every step
    for fname, f, dk in (('np.sin(10*x)', lambda x: np.sin(10 * x), lambda x, k: 10.0 ** k * math.sin(10 * x + k * math.pi / 2)),
                         ('np.exp(x)', np.exp, lambda x, k: math.exp(x))):
        for method in ('central', 'forward', 'backward'):
            for n in (1, 2):
                for offset in (-3, -6):
                    for how in ('option', 'generator'):
                        kw = {'offset': offset} if how == 'option' else {'step': nd.MaxStepGenerator(offset=offset)}
                        try:
                            got = float(np.ravel(nd.Derivative(f, n=n, method=method, **kw)(0.3))[0])
                        except Exception:   # noqa
                            continue
                        ctx.count(1, ('offset', method, n))
                        exact = dk(0.3, n)
                        if not abs(got - exact) <= 1e-5 * 10.0 ** n:
                            return ctx.violation('accuracy-offset:%s:%d' % (method, n),
                                                 'nd.Derivative(lambda x: %s, n=%d, method=%r, %s)(0.3) = %r, exact %r' % (fname, n, method, 'offset=%d' % offset if how == 'option' else 'step=nd.MaxStepGenerator(offset=%d)' % offset, got, exact),
                                                 {'f': fname, 'x': 0.3, 'n': n, 'method': method, 'offset': offset, 'given_as': how, 'got': got, 'exact': exact})
    return False


# derivative orders above 6, where the library still delivers digits: the complex-step rules are documented up to n = 10, central keeps working to
# n = 9 (forward / backward do not: their errors are of order one from n = 8 on, on the unchanged tree too, and are left out).  Envelope relative
# to the local scale max_k |f^(k)(x)|, k <= n, calibrated on the unchanged tree over this grid (worst: complex 7.9e-6, 6.3e-5, 1.5e-4, 1.7e-4 for
# n = 7..10; central 1.3e-5, 3.0e-5, 6.5e-5 for n = 7..9) with a factor 50 .. 100
ENVELOPE_HIGH = {('complex', 7): 1e-3, ('complex', 8): 3e-3, ('complex', 9): 1e-2, ('complex', 10): 1e-2,
                 ('central', 7): 1e-3, ('central', 8): 2e-3, ('central', 9): 5e-3}


def high_order_cases(ctx):
    import math
    import numdifftools as nd
    fs = {'np.exp(x)': (np.exp, lambda n, x: math.exp(x)),
          'np.sin(x)': (np.sin, lambda n, x: math.sin(x + n * math.pi / 2)),
          'np.exp(2*x)': (lambda x: np.exp(2 * x), lambda n, x: 2.0 ** n * math.exp(2 * x)),
          'x*np.exp(x)': (lambda x: x * np.exp(x), lambda n, x: (x + n) * math.exp(x)),
          'np.cos(0.5*x)': (lambda x: np.cos(0.5 * x), lambda n, x: 0.5 ** n * math.cos(0.5 * x + n * math.pi / 2))}
    for (method, n), env in sorted(ENVELOPE_HIGH.items()):
        for src, (f, d) in fs.items():
            for x in (0.5, 1.0, 2.0, -1.0, 0.1, -3.0):
                try:
                    got = float(nd.Derivative(f, n=n, method=method)(x))
                except Exception as ex:   # noqa
                    ctx.violation('raises:%s:%d' % (method, n), 'nd.Derivative(lambda x: %s, n=%d, method=%r)(%r) raises %r' % (src, n, method, x, ex), {'f': src, 'x': x, 'n': n, 'method': method})
                    continue
                ctx.count(1, ('high-order', method, n))
                S = max(abs(d(k, x)) for k in range(0, n + 1))
                err = abs(got - d(n, x))
                if not err <= env * S:
                    if ctx.violation('accuracy-high-order:%s:%d' % (method, n), 'nd.Derivative(lambda x: %s, n=%d, method=%r)(%r) = %r, exact %r (error %.3g, envelope %.3g x local scale %.3g)' % (
                            src, n, method, x, got, d(n, x), err, env, S), {'f': src, 'x': x, 'n': n, 'method': method, 'got': got, 'exact': d(n, x), 'local_scale': S}):
                        break


def integer_points(ctx):
    """The point given with an integer type (Python int, numpy integer scalars, 0-d and 1-d integer arrays, lists of ints): the same bits as
    for the float64 point with the same value.  (float32 points are NOT in this list: NumPy carries single precision through the steps and
    the evaluations, which is the caller's choice of precision, outside the statement -- DESIGN 9.3.)"""
    import numdifftools as nd

    def f(x):
        return np.exp(0.5 * x) + x ** 3
    for method in NMAX:
        for n in (1, 2, 3):
            if n > NMAX[method]:
                continue
            for xi in (1, -2, 0, 3):
                ref_s = nd.Derivative(f, n=n, method=method, full_output=True)(float(xi))
                ref_v = nd.Derivative(f, n=n, method=method, full_output=True)(np.array([float(xi), float(xi + 1)]))
                for name, xv, ref in (('Python int', xi, ref_s), ('np.int64', np.int64(xi), ref_s), ('np.int32', np.int32(xi), ref_s), ('0-d integer array', np.array(xi), ref_s),
                                      ('list of ints', [xi, xi + 1], ref_v), ('int64 array', np.array([xi, xi + 1]), ref_v)):
                    desc = {'f': 'np.exp(0.5*x) + x**3', 'n': n, 'method': method, 'x': xi, 'x_given_as': name}
                    try:
                        got = nd.Derivative(f, n=n, method=method, full_output=True)(xv)
                    except Exception as ex:   # noqa
                        ctx.violation('integer-point-raises:%s' % method, 'nd.Derivative(f, n=%d, method=%r)(x = %r given as %s) raises %r' % (n, method, xi, name, ex), desc)
                        continue
                    ctx.count(1, ('integer-point', method))
                    if np.shape(got[0]) != np.shape(ref[0]) or not np.array_equal(np.asarray(got[0]), np.asarray(ref[0])) \
                            or not np.array_equal(np.asarray(got[1].error_estimate), np.asarray(ref[1].error_estimate)):
                        if ctx.violation('integer-point:%s' % method, 'nd.Derivative(lambda x: np.exp(0.5*x) + x**3, n=%d, method=%r)(x = %r given as %s) = %r, for the float64 point %r' % (
                                n, method, xi, name, np.asarray(got[0]).tolist(), np.asarray(ref[0]).tolist()), desc):
                            return


def run(ctx):
    import numdifftools as nd
    proof_stage(ctx, ['Props/C01.v', 'Props/C01b.v'])
    rng = ctx.rng(1)
    cases, descs = [], []
    skipped = {}
    for k in range(ctx.n(700, 7000)):
        fname = list(FUNCS)[k % len(FUNCS)]
        method = str(rng.choice(list(NMAX)))
        n = int(rng.integers(1, NMAX[method] + 1)) if k % 25 else 0
        order = int(rng.integers(1, 9))
        x = float(rng.uniform(0.05, 3)) if rng.random() < 0.8 else float(10.0 ** rng.uniform(-3, 2))
        kw = {}
        gen = 'default'
        if k % 4 == 1:
            gen = 'min'
            kw['step'] = nd.MinStepGenerator(base_step=float(rng.choice([1e-2, 1e-3, 0.05])), step_ratio=float(rng.choice([2.0, 1.6, 4.0, 3.0])),
                                             num_steps=int(rng.integers(8, 14)))
        elif k % 4 == 2:
            gen = 'max'
            kw['step'] = nd.MaxStepGenerator(base_step=float(rng.choice([0.5, 1.0, 2.0])), step_ratio=float(rng.choice([2.0, 1.6])), num_steps=int(rng.integers(10, 18)))
        elif k % 4 == 3 and n > 0:
            gen = 'scalar'
            kw['step'] = float(rng.choice([1e-2, 1e-3]))
        if fname in ('log1p',) and x > 50:
            x = 1.0
        d = nd.Derivative(FUNCS[fname], n=n, method=method, order=order, full_output=True, **kw)
        try:
            val, info, rec = pipe.capture_call(d, x)
        except ValueError:
            skipped['ValueError (too few user steps)'] = skipped.get('ValueError (too few user steps)', 0) + 1
            continue
        except Exception as ex:   # noqa
            ctx.brk('correspondence', 'Derivative raised %r' % (ex,), {'f': fname, 'x': x, 'n': n, 'order': order, 'method': method, 'generator': gen})
            continue
        if n == 0:
            ctx.count(1, ('n0', method))
            if float(val) != float(FUNCS[fname](np.asarray(x))):
                ctx.violation('n0:%s' % method, 'Derivative(%s, n=0, method=%r)(%r) = %r but f(x) = %r' % (fname, method, x, float(val), float(FUNCS[fname](x))), {'f': fname, 'x': x})
            continue
        bad = pipe.context_certificate(rec)
        if bad:
            ctx.brk('oracle-certificate', 'Derivative(%s, n=%d, method=%r, order=%d, %s steps)(%r): %s' % (fname, n, method, order, gen, x, bad), {'f': fname, 'x': x, 'n': n, 'order': order, 'method': method, 'generator': gen})
        cs, why = pipe.column_cases(val, info, rec)
        if why:
            skipped[why] = skipped.get(why, 0) + 1
            continue
        cases += cs
        descs.append({'f': fname, 'x': x, 'n': n, 'order': order, 'method': method, 'generator': gen, 'value': float(val), 'error_estimate': float(np.ravel(info.error_estimate)[0])})
        ctx.count(1, ('pipeline', method, n, gen))
        if k < 2:
            ctx.sample(descs[-1])
    items = [('C01_%d' % s, pipe.HDR + 'Definition cases := [\n' + ';\n'.join(cases[s:s + 150]) + '].\nEval vm_compute in (List.length cases, failing okP cases).\n')
             for s in range(0, len(cases), 150)]
    res = coq_eval_many(items)
    nbad = 0
    for name, (rc, out) in sorted(res.items()):
        s = int(name.split('_')[1])
        pr = parse_count_fail(out)
        if rc != 0 or pr is None:
            ctx.brk('correspondence', 'case file %s could not be evaluated' % name, out[-1500:])
            continue
        for i in pr[1]:
            nbad += 1
            if nbad <= 5:
                ctx.brk('correspondence', 'Derivative(..., full_output=True) differs bit-for-bit (value, error estimate, final step or index) from Model/Pipeline.v fed the recorded difference quotients', descs[s + i])
    ctx.cov['traces_validated_against_impl'] = len(cases)
    ctx.cov['correspondence_disagreements'] = nbad
    ctx.cov['skipped'] = skipped
    large_x_cases(ctx)
    high_order_cases(ctx)
    integer_points(ctx)
    sweep(ctx, ctx.n(25, 400) if not ctx.broken else 150)
    ctx.assumptions += ['PARTIAL: proved = exactness of the whole pipeline on estimates of the modelled form (hence on polynomials, via C06/C07/C13) and n = 0; NOT proved = the accuracy envelope for non-polynomial analytic f (explored by the sweep against mpmath Taylor coefficients, with an envelope calibrated on the unchanged tree)',
                        'difference quotients, pinv rows and h**n are recorded from the run (stencils: C05/C06)']
    return ctx.finish(level='proof', checker_cmd='make -C coq Props/C01.vo Props/C01b.vo + coqc build/cases/C01_*.v',
                      rule='pipeline: 7 functions x 5 methods x n 0..6(2) x order 1..8 x default/Min/Max/scalar steps, scalar x over 1e-3..1e2; sweep: random expression programs over the property\'s operator set vs mpmath, methods x n x orders 2,4, scalar and array x; '
                           'distinct = (kind, method, n, generator) combinations hit')
