"""C05 - the function is only evaluated where the chosen method promises."""
import numpy as np

from . import trval
from .core import METHOD, blit, coq_eval_many, flist, flit, parse_count_fail, proof_stage, zlit

HDR = '''Require Import NDT.Arith.OpsFloat NDT.Gen.Spec NDT.Model.Points NDT.Model.PointsFloat.
From Coq Require Import PrimFloat ZArith List Bool. Import ListNotations.
'''
CLS = {'Derivative': 0, 'Jacobian': 1, 'Gradient': 1, 'Hessdiag': 2, 'Hessian': 3}


def q4(arg):
    """An argument passed to f -> list of (re, i1, i2, i12) per coordinate."""
    from numdifftools.multicomplex import Bicomplex
    if isinstance(arg, Bicomplex):
        z1, z2 = np.ravel(arg.z1), np.ravel(arg.z2)
        return [(float(a.real), float(a.imag), float(b.real), float(b.imag)) for a, b in zip(z1, z2)]
    a = np.ravel(np.asarray(arg))
    if np.iscomplexobj(a):
        return [(float(v.real), float(v.imag), 0.0, 0.0) for v in a]
    return [(float(v), 0.0, 0.0, 0.0) for v in a]


def ptlit(p):
    return '[' + '; '.join('(%s, %s, %s, %s)' % tuple(flit(c) for c in t) for t in p) + ']'


def run_one(rng, nd, cname, method, n, order, dim, gen_kind, full_output, via_setter=False, matrix_x=False):
    seen = []

    def f(x):
        seen.append(q4(x))
        xs = x if cname == 'Derivative' else None
        if cname == 'Derivative':
            return x * x * x + 2.0 * x
        if cname == 'Jacobian':
            return np.array([x[0] * x[-1], x[0] + x[-1] * x[-1], x[0] * 3.0])
        return (x * x).sum() if hasattr(x, 'sum') else (x * x)   # scalar valued
    if cname in ('Gradient', 'Hessdiag', 'Hessian'):
        def f(x, seen=seen):   # noqa  (Bicomplex has no .sum(): build the scalar by indexing)
            seen.append(q4(x))
            acc = x[0] * x[0]
            for i in range(1, dim):
                acc = acc + x[i] * x[i] * (i + 1.0) + x[0] * x[i]
            return acc
    if matrix_x and cname == 'Gradient' and method != 'multicomplex':
        def f(x, seen=seen):   # noqa  (accepts an argument of any shape: what is judged is WHERE it is evaluated)
            seen.append(q4(x))
            xx = np.ravel(x)
            acc = xx[0] * xx[0]
            for i in range(1, xx.size):
                acc = acc + xx[i] * xx[i] * (i + 1.0) + xx[0] * xx[i]
            return acc
    kw = {'method': method, 'full_output': full_output}
    if cname == 'Derivative' or (cname in ('Jacobian', 'Gradient') and n != 1):
        kw['n'] = n
    if cname != 'Hessian':
        kw['order'] = order
    if gen_kind == 'min':
        kw['step'] = nd.MinStepGenerator(base_step=float(rng.choice([1e-2, 1e-3, 0.05])), step_ratio=float(rng.choice([2.0, 1.6, 4.0])), num_steps=int(rng.integers(6, 11)),
                                         offset=int(rng.integers(0, 2)))
    elif gen_kind == 'max':
        kw['step'] = nd.MaxStepGenerator(base_step=float(rng.choice([0.5, 1.0, 2.0])), step_ratio=float(rng.choice([2.0, 1.6])), num_steps=int(rng.integers(8, 14)))
    elif gen_kind == 'scalar':
        kw['step'] = float(rng.choice([1e-2, 1e-3]))
    if via_setter:
        # the configuration arrives through the attribute setters of an object built with ANOTHER method / order (/ n): it must then behave as
        # an object constructed with the final configuration
        kw0 = dict(kw)
        kw0['method'] = 'central' if method != 'central' else 'forward'
        if 'order' in kw0:
            kw0['order'] = 2 if order != 2 else 4
        if cname == 'Derivative':
            kw0['n'] = 1 if n != 1 else 2
        d = getattr(nd, cname)(f, **kw0)
        if cname == 'Derivative':
            d.n = n
        if 'order' in kw:
            d.order = order
        d.method = method
    else:
        d = getattr(nd, cname)(f, **kw)
    if cname == 'Derivative':
        x = float(rng.uniform(0.3, 2.0)) if dim == 1 else rng.uniform(0.3, 2.0, size=dim)
    else:
        x = rng.uniform(0.3, 2.0, size=dim)
    # "every x": negative coordinates (the nominal step is a function of |x|: -e <= x <= -1 is where a sign slip would show), mixed signs,
    # an exact zero among the coordinates, large magnitudes
    mode = int(rng.integers(0, 6))
    if mode == 1:
        x = -1.4 * x
    elif mode == 2:
        x = x * 1.5 * (rng.choice([-1.0, 1.0], size=dim) if dim > 1 or cname != 'Derivative' else float(rng.choice([-1.0, 1.0])))
    elif mode == 3:
        if np.ndim(x) == 0:
            x = 0.0
        else:
            x = -x
            x[int(rng.integers(0, dim))] = 0.0
    elif mode == 4:
        x = x * float(rng.choice([-1.0, 1.0])) * float(10.0 ** int(rng.integers(1, 5)))
    rec = {}
    orig = d._get_steps

    def get_steps(x_i):
        steps, ratio = orig(x_i)
        rec['steps'] = [np.array(s, dtype=float, copy=True) for s in steps]
        return steps, ratio
    d._get_steps = get_steps
    if matrix_x and cname == 'Gradient' and dim % 2 == 0 and dim >= 4:
        x = x.reshape(2, dim // 2)            # "fun is assumed to be a function of n * m variables": the point is flattened
    try:
        d(x)
    except Exception as ex:   # noqa
        if not seen or rec.get('steps') is None:
            raise
        rec['raised'] = ex                   # the arguments recorded so far are judged first
    return d, x, rec.get('steps'), seen, rec.get('raised')


def predicates(ctx, desc, cname, method, name_hint, x, steps, seen):
    """The property's own predicates on the recorded arguments."""
    xr = np.ravel(np.asarray(x, dtype=float))
    hmax = max(float(np.max(np.abs(s))) for s in steps)
    for p in seen:
        re = np.array([t[0] for t in p])
        im = np.array([[t[1], t[2], t[3]] for t in p])
        dre = re - xr
        if method == 'forward' and np.any(dre < 0):
            return ctx.violation('forward-below:%s' % cname, "method='forward' evaluates f at a coordinate below x", dict(desc, point=re.tolist()))
        if method == 'backward' and np.any(dre > 0):
            return ctx.violation('backward-above:%s' % cname, "method='backward' evaluates f at a coordinate above x", dict(desc, point=re.tolist()))
        if method == 'multicomplex' or (method == 'complex' and (name_hint == '_complex' or (desc.get('n') == 1 and desc.get('order', 9) < 4))):
            if np.any(dre != 0):
                return ctx.violation('real-part-moved:%s:%s' % (cname, method), 'method=%r changes the real part of an argument' % method, dict(desc, point=re.tolist()))
        if method in ('central', 'forward', 'backward') and np.any(im != 0):
            return ctx.violation('complex-argument:%s' % cname, 'a real-step method passes a complex argument', dict(desc))
        width = 2.0 * hmax * (1 + 1e-12)
        # (x + k h is rounded to the grid of x: one ulp of |x| of slack on the real part)
        if np.any(np.abs(dre) > width + 4 * 2.0 ** -52 * np.abs(xr)) or np.any(np.abs(im) > width):
            return ctx.violation('too-far:%s:%s' % (cname, method), 'an evaluation point differs from x by more than twice the largest step', dict(desc, point=re.tolist()))
        moved = int(np.sum((dre != 0) | np.any(im != 0, axis=1)))
        if cname in ('Gradient', 'Jacobian', 'Hessdiag') and moved > 1:
            return ctx.violation('coordinates:%s' % cname, '%s perturbs %d coordinates in one evaluation' % (cname, moved), dict(desc, point=re.tolist()))
        if cname == 'Hessian' and moved > 2:
            return ctx.violation('coordinates:Hessian', 'Hessian perturbs %d coordinates in one evaluation' % moved, dict(desc, point=re.tolist()))
    if method in ('central', 'central2') :
        # pairs symmetric about x (structurally: the same displacement added and subtracted), plus x itself
        pts = [tuple(t[0] for t in p) for p in seen]
        disp = [tuple(np.array(p) - xr) for p in pts]
        for dv in disp:
            if any(dv) and not any(np.allclose(np.array(dv), -np.array(e), rtol=1e-12, atol=4 * 2.0 ** -52 * float(np.max(np.abs(xr)))) for e in disp):
                return ctx.violation('central-unpaired:%s' % cname, 'a central evaluation point has no mirror image about x', dict(desc, displacement=list(dv)))
    return False


def run(ctx):
    import numdifftools as nd
    from numdifftools import finite_difference as fdm
    proof_stage(ctx, ['Props/C05.v', 'Props/C05b.v'], extra_targets=['Model/PointsFloat.vo'])
    trval.run(ctx)
    rng = ctx.rng(1)
    sr, si, sq2 = float(fdm._SQRT_J.real), float(fdm._SQRT_J.imag), float(np.sqrt(2.0))
    cases, descs = [], []
    # a small deterministic grid first (every method x n 1..4 x order 1..4 for Derivative, the complex-step orders 1..4 for Jacobian / Gradient), then random configurations
    grid = [('Derivative', m_, n_, o_, 1) for m_ in ('central', 'forward', 'backward', 'complex', 'multicomplex') for n_ in (1, 2, 3, 4) for o_ in (1, 2, 3, 4)
            if not (m_ == 'multicomplex' and n_ > 2)]
    grid += [(c_, 'complex', 1, o_, 2) for c_ in ('Jacobian', 'Gradient') for o_ in (1, 2, 3, 4)]
    grid += [(c_, m_, 2, 2, 3) for c_ in ('Jacobian', 'Gradient') for m_ in ('central', 'forward', 'backward', 'complex')]
    for k in range(-len(grid), ctx.n(500, 5000)):
        cname = ['Derivative', 'Jacobian', 'Gradient', 'Hessdiag', 'Hessian'][k % 5]
        method = str(rng.choice(['central', 'forward', 'backward', 'complex', 'multicomplex'] + (['central2'] if cname == 'Hessian' else [])))
        dim = int(rng.integers(1, 6))
        if cname == 'Jacobian' and dim == 1:
            dim = 2
        n = int(rng.integers(1, 7)) if method != 'multicomplex' else int(rng.integers(1, 3))
        if cname != 'Derivative':
            # (Jacobian and Gradient accept n through their options; their stencil set covers n = 1 and the even rules of n = 2)
            n = (int(rng.integers(1, 3)) if method != 'multicomplex' else 1) if cname in ('Jacobian', 'Gradient') else 2
        order = int(rng.integers(1, 9))
        gen_kind = str(rng.choice(['default', 'default', 'min', 'max', 'scalar']))
        if k < 0:
            cname, method, n, order, dim = grid[k + len(grid)]
            gen_kind = 'default'
        if gen_kind in ('min', 'max', 'scalar') and cname == 'Derivative' and n + order > 8:
            gen_kind = 'default'
        fo = bool(rng.random() < 0.3)
        desc = {'class': cname, 'method': method, 'n': n, 'order': order, 'dim': dim, 'steps': gen_kind, 'full_output': fo}
        try:
            via_setter = (k >= 0 and k % 6 == 5 and not (cname in ('Jacobian', 'Gradient') and n != 1)) or (-12 <= k < 0 and k % 2 == 0 and cname == 'Derivative')
            desc['configured_through_setters'] = via_setter
            matrix_x = cname == 'Gradient' and k % 3 == 1 and method != 'multicomplex'
            if matrix_x:
                dim = 4 if k % 2 else 6
                desc['dim'] = dim
                desc['x_shape'] = [2, dim // 2]
            d, x, steps, seen, raised = run_one(rng, nd, cname, method, n, order, dim, gen_kind, fo, via_setter, matrix_x)
        except ValueError as ex:
            if 'num_steps' in str(ex):
                continue
            ctx.brk('correspondence', 'nd.%s raised %r' % (cname, ex), desc)
            continue
        except Exception as ex:   # noqa
            ctx.brk('correspondence', 'nd.%s raised %r' % (cname, ex), desc)
            continue
        desc['x'] = np.ravel(np.asarray(x)).tolist()
        if steps is None:
            ctx.brk('correspondence', '_get_steps was not called', desc)
            continue
        nn = d.n
        oo = d.order if cname != 'Hessian' else 2
        name_hint = getattr(d.fd_rule.diff, '__name__', '')
        if any(len(p) != np.size(x) for p in seen):
            ctx.violation('argument-size:%s' % cname, 'f receives an argument with %d coordinates for a point with %d' % ([len(p) for p in seen if len(p) != np.size(x)][0], np.size(x)), desc)
            continue
        predicates(ctx, desc, cname, method, name_hint, x, steps, seen)
        if raised is not None:
            ctx.brk('correspondence', 'nd.%s raised %r after %d evaluations' % (cname, raised, len(seen)), desc)
            continue
        stl = '[' + '; '.join(flist(np.ravel(np.broadcast_to(s, np.shape(np.asarray(x))) if cname == 'Derivative' else s)) for s in steps) + ']'
        cases.append('(%s, %s, %s, %d%%nat, %s, %s, %s, %s, %s, %s, [%s])' % (
            flit(sr), flit(si), flit(sq2), CLS[cname], METHOD[method], zlit(nn), zlit(oo), blit(fo), flist(np.ravel(np.asarray(x, dtype=float))), stl,
            '; '.join(ptlit(p) for p in seen)))
        descs.append(dict(desc, evaluations=len(seen), stencil=name_hint))
        ctx.count(1, (cname, method, name_hint, gen_kind == 'default', min(dim, 3)))
        if 0 <= k < 3:
            ctx.sample(dict(desc, evaluations=len(seen), first_points=[[list(t) for t in p] for p in seen[:3]]))
    items = [('C05_%d' % s, HDR + 'Definition cases := [\n' + ';\n'.join(cases[s:s + 60]) + '].\nEval vm_compute in (List.length cases, failing ok_points cases).\n')
             for s in range(0, len(cases), 60)]
    res = coq_eval_many(items)
    nbad = 0
    for name, (rc, out) in sorted(res.items()):
        s = int(name.split('_')[1])
        pr = parse_count_fail(out)
        if rc != 0 or pr is None:
            ctx.brk('correspondence', 'case file %s could not be evaluated' % name, out[-1500:])
            continue
        for i in pr[1]:
            nbad += 1
            if nbad <= 6:
                ctx.brk('correspondence', 'the arguments passed to f (in order, bit for bit) differ from the evaluation points of Model/Points.v for the stencil the regenerated name dispatch selects', descs[s + i])
    ctx.cov['traces_validated_against_impl'] = len(cases)
    ctx.cov['correspondence_disagreements'] = nbad
    ctx.assumptions += ['the step sequences are recorded from the generators (C10); the model computes every evaluation point from x and the steps and must reproduce the recorded argument list exactly (order, count, bits)',
                        'value-based mirror symmetry is not bit-exact in binary64 (fl(x+h) - x differs from x - fl(x-h)); the float-level statement is structural: points come as x (+) d, x (-) d with the same d, which is what the bit-exact tie checks']
    return ctx.finish(level='proof', checker_cmd='make -C coq Props/C05.vo + coqc build/cases/C05_*.v',
                      rule='all five classes x methods x n 1..6 x order 1..8 x dimension 1..5 x default / Min / Max / scalar steps x full_output: every argument passed to f recorded and compared with the model, and checked against the property\'s predicates; '
                           'distinct = (class, method, stencil, default steps?, dimension class) combinations hit')
