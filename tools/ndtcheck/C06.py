"""C06 - finite-difference rules are exact to their stated order and match Richardson."""
import itertools
import math
import re
import warnings
from fractions import Fraction

import numpy as np

from . import trval
from .core import METHOD, coq_eval, coq_eval_many, parse_count_fail, proof_stage, qlit, zlit

U = Fraction(1, 2 ** 53)
REAL_METHODS = ['central', 'forward', 'backward', 'complex']


def model_tables(ctx):
    """(step, offset, c0) per parity, read from the regenerated Coq definitions."""
    rc, out = coq_eval('C06_tables', 'Require Import NDT.Model.Moment.\nFrom Coq Require Import ZArith List.\nEval vm_compute in tables.\n')
    nums = [int(x) for x in re.findall(r'(-?\d+)%Z', out)] if rc == 0 else []
    if len(nums) != 21:
        ctx.brk('translator', 'cannot read the parity tables from the generated model', out[-800:])
        return None
    return [tuple(nums[3 * i:3 * i + 3]) for i in range(7)]


def exact_moment(tables, parity, T, ratio):
    step, off, c0 = tables[parity]
    rho = 1 / Fraction(ratio)
    return [[Fraction(c0, math.factorial(step * j + off)) * rho ** (i * (step * j + off)) for j in range(T)] for i in range(T)]


def inverse(M):
    n = len(M)
    A = [row[:] + [Fraction(int(i == j)) for j in range(n)] for i, row in enumerate(M)]
    for c in range(n):
        p = next((r for r in range(c, n) if A[r][c] != 0), None)
        if p is None:
            return None
        A[c], A[p] = A[p], A[c]
        pv = A[c][c]
        A[c] = [v / pv for v in A[c]]
        for r in range(n):
            if r != c and A[r][c] != 0:
                f = A[r][c]
                A[r] = [a - f * b for a, b in zip(A[r], A[c])]
    return [row[n:] for row in A]


def norm_inf(M):
    return max(sum(abs(v) for v in row) for row in M)


def rule_config(method, n, order):
    from numdifftools.finite_difference import LogRule
    r = LogRule(n=n, method=method, order=order)
    mo = r.method_order
    step = r.richardson_step
    return r, r._parity(method, n - 1, mo), (n - 1 + mo) // step, (n - 1) // step, bool(r._flip_fd_rule)


def initial_cache(ctx, tables, initial):
    """Whatever the module-level cache FD_RULES holds when the module is imported (the source ships it empty, with a table in a comment) is
    served to every later rule() call with that key; each shipped matrix must therefore be the inverse of the moment matrix of its key."""
    for key, mat in sorted(initial.items(), key=repr):
        ctx.count(1, ('initial-cache',))
        try:
            ratio, parity, T = float(key[0]), int(key[1]), int(key[2])
            A = np.atleast_2d(np.asarray(mat, dtype=float))
        except Exception:   # noqa
            ctx.brk('correspondence', 'FD_RULES is pre-populated at import with an entry of unknown shape', {'key': repr(key)})
            continue
        if tables is None or not (0 <= parity <= 6) or T < 1 or T > 10 or A.shape != (T, T):
            ctx.brk('correspondence', 'FD_RULES is pre-populated at import with an entry that cannot be interpreted', {'key': repr(key), 'shape': list(A.shape)})
            continue
        M = exact_moment(tables, parity, T, ratio)
        Minv = inverse(M)
        if Minv is None:
            continue
        kappa = norm_inf(M) * norm_inf(Minv)
        for ri in range(T):
            scale = max(abs(v) for v in Minv[ri])
            err = max(abs(Fraction(float(A[ri][j])) - Minv[ri][j]) for j in range(T))
            # (the same bound as for rules computed at run time: 8 u kappa; a table typed in with 9 digits does not meet it)
            if err > 8 * U * kappa * scale + Fraction(1, 10 ** 300):
                step, off, _ = tables[parity]
                ctx.violation('prepopulated-cache',
                              'FD_RULES is shipped with the entry %r whose row %d (the rule for the derivative of order %d of that parity class) is %r, but row %d of the inverse of the moment matrix is %r: every rule() call with this key returns the wrong rule' % (
                                  key, ri, off + step * ri, [float(v) for v in A[ri]], ri, [float(v) for v in Minv[ri]]),
                              {'key': repr(key), 'row': ri, 'shipped': [float(v) for v in A[ri]], 'exact': [float(v) for v in Minv[ri]],
                               'how': 'import numdifftools.finite_difference as fdm; fdm.FD_RULES[key] right after import; e.g. nd.Derivative(np.exp, n=3, step_ratio=2)(0.0) for key (2.0, 1, 2)'})
                return


def certificates(ctx, tables, nmax, ratios):
    """rule() for every configuration: recorded weights vs the exact inverse of the model's moment matrix."""
    from numdifftools import finite_difference as fdm
    singular = 0
    for method, n, order in itertools.product(REAL_METHODS, range(1, nmax + 1), range(1, nmax + 1)):
        r, parity, T, ri, flip = rule_config(method, n, order)
        for ratio in ratios:
            fdm.FD_RULES.clear()
            with np.errstate(all='ignore'), warnings.catch_warnings():
                warnings.simplefilter('ignore')
                w = np.atleast_1d(r.rule(ratio))
            rat = (ratio + 1.0) - 1.0
            if T > 10:
                continue
            M = exact_moment(tables, parity, T, rat)
            Minv = inverse(M)
            ctx.count(1, ('rule', method, min(T, 6), 'flip' if flip else 'noflip'))
            if Minv is None:
                singular += 1
                continue
            kappa = norm_inf(M) * norm_inf(Minv)
            if kappa > 10 ** 13:
                singular += 1
                continue
            # pinv(M) row `ri` is column-of-inverse semantics: fd_rules = pinv(fd_mat); rule = fd_rules[ri]
            exact = [(-1 if flip else 1) * Minv[ri][j] for j in range(T)]
            scale = max(abs(v) for v in exact)
            err = max(abs(Fraction(float(w[j])) - exact[j]) for j in range(T)) if len(w) == T else None
            if err is None or err > 8 * U * kappa * scale + Fraction(1, 10 ** 300):
                what = 'LogRule(n=%d, method=%r, order=%d).rule(%r): weights differ from row %d of the exact inverse of the moment matrix by %s (kappa %.3g)' % (
                    n, method, order, ratio, ri, 'size' if err is None else '%.3g' % float(err), float(kappa))
                ctx.brk('oracle-certificate', what, {'method': method, 'n': n, 'order': order, 'step_ratio': ratio, 'weights': [float(v) for v in w],
                                                    'exact': [float(v) for v in exact], 'parity': parity, 'num_terms': T, 'rule_index': ri, 'flip': flip})
                if len(ctx.broken) > 6:
                    return singular
    fdm.FD_RULES.clear()
    return singular


def moment_tie(ctx, ratios):
    """_fd_matrix (floats) against Model/Moment.v (exact Q from the regenerated tables), entrywise within 8u."""
    from numdifftools.finite_difference import LogRule
    rows = []
    for parity, T, ratio in itertools.product(range(7), range(1, 7), ratios):
        with np.errstate(all='ignore'):
            M = LogRule._fd_matrix(ratio, parity, T)
        rows.append('(%s, %d%%nat, %s, [%s])' % (zlit(parity), T, qlit(Fraction(ratio)),
                                                '; '.join('[' + '; '.join(qlit(Fraction(float(v))) for v in row) + ']' for row in M)))
    text = ('Require Import NDT.Model.Moment NDT.Arith.OpsFloat.\nFrom Coq Require Import ZArith QArith Qabs List Bool. Import ListNotations.\n'
            'Definition close (a b : Q) : bool := Qle_bool (Qabs (a - b)) ((1 # 17592186044416) * Qabs b).\n'
            'Fixpoint all2 {X} (f : X -> X -> bool) (a b : list X) : bool := match a, b with [], [] => true | x :: a\', y :: b\' => f x y && all2 f a\' b\' | _, _ => false end.\n'
            "Definition ok (c : Z * nat * Q * list (list Q)) : bool := let '(p, t, r, m) := c in all2 (all2 close) m (moment p t r).\n")
    items = []
    for s in range(0, len(rows), 60):
        items.append(('C06_M%d' % s, text + 'Definition cases := [\n' + ';\n'.join(rows[s:s + 60]) + '].\nEval vm_compute in (List.length cases, failing ok cases).\n'))
    res = coq_eval_many(items)
    for name, (rc, out) in sorted(res.items()):
        pr = parse_count_fail(out)
        if rc != 0 or pr is None:
            ctx.brk('correspondence', 'case file %s could not be evaluated' % name, out[-1200:])
        elif pr[1]:
            ctx.brk('correspondence', 'LogRule._fd_matrix disagrees with Model/Moment.v (moment matrix from the regenerated tables)', {'file': name, 'cases': pr[1][:10]})
    ctx.count(len(rows), ('moment',))
    return len(rows)


def exact_pass(ctx, r, method, n, order, ratio, w, kappa):
    """Real-step rules, also when the moment system is badly (but not hopelessly) conditioned: the float weights are applied in EXACT rational
    arithmetic to the implementation's difference quotient of monomials evaluated on Fractions, so the only error left is that of the weights
    themselves -- by the perturbation identity of C06 the defect is sum_j (w.M - e_r)_j D_j / h^n, measured on the unchanged tree at
    <= 0.3 u max|w| sum|D_i| / h^n; bound used: 1e4 u max|w| sum|D_i| / h^n, and only where that is below n!/1000 (otherwise vacuous)."""
    wq = [Fraction(float(v)) for v in w]
    hq = [Fraction(float((1.0 / ratio) ** i * 0.5)) for i in range(len(w))]
    mo = r.method_order
    for d in range(0, n + mo):
        def fq(z, d=d):
            return z ** d
        try:
            dq = [Fraction(r.diff(fq, fq(Fraction(0)), Fraction(0), hi)) for hi in hq]
        except (TypeError, ValueError):
            return False
        est = sum(a * b for a, b in zip(wq, dq)) / hq[0] ** n
        want = Fraction(math.factorial(n)) if d == n else Fraction(0)
        tol = 10 ** 4 * U * max(abs(v) for v in wq) * sum(abs(b) for b in dq) / hq[0] ** n
        if tol > Fraction(math.factorial(n), 1000):
            continue
        ctx.count(1, ('exact-pass', method))
        if abs(est - want) > tol:
            return ctx.violation('inexact:%s:%d:%d' % (method, n, order),
                                 'LogRule(n=%d, method=%r, order=%d): rule(step_ratio=%r) applied (in exact arithmetic) to the difference quotient of t**%d (degree < n + order = %d) gives %r, exact %r (kappa %.3g)' % (
                                     n, method, order, ratio, d, n + mo, float(est), float(want), kappa),
                                 {'method': method, 'n': n, 'order': order, 'step_ratio': ratio, 'degree': d, 'weights': [float(v) for v in w], 'estimate': float(est), 'exact': float(want),
                                  'how': 'r = LogRule(n, method, order); w = r.rule(ratio); h = 0.5*ratio**-arange(len(w)) as Fractions; sum(Fraction(w_i) * r.diff(lambda z: z**d, Fraction(0)**d, Fraction(0), h_i)) / h_0**n'})
    return False


def search(ctx, nmax, ratios, tables):
    """Apply the implementation's rule to the implementation's difference quotient of monomials at geometric steps."""
    from numdifftools import finite_difference as fdm
    for method, n, order in itertools.product(REAL_METHODS, range(1, nmax + 1), range(1, nmax + 1)):
        r, parity, T, ri, flip = rule_config(method, n, order)
        if T > 8:
            continue
        for ratio in ratios:
            fdm.FD_RULES.clear()
            with np.errstate(all='ignore'), warnings.catch_warnings():
                warnings.simplefilter('ignore')
                w = np.atleast_1d(r.rule(ratio))
            if not np.isfinite(w).all():
                continue
            kappa = 1e6
            if tables is None and np.max(np.abs(w)) > 1e4:
                continue
            if tables is not None:
                M = exact_moment(tables, parity, T, (ratio + 1.0) - 1.0)
                Minv = inverse(M)
                if Minv is None:
                    continue
                kappa = float(norm_inf(M) * norm_inf(Minv))
            if method != 'complex' and kappa <= 1e13 and exact_pass(ctx, r, method, n, order, ratio, w, kappa):
                fdm.FD_RULES.clear()
                return
            if kappa > 1e8:
                continue        # ill-conditioned moment system: the statement's "conditioning-scaled rounding" is vacuous there (float pass)
            h = np.array([(1.0 / ratio) ** i for i in range(len(w))]) * 0.5
            mo = r.method_order
            for d in range(0, n + mo):
                def f(z, d=d):
                    return z ** d
                x0 = 0.0
                fx = f(x0) if True else 0
                with np.errstate(all='ignore'):
                    dq = np.array([r.diff(f, fx, x0, hi) for hi in h], dtype=float)
                    est = float(np.sum(w * dq) / h[0] ** n)
                want = float(math.factorial(n)) if d == n else 0.0
                scale = float(np.sum(np.abs(w * dq)) / h[0] ** n) + abs(want)
                ctx.count(1)
                if not abs(est - want) <= 64 * 2.0 ** -52 * kappa * max(scale, 1e-300) + 1e-12 * abs(want):
                    if ctx.violation('inexact:%s:%d:%d' % (method, n, order),
                                     'LogRule(n=%d, method=%r, order=%d): rule(step_ratio=%r) applied to the difference quotient of t**%d (degree < n + order = %d) gives %r, exact %r' % (
                                         n, method, order, ratio, d, n + mo, est, want),
                                     {'method': method, 'n': n, 'order': order, 'step_ratio': ratio, 'degree': d, 'weights': [float(v) for v in w], 'estimate': est, 'exact': want,
                                      'how': 'r = LogRule(n, method, order); w = r.rule(ratio); h = 0.5*ratio**-arange(len(w)); sum(w * [r.diff(lambda z: z**d, 0**d, 0.0, hi) for hi in h]) / h[0]**n'}):
                        fdm.FD_RULES.clear()
                        return
                    break
    fdm.FD_RULES.clear()
    subclass_search(ctx)


def subclass_search(ctx):
    """The same exactness statement for the rule classes of Jacobian, Hessdiag and Hessian (two variables): with the reported method_order,
    the rule applied to the class's own difference quotient of every monomial x0^a x1^b of degree < n + method_order is the exact derivative."""
    from numdifftools import finite_difference as fdm
    x0 = np.array([0.3, -0.2])
    for cname, n in (('LogJacobianRule', 1), ('LogHessdiagRule', 2), ('LogHessianRule', 2)):
        cls = getattr(fdm, cname)
        for method in ('forward', 'backward', 'central'):
            for order in ((None,) if cname == 'LogHessianRule' else (1, 2, 3, 4)):
                fdm.FD_RULES.clear()
                with warnings.catch_warnings():
                    warnings.simplefilter('ignore')
                    r = cls(n=n, method=method, order=order) if order is not None else cls(n=n, method=method)
                    w = np.atleast_1d(r.rule(2.0))
                mo = int(r.method_order)
                hs = [0.5 * 2.0 ** -i for i in range(len(w))]
                for a in range(0, n + mo):
                    for b in range(0, n + mo - a):
                        def f(x, a=a, b=b):
                            return x[0] ** a * x[1] ** b
                        with np.errstate(all='ignore'):
                            dq = [np.asarray(r.diff(f, f(x0), x0, hi * np.ones(2)), dtype=float) for hi in hs]
                        # (the Hessian stencils already divide by h_i h_j and LogHessianRule.apply passes them through)
                        est = dq[0] if cname == 'LogHessianRule' else sum(wi * d for wi, d in zip(w, dq)) / hs[0] ** n
                        da = lambda k, p, t: (math.factorial(p) // math.factorial(p - k) if p >= k else 0) * (t ** (p - k) if p >= k else 0.0)   # noqa  d^k/dt^k t^p
                        if cname == 'LogJacobianRule':
                            want = np.array([da(1, a, x0[0]) * x0[1] ** b, x0[0] ** a * da(1, b, x0[1])])
                        elif cname == 'LogHessdiagRule':
                            want = np.array([da(2, a, x0[0]) * x0[1] ** b, x0[0] ** a * da(2, b, x0[1])])
                        else:
                            mixed = da(1, a, x0[0]) * da(1, b, x0[1])
                            want = np.array([[da(2, a, x0[0]) * x0[1] ** b, mixed], [mixed, x0[0] ** a * da(2, b, x0[1])]])
                        ctx.count(1)
                        est = np.asarray(est).reshape(want.shape)
                        scale = float(sum(np.max(np.abs(wi * d)) for wi, d in zip(w, dq)) / hs[0] ** n) + float(np.max(np.abs(want))) + 1e-300
                        if not np.all(np.abs(est - want) <= 1e-9 * scale + 1e-12 / hs[-1] ** n):
                            ctx.violation('inexact:%s:%s' % (cname, method),
                                          '%s(n=%d, method=%r, order=%r): method_order = %d, but the rule applied to the difference quotient of x0**%d * x1**%d (degree %d < n + method_order = %d) at (0.3, -0.2) gives %r, exact %r' % (
                                              cname, n, method, order, mo, a, b, a + b, n + mo, est.tolist(), want.tolist()),
                                          {'class': cname, 'method': method, 'order': order, 'method_order': mo, 'monomial': [a, b], 'estimate': est.tolist(), 'exact': want.tolist()})
                            fdm.FD_RULES.clear()
                            return
    fdm.FD_RULES.clear()


def pairing_after_reconfiguration(ctx):
    """The rule and its paired Richardson stage on an object that was evaluated and THEN reconfigured through its public attributes
    (method, order, n, and with n the default step ratio): the weights applied on the next call must be those of the new configuration."""
    import numdifftools as nd
    from . import pipe
    trans = [({'method': 'central'}, {'method': 'forward'}), ({'method': 'central', 'order': 2}, {'order': 4}), ({'n': 1}, {'n': 2}),
             ({'method': 'forward', 'order': 1}, {'method': 'backward', 'order': 3}), ({'method': 'complex', 'n': 1}, {'n': 3}),
             ({'method': 'central', 'n': 2, 'order': 4}, {'method': 'complex', 'n': 1, 'order': 2}), ({'method': 'backward'}, {'method': 'central', 'n': 3})]
    for cls in ('Derivative', 'Jacobian', 'Hessdiag'):
        for a, b in trans:
            if cls != 'Derivative' and (a.get('n', 1) > (2 if cls == 'Hessdiag' else 1) or b.get('n', 1) > (2 if cls == 'Hessdiag' else 1) or 'n' in a or 'n' in b):
                continue
            f = (lambda x: np.exp(0.5 * x)) if cls == 'Derivative' else (lambda x: np.sum(np.exp(0.5 * x)))
            x = 0.75 if cls == 'Derivative' else np.array([0.75, -0.5])
            try:
                d = getattr(nd, cls)(f, full_output=True, **a)
                with np.errstate(all='ignore'), warnings.catch_warnings():
                    warnings.simplefilter('ignore')
                    d(x)
                    for k, v in b.items():
                        setattr(d, k, v)
                    val, info, rec = pipe.capture_call(d, x)
            except Exception as ex:   # noqa
                ctx.brk('correspondence', '%s raised %r after being reconfigured from %r by %r' % (cls, ex, a, b), {'class': cls, 'first': a, 'then': b})
                continue
            ctx.count(1, ('reconfigured', cls))
            bad = pipe.context_certificate(rec)
            if bad:
                ctx.violation('pairing', '%s(exp(x/2), %r) evaluated once, then reconfigured by %r: on the next call %s' % (cls, a, b, bad),
                              {'class': cls, 'first': a, 'then': b, 'x': np.asarray(x).tolist()})
                return


def run(ctx):
    from numdifftools import finite_difference as fdm0
    initial = dict(fdm0.FD_RULES)          # before anything in this process has asked for a rule
    proof_stage(ctx, ['Props/C06.v', 'Props/C06c.v'], extra_targets=['Model/Moment.vo'])
    trval.run(ctx)
    tables = model_tables(ctx)
    initial_cache(ctx, tables, initial)
    pairing_after_reconfiguration(ctx)
    ratios_q = [2.0, 1.6, 1.7320508075688772, 4.0, 1.2, 10.0] + [float(v) for v in ctx.rng(3).uniform(1.05, 10, size=ctx.n(2, 20))]
    nm = moment_tie(ctx, ratios_q[:ctx.n(4, 12)])
    singular = 0
    if tables is not None:
        singular = certificates(ctx, tables, ctx.n(8, 10), ratios_q[:ctx.n(3, 12)])
    ctx.cov['numerically_singular_configurations_excluded'] = singular
    ctx.cov['traces_validated_against_impl'] = ctx.cov['evaluations']
    ctx.sample({'example certificate': 'LogRule(n=1, method=central, order=4).rule(2.0) vs row 0 of the exact inverse of [[1/1!, 1/3!],[1/2, 1/(8*3!)]]'})
    if ctx.broken or ctx.thorough:
        search(ctx, 10 if (ctx.broken or ctx.thorough) else 6, [2.0, 1.6, 4.0, 1.7320508075688772, 1.2345678912345] if not ctx.thorough else ratios_q[:8], tables)
    else:
        subclass_search(ctx)        # cheap, always on: the rule classes of Jacobian / Hessdiag / Hessian
    ctx.assumptions += ['the rule row is an oracle (LAPACK pinv): certified each run against the EXACT inverse of the model\'s moment matrix with the exact condition number; configurations with kappa > 1e13 are numerically singular (excluded by the property) and only counted',
                        'layers (A) stencil signatures, (B) regenerated tables, (C) moment-system exactness are joined in ONE closed theorem (Props/C06c.v C06_rule_exact_on_stencil, any field of characteristic 0 containing sqrt(1/2))',
                        'the rounding clause ("up to conditioning-scaled rounding") is the certificate bound 8*u*kappa, not a floating-point proof']
    return ctx.finish(level='proof', checker_cmd='make -C coq Props/C06.vo Props/C06c.vo + coqc build/cases/C06_*.v + trval_*.v',
                      rule='exhaustive translator grid; moment matrix for parity 0..6 x terms 1..6 x ratios; rule() certificate for 4 methods x n,order 1..8(10) x ratio grid; '
                           'distinct = (stage, method, number of terms, flipped) combinations hit')
