"""Validation of the translator on an exhaustive small grid (DESIGN 3.2).

Each generated definition of coq/Gen/Spec.v is evaluated by Coq (vm_compute) at every grid point and
compared with the value the Python original returns there.  A disagreement is a defect of the
translator, reported as such (kind 'translator-validation'), never as a property violation by itself.
"""
import itertools
import warnings
from fractions import Fraction

import numpy as np

from .core import METHOD, blit, coq_eval_many, parse_count_fail, qlit, zlit


def _rows_rule(N):
    from numdifftools import finite_difference as fdm
    from numdifftools.step_generators import MinStepGenerator
    rows = {'': [], 'jac_': [], 'hd_': [], 'hs_': []}
    classes = {'': fdm.LogRule, 'jac_': fdm.LogJacobianRule, 'hd_': fdm.LogHessdiagRule, 'hs_': fdm.LogHessianRule}
    rec = {}
    orig = fdm.LogRule._fd_matrix

    def spy(step_ratio, parity, nterms):
        rec['args'] = (parity, nterms)
        return orig(step_ratio, parity, nterms)
    fdm.LogRule._fd_matrix = staticmethod(spy)
    try:
        for prefix, cls in classes.items():
            for method in METHOD:
                for n in range(0, N + 1):
                    for order in range(1, N + 1):
                        if prefix in ('hd_', 'hs_') and n != 2:
                            continue
                        if prefix == 'hs_' and order > 3:
                            continue
                        with warnings.catch_warnings():
                            warnings.simplefilter('ignore')
                            r = cls(n=n, method=method, order=order)
                        mo = r.method_order
                        try:
                            mid = r._get_middle_name()
                        except ValueError:
                            mid = None
                        full = ('_' + method + mid + r._get_last_name()) if mid is not None else '!ValueError'
                        exists = hasattr(r._difference_functions, full) if mid is not None else False
                        g = MinStepGenerator()
                        g._state = (None, method, r.n, mo)
                        # rule(): parity, num_terms via the _fd_matrix spy; rule_index via the row returned
                        rec.clear()
                        fdm.FD_RULES.clear()
                        par, nt, ri, triv = -1, -1, -1, False
                        if r.n >= 0 and n <= 12 and order <= 12:
                            try:
                                with np.errstate(all='ignore'), warnings.catch_warnings():
                                    warnings.simplefilter('ignore')
                                    w = r.rule(2.0)
                                if 'args' in rec:
                                    par, nt = rec['args']
                                    tab = list(fdm.FD_RULES.values())[0]
                                    sgn = -1 if r._flip_fd_rule else 1
                                    hits = [k for k in range(tab.shape[0]) if np.array_equal(sgn * tab[k], w, equal_nan=True)]
                                    ri = hits[0] if len(hits) == 1 else -2
                                else:
                                    triv = True
                            except (ValueError, np.linalg.LinAlgError):
                                par, nt, ri = -3, -3, -3
                        rows[prefix].append('(%s, %s, %s, %s, %s, %s, %s, %s, %s, %s, "%s"%%string, %s, (%s, %s, %s, %s))' % (
                            METHOD[method], zlit(n), zlit(order), blit(r.eval_first_condition), zlit(r.richardson_step), zlit(mo),
                            zlit(r._parity(method, r.n - 1, mo)), blit(r._flip_fd_rule), blit(r._complex_high_order),
                            zlit(g.min_num_steps), full, blit(exists), zlit(par), zlit(nt), zlit(ri), blit(triv)))
    finally:
        fdm.LogRule._fd_matrix = staticmethod(orig)
        fdm.FD_RULES.clear()
    return rows


CHECK_RULE = '''
Definition ok%(tag)s (r : method * Z * Z * bool * Z * Z * Z * bool * bool * Z * string * bool * (Z * Z * Z * bool)) : bool :=
  let '(m, n, o, efc, rs, mo, par, fl, cho, mns, nm, ex, (rpar, rnt, rix, triv)) := r in
  let n' := %(n)s in
  Bool.eqb (%(p)seval_first_condition m n o) efc && (%(p)srichardson_step m n o =? rs) && (%(p)smethod_order m n o =? mo)
  && (%(p)sparity_fn m n o m (n' - 1) mo =? par) && Bool.eqb (%(p)sflip_fd_rule m n o) fl && Bool.eqb (%(p)scomplex_high_order m n o) cho
  && (min_num_steps m n' mo =? mns)
  && String.eqb (if String.eqb (%(p)sget_middle_name m n o) "!ValueError" then "!ValueError"%%string else %(p)sdiff_name m n o) nm
  && Bool.eqb (existsb (String.eqb nm) %(names)s) ex
  && ((rpar =? -1) || (rpar =? -3) ||
      (Bool.eqb (%(p)srule_trivial m n o) triv
       && (triv || ((%(p)srule_parity m n o =? rpar) && (%(p)srule_num_terms m n o =? rnt) && (%(p)srule_index m n o =? rix))))).
'''


def run(ctx, N=None):
    """Returns number of grid points checked; records disagreements in ctx.broken."""
    N = N or ctx.n(16, 40)
    rows = _rows_rule(N)
    items = []
    names = {'': 'names_DifferenceFunctions', 'jac_': 'names_JacobianDifferenceFunctions',
             'hd_': 'names_HessdiagDifferenceFunctions', 'hs_': 'names_HessianDifferenceFunctions'}
    nn = {'': 'n', 'jac_': 'n', 'hd_': 'hd_n', 'hs_': 'hs_n'}
    hdr = 'Require Import NDT.Gen.Spec.\nFrom Coq Require Import ZArith Bool List String QArith Qabs. Import ListNotations. Open Scope Z_scope.\n'
    total = 0
    for p, rs in rows.items():
        for k in range(0, len(rs), 2500):
            chunk = rs[k:k + 2500]
            total += len(chunk)
            text = hdr + CHECK_RULE % dict(tag='', p=p, names=names[p], n=nn[p]) + \
                'Definition rows := [\n' + ';\n'.join(chunk) + '].\n' + \
                'Fixpoint failing (i : nat) (l : list _) : list nat := match l with [] => [] | c :: t => if ok c then failing (S i) t else i :: failing (S i) t end.\n' + \
                'Eval vm_compute in (List.length rows, failing 0%nat rows).\n'
            items.append(('trval_%s%d' % (p, k), text))
    # step-generator counts, default scale, default ratio
    from numdifftools.step_generators import MinStepGenerator, default_scale, _STATE
    srows = []
    for method, n, order in itertools.product(METHOD, range(1, 9), range(1, 9)):
        for u, chk, ex in itertools.product([None, 1, 3, 7, 30], [True, False], [0, 2, 9]):
            g = MinStepGenerator(num_steps=u, check_num_steps=chk, num_extrap=ex)
            g._state = (None, method, n, order)
            srows.append('(%s, %s, %s, %s, %s, %s, %s)' % (METHOD[method], zlit(n), zlit(order), 'None' if u is None else 'Some %s' % zlit(u),
                                                         blit(chk), zlit(ex), zlit(g.num_steps)))
    for k in range(0, len(srows), 2500):
        text = hdr + 'Definition rows := [\n' + ';\n'.join(srows[k:k + 2500]) + '].\n' + \
            "Definition ok (r : method * Z * Z * option Z * bool * Z * Z) : bool := let '(m, n, o, u, c, e, v) := r in num_steps u c e m n o =? v.\n" + \
            'Fixpoint failing (i : nat) (l : list _) : list nat := match l with [] => [] | c :: t => if ok c then failing (S i) t else i :: failing (S i) t end.\n' + \
            'Eval vm_compute in (List.length rows, failing 0%nat rows).\n'
        items.append(('trval_numsteps%d' % k, text))
    total += len(srows)
    drows = []
    for method, n, order in itertools.product(METHOD, range(0, 25), range(1, 13)):
        v = default_scale(method, n, order)
        drows.append('(%s, %s, %s, %s)' % (METHOD[method], zlit(n), zlit(order), qlit(Fraction(float(v)))))
    g = MinStepGenerator()
    rrows = []
    for n in range(0, 12):
        g._state = _STATE(None, 'central', n, 2)
        rrows.append('(%s, %s)' % (zlit(n), qlit(Fraction(float(g.step_ratio)))))
    text = hdr + 'Definition rows := [\n' + ';\n'.join(drows) + '].\n' + \
        'Definition rrows := [\n' + ';\n'.join(rrows) + '].\nOpen Scope Q_scope.\n' + \
        "Definition ok (r : method * Z * Z * Q) : bool := let '(m, n, o, v) := r in Qle_bool (Qabs (default_scale m n o - v)) ((1 # 1000000000000) * Qabs v).\n" + \
        'Fixpoint failing (i : nat) (l : list (method * Z * Z * Q)) : list nat := match l with [] => [] | c :: t => if ok c then failing (S i) t else i :: failing (S i) t end.\n' + \
        "Definition okr (r : Z * Q) : bool := let '(n, v) := r in Qle_bool (Qabs (default_step_ratio n - v)) ((1 # 4503599627370496) * Qabs v).\n" + \
        'Fixpoint failingr (i : nat) (l : list (Z * Q)) : list nat := match l with [] => [] | c :: t => if okr c then failingr (S i) t else i :: failingr (S i) t end.\n' + \
        'Eval vm_compute in ((List.length rows + List.length rrows)%nat, (failing 0%nat rows ++ failingr 1000000%nat rrows)%list).\n'
    items.append(('trval_scale', text))
    total += len(drows) + len(rrows)
    res = coq_eval_many(items, timeout=600)
    bad = 0
    for name, (rc, out) in res.items():
        pr = parse_count_fail(out)
        if rc != 0 or pr is None:
            ctx.brk('translator-validation', 'generated definitions could not be evaluated (%s)' % name, out[-1500:])
            bad += 1
        elif pr[1]:
            ctx.brk('translator-validation', 'translator disagrees with the Python original on %d grid points (%s)' % (len(pr[1]), name), pr[1][:20])
            bad += 1
    ctx.cov['translator_grid_points'] = total
    ctx.cov['translator_grid_disagreements'] = bad
    return total
