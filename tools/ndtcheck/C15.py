"""C15 - fd_weights equal the exact Lagrange-derivative weights for any nodes."""
from fractions import Fraction

import numpy as np

from .core import coq_eval_many, flist, fllist, flit, parse_count_fail, proof_stage

HDR = '''Require Import NDT.Arith.OpsFloat NDT.Model.Fornberg NDT.Model.FornbergFloat.
From Coq Require Import PrimFloat List Bool. Import ListNotations.
'''


def gen_nodes(rng, m, kind):
    if kind == 0:
        x = np.linspace(-1, 1, m) * 10.0 ** rng.integers(-3, 2) if m > 1 else rng.normal(size=1)
    elif kind == 1:
        x = rng.normal(size=m)
    elif kind == 2:     # clustered
        x = rng.normal() + 1e-3 * rng.normal(size=m)
    elif kind == 3:     # permuted uniform
        x = rng.permutation(np.arange(m, dtype=float))
    elif kind == 4:     # one-sided
        x = np.cumsum(rng.uniform(0.1, 1, size=m))
    else:               # integers
        x = rng.choice(np.arange(-20, 21), size=m, replace=False).astype(float)
    return np.asarray(x, dtype=float)


def poly_mul(a, b):
    out = [Fraction(0)] * (len(a) + len(b) - 1)
    for i, u in enumerate(a):
        for j, v in enumerate(b):
            out[i + j] += u * v
    return out


def exact_weights(x, x0, n):
    """Lagrange-derivative weights in exact rationals, straight from the product formula."""
    X = [Fraction(float(v)) for v in x]
    x0 = Fraction(float(x0))
    m = len(X)
    W = [[None] * m for _ in range(n + 1)]
    for v in range(m):
        p = [Fraction(1)]
        den = Fraction(1)
        for u in range(m):
            if u != v:
                p = poly_mul(p, [-X[u], Fraction(1)])
                den *= X[v] - X[u]
        p = [c / den for c in p]
        for k in range(n + 1):
            W[k][v] = sum(c * x0 ** i for i, c in enumerate(p))
            p = [i * c for i, c in enumerate(p)][1:] or [Fraction(0)]
    return W


def search(ctx, N):
    from numdifftools.fornberg import fd_weights, fd_weights_all
    rng = ctx.rng(3)
    for t in range(N):
        m = int(rng.integers(2, 10))
        n = int(rng.integers(0, m))
        if t % 8 == 7:
            m = int(rng.integers(10, 15))        # more nodes, all orders up to m - 1 (rows 9 .. 13 exist only here)
            n = m - 1 - int(rng.integers(0, 2))
        kind = int(rng.choice([0, 1, 3, 4, 5]))
        if t % 4 == 0:
            kind = 5
        x = gen_nodes(rng, m, kind)
        x0 = float(rng.normal()) if t % 3 else float(x[rng.integers(0, m)])
        if t % 7 == 6 and m >= 4:
            # end points mirror each other about x0 but the inner nodes do not (and a permuted variant): nothing here is a symmetric stencil
            inner = np.sort(rng.uniform(-0.9, 0.9, size=m - 2))
            x = np.concatenate([[-1.0], inner, [1.0]])
            if t % 2:
                x = np.concatenate([x[:1], rng.permutation(x[1:-1]), x[-1:]])
            x0 = 0.0
            kind = 6
        if t % 6 == 5 and kind != 5:
            # the same node shapes on a tiny length scale (1e-12 .. 1e-20): distinct nodes are distinct at any scale
            sc = float(10.0 ** rng.integers(-20, -11))
            x = x * sc
            x0 = x0 * sc
        if t % 5 == 4:
            # an expansion point far outside the node range (1e3 .. 1e9 range-widths away): the weights are large but just as well determined
            x0 = float(np.mean(x) + float(rng.choice([1e3, 1e6, 1e9])) * (float(np.max(x) - np.min(x)) or 1.0) * float(rng.choice([-1, 1])) * float(rng.uniform(1, 2)))
        # the same mathematical input in the container / number types a caller may use: integer-typed nodes (list of ints, integer ndarray)
        # with a fractional x0, lists and tuples of floats, numpy scalars
        x_in, how_in = x, 'float ndarray'
        if kind == 5 and np.all(x == np.round(x)):
            x_in, how_in = [([int(v) for v in x], 'list of Python ints'), (np.asarray(x, dtype=np.int64), 'int64 ndarray'), (np.asarray(x, dtype=np.int32), 'int32 ndarray')][(t // 4) % 3]
        elif t % 5 == 1:
            x_in, how_in = [float(v) for v in x], 'list of Python floats'
        elif t % 5 == 2:
            x_in, how_in = tuple(np.float64(v) for v in x), 'tuple of numpy floats'
        x0_in = np.float64(x0) if t % 7 == 3 else x0
        try:
            w = fd_weights_all(x_in, x0_in, n)
            wn = fd_weights(x_in, x0_in, n)
        except Exception as ex:   # noqa   n < len(x) is a valid request (n = 0 is the interpolation row)
            if ctx.violation('raises', 'fd_weights_all / fd_weights(x, x0, n=%d) with %d nodes raises %r although n < len(x)' % (n, m, ex), {'x': x.tolist(), 'x0': x0, 'n': n}):
                return
            continue
        ctx.count(1, ('search', how_in))
        E = exact_weights(x, x0, n)
        for k in range(n + 1):
            scale = max(abs(e) for e in E[k]) or Fraction(1)
            err = max(abs(Fraction(float(w[k, v])) - E[k][v]) for v in range(m))
            # (measured on the unchanged tree over these node kinds, x0 near and far: <= 3e-15 x row scale)
            if err > Fraction(1, 10 ** 10) * scale:
                if ctx.violation('weights', 'fd_weights_all(x, x0, n=%d) row %d differs from the exact Lagrange-derivative weights by %.3g (row scale %.3g)' % (n, k, float(err), float(scale)),
                                 {'x': x.tolist(), 'x0': x0, 'n': n, 'row': k, 'got': w[k].tolist(), 'exact': [float(e) for e in E[k]], 'nodes_given_as': how_in,
                                  'how': 'numdifftools.fornberg.fd_weights_all(x, x0, n) with the nodes given as ' + how_in}):
                    return
                break
        if not np.array_equal(wn, w[-1]):
            if ctx.violation('row-n', 'fd_weights is not row n of fd_weights_all', {'x': x.tolist(), 'x0': x0, 'n': n}):
                return


def run(ctx):
    from numdifftools.fornberg import fd_weights_all
    proof_stage(ctx, 'Props/C15.v')
    rng = ctx.rng(1)
    cases, descs = [], []
    for t in range(ctx.n(900, 9000)):
        m = int(rng.integers(1, 15)) if t % 10 else int(rng.integers(15, 41 if ctx.thorough else 20))
        kind = int(rng.integers(0, 6))
        x = gen_nodes(rng, m, kind)
        malformed = t % 12 == 11
        n = int(rng.integers(0, m)) if not malformed else int(rng.integers(0, m + 3))
        if malformed and m > 1 and rng.random() < 0.5:
            x[int(rng.integers(0, m))] = x[0]          # duplicate node: inf/nan must agree too
        x0 = float(rng.normal()) if t % 4 else float(x[rng.integers(0, m)])
        try:
            w = fd_weights_all(x, x0, n)
            wl = 'Some %s' % fllist(w)
            out = 'ok'
        except ValueError:
            wl, out = 'None', 'ValueError'
        cases.append('(%s, %s, %d%%nat, %s)' % (flist(x), flit(x0), n, wl))
        descs.append({'x': x.tolist(), 'x0': x0, 'n': n, 'outcome': out})
        ctx.count(1, (kind, min(m, 15), 'on-node' if t % 4 == 0 else 'off-node', out, 'n=m-1' if n == m - 1 else ('n=0' if n == 0 else 'mid')))
        if t < 2:
            ctx.sample(descs[-1])
    items = [('C15_%d' % s, HDR + 'Definition cases := [\n' + ';\n'.join(cases[s:s + 150]) + '].\nEval vm_compute in (List.length cases, failing ok_weights cases).\n')
             for s in range(0, len(cases), 150)]
    res = coq_eval_many(items)
    nbad = 0
    for name, (rc, out) in sorted(res.items()):
        s = int(name.split('_')[1])
        pr = parse_count_fail(out)
        if rc != 0 or pr is None:
            ctx.brk('correspondence', 'case file %s could not be evaluated' % name, out[-1500:])
            continue
        for i in pr[1]:
            nbad += 1
            if nbad <= 5:
                ctx.brk('correspondence', 'fd_weights_all disagrees bit-for-bit with Model/Fornberg.v (or in raising ValueError)', descs[s + i])
    ctx.cov['traces_validated_against_impl'] = len(cases)
    ctx.cov['correspondence_disagreements'] = nbad
    search(ctx, ctx.n(300, 2000) if (ctx.broken or ctx.thorough) else 60)
    ctx.assumptions += ['theorems hold over any field (exact arithmetic); "up to rounding scaled by the conditioning of the node set" is explored with exact rational weights from the product formula, not proved']
    return ctx.finish(level='proof', checker_cmd='make -C coq Props/C15.vo + coqc build/cases/C15_*.v',
                      rule='node sets of size 1..40 (uniform, random, clustered, permuted, one-sided, integer), x0 on/off a node, all n < m; 1 in 12 malformed (n >= m, duplicate nodes); '
                           'distinct = (node kind, size, on/off node, outcome, n class) combinations hit')
