"""C19 - nd_scipy wrappers return the Jacobian/gradient and respect bounds (partial)."""
import numpy as np

from .core import proof_stage


def run(ctx):
    import numdifftools.nd_scipy as nds
    proof_stage(ctx, 'Props/C19.v')
    rng = ctx.rng(1)
    N = ctx.n(120, 1500)
    for k in range(N):
        n, m = int(rng.integers(1, 7)), int(rng.integers(1, 6))
        method = str(rng.choice(['central', 'forward', 'complex']))
        A = rng.normal(size=(m, n))
        b = rng.normal(size=m)
        affine = k % 2 == 0
        seen = []

        def f(x, scale=1.0, shift=0.0, A=A, b=b, affine=affine):
            seen.append(np.array(x, dtype=complex if np.iscomplexobj(x) else float, copy=True))
            y = np.dot(A, x) + b
            return scale * (y if affine else y + np.sin(x[0]) * np.arange(1, A.shape[0] + 1)) + shift
        x = rng.uniform(-1, 1, size=n)
        kw = {}
        boxed = k % 3 == 0
        if boxed:
            lo = x - rng.uniform(0, 0.5, size=n) * (rng.random(size=n) < 0.7)      # some coordinates ON the boundary
            hi = x + rng.uniform(0, 0.5, size=n) * (rng.random(size=n) < 0.7)
            hi = np.where(hi == lo, lo + 0.1, hi)
            if k % 2:
                # half-open boxes: some sides infinite, the others finite (with x possibly ON a finite side): the finite sides still bind
                lo = np.where(rng.random(size=n) < 0.5, -np.inf, lo)
                hi = np.where(rng.random(size=n) < 0.5, np.inf, hi)
                j = int(rng.integers(0, n))
                if k % 4 == 1:
                    lo[j], hi[j] = x[j], np.inf            # on the finite lower side of a box open above
                else:
                    lo[j], hi[j] = -np.inf, x[j]
            kw['bounds'] = (lo, hi)
            if method == 'complex':
                method = 'central'
        if k % 5 == 1:
            kw['step'] = float(rng.choice([1e-6, 1e-4]))
        desc = {'n': n, 'm': m, 'method': method, 'affine': affine, 'x': x.tolist(), 'A': A.tolist(), 'kw': {a: (np.asarray(v).tolist() if a == 'bounds' else v) for a, v in kw.items()}}
        try:
            J = nds.Jacobian(f, method=method, **kw)(x, 2.0, shift=0.5)
        except Exception as ex:   # noqa
            ctx.violation('raises:%s' % method, 'nd_scipy.Jacobian(f, method=%r)(x, 2.0, shift=0.5) raises %r' % (method, ex), desc)
            continue
        ctx.count(1, ('jac', method, m == 1, boxed))
        exact = 2.0 * (A if affine else A + np.outer(np.arange(1, m + 1), np.r_[np.cos(x[0]), np.zeros(n - 1)]))
        if np.shape(J) != (m, n):
            if ctx.violation('jacobian-shape:m=%d' % (1 if m == 1 else 2), 'nd_scipy.Jacobian of f: R^%d -> R^%d (length-%d vector) returns shape %r, not (%d, %d)' % (n, m, m, np.shape(J), m, n), desc):
                pass
            J = np.reshape(J, (m, n)) if np.size(J) == m * n else J
        if np.shape(J) == (m, n):
            h = kw.get('step') or 0.0
            # user-given relative steps: truncation ~h (forward) / h^2 (central) AND round-off ~eps/(h |x|): only gross errors are of interest
            tol = 1e-12 if (affine and method == 'complex') else ((1e-5 if method == 'forward' else 1e-7) if not h else 1e-3)
            if not np.allclose(J, exact, rtol=tol, atol=tol * (1 + np.max(np.abs(exact)))):
                ctx.violation('jacobian-value:%s' % method, 'nd_scipy.Jacobian(method=%r): entries differ from the analytic Jacobian by %.3g' % (method, float(np.max(np.abs(J - exact)))), desc)
        # f returning its components as a list / tuple (same numbers): same shape (m, n), same values
        if np.shape(J) == (m, n) and k % 2 == 0:
            for vname, wrap in (('list', list), ('tuple', tuple)):
                try:
                    Jv = nds.Jacobian(lambda t, *a_, wrap=wrap, **k_: wrap(f(t, *a_, **k_)), method=method, **kw)(x, 2.0, shift=0.5)
                except Exception as ex:   # noqa
                    ctx.violation('raises:%s' % method, 'nd_scipy.Jacobian raises %r when f returns a %s' % (ex, vname), desc)
                    continue
                ctx.count(1, ('jac-container', vname, m == 1))
                if np.shape(Jv) != (m, n) or not np.allclose(Jv, J, rtol=1e-12, atol=1e-12 * (1 + np.max(np.abs(exact)))):
                    ctx.violation('jacobian-shape:f-returns-%s:m=%d' % (vname, 1 if m == 1 else 2), 'nd_scipy.Jacobian of f: R^%d -> R^%d returning a %s gives shape %r, not (%d, %d) (or other numbers)' % (
                        n, m, vname, np.shape(Jv), m, n), dict(desc, f_returns=vname))
        if boxed:
            lo, hi = kw['bounds']
            for p in seen:
                if np.any(np.real(p) < lo - 1e-15) or np.any(np.real(p) > hi + 1e-15):
                    ctx.violation('bounds', 'an evaluation point leaves the box given as bounds', dict(desc, point=np.real(p).tolist()))
                    break
        # Gradient: scalar f of any-shaped x
        shp = [(n,), (1, n), (n, 1)][k % 3]
        g = rng.normal(size=n)
        # (the extra factor reaches f positionally or by keyword, alternately)
        if k % 2:
            G = nds.Gradient(lambda t, c=1.0: c * (np.dot(g, np.ravel(t)) + np.sum(np.ravel(t) ** 2)), method=method if not boxed else 'central')(x.reshape(shp), 3.0)
        else:
            G = nds.Gradient(lambda t, c=1.0, d=0.0: c * (np.dot(g, np.ravel(t)) + np.sum(np.ravel(t) ** 2)) + d * np.sum(np.ravel(t)), method=method if not boxed else 'central')(x.reshape(shp), c=3.0, d=0.0)
        ctx.count(1, ('grad', n == 1))
        # the same object called again WITHOUT the extra arguments: f then runs with its own defaults (c = 1), nothing remembered from the first call
        fobj = lambda t, c=1.0, d=0.0: c * (np.dot(g, np.ravel(t)) + np.sum(np.ravel(t) ** 2)) + d * np.sum(np.ravel(t))     # noqa
        for cname in ('Gradient', 'Jacobian'):
            ob = getattr(nds, cname)(fobj, method=method if not boxed else 'central')
            first = (lambda: ob(x, 3.0, 1.0)) if k % 2 else (lambda: ob(x, c=3.0, d=1.0))
            try:
                first()
                again = np.ravel(ob(x))
            except Exception as ex:   # noqa
                ctx.violation('reuse-raises:%s' % cname, 'nd_scipy.%s object called with extra arguments and then without raises %r' % (cname, ex), desc)
                continue
            ctx.count(1, ('reuse-without-extras', cname))
            if not np.allclose(again, g + 2 * x, rtol=1e-5, atol=1e-6):
                ctx.violation('stale-arguments:%s' % cname, 'nd_scipy.%s(f) called as obj(x, c=3.0, d=1.0) and then as obj(x): the second call returns %r, the gradient of f with its default arguments is %r' % (
                    cname, again.tolist(), (g + 2 * x).tolist()), dict(desc, first_call='obj(x, 3.0, 1.0)' if k % 2 else 'obj(x, c=3.0, d=1.0)', second_call='obj(x)'))
        want_shape = () if n == 1 else (n,)
        if np.shape(G) != want_shape:
            ctx.violation('gradient-shape', 'nd_scipy.Gradient for x of shape %r returns shape %r, expected %r' % (shp, np.shape(G), want_shape), desc)
        elif not np.allclose(G, 3.0 * (g + 2 * x).reshape(want_shape), rtol=1e-5, atol=1e-6):
            ctx.violation('gradient-value', 'nd_scipy.Gradient differs from the analytic gradient (extra argument c=3.0 forwarded?)', desc)
        # memory layout of x must not matter: a Fortran-ordered copy and a transposed view hold the same elements at the same indices
        if n >= 4 and n % 2 == 0 and k % 2 == 0:
            X = x.reshape(2, n // 2)
            gq = lambda t, c=1.0: c * (np.dot(g, np.ravel(t)) + np.sum(np.arange(1, n + 1) * np.ravel(t) ** 3))     # noqa  (non-linear, coordinates not interchangeable)
            G0 = nds.Gradient(gq, method=method if not boxed else 'central')(X, 3.0)
            for lname, Xv in (('Fortran-ordered', np.asfortranarray(X)), ('transposed view', np.ascontiguousarray(X.T).T)):
                Gv = nds.Gradient(gq, method=method if not boxed else 'central')(Xv, 3.0)
                ctx.count(1, ('grad-layout', lname))
                if np.shape(Gv) != np.shape(G0) or not np.array_equal(np.asarray(Gv), np.asarray(G0)):
                    ctx.violation('gradient-layout', 'nd_scipy.Gradient for a %s x of shape (2, %d) differs from the C-ordered array with the same elements (max difference %.3g)' % (
                        lname, n // 2, float(np.max(np.abs(np.asarray(Gv) - np.asarray(G0)))) if np.shape(Gv) == np.shape(G0) else float('nan')), dict(desc, layout=lname))
        if k < 2:
            ctx.sample({'n': n, 'm': m, 'method': method, 'J_shape': list(np.shape(J)), 'G_shape': list(np.shape(G))})
    # a user-given step is RELATIVE to |x_j| (scipy's rel_step): coordinates with their own length scale s_j, x_j ~ s_j, f varying on that scale
    for k in range(max(N // 5, 6)):
        n = int(rng.integers(2, 5))
        method = ['central', 'forward'][k % 2]
        s = np.array([float(rng.choice([1e-4, 1.0, 1e3])) for _ in range(n)])
        s[k % n] = 1e-4
        u0 = rng.uniform(0.3, 1.2, size=n) * rng.choice([-1, 1], size=n)
        x = s * u0
        step = 1e-4 if method == 'central' else 1e-6

        def fs(t, s=s):
            return np.sin(t / s) + 0.5 * (t / s) ** 2
        exact = np.diag((np.cos(u0) + u0) / s)
        desc = {'n': n, 'method': method, 'x': x.tolist(), 'length_scales': s.tolist(), 'step': step, 'f': 'sin(x/s) + (x/s)**2/2 componentwise',
                'how': 'nd_scipy.Jacobian(f, method=method, step=step)(x): the step is documented as relative (scipy rel_step), so each coordinate is perturbed by step*|x_j|'}
        try:
            J = nds.Jacobian(fs, method=method, step=step)(x)
        except Exception as ex:   # noqa
            ctx.violation('raises:%s' % method, 'nd_scipy.Jacobian(f, method=%r, step=%r)(x) raises %r' % (method, step, ex), desc)
            continue
        ctx.count(1, ('jac-length-scales', method))
        # (the natural size of d/dx_j is 1/s_j; where cos(u) + u is nearly zero -- u close to -0.739 -- the entry itself is no yardstick)
        colscale = np.maximum(np.max(np.abs(exact), axis=0), 1.0 / s)
        if np.shape(J) != (n, n) or not np.all(np.abs(J - exact) <= 1e-3 * colscale[None, :]):
            ctx.violation('jacobian-value:relative-step:%s' % method, 'nd_scipy.Jacobian(method=%r, step=%r) at coordinates with length scales %r: entries differ from the analytic Jacobian by %.3g relative to their column' % (
                method, step, s.tolist(), float(np.max(np.abs(J - exact) / colscale[None, :])) if np.shape(J) == (n, n) else float('nan')), desc)
            break
    # unknown method: an error, not a silent default
    for bad in ('multicomplex', 'centrall', ''):
        try:
            nds.Jacobian(lambda t: t, method=bad)(np.ones(2))
            ctx.violation('method-default:%s' % bad, 'nd_scipy.Jacobian(method=%r) silently uses a default scheme' % bad, {'method': bad})
        except KeyError:
            pass
        except Exception:   # noqa
            pass
        ctx.count(1, ('badmethod',))
    ctx.cov['traces_validated_against_impl'] = N
    ctx.assumptions += ['PARTIAL: the wrapper logic (method map, option forwarding, shape plumbing) is proved on definitions regenerated from the AST; scipy.optimize.approx_derivative is an oracle: its assumed specification (returns the (m, n) Jacobian, (n,) when m = 1; evaluates f inside the bounds) is validated by this run-time monitor, not proved']
    return ctx.finish(level='proof', checker_cmd='make -C coq Props/C19.vo',
                      rule='n 1..6 x m 1..5 x {central, forward, complex} x affine / nonlinear f x boxes with x inside or on the boundary x rel_step None or given; Gradient for x of three shapes; extra positional and keyword arguments on every call; '
                           'distinct = (wrapper, method, m = 1?, boxed) combinations hit')
