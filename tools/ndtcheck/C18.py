"""C18 - Limit and Residue recover removable singularities and poles (partial)."""
import warnings

import numpy as np

from . import pipe
from .core import coq_eval_many, flist, flit, parse_count_fail, proof_stage, zlit

# |result - exact| <= K * reported error estimate + FLOOR * max(1, |exact|); calibrated on the repaired tree (margin >= 30)
K, FLOOR = 100.0, 1e-10

KERNELS = {
    'sin(w)/w': lambda w: np.sin(w) / w,
    'expm1(w)/w': lambda w: np.expm1(w) / w,
    'log1p(w)/w': lambda w: np.log1p(w) / w,
    'w/sin(w)': lambda w: w / np.sin(w),
    'tan(w)/w': lambda w: np.tan(w) / w,
}

HDR = '''From Coq Require Import String.
Require Import NDT.Arith.Ops NDT.Arith.OpsFloat NDT.Arith.OpsCFloat NDT.Model.Pipeline NDT.Model.Limit NDT.Gen.Limits NDT.Gen.Guards.
From Coq Require Import PrimFloat ZArith List Bool. Import ListNotations.
Definition TF := 0x1.96993aacc4d21p+3%float.
Definition THR := 0x1.a36e2eb1c432dp-14%float.
Definition C1EM8 := 0x1.5798ee2308c3ap-27%float.
Definition okE (c : list float * list float * list float * (float * float * float * nat)) : bool :=
  let '(der, hs, rr, (v, e, s, ix)) := c in
  let '(v', e', s', ix') := extrapolate OpsF TF THR C1EM8 0x1.8p+0%float 0x1p-1%float der hs rr in
  feq v v' && feq e e' && feq s s' && Nat.eqb ix ix'.
Definition signF (m : string) : float := match lim_sign m with Some s => ofZ OpsF s | None => nan end.
(* evaluation points: z + sign * step for every step of the generator, in order; the steps handed to the extrapolation are the signed ones *)
Definition okPts (c : string * float * list float * list float * list float) : bool :=
  let '(m, z, gen, pts, used) := c in
  leqf (lim_points OpsF z (lim_steps OpsF (signF m) gen)) pts && leqf (lim_steps OpsF (signF m) gen) used.
Definition close (a b : float) : bool := feq a b || PrimFloat.leb (PrimFloat.abs (a - b)) (0x1p-49 * PrimFloat.abs b)%float.
Fixpoint lclose (a b : list float) : bool := match a, b with [] , [] => true | x :: a', y :: b' => close x y && lclose a' b' | _, _ => false end.
(* Residue: the sequence is f(z + h) * h^p with p = residue_power pole_order *)
Definition okRes (c : Z * list float * list float * list float) : bool :=
  let '(p, fvals, hs, seq_) := c in lclose (residue_seq OpsF (Z.to_nat (residue_power p)) fvals hs) seq_.
(* _call_lim: NaN entries replaced by the limits, in order; every other entry is f's own value, error 0 *)
Definition okFill (c : list float * list float * list float * list float * list float) : bool :=
  let '(fz, lims, errs, out, oerr) := c in leqf (fill OpsF fz lims) out && leqf (fill_err OpsF fz errs) oerr.
(* complex estimates (complex z0, radial path): the whole _extrapolate stage in complex arithmetic, tolerance 2^-40; a different
   selected row is accepted only when the model's penalised errors of the two rows agree to 2^-30 *)
Definition TOL := 0x1p-40%float.
Definition okEc (c : list cfloat * list float * list float * (cfloat * float * float * nat)) : bool :=
  let '(der, hs, rr, (v, e, s, ix)) := c in
  let '(d1, errs, s1) := extrapolate_c_table OpsCF (c_real TF) (c_real THR) (c_real C1EM8) (c_real 0x1.8p+0%float) der (map c_real hs) (map c_real rr) in
  let '(v', e', s', ix') := extrapolate_c OpsCF (c_real TF) (c_real THR) (c_real C1EM8) (c_real 0x1.8p+0%float) der (map c_real hs) (map c_real rr) in
  if Nat.eqb ix ix' then cclose TOL v v' && fclose TOL e (fst e') && feq s (fst s')
  else fclose 0x1p-30%float (fst (nthA OpsCF errs ix)) (fst (nthA OpsCF errs ix')) && cclose TOL v (nthA OpsCF d1 ix).
Definition okSign (c : string * Z) : bool := match lim_sign (fst c) with Some s => Z.eqb s (snd c) | None => Z.eqb (snd c) 0 end.
Definition okTerms (c : Z * Z) : bool := Z.eqb (lim_rich_num_terms (fst c)) (snd c).
Definition okNum (c : Z * Z) : bool := Z.eqb (cstep_num_steps_of_round (fst c)) (snd c).
Definition okDefOrder (c : Z * Z) : bool := Z.eqb (residue_default_order (fst c)) (snd c).
Definition okGuard (c : Z * Z * bool) : bool := Bool.eqb (residue_order_guard (fst (fst c)) (snd (fst c))) (snd c).
'''


class G:
    """analytic family g: random polynomial / exp / cos / sinh / 1/(c+z) with the pole far away"""

    def __init__(self, rng):
        self.kind = str(rng.choice(['poly', 'exp', 'cos', 'sinh', 'rat']))
        self.a = float(rng.uniform(0.3, 1.5))
        self.b = float(rng.uniform(-1, 1))
        self.c = [float(t) for t in rng.uniform(-1, 1, size=int(rng.integers(1, 6)))]
        if abs(self.c[0]) < 0.2:
            self.c[0] = 0.7

    def __call__(self, z):
        if self.kind == 'poly':
            r = 0
            for t in reversed(self.c):
                r = r * z + t
            return r
        if self.kind == 'exp':
            return np.exp(self.a * z) + self.b
        if self.kind == 'cos':
            return np.cos(self.a * z + self.b) + 2.0
        if self.kind == 'sinh':
            return np.sinh(self.a * z) + 2.0 + self.b
        return 1.0 / (36.0 + (self.a * z) ** 2)

    def show(self):
        return {'poly': 'sum(c[k] z**k), c=%r' % (self.c,), 'exp': 'exp(%r z) + %r' % (self.a, self.b), 'cos': 'cos(%r z + %r) + 2' % (self.a, self.b),
                'sinh': 'sinh(%r z) + 2 + %r' % (self.a, self.b), 'rat': '1/(36 + (%r z)**2)' % self.a}[self.kind]


def config(rng, allow_complex=True):
    cplx = allow_complex and rng.random() < 0.4
    z0 = complex(rng.uniform(0, 1), rng.uniform(0, 1)) if cplx else float(rng.uniform(-3, 3))
    method = str(rng.choice(['above', 'below']))
    path = str(rng.choice(['radial', 'radial', 'spiral'])) if allow_complex else 'radial'
    order = int(rng.integers(1, 9))
    ratio = float(rng.choice([2.0, 3.0, 4.0, 8.0, 16.0, rng.uniform(2, 16)]))
    return z0, method, path, order, ratio


def known_region(kname, order, ratio):
    """the recorded finding: log1p kernel (branch point at w = -1 inside the sampled region), high order and large ratio"""
    return kname.startswith('log1p') and order >= 6 and ratio >= 8.0


def sweep(ctx, N):
    from numdifftools.limits import Limit, Residue
    rng = ctx.rng(41)
    worst = 0.0
    for it in range(N):
        g = G(rng)
        z0, method, path, order, ratio = config(rng)
        kind = ['limit', 'limit', 'residue', 'array', 'limit-method'][it % 5]
        kname = list(KERNELS)[int(rng.integers(0, len(KERNELS)))]
        s = KERNELS[kname]
        p = int(rng.integers(1, 4))
        desc = {'kind': kind, 'g': g.show(), 'z0': repr(z0), 'method': method, 'path': path, 'order': order, 'step_ratio': ratio}
        opts = dict(method=method, path=path, step_ratio=ratio, full_output=True)
        left = {}

        def watch(fun, zc):
            # records whether f is undefined (NaN/inf) at a point other than the singular point itself: the path leaves f's domain
            def wrapped(z):
                v = fun(z)
                if np.any(~np.isfinite(np.asarray(v)) & (np.asarray(z) - zc != 0)):
                    left['domain'] = True
                return v
            return wrapped
        try:
            with np.errstate(all='ignore'), warnings.catch_warnings():
                warnings.simplefilter('ignore')
                if kind == 'residue':
                    o = max(order, p + 1) if it % 2 else None
                    desc.update(pole_order=p, order=o, f='g(z) / (z - z0)**%d' % p)
                    val, info = Residue(watch(lambda z: g(z) / (z - z0) ** p, z0), pole_order=p, order=o, **opts)(z0)
                    exact = np.asarray(g(z0))
                    kname = 'pole%d' % p
                elif kind == 'array' and it % 2 == 0:
                    # array argument with SEVERAL different singular points (different limits) among regular points, in random order
                    roots = np.sort(rng.uniform(-2, 2, size=3))
                    roots = roots + np.array([0.0, 0.4, 0.8])                       # pairwise distinct
                    if isinstance(z0, complex):
                        roots = roots + 1j * rng.uniform(0, 1, size=3)
                    kname = str(rng.choice(['sin(w)/w', 'expm1(w)/w']))
                    s = KERNELS[kname]
                    wfun = lambda z: (z - roots[0]) * (z - roots[1]) * (z - roots[2]) / 10.0    # noqa
                    def f(z):
                        w = wfun(z)
                        v = g(z) * s(w)
                        if np.any(~np.isfinite(np.asarray(v)) & (np.asarray(w) != 0)):
                            left['domain'] = True        # e.g. sin(w) overflows for |Im w| > 710: the path leaves the double-precision domain of f
                        return v
                    pts = np.concatenate([roots, roots[:1], roots[0] + rng.uniform(0.1, 0.3, size=2), roots[2] - rng.uniform(0.1, 0.3, size=1)])
                    pts = pts[rng.permutation(pts.size)][:int(rng.integers(4, 8))]
                    zs = pts.reshape((2, -1)) if pts.size % 2 == 0 and it % 4 == 0 else pts
                    sing = np.ravel(wfun(zs) == 0)
                    desc.update(kernel=kname, f='g(z) * %s, w = (z - r0)(z - r1)(z - r2)/10' % kname, roots=[repr(t) for t in roots], z=[repr(t) for t in np.ravel(zs)])
                    val, info = Limit(f, order=order, **opts)(zs)
                    if np.shape(val) != np.shape(zs):
                        ctx.violation('shape', 'Limit(f)(z) returns shape %r for z of shape %r' % (np.shape(val), np.shape(zs)), desc)
                        continue
                    own = np.ravel(f(zs))
                    ctx.count(1, ('sweep', 'several-singular-points', np.iscomplexobj(zs), int(np.sum(sing))))
                    same = [complex(a) == complex(b) for a, b in zip(np.ravel(val)[~sing], own[~sing])]
                    if not all(same) or np.any(np.ravel(info.error_estimate)[~sing] != 0):
                        ctx.violation('finite-changed', 'Limit(f)(z): an entry where f is finite is not f\'s own value (or has a non-zero error estimate): got %r, f(z) = %r' % (
                            np.ravel(val)[~sing].tolist(), own[~sing].tolist()), desc)
                    kind = 'array-multi'
                    val, exact = np.ravel(val)[sing], np.ravel(g(zs))[sing]
                    info = info._replace(error_estimate=np.ravel(info.error_estimate)[sing])
                elif kind == 'array':
                    # array argument mixing the singular point with regular points
                    offs = np.array([0.0, float(rng.uniform(0.2, 1.0)), -float(rng.uniform(0.2, 1.0)), 0.0, float(rng.uniform(1.1, 2.0))])[:int(rng.integers(2, 6))]
                    zs = (z0 + offs).reshape((2, 2) if offs.size == 4 else (offs.size,))
                    desc.update(kernel=kname, f='g(z) * %s, w = z - z0' % kname, z=[repr(t) for t in np.ravel(zs)])
                    f = lambda z: g(z) * s(z - z0)   # noqa
                    val, info = Limit(watch(f, z0), order=order, **opts)(zs)
                    if np.shape(val) != np.shape(zs):
                        ctx.violation('shape', 'Limit(f)(z) returns shape %r for z of shape %r' % (np.shape(val), np.shape(zs)), desc)
                        continue
                    fin = np.ravel(offs != 0.0)
                    own = np.ravel(f(zs))
                    same = [complex(a) == complex(b) for a, b in zip(np.ravel(val)[fin], own[fin])]
                    ctx.count(1, ('sweep', 'finite-unchanged', np.iscomplexobj(zs)))
                    if not all(same) or np.any(np.ravel(info.error_estimate)[fin] != 0):
                        ctx.violation('finite-changed', 'Limit(f)(z): an entry where f is finite is not f\'s own value (or has a non-zero error estimate): got %r, f(z) = %r' % (
                            np.ravel(val)[fin].tolist(), own[fin].tolist()), desc)
                    val, exact = np.ravel(val)[~fin], np.ravel(g(zs))[~fin]
                    info = info._replace(error_estimate=np.ravel(info.error_estimate)[~fin])
                elif kind == 'limit-method':
                    # .limit(x) on an array of singular points (one limit per element)
                    z0 = z0 + np.array([0.0, 0.25, -0.5])
                    desc.update(kernel=kname, f='g(z) * %s, w = z - z0 (elementwise)' % kname, z0=[repr(t) for t in z0])
                    val, info = Limit(watch(lambda z: g(z) * s(z - z0), z0), order=order, **opts).limit(z0)
                    exact = g(z0)
                    if np.shape(val) != np.shape(z0):
                        ctx.violation('shape', 'Limit(f).limit(z) returns shape %r for z of shape %r' % (np.shape(val), np.shape(z0)), desc)
                        continue
                else:
                    desc.update(kernel=kname, f='g(z) * %s, w = z - z0' % kname)
                    val, info = Limit(watch(lambda z: g(z) * s(z - z0), z0), order=order, **opts)(z0)
                    exact = np.asarray(g(z0))
        except Exception as ex:   # noqa
            ctx.violation('raises:%s:%s' % (kind, 'complex' if (np.iscomplexobj(z0) or path == 'spiral') else 'real'),
                          '%s of %s at z0 = %r (method=%r, path=%r, order=%r, step_ratio=%r) raises %r' % (
                              'Residue' if kind == 'residue' else 'Limit', desc.get('f'), z0, method, path, desc['order'], ratio, ex), desc)
            continue
        if left and not np.all(np.isfinite(np.ravel(val))):
            ctx.count(1, ('sweep', 'path-leaves-domain'))     # e.g. real log1p(w) for w < -1: NaN evaluations, NaN result - not an accuracy statement
            continue
        ctx.count(1, ('sweep', kind, kname, method, path, bool(np.iscomplexobj(z0))))
        err = np.abs(np.ravel(val) - np.ravel(exact))
        est = np.abs(np.ravel(info.error_estimate))
        bound = K * est + FLOOR * np.maximum(1.0, np.abs(np.ravel(exact)))
        r = float(np.max(err / bound)) if err.size else 0.0
        if not np.all(err <= bound):
            known = known_region(kname, order, ratio)
            i = int(np.argmax(err / bound))
            # (the recorded finding is an estimate 100-3000 x too small; an estimate of exactly zero next to a visible error is another failure)
            ctx.violation(('envelope:zero-estimate' if float(est[i]) == 0.0 else 'envelope:log1p:order>=6:ratio>=8') if known else 'envelope:%s:%s' % (kind, kname),
                          '%s of f(z) = %s at z0 = %s (method=%r, path=%r, order=%r, step_ratio=%r): got %r, exact %r, error %.3g but reported error estimate %.3g' % (
                              'Residue' if kind == 'residue' else 'Limit', desc['f'], desc['z0'], method, path, desc['order'], ratio,
                              complex(np.ravel(val)[i]), complex(np.ravel(exact)[i]), float(err[i]), float(est[i])),
                          dict(desc, got=repr(np.ravel(val)[i]), exact=repr(np.ravel(exact)[i]), error=float(err[i]), error_estimate=float(est[i])))
        elif not known_region(kname, order, ratio):
            worst = max(worst, r)
    # step options that push the smallest steps below the spacing of the floats around z0 (z0 + h == z0: f is NaN on the LAST rows only)
    for it in range(max(10, N // 12)):
        g = G(rng)
        z0 = float(rng.choice([3.0, -1.5, 0.7, 2.2]))
        kname = str(rng.choice(['sin(w)/w', 'expm1(w)/w', 'w/sin(w)']))
        s = KERNELS[kname]
        cfg = [dict(offset=-6, step_ratio=4.0), dict(offset=-12, step_ratio=2.0), dict(offset=-3, step_ratio=16.0), dict(scale=1.0), dict(step=3e-16), dict(offset=-6, step_ratio=4.0, num_steps=31)][it % 6]
        method = str(rng.choice(['above', 'below']))
        order = int(rng.integers(1, 5))
        desc = {'kind': 'tiny-steps', 'g': g.show(), 'kernel': kname, 'z0': z0, 'method': method, 'order': order, 'options': cfg}
        try:
            with np.errstate(all='ignore'), warnings.catch_warnings():
                warnings.simplefilter('ignore')
                val, info = Limit(lambda z: g(z) * s(z - z0), method=method, order=order, full_output=True, **cfg)(z0)
        except Exception as ex:   # noqa
            ctx.violation('raises:tiny-steps', 'Limit(..., %r)(%r) raises %r' % (cfg, z0, ex), desc)
            continue
        ctx.count(1, ('sweep', 'tiny-steps', it % 6))
        exact = float(g(z0))
        v, e = float(np.ravel(val)[0]), float(np.ravel(info.error_estimate)[0])
        if not (np.isfinite(v) and np.isfinite(e) and abs(v - exact) <= K * e + FLOOR * max(1.0, abs(exact))):
            ctx.violation('envelope:tiny-steps', 'Limit of g(z) * %s at z0 = %r with %r (method=%r, order=%d): got %r with error estimate %r, exact %r (the smallest steps vanish next to z0: the last rows of estimates are NaN)' % (
                kname, z0, cfg, method, order, v, e, exact), dict(desc, got=v, error_estimate=e, exact=exact))
    ctx.cov['sweep_worst_ratio_to_bound'] = worst


def demanding(ctx):
    """Only when something is broken: the demanding end of the quantifier (spiral path, log1p kernel, order 6..8, ratio 8 / 16), where the true
    error is far above the rounding floor, so a record whose error estimate is lost (zero) or wrong shows as a failing input.  The recorded
    finding (estimate 100-3000 x too small there) keeps its own key; an estimate of exactly zero is reported under another."""
    from numdifftools.limits import Limit
    for gname, g in (('cos', np.cos), ('exp', np.exp)):
        for order in (6, 7, 8):
            for ratio in (8.0, 16.0):
                for z0 in (0.0, 0.5):
                    for fo_call in ('__call__', 'limit'):
                        def f(z, g=g, z0=z0):
                            w = z - z0
                            return g(z) * np.log1p(w) / w
                        try:
                            with np.errstate(all='ignore'), warnings.catch_warnings():
                                warnings.simplefilter('ignore')
                                L = Limit(f, path='spiral', order=order, step_ratio=ratio, full_output=True)
                                val, info = L(z0) if fo_call == '__call__' else L.limit(z0)
                        except Exception:   # noqa
                            continue
                        ctx.count(1, ('demanding', fo_call))
                        exact = complex(g(z0))
                        err = abs(complex(np.ravel(val)[0]) - exact)
                        est = float(np.abs(np.ravel(info.error_estimate)[0]))
                        if not err <= K * est + FLOOR * max(1.0, abs(exact)):
                            desc = {'f': '%s(z) * log1p(w)/w, w = z - z0' % gname, 'z0': z0, 'path': 'spiral', 'order': order, 'step_ratio': ratio, 'call': 'Limit(f, path="spiral", order=order, step_ratio=ratio, full_output=True)' + ('(z0)' if fo_call == '__call__' else '.limit(z0)'),
                                    'got': repr(np.ravel(val)[0]), 'exact': repr(exact), 'error': err, 'error_estimate': est}
                            if ctx.violation('envelope:zero-estimate' if est == 0.0 else 'envelope:log1p:order>=6:ratio>=8',
                                             'Limit of %s(z) log1p(w)/w at z0 = %r (spiral, order=%d, step_ratio=%r, %s): error %.3g but reported error estimate %.3g' % (gname, z0, order, ratio, fo_call, err, est), desc) and est == 0.0:
                                return


def real_cases(ctx, N):
    """bit-exact tie on real data: evaluation points, signed steps, Residue's sequence, _extrapolate, _call_lim"""
    from numdifftools import limits as lim
    rng = ctx.rng(7)
    cE, cP, cR, cF = [], [], [], []
    dE, dP, dR, dF = [], [], [], []
    skipped = {}
    for it in range(N):
        g = G(rng)
        z0, method, path, order, ratio = config(rng, allow_complex=False)
        if it % 7 == 0:
            method = str(rng.choice(['forward', 'backward']))
        kname = list(KERNELS)[it % len(KERNELS)]
        s = KERNELS[kname]
        p = int(rng.integers(1, 4))
        residue = it % 3 == 2
        fill = it % 3 == 1
        seen = []

        def f(z, g=g, s=s, z0=z0, residue=residue, p=p):
            seen.append(np.array(z, dtype=float, copy=True))
            return g(z) / (z - z0) ** p if residue else g(z) * s(z - z0)
        opts = dict(method=method, step_ratio=ratio, full_output=True)
        if it % 5 == 4:
            opts['step'] = float(rng.choice([1e-6, 1e-8, 0.001]))
        try:
            L = lim.Residue(f, pole_order=p, order=max(order, p + 1), **opts) if residue else lim.Limit(f, order=order, **opts)
        except ValueError as ex:
            # every order above pole_order is documented as valid ("order must be at least pole_order+1")
            ctx.violation('residue-rejects-valid-order', 'Residue(f, pole_order=%d, order=%d) raises %r although order >= pole_order + 1' % (p, max(order, p + 1), ex),
                          {'pole_order': p, 'order': max(order, p + 1), 'how': 'numdifftools.limits.Residue(lambda z: 1/z**p, pole_order=p, order=order)'})
            continue
        desc = {'class': 'Residue' if residue else 'Limit', 'g': g.show(), 'kernel': None if residue else kname, 'pole_order': p if residue else None, 'z0': z0,
                'method': method, 'order': L.order, 'step_ratio': ratio, 'step': opts.get('step')}
        if fill and it % 4 == 1:
            # several different singular points: the limits must be written back in order, each to its own entry
            r = [z0, z0 + 0.5, z0 - 0.75]
            gg, ss = g, s

            def f(z, gg=gg, ss=ss, r=r):      # noqa
                seen.append(np.array(z, dtype=float, copy=True))
                return gg(z) * ss((z - r[0]) * (z - r[1]) * (z - r[2]) / 8.0)
            L = lim.Limit(f, order=order, **opts)
            desc['f'] = 'g(z) * kernel((z - z0)(z - z0 - 0.5)(z - z0 + 0.75)/8)'
            zarg = np.array([r[1], z0 + 0.2, r[0], r[2], z0 - 0.3, r[1]])[:int(rng.integers(3, 7))]
        elif fill:
            offs = np.array([0.0, 0.5, -0.75, 0.0, 1.5, 0.0])[:int(rng.integers(1, 7))]
            if it % 2:
                offs = offs[::-1].copy()
            zarg = z0 + offs
        else:
            zarg = np.asarray(z0)
        rec = {}
        o_lim, o_call = lim.Limit._lim, lim.Limit._call_lim

        def _lim(slf, fun, z):
            r = o_lim(slf, fun, z)
            rec['lim'] = (np.array(r[0], copy=True), r[1])
            rec['lim_z'] = np.array(z, copy=True)
            return r

        def _call_lim(slf, f_z, z, fun):
            rec['fz'] = np.array(f_z, copy=True)
            return o_call(slf, f_z, z, fun)
        lim.Limit._lim, lim.Limit._call_lim = _lim, _call_lim
        try:
            with pipe.Capture() as cap, np.errstate(all='ignore'), warnings.catch_warnings():
                warnings.simplefilter('ignore')
                val, info = L(zarg)
        except Exception as ex:   # noqa
            ctx.brk('correspondence', '%s raised %r' % (desc['class'], ex), desc)
            continue
        finally:
            lim.Limit._lim, lim.Limit._call_lim = o_lim, o_call
        rec.update(cap.rec)
        if 'lim' not in rec:
            skipped['no NaN entry'] = skipped.get('no NaN entry', 0) + 1
            continue
        lv, linfo = rec['lim']
        zs = np.ravel(rec['lim_z'])
        gen = [np.ravel(np.asarray(h, dtype=float) * np.ones_like(zs)) for h in L.step(rec['lim_z'])]
        used = rec['ex_steps']
        nsteps = len(gen)
        # evaluations: (Limit.__call__) f(z, 0) first, then one call per step
        evals = seen[1:] if not residue else seen
        if len(evals) != nsteps or used.shape != (nsteps, zs.size):
            ctx.brk('correspondence', '%s: %d evaluations of f for %d generator steps (matrix of steps %r)' % (desc['class'], len(evals), nsteps, used.shape), desc)
            continue
        for c in range(zs.size):
            cP.append('("%s"%%string, %s, %s, %s, %s)' % (method, flit(zs[c]), flist([h[c] for h in gen]), flist([np.ravel(e)[c] for e in evals]), flist(used[:, c])))
            dP.append(dict(desc, element=c))
        if residue:
            fv = [np.ravel(g(e) / (e - z0) ** p) for e in evals]
            if np.isfinite(rec['ex_results']).all():
                for c in range(zs.size):
                    cR.append('(%s, %s, %s, %s)' % (zlit(p), flist([t[c] for t in fv]), flist(used[:, c]), flist(rec['ex_results'][:, c])))
                    dR.append(dict(desc, element=c))
        cs, why = pipe.extrapolate_cases(lv, linfo, rec)
        if why:
            skipped[why] = skipped.get(why, 0) + 1
        else:
            cE += cs
            dE += [dict(desc, element=c, value=float(np.ravel(lv)[c]), error_estimate=float(np.ravel(linfo.error_estimate)[c])) for c in range(len(cs))]
        if 'fz' in rec:
            cF.append('(%s, %s, %s, %s, %s)' % (flist(np.ravel(rec['fz'])), flist(np.ravel(lv)), flist(np.ravel(linfo.error_estimate)), flist(np.ravel(val)), flist(np.ravel(info.error_estimate))))
            dF.append(dict(desc, z=np.ravel(zarg).tolist(), f_z=[float(t) for t in np.ravel(rec['fz'])], result=[float(t) for t in np.ravel(val)]))
        ctx.count(1, ('tie', desc['class'], method, 'array' if fill else 'scalar', 'user-step' if 'step' in opts else 'default-step'))
        if it < 2:
            ctx.sample(dict(desc, value=[float(t) for t in np.ravel(val)]))
    return [('E', 'okE', cE, dE, 'the value / error estimate / final step / index of _Limit._extrapolate differ bit-for-bit from Model/Pipeline.v fed the recorded sequence'),
            ('P', 'okPts', cP, dP, 'the points at which f is evaluated (or the steps handed to the extrapolation) are not z + sign * step for the generator\'s steps, with the sign of Gen/Limits.v (Model/Limit.v lim_points / lim_steps)'),
            ('R', 'okRes', cR, dR, 'the sequence extrapolated by Residue is not f(z0 + h) * h^pole_order (Model/Limit.v residue_seq, Gen/Limits.v residue_power)'),
            ('F', 'okFill', cF, dF, 'Limit.__call__ on an array does not return f\'s own values with the NaN entries replaced by the limits, in order (Model/Limit.v fill / fill_err)')], skipped


def clit(z):
    z = complex(z)
    return '(%s, %s)' % (flit(z.real), flit(z.imag))


def complex_cases(ctx, N):
    """tolerance tie of _Limit._extrapolate on complex estimates (complex z0, radial path: real steps and real Richardson rule)"""
    from numdifftools import limits as lim
    rng = ctx.rng(17)
    cases, descs = [], []
    for it in range(N):
        g = G(rng)
        z0, method, path, order, ratio = config(rng)
        z0 = complex(rng.uniform(0, 1), rng.uniform(0.05, 1))
        kname = list(KERNELS)[it % len(KERNELS)]
        s = KERNELS[kname]
        p = int(rng.integers(1, 4))
        residue = it % 3 == 2
        f = (lambda z: g(z) / (z - z0) ** p) if residue else (lambda z: g(z) * s(z - z0))
        opts = dict(method=method, step_ratio=ratio, full_output=True)
        try:
            L = lim.Residue(f, pole_order=p, order=max(order, p + 1), **opts) if residue else lim.Limit(f, order=order, **opts)
        except ValueError as ex:
            # every order above pole_order is documented as valid ("order must be at least pole_order+1")
            ctx.violation('residue-rejects-valid-order', 'Residue(f, pole_order=%d, order=%d) raises %r although order >= pole_order + 1' % (p, max(order, p + 1), ex),
                          {'pole_order': p, 'order': max(order, p + 1), 'how': 'numdifftools.limits.Residue(lambda z: 1/z**p, pole_order=p, order=order)'})
            continue
        desc = {'class': 'Residue' if residue else 'Limit', 'g': g.show(), 'kernel': None if residue else kname, 'pole_order': p if residue else None, 'z0': repr(z0),
                'method': method, 'order': L.order, 'step_ratio': ratio}
        try:
            with pipe.Capture() as cap, np.errstate(all='ignore'), warnings.catch_warnings():
                warnings.simplefilter('ignore')
                val, info = L.limit(z0)
        except Exception as ex:   # noqa
            ctx.brk('correspondence', '%s raised %r' % (desc['class'], ex), desc)
            continue
        rec = cap.rec
        der, hs, rr = rec.get('ex_results'), rec.get('ex_steps'), rec.get('rr', [None])[-1]
        if der is None or not np.iscomplexobj(der) or np.iscomplexobj(hs) or np.iscomplexobj(rr) or not np.isfinite(der).all() or np.max(np.abs(der)) > 1e150:
            continue
        v, e, st, ix = np.ravel(val)[0], float(np.ravel(info.error_estimate)[0]), np.ravel(info.final_step)[0], int(np.ravel(info.index)[0])
        cases.append('([%s], %s, %s, (%s, %s, %s, %d%%nat))' % ('; '.join(clit(t) for t in der[:, 0]), flist(hs[:, 0]), flist(rr), clit(v), flit(e), flit(float(np.real(st))), ix))
        descs.append(dict(desc, value=repr(complex(v)), error_estimate=e))
        ctx.count(1, ('tie-complex', desc['class'], method))
    return [('C', 'okEc', cases, descs, 'the value / error estimate / final step / selected row of _Limit._extrapolate on complex estimates differ (beyond 2^-40) from Model/Pipeline.v extrapolate_c in complex arithmetic')]


def translator_cases(ctx):
    """the generated definitions of Gen/Limits.v against the running code"""
    from numdifftools import limits as lim
    items = []
    one = lambda z: 1.0 + 0 * z   # noqa
    # sign per method name: observed on the steps handed to the extrapolation
    cs = []
    for m in ('above', 'below', 'forward', 'backward', 'central', 'Above', ''):
        try:
            L = lim.Limit(one, method=m, full_output=True)
            with pipe.Capture() as cap, warnings.catch_warnings():
                warnings.simplefilter('ignore')
                L.limit(0.5)
            gen = np.ravel(list(L.step(np.asarray(0.5))))
            used = np.ravel(cap.rec['ex_steps'])
            sg = int(round(float(used[0] / gen[0])))
        except KeyError:
            sg = 0
        cs.append('("%s"%%string, %s)' % (m, zlit(sg)))
        ctx.count(1, ('translator', 'sign'))
    items.append(('S', 'okSign', cs, 'lim_sign (Gen/Limits.v) differs from the sign Limit applies to the steps for this method name (0 = KeyError)'))
    # number of Richardson terms per order, Residue default order, guard
    cs, cd, cg = [], [], []
    for o in range(1, 13):
        L = lim.Limit(one, order=o)
        with warnings.catch_warnings():
            warnings.simplefilter('ignore')
            L.limit(0.5)
        cs.append('(%s, %s)' % (zlit(o), zlit(int(L.richardson.num_terms))))
        if (L.richardson.step, L.richardson.order) != (1, 1):
            ctx.brk('translator', 'Limit(order=%d) uses Richardson(step=%r, order=%r); Gen/Limits.v says (1, 1)' % (o, L.richardson.step, L.richardson.order), {'order': o})
        ctx.count(1, ('translator', 'terms'))
    for p in range(0, 7):
        cd.append('(%s, %s)' % (zlit(p), zlit(int(lim.Residue(one, pole_order=p).order))))
        for o in range(0, 9):
            try:
                lim.Residue(one, pole_order=p, order=o)
                acc = True
            except ValueError:
                acc = False
            cg.append('(%s, %s, %s)' % (zlit(p), zlit(o), 'true' if acc else 'false'))
        ctx.count(1, ('translator', 'residue'))
    items += [('T', 'okTerms', cs, 'lim_rich_num_terms differs from the num_terms of the Richardson rule Limit installs'),
              ('D', 'okDefOrder', cd, 'residue_default_order differs from Residue(pole_order=p).order'),
              ('U', 'okGuard', cg, 'residue_order_guard differs from whether Residue(pole_order, order) is accepted')]
    # number of steps of CStepGenerator per ratio
    cn = []
    rng = ctx.rng(3)
    for r in [2.0, 3.0, 4.0, 8.0, 16.0, 1.5, 100.0] + [float(t) for t in rng.uniform(1.2, 50, size=40)]:
        for path in ('radial', 'spiral'):
            k = int(np.round(16.0 / np.log(r)))
            cn.append('(%s, %s)' % (zlit(k), zlit(int(lim.CStepGenerator(step_ratio=r, path=path).num_steps))))
            ctx.count(1, ('translator', 'num_steps'))
    items.append(('N', 'okNum', cn, 'cstep_num_steps_of_round (with k = round(16 / log ratio)) differs from CStepGenerator(step_ratio).num_steps'))
    return items


def run(ctx):
    proof_stage(ctx, 'Props/C18.v')
    groups, skipped = real_cases(ctx, ctx.n(150, 1500))
    groups = groups + complex_cases(ctx, ctx.n(90, 900))
    items, index = [], {}
    for tag, ok, cases, descs, what in groups:
        for s in range(0, len(cases), 150):
            name = 'C18_%s_%d' % (tag, s)
            items.append((name, HDR + 'Definition cases := [\n' + ';\n'.join(cases[s:s + 150]) + '].\nEval vm_compute in (List.length cases, failing %s cases).\n' % ok))
            index[name] = (s, descs, what, 'correspondence')
    for tag, ok, cases, what in translator_cases(ctx):
        name = 'C18_%s_0' % tag
        items.append((name, HDR + 'Definition cases := [\n' + ';\n'.join(cases) + '].\nEval vm_compute in (List.length cases, failing %s cases).\n' % ok))
        index[name] = (0, [{'case': c} for c in cases], what, 'translator')
    res = coq_eval_many(items)
    nbad = ncase = 0
    for name, (rc, out) in sorted(res.items()):
        s, descs, what, kind = index[name]
        pr = parse_count_fail(out)
        if rc != 0 or pr is None:
            ctx.brk(kind, 'case file %s could not be evaluated' % name, out[-1500:])
            continue
        ncase += pr[0]
        for i in pr[1]:
            nbad += 1
            if nbad <= 6:
                ctx.brk(kind, what, descs[s + i])
    ctx.cov['traces_validated_against_impl'] = ncase
    ctx.cov['correspondence_disagreements'] = nbad
    ctx.cov['skipped'] = skipped
    if ctx.broken:
        demanding(ctx)
    sweep(ctx, ctx.n(300, 4000) if not ctx.broken else 1200)
    ctx.assumptions += ['PARTIAL: proved = finite entries unchanged (any arithmetic), exactness on polynomial-in-the-step sequences and on poles g/(z - z0)^p with polynomial g (R), sign table, rule, enough steps; '
                        'NOT proved = the error bound for the listed kernels and non-polynomial g, and the complex-valued pipeline (lexicographic percentiles): explored by the sweep against exact values g(z0), '
                        'bound %g x estimate + %g x max(1, |exact|) calibrated on the repaired tree' % (K, FLOOR),
                        'bit-exact tie on real data (real z0, radial path); complex z0 with radial paths: the _extrapolate stage is compared in complex arithmetic with tolerance 2^-40 (numpy fuses multiply-adds in complex products, |z| is hypot), a different selected row being accepted only on a tie of the penalised errors to 2^-30; spiral paths (complex step ratio, complex Richardson rule) are exercised at the property level only',
                        'Residue with pole_order 3: h**3 is computed by pow() in numpy and by repeated multiplication in the model; compared with relative tolerance 2^-49']
    return ctx.finish(level='proof', checker_cmd='make -C coq Props/C18.vo + coqc build/cases/C18_*.v',
                      rule='tie: Limit / Residue x 5 kernels x g family x above/below/forward/backward x order 1..8 x ratio 2..16 x default/user step x scalar/array z (real data); '
                           'sweep: the same plus complex z0, spiral paths, Residue p = 1..3 with default and explicit order, arrays mixing singular and regular points, .limit on arrays; '
                           'distinct = (kind, class/kernel, method, path, complex) combinations hit')
