"""C04 - Hessian is symmetric and correct; Hessdiag is its diagonal."""
import numpy as np

from . import pipe
from .C02 import vec_family
from .core import coq_eval_many, flist, flit, parse_count_fail, proof_stage

METHODS = ['central', 'central2', 'forward', 'backward', 'complex', 'multicomplex']


def search(ctx, N):
    import numdifftools as nd
    rng = ctx.rng(17)
    for k in range(N):
        dim = int(rng.integers(1, 7))
        quad = k % 2 == 0
        f, grad, hess, par = vec_family(rng, dim)
        if quad:
            Q = np.array(par['Q'])
            g = rng.normal(size=dim)

            def f(x, Q=Q, g=g):          # noqa
                return 0.5 * np.dot(x, np.dot(Q, x)) + np.dot(g, x) + 1.5
            hess = lambda x, Q=Q: Q       # noqa
        x = rng.uniform(-1, 1, size=dim) * (10.0 ** rng.uniform(-1, 0.7, size=dim) if k % 3 else 1.0)    # different magnitudes: different steps per coordinate
        variant = k % 5
        fcall = f
        if variant == 3:
            fcall = lambda t, f=f: np.array([f(t)])            # noqa  f returning a length-1 array
        H0 = hess(x)
        S = float(max(np.max(np.abs(H0)), 1.0))
        for method in METHODS:
            desc = dict(par, x=x.tolist(), method=method, quadratic=quad, f_returns_length1_array=(variant == 3))
            kw = {}
            if variant == 4:
                kw['step'] = nd.MinStepGenerator(base_step=1e-3, step_ratio=2.0, num_steps=9) if method not in ('complex', 'multicomplex') else nd.MinStepGenerator(base_step=1e-6, step_ratio=2.0, num_steps=5)
            try:
                H, info = nd.Hessian(fcall, method=method, full_output=True, **kw)(x)
            except Exception as ex:   # noqa
                ctx.violation('hessian-raises:%s%s' % (method, ':length1' if variant == 3 else ''), 'nd.Hessian(f, method=%r)(x) raises %r%s' % (
                    method, ex, ' for f returning a length-1 array' if variant == 3 else ''), desc)
                continue
            ctx.count(1, ('hessian', method, quad, variant))
            H = np.asarray(H)
            if H.shape != (dim, dim):
                ctx.violation('hessian-shape:%s' % method, 'Hessian has shape %r for %d variables' % (H.shape, dim), desc)
                continue
            if not np.array_equal(H, H.T):
                ctx.violation('hessian-asymmetric:%s' % method, 'Hessian(method=%r) is not exactly symmetric: max |H - H.T| = %.3g' % (method, float(np.max(np.abs(H - H.T)))), desc)
            # the same call without full_output and with x given as a list: same shape, same bits
            if k % 4 == 1:
                try:
                    H2 = np.asarray(nd.Hessian(lambda t, fc=fcall: fc(np.asarray(t)), method=method, **kw)(x.tolist()))
                    ctx.count(1, ('hessian-list-x', method))
                    if H2.shape != (dim, dim) or not np.array_equal(H2, H):
                        ctx.violation('hessian-container:%s' % method, 'Hessian(method=%r)(x as a list), without full_output, has shape %r / other numbers than the full_output call on the array (max difference %.3g)' % (
                            method, H2.shape, float(np.max(np.abs(H2 - H))) if H2.shape == H.shape else float('nan')), desc)
                except Exception as ex:   # noqa
                    ctx.violation('hessian-raises:%s:list' % method, 'nd.Hessian(f, method=%r)(x as a list) raises %r' % (method, ex), desc)
            tol = (1e-7 if quad else 1e-4) * S * (100 if method in ('forward', 'backward') else 1)
            if not np.all(np.abs(H - H0) <= tol + 1e3 * np.broadcast_to(np.asarray(info.error_estimate).reshape(H.shape), H.shape)):
                ctx.violation('hessian-value:%s' % method, 'Hessian(method=%r) differs from the analytic Hessian by %.3g (%s f)' % (method, float(np.max(np.abs(H - H0))), 'quadratic' if quad else 'exp/sin/quadratic'), desc)
            # Hessdiag agrees with the diagonal
            if method != 'central2' or True:
                for order in (2, 4, 6):
                    if method == 'multicomplex' and order > 2 and False:
                        continue
                    try:
                        hd, hinfo = nd.Hessdiag(fcall if variant != 3 else f, method=method, order=order, full_output=True)(x)
                    except Exception as ex:   # noqa
                        ctx.violation('hessdiag-raises:%s' % method, 'nd.Hessdiag(f, method=%r, order=%d)(x) raises %r' % (method, order, ex), desc)
                        continue
                    ctx.count(1, ('hessdiag', method, order))
                    tolh = (1e-6 if quad else 1e-3) * S * (100 if method in ('forward', 'backward') else 1)
                    if not np.all(np.abs(np.ravel(hd) - np.diag(H0)) <= tolh + 1e3 * np.ravel(hinfo.error_estimate)):
                        ctx.violation('hessdiag-value:%s:%d' % (method, order), 'Hessdiag(method=%r, order=%d) differs from the diagonal of the analytic Hessian by %.3g' % (
                            method, order, float(np.max(np.abs(np.ravel(hd) - np.diag(H0))))), desc)
    # complex-valued f with the real-step methods (a complex constant times a real quadratic): the Hessian is that constant times Q, also when the
    # user's step sequence leaves a single estimate per entry (num_steps 1, 2, 3, 5) -- the selection code has its own path for complex estimates
    for k in range(6):
        dim = 1 + k % 3
        Q = rng.normal(size=(dim, dim))
        Q = (Q + Q.T) / 2
        cst = complex(1.0, 0.5)

        def fc(x, Q=Q):          # noqa
            return cst * (0.5 * np.dot(x, np.dot(Q, x)) + np.sum(x))
        x = rng.uniform(-1, 1, size=dim) if k % 2 else np.zeros(dim)       # at x = 0 the VALUE f(x) = 0 is real although f is complex-valued
        for method in ('central', 'central2', 'forward', 'backward'):
            for ns in (None, 1, 2, 3, 5, 8):
                kw = {} if ns is None else {'step': nd.MinStepGenerator(base_step=1e-3, step_ratio=2.0, num_steps=ns)}
                desc = {'Q': Q.tolist(), 'x': x.tolist(), 'method': method, 'num_steps': ns, 'f': '(1+0.5j) * (x.Q.x/2 + sum(x))'}
                for cname in ('Hessian', 'Hessdiag'):
                    try:
                        H = np.asarray(getattr(nd, cname)(fc, method=method, **kw)(x))
                    except Exception as ex:   # noqa
                        ctx.violation('%s-raises:%s:complex-f' % (cname.lower(), method), 'nd.%s(f, method=%r%s)(x) raises %r for a complex-valued f (real-step method)' % (
                            cname, method, '' if ns is None else ', step=MinStepGenerator(base_step=1e-3, step_ratio=2, num_steps=%d)' % ns, ex), desc)
                        continue
                    ctx.count(1, (cname.lower() + '-complex-f', method, ns))
                    want = cst * (Q if cname == 'Hessian' else np.diag(Q))
                    tol = 1e-4 * (1 + np.max(np.abs(Q))) * (100 if method in ('forward', 'backward') else 1)
                    if H.shape != want.shape or not np.all(np.abs(H - want) <= tol) or (cname == 'Hessian' and not np.array_equal(H, H.T)):
                        ctx.violation('%s-value:%s:complex-f' % (cname.lower(), method), 'nd.%s(method=%r, num_steps=%r) of (1+0.5j) x quadratic differs from (1+0.5j) Q by %.3g (or is not symmetric)' % (
                            cname, method, ns, float(np.max(np.abs(H - want))) if H.shape == want.shape else float('nan')), desc)
    # scalar x (one variable)
    for method in METHODS:
        try:
            H = nd.Hessian(lambda t: t[0] ** 2 * 3.0, method=method)(1.0)
            ctx.count(1, ('hessian-scalar-x', method))
            if np.shape(H) != (1, 1) or abs(float(np.ravel(H)[0]) - 6.0) > 1e-6:
                ctx.violation('hessian-scalar-x:%s' % method, 'Hessian of 3 t^2 at the scalar point 1.0 is %r' % (H,), {'method': method})
        except Exception as ex:   # noqa
            ctx.violation('hessian-scalar-x:%s' % method, 'nd.Hessian(lambda t: 3*t[0]**2, method=%r)(1.0) raises %r' % (method, ex), {'method': method})


SHDR = """Require Import NDT.Arith.Ops NDT.Arith.OpsFloat NDT.Model.HessStencil.
From Coq Require Import PrimFloat List Bool String. Import ListNotations.
(* (stencil name, h, tables of recorded function values in evaluation order, f(x), upper triangle / vector produced by the source) *)
Definition okH (c : string * list float * list (list float) * float * list float) : bool :=
  let '(name, h, t, fx, out) := c in
  let tb := fun k => nth k t [] in
  let r := if String.eqb name "forward"%string then hess_forward OpsF h (tb 0%nat) (tb 1%nat) fx
           else if String.eqb name "backward"%string then hess_backward OpsF h (tb 0%nat) (tb 1%nat) fx
           else if String.eqb name "central2"%string then hess_central2 OpsF h (tb 0%nat) (tb 1%nat) (tb 2%nat) (tb 3%nat) fx
           else if String.eqb name "central-diag"%string then hess_central_diag OpsF h (tb 0%nat) (tb 1%nat) fx
           else if String.eqb name "central-off"%string then hess_central_off OpsF h (tb 0%nat) (tb 1%nat) (tb 2%nat) (tb 3%nat)
           else if String.eqb name "hd-central2"%string then map (fun i => hd_central2 OpsF (nz OpsF (tb 0%nat) i) (nz OpsF (tb 1%nat) i) (nz OpsF (tb 2%nat) i) (nz OpsF (tb 3%nat) i) fx) (seq 0%nat (List.length h))
           else if String.eqb name "hd-central"%string then map (fun i => hd_central_even OpsF (nz OpsF (tb 0%nat) i) (nz OpsF (tb 1%nat) i) fx) (seq 0%nat (List.length h))
           else if String.eqb name "hd-forward"%string then map (fun i => hd_forward OpsF (nz OpsF (tb 0%nat) i) fx) (seq 0%nat (List.length h))
           else if String.eqb name "hd-backward"%string then map (fun i => hd_backward OpsF (nz OpsF (tb 0%nat) i) fx) (seq 0%nat (List.length h))
           else [] in
  leqf r out.
"""


def integer_points(ctx):
    """The point given with an integer type (list / tuple of Python ints, int64 / int32 arrays, zero and negative coordinates) and an f
    that is integer valued there: the same Hessian as for the float array with the same coordinates."""
    import numdifftools as nd
    H0 = np.array([[2.0, 3.0, -1.0], [3.0, 0.0, 4.0], [-1.0, 4.0, 6.0]])

    def f(x):
        return x[0] * x[0] + 3 * x[0] * x[1] - x[0] * x[2] + 4 * x[1] * x[2] + 3 * x[2] * x[2]
    for xi in ([1, -2, 0], [3, 1, -4]):
        variants = [('list of Python ints', list(xi)), ('tuple of Python ints', tuple(xi)), ('int64 array', np.array(xi, dtype=np.int64)), ('int32 array', np.array(xi, dtype=np.int32))]
        for method in METHODS:
            for cname in ('Hessian', 'Hessdiag'):
                if cname == 'Hessdiag' and method == 'central2':
                    continue
                want = H0 if cname == 'Hessian' else np.diag(H0)
                for vname, xv in variants:
                    desc = {'class': cname, 'method': method, 'x': list(xi), 'x_given_as': vname, 'f': 'x0^2 + 3 x0 x1 - x0 x2 + 4 x1 x2 + 3 x2^2 (integer valued at integer points)'}
                    try:
                        got = np.asarray(getattr(nd, cname)(f, method=method)(xv))
                    except Exception as ex:   # noqa
                        ctx.violation('integer-point-raises:%s:%s' % (cname, method), 'nd.%s(f, method=%r)(x given as %s) raises %r' % (cname, method, vname, ex), desc)
                        continue
                    ctx.count(1, ('integer-point', cname, method))
                    tol = 1e-6 * (100 if method in ('forward', 'backward') else 1)
                    if got.shape != want.shape or not np.all(np.abs(got - want) <= tol):
                        ctx.violation('integer-point:%s:%s' % (cname, method), 'nd.%s(f, method=%r)(x = %r given as %s) differs from the exact Hessian of the quadratic by %.3g' % (
                            cname, method, list(xi), vname, float(np.max(np.abs(got - want))) if got.shape == want.shape else float('nan')), dict(desc, got=np.real(got).tolist()))


def stencil_cases(ctx, N):
    """bit-exact tie of the combination formulas of the real-step Hessian / Hessdiag stencils (Model/HessStencil.v):
    the source's static methods are called with a recording f; the recorded values (in evaluation order) are fed to the model."""
    from numdifftools import finite_difference as fdm
    rng = ctx.rng(23)
    cases, descs = [], []
    HD, HS = fdm.HessdiagDifferenceFunctions, fdm.HessianDifferenceFunctions
    for k in range(N):
        n = int(rng.integers(1, 6))
        f0_, _, _, par = vec_family(rng, n)
        x = rng.uniform(-1, 1, size=n) * 10.0 ** rng.uniform(-1, 1, size=n)
        h = 10.0 ** rng.uniform(-4, -0.5, size=n) * rng.uniform(0.5, 2, size=n)
        vals = []

        def f(t):
            v = float(f0_(np.asarray(t, dtype=float)))
            vals.append(v)
            return v
        fx = float(f0_(x))
        up = [(i, j) for i in range(n) for j in range(i, n)]
        sup = [(i, j) for i in range(n) for j in range(i + 1, n)]
        for name in ('forward', 'backward', 'central2', 'central', 'hd-central2', 'hd-central', 'hd-forward', 'hd-backward'):
            del vals[:]
            desc = dict(par, x=x.tolist(), h=h.tolist(), stencil=name)
            try:
                if name == 'forward' or name == 'backward':
                    H = getattr(HS, '_' + name)(f, fx, x, h)
                    tables = [vals[:n], vals[n:]]
                    out = [H[i, j] for i, j in up]
                    sym = np.array_equal(H, H.T)
                    hh = h
                elif name == 'central2':
                    H = HS._central2(f, fx, x, h)
                    first, rest = vals[:2 * n], vals[2 * n:]
                    tables = [first[0::2], first[1::2], rest[0::2], rest[1::2]]
                    out = [H[i, j] for i, j in up]
                    sym = np.array_equal(H, H.T)
                elif name == 'central':
                    H = HS._central_even(f, fx, x, h)
                    fp2, fm2, pp, pm, mp_, mm = [], [], [], [], [], []
                    it = iter(vals)
                    for i in range(n):
                        fp2.append(next(it)); fm2.append(next(it))      # noqa
                        for j in range(i + 1, n):
                            pp.append(next(it)); pm.append(next(it)); mp_.append(next(it)); mm.append(next(it))   # noqa
                    sym = np.array_equal(H, H.T)
                    cases.append('("central-diag"%%string, %s, [%s; %s], %s, %s)' % (flist(h), flist(fp2), flist(fm2), flit(fx), flist([H[i, i] for i in range(n)])))
                    descs.append(dict(desc, part='diagonal'))
                    cases.append('("central-off"%%string, %s, [%s; %s; %s; %s], %s, %s)' % (flist(h), flist(pp), flist(pm), flist(mp_), flist(mm), flit(fx), flist([H[i, j] for i, j in sup])))
                    descs.append(dict(desc, part='off-diagonal'))
                    if not sym:
                        ctx.brk('correspondence', 'HessianDifferenceFunctions._central_even does not copy entry (i, j) to (j, i)', desc)
                    ctx.count(1, ('stencil-tie', name, n))
                    continue
                else:
                    v = getattr(HD, {'hd-central2': '_central2', 'hd-central': '_central_even', 'hd-forward': '_forward', 'hd-backward': '_backward'}[name])(f, fx, x, h)
                    per = {'hd-central2': 4, 'hd-central': 2, 'hd-forward': 1, 'hd-backward': 1}[name]
                    tables = [vals[c::per] for c in range(per)]
                    out = list(np.ravel(v))
                    sym = True
            except Exception as ex:   # noqa
                ctx.brk('correspondence', 'the stencil %s raised %r' % (name, ex), desc)
                continue
            if not sym:
                ctx.brk('correspondence', 'the Hessian stencil %s does not copy entry (i, j) to (j, i)' % name, desc)
            cases.append('("%s"%%string, %s, [%s], %s, %s)' % (name, flist(h), '; '.join(flist(t) for t in tables), flit(fx), flist(out)))
            descs.append(desc)
            ctx.count(1, ('stencil-tie', name, n))
    return cases, descs


def run(ctx):
    import numdifftools as nd
    proof_stage(ctx, ['Props/C04.v', 'Props/C04b.v'])
    scases, sdescs = stencil_cases(ctx, ctx.n(40, 400))
    sitems = [('C04_S_%d' % s, SHDR + 'Definition cases := [\n' + ';\n'.join(scases[s:s + 150]) + '].\nEval vm_compute in (List.length cases, failing okH cases).\n') for s in range(0, len(scases), 150)]
    sbad = 0
    for name, (rc, out) in sorted(coq_eval_many(sitems).items()):
        s = int(name.split('_')[2])
        pr = parse_count_fail(out)
        if rc != 0 or pr is None:
            ctx.brk('correspondence', 'case file %s could not be evaluated' % name, out[-1500:])
            continue
        for i in pr[1]:
            sbad += 1
            if sbad <= 5:
                ctx.brk('correspondence', 'a Hessian / Hessdiag difference quotient differs bit-for-bit from Model/HessStencil.v (order of operations, divisor h[j]*h[i], factors 2 and 4) fed the recorded function values', sdescs[s + i])
    ctx.cov['stencil_cases'] = len(scases)
    ctx.cov['stencil_disagreements'] = sbad
    rng = ctx.rng(1)
    cases, descs = [], []
    skipped = {}
    for k in range(ctx.n(90, 900)):
        dim = int(rng.integers(1, 6))
        f, _, _, par = vec_family(rng, dim)
        x = rng.uniform(-1, 1, size=dim)
        method = METHODS[k % len(METHODS)]
        cls = nd.Hessian if k % 3 else nd.Hessdiag
        kw = {} if cls is nd.Hessian else {'order': int(rng.choice([2, 4, 6]))}
        d = cls(f, method=method, full_output=True, **kw)
        desc = dict(par, x=x.tolist(), method=method, cls=cls.__name__, kw=kw)
        try:
            val, info, rec = pipe.capture_call(d, x)
        except Exception as ex:   # noqa
            ctx.brk('correspondence', 'nd.%s raised %r' % (cls.__name__, ex), desc)
            continue
        if cls is nd.Hessian:
            der = rec.get('ex_results')
            if der is not None and not np.iscomplexobj(der):
                n = dim
                M = der.reshape(der.shape[0], n, n)
                if not np.array_equal(M, np.transpose(M, (0, 2, 1)), equal_nan=True):
                    ctx.brk('correspondence', 'the Hessian stencil output handed to _extrapolate is not symmetric (entry (i,j) is not copied to (j,i))', desc)
        cs, why = pipe.extrapolate_cases(val, info, rec)
        if why:
            skipped[why] = skipped.get(why, 0) + 1
            continue
        for c, cc in enumerate(cs):
            cases.append(cc)
            descs.append(dict(desc, entry=c))
        ctx.count(1, ('tie', cls.__name__, method, dim))
        if k < 2:
            ctx.sample({'cls': cls.__name__, 'method': method, 'x': x.tolist(), 'value': np.asarray(val).tolist()})
    items = [('C04_%d' % s, pipe.HDR + 'Definition cases := [\n' + ';\n'.join(cases[s:s + 200]) + '].\nEval vm_compute in (List.length cases, failing okE cases).\n')
             for s in range(0, len(cases), 200)]
    res = coq_eval_many(items)
    nbad = 0
    for name, (rc, out) in sorted(res.items()):
        s = int(name.split('_')[1])
        pr = parse_count_fail(out)
        if rc != 0 or pr is None:
            ctx.brk('correspondence', 'case file %s could not be evaluated' % name, out[-1500:])
            continue
        for i in pr[1]:
            nbad += 1
            if nbad <= 5:
                ctx.brk('correspondence', 'an entry of the Hessian/Hessdiag result differs bit-for-bit from the model of _extrapolate (Richardson, dea3, selection) fed that column', descs[s + i])
    ctx.cov['traces_validated_against_impl'] = len(cases) + len(scases)
    ctx.cov['correspondence_disagreements'] = nbad + sbad
    ctx.cov['skipped'] = skipped
    search(ctx, ctx.n(10, 120))
    integer_points(ctx)
    ctx.assumptions += ['proved: exact symmetry for any arithmetic given that the stencil copies (i,j) to (j,i) (observed on every recorded stencil output), exactness of every real-step Hessian/Hessdiag difference quotient on quadratics in any dimension; NOT proved: the complex / multicomplex quotients (they need the complexification of f) and the accuracy envelope for non-quadratic f -- both explored by the sweep against analytic Hessians',
                        'the evaluation points of the stencils are the subject of C05; their combination formulas (real-step Hessian forward/backward/central/central2 and Hessdiag) are tied bit-for-bit to Model/HessStencil.v, about which the quadratic-exactness theorems are stated']
    return ctx.finish(level='proof', checker_cmd='make -C coq Props/C04.vo Props/C04b.vo + coqc build/cases/C04_*.v',
                      rule='Hessian (6 methods) and Hessdiag (orders 2,4,6) on exp(a.x)+sin(b.x)+x\'Qx/2 and pure quadratics, n = 1..6, default and user steps, f returning a scalar or a length-1 array, scalar x; every result entry tied to the model of _extrapolate; '
                           'distinct = (kind, class/method, dimension or order) combinations hit')
