"""C03 - Jacobian, Gradient, directionaldiff: right entries and shapes for any R^n -> R^m."""
import numpy as np

from . import pipe
from .core import coq_eval_many, parse_count_fail, proof_stage, zlit

HDR = '''Require Import NDT.Model.JacShape.
From Coq Require Import ZArith List Bool. Import ListNotations.
Fixpoint zeq (a b : list Z) : bool := match a, b with [], [] => true | x :: a', y :: b' => Z.eqb x y && zeq a' b' | _, _ => false end.
Definition ok2 (c : nat * list (list Z) * list Z) : bool := let '(m, r, row) := c in zeq (vstack_row2 0%Z m r) row.
Definition ok3 (c : nat * list (list (list Z)) * list Z) : bool := let '(m, r, row) := c in zeq (vstack_row3 m r) row.
'''
METHODS = ['central', 'forward', 'backward', 'complex', 'multicomplex']


def zl(a):
    a = np.asarray(a)
    if a.ndim == 1:
        return '[' + '; '.join(zlit(int(v)) for v in a) + ']'
    return '[' + '; '.join(zl(s) for s in a) + ']'


def search(ctx, N):
    import numdifftools as nd
    rng = ctx.rng(23)
    for k in range(N):
        n, m, kk = int(rng.integers(1, 9)), int(rng.integers(1, 7)), int(rng.integers(1, 5))
        method = METHODS[k % len(METHODS)]
        order = int(rng.choice([2, 4]))
        x = rng.uniform(-1, 1, size=n) * (10.0 ** rng.uniform(-1, 1.2, size=n) if (k // 4) % 2 else 1.0)   # different magnitudes: different steps per coordinate
        A = rng.normal(size=(m, n))
        b = rng.normal(size=m)
        kind = k % 4
        desc = {'n': n, 'm': m, 'method': method, 'order': order, 'x': x.tolist(), 'kind': ['affine vector', 'nonlinear vector', 'matrix valued', 'gradient/dirdiff'][kind]}
        try:
            if kind == 0:
                J = nd.Jacobian(lambda t: np.dot(A, t) + b, method=method, order=order)(x)
                ctx.count(1, ('affine', method, m == 1, n == 1))
                if np.shape(J) != (m, n):
                    ctx.violation('jacobian-shape:m=%s' % ('1' if m == 1 else '>1'), 'Jacobian of an affine map R^%d -> R^%d (length-%d vector) has shape %r' % (n, m, m, np.shape(J)), dict(desc, A=A.tolist()))
                elif not np.allclose(J, A, rtol=1e-9, atol=1e-9 * (1 + np.max(np.abs(A)))):
                    ctx.violation('jacobian-affine:%s' % method, 'Jacobian of the affine map A x + b differs from A by %.3g (non-symmetric A, m=%d, n=%d)' % (float(np.max(np.abs(J - A))), m, n), dict(desc, A=A.tolist()))
                # the same map returning its components as a list / tuple, x given as a list: same shape, same numbers
                if np.shape(J) == (m, n):
                    # (f returning a plain list cannot be differenced by the real-step stencils -- list - list -- and is outside the property)
                    for vname, fv, xv in (('x is given as a list', lambda t: np.dot(A, np.asarray(t)) + b, x.tolist()),
                                          ('x is given as a tuple', lambda t: np.dot(A, np.asarray(t)) + b, tuple(float(v) for v in x))):
                        try:
                            Jv = nd.Jacobian(fv, method=method, order=order)(xv)
                        except Exception as ex:   # noqa
                            ctx.violation('raises:container', 'nd.Jacobian raises %r when %s (m=%d, n=%d, method=%r)' % (ex, vname, m, n, method), dict(desc, A=A.tolist()))
                            continue
                        ctx.count(1, ('affine-container', method, m == 1))
                        if np.shape(Jv) != (m, n) or not np.allclose(Jv, J, rtol=1e-12, atol=1e-12 * (1 + np.max(np.abs(A)))):
                            ctx.violation('jacobian-container:m=%s' % ('1' if m == 1 else '>1'), 'Jacobian of an affine map R^%d -> R^%d: when %s the result has shape %r (expected %r) / other numbers' % (
                                n, m, vname, np.shape(Jv), (m, n)), dict(desc, A=A.tolist(), variant=vname))
                # a step ratio given by the user (other than the default 2): the rule, the steps and the Richardson stage must all use it
                if np.shape(J) == (m, n) and method in ('central', 'forward', 'backward'):
                    for ratio in (1.6, 3.0):
                        for cls_, want_, fv_ in ((nd.Jacobian, A, lambda t: np.dot(A, t) + b), (nd.Gradient, A[0], lambda t: np.dot(A[0], t) + b[0])):
                            Jr = cls_(fv_, method=method, order=order, step_ratio=ratio)(x)
                            ctx.count(1, ('affine-user-ratio', method, order))
                            if np.size(Jr) != np.size(want_) or not np.allclose(np.ravel(Jr), np.ravel(want_), rtol=1e-8, atol=1e-8 * (1 + np.max(np.abs(A)))):
                                ctx.violation('jacobian-affine-user-ratio:%s' % method, 'nd.%s(affine map, method=%r, order=%d, step_ratio=%r) differs from the matrix of the map by %.3g' % (
                                    cls_.__name__, method, order, ratio, float(np.max(np.abs(np.ravel(Jr) - np.ravel(want_)))) if np.size(Jr) == np.size(want_) else float('nan')), dict(desc, A=A.tolist(), step_ratio=ratio))
            elif kind == 1:
                c = rng.uniform(0.5, 1.5, size=m)

                def f(t):
                    return np.dot(A, t) + c * np.sin(t[0]) + np.arange(m) * np.exp(0.3 * t[-1])
                J = nd.Jacobian(f, method=method, order=order)(x)
                exact = A.copy()
                exact[:, 0] += c * np.cos(x[0])
                exact[:, -1] += np.arange(m) * 0.3 * np.exp(0.3 * x[-1])
                ctx.count(1, ('nonlinear', method, m == 1))
                if np.shape(J) != (m, n):
                    ctx.violation('jacobian-shape:m=%s' % ('1' if m == 1 else '>1'), 'Jacobian of a map R^%d -> R^%d has shape %r' % (n, m, np.shape(J)), desc)
                elif not np.allclose(J, exact, rtol=1e-6, atol=1e-6 * (1 + np.max(np.abs(exact)))):
                    ctx.violation('jacobian-value:%s' % method, 'Jacobian differs from the analytic Jacobian by %.3g' % float(np.max(np.abs(J - exact))), desc)
                Jf, jinfo = nd.Jacobian(f, method=method, order=order, full_output=True)(x)
                ctx.count(1, ('jacobian-full-output', method, m == 1))
                if np.shape(Jf) != (m, n) or not np.array_equal(np.asarray(Jf), np.asarray(J)):
                    ctx.violation('jacobian-full-output-differs', 'Jacobian(..., full_output=True) returns shape %r / other numbers than Jacobian(...) of shape %r' % (np.shape(Jf), np.shape(J)), desc)
                elif np.size(jinfo.error_estimate) != m * n or np.size(jinfo.final_step) != m * n or np.size(jinfo.index) != m * n:
                    ctx.violation('jacobian-record-shape', 'the full_output record of Jacobian does not have one error_estimate / final_step / index per entry: shapes %r %r %r' % (
                        np.shape(jinfo.error_estimate), np.shape(jinfo.final_step), np.shape(jinfo.index)), desc)
            elif kind == 2:
                Bm = rng.normal(size=(m, kk, n))

                def f(t):
                    return np.tensordot(Bm, t, axes=([2], [0])) + np.sin(t[0])          # shape (m, k)
                J = nd.Jacobian(f, method=method, order=order)(x)
                exact = np.transpose(Bm, (0, 2, 1)).copy()                               # [i, j, l] = d f[i,l] / d x_j
                exact[:, 0, :] += np.cos(x[0])
                ctx.count(1, ('matrix', method, m, kk))
                if np.shape(J) != (m, n, kk):
                    ctx.violation('jacobian-shape:matrix', 'Jacobian of a matrix-valued f of shape (%d, %d) of %d variables has shape %r, not (%d, %d, %d)' % (m, kk, n, np.shape(J), m, n, kk), desc)
                elif not np.allclose(J, exact, rtol=1e-6, atol=1e-6 * (1 + np.max(np.abs(exact)))):
                    ctx.violation('jacobian-matrix-value:%s' % method, 'entry [i, j, l] is not d f[i, l] / d x_j (max error %.3g)' % float(np.max(np.abs(J - exact))), desc)
            else:
                g = rng.normal(size=n)
                Q = rng.normal(size=(n, n))
                Q = (Q + Q.T) / 2

                def f(t):
                    t = np.ravel(t)
                    return np.dot(g, t) + 0.5 * np.dot(t, np.dot(Q, t))
                shp = [(n,), (1, n), (n, 1)][k % 3] if n > 1 else [(1,), (1, 1), ()][k % 3]
                G = nd.Gradient(f, method=method, order=order)(x.reshape(shp) if shp else float(x[0]))
                want = () if n == 1 else (n,)
                exact = g + np.dot(Q, x)
                ctx.count(1, ('gradient', method, n == 1))
                if np.shape(G) != want:
                    ctx.violation('gradient-shape', 'Gradient for x of shape %r has shape %r, expected %r' % (shp, np.shape(G), want), desc)
                elif not np.allclose(G, exact.reshape(want), rtol=1e-8, atol=1e-8):
                    ctx.violation('gradient-value:%s' % method, 'Gradient of a quadratic differs from g + Q x by %.3g' % float(np.max(np.abs(G - exact.reshape(want)))), desc)
                # the same call with full_output=True: same shape, same bits, record entries of the same shape
                Gf, ginfo = nd.Gradient(f, method=method, order=order, full_output=True)(x.reshape(shp) if shp else float(x[0]))
                ctx.count(1, ('gradient-full-output', method, n == 1))
                if np.shape(Gf) != want:
                    ctx.violation('gradient-shape:full_output', 'Gradient(..., full_output=True) for x of shape %r has shape %r, expected %r (as without full_output)' % (shp, np.shape(Gf), want), desc)
                elif not np.array_equal(np.asarray(Gf), np.asarray(G)):
                    ctx.violation('gradient-full-output-differs', 'Gradient(..., full_output=True) returns other numbers than Gradient(...)', desc)
                elif np.size(ginfo.error_estimate) != n or np.size(ginfo.final_step) != n or np.size(ginfo.index) != n:
                    ctx.violation('gradient-record-shape', 'the full_output record of Gradient does not have one error_estimate / final_step / index per variable', desc)
                v = rng.normal(size=n) * float(rng.choice([1.0, 5.0, 0.01]))
                dd, info = nd.directionaldiff(f, x, v, method=method if method != 'multicomplex' else 'central', full_output=True)
                ref = float(np.dot(exact, v) / np.linalg.norm(v))
                if not abs(float(dd) - ref) <= 1e-8 * (1 + abs(ref)) + 100 * float(np.ravel(info.error_estimate)[0]):
                    ctx.violation('dirdiff', 'directionaldiff(f, x, v) = %r but Gradient(f)(x) . v/|v| = %r' % (float(dd), ref), dict(desc, v=v.tolist()))
                # the direction only has to have the same SIZE as x: a column or a flat vector against a flat / matrix-shaped x
                if n >= 2:
                    for sx, sv in (((n, 1), (n,)), ((n,), (n, 1)), ((1, n), (n,))) + ((((2, n // 2), (n,)),) if n % 2 == 0 and n >= 4 else ()):
                        try:
                            dd3 = nd.directionaldiff(lambda t, f=f: f(np.ravel(t)), x.reshape(sx), v.reshape(sv), method=method if method != 'multicomplex' else 'central')
                        except Exception as ex:   # noqa
                            ctx.violation('dirdiff-raises:same-size', 'directionaldiff(f, x of shape %r, v of shape %r) raises %r although v has the same size as x' % (sx, sv, ex), dict(desc, v=v.tolist()))
                            continue
                        ctx.count(1, ('dirdiff-same-size', method))
                        if not abs(float(dd3) - ref) <= 1e-7 * (1 + abs(ref)) + 100 * float(np.ravel(info.error_estimate)[0]):
                            ctx.violation('dirdiff-same-size', 'directionaldiff(f, x of shape %r, v of shape %r) = %r but Gradient(f)(x) . v/|v| = %r' % (sx, sv, float(dd3), ref), dict(desc, v=v.tolist()))
                # matrix-shaped x0 and direction (same shapes, at least 2 x 2): the direction is normalised by its Euclidean length
                if n >= 4 and n % 2 == 0:
                    shp = (2, n // 2)
                    fm = lambda t, f=f: f(np.ravel(t))     # noqa
                    dd2 = nd.directionaldiff(fm, x.reshape(shp), v.reshape(shp), method=method if method != 'multicomplex' else 'central')
                    ctx.count(1, ('dirdiff-matrix', method))
                    if not abs(float(dd2) - ref) <= 1e-7 * (1 + abs(ref)) + 100 * float(np.ravel(info.error_estimate)[0]):
                        ctx.violation('dirdiff-matrix-shaped', 'directionaldiff(f, x, v) with x and v of shape %r = %r but Gradient(f)(x) . v/|v| = %r (|v| the Euclidean length of all entries)' % (shp, float(dd2), ref),
                                      dict(desc, v=v.tolist(), shape=list(shp)))
        except Exception as ex:   # noqa
            ctx.violation('raises:%s:m=%s' % (desc['kind'], '1' if m == 1 else '>1'), 'nd.Jacobian/Gradient raises %r for %s, n=%d, m=%d, method=%r' % (ex, desc['kind'], n, m, method), desc)


def run(ctx):
    import numdifftools as nd
    from numdifftools.finite_difference import LogJacobianRule
    proof_stage(ctx, ['Props/C03.v', 'Props/C03b.v'])
    rng = ctx.rng(1)
    # (a) LogJacobianRule._vstack on integer-labelled arrays vs Model/JacShape.v, all (n, m) and (n, m, k) in range
    c2, c3 = [], []
    rule = LogJacobianRule()
    for n in range(1, 9):
        for m in range(1, 7):
            r = np.arange(n * m).reshape(n, m) + 1000 * int(rng.integers(1, 9))
            try:
                hlab = np.arange(n * m).reshape(n, m) * 3 + 5
                f_del, h, shape = rule._vstack([r], [hlab])
            except Exception as ex:   # noqa
                ctx.brk('correspondence', 'LogJacobianRule._vstack raised %r for a stencil result of shape (%d, %d)' % (ex, n, m), {'n': n, 'm': m})
                continue
            if tuple(shape) != (m, n) and not (n == 1 and m == 1):
                ctx.brk('correspondence', '_vstack reports shape %r for stencil results of shape (%d, %d); expected (%d, %d)' % (shape, n, m, m, n), {'n': n, 'm': m})
            if n * m > 1:
                c2.append('(%d%%nat, %s, %s)' % (m, zl(r), zl(np.ravel(f_del[0]))))
                c2.append('(%d%%nat, %s, %s)' % (m, zl(hlab), zl(np.ravel(h[0]))))        # the steps follow the same layout
            ctx.count(1, ('vstack2', n, m))
            for k in range(1, 5):
                r3 = np.arange(n * m * k).reshape(n, m, k) + 7
                hlab3 = np.arange(n * m * k).reshape(n, m, k) * 2 + 11
                f_del, h, shape = rule._vstack([r3], [hlab3])
                if tuple(shape) != (m, n, k) and n * m * k > 1:
                    ctx.brk('correspondence', '_vstack reports shape %r for stencil results of shape (%d, %d, %d)' % (shape, n, m, k), {'n': n, 'm': m, 'k': k})
                if n * m * k > 1:
                    c3.append('(%d%%nat, %s, %s)' % (m, zl(r3), zl(np.ravel(f_del[0]))))
                    c3.append('(%d%%nat, %s, %s)' % (m, zl(hlab3), zl(np.ravel(h[0]))))
                ctx.count(1, ('vstack3', n, m, k))
    items = []
    for s in range(0, len(c2), 100):
        items.append(('C03_A%d' % s, HDR + 'Definition cases := [\n' + ';\n'.join(c2[s:s + 100]) + '].\nFixpoint failing (i : nat) (l : list _) : list nat := match l with [] => [] | c :: t => if ok2 c then failing (S i) t else i :: failing (S i) t end.\nEval vm_compute in (List.length cases, failing 0%nat cases).\n'))
    for s in range(0, len(c3), 60):
        items.append(('C03_B%d' % s, HDR + 'Definition cases := [\n' + ';\n'.join(c3[s:s + 60]) + '].\nFixpoint failing (i : nat) (l : list _) : list nat := match l with [] => [] | c :: t => if ok3 c then failing (S i) t else i :: failing (S i) t end.\nEval vm_compute in (List.length cases, failing 0%nat cases).\n'))
    # (b) every entry of Jacobian / Gradient results tied to the model of _extrapolate
    ecases, edesc = [], []
    for k in range(ctx.n(60, 600)):
        n, m = int(rng.integers(1, 6)), int(rng.integers(2, 5))
        A = rng.normal(size=(m, n))
        method = METHODS[k % len(METHODS)]
        cls = nd.Jacobian if k % 2 else nd.Gradient
        f = (lambda t, A=A: np.dot(A, t) + np.sin(t[0])) if cls is nd.Jacobian else (lambda t, A=A: np.sum(np.dot(A, t) ** 2))
        x = rng.uniform(-1, 1, size=n)
        ukw = {'step_ratio': float(rng.choice([1.6, 3.0, 4.0]))} if k % 3 == 0 else {}
        d = cls(f, method=method, order=int(rng.choice([2, 4])), full_output=True, **ukw)
        try:
            val, info, rec = pipe.capture_call(d, x)
        except Exception as ex:   # noqa
            ctx.brk('correspondence', 'nd.%s raised %r' % (cls.__name__, ex), {'n': n, 'm': m, 'method': method})
            continue
        bad = pipe.context_certificate(rec)
        if bad:
            ctx.brk('oracle-certificate', 'nd.%s(f, method=%r, %r)(x): %s' % (cls.__name__, method, ukw, bad), {'n': n, 'm': m, 'method': method, 'options': ukw, 'x': x.tolist()})
        cs, why = pipe.extrapolate_cases(val, info, rec)
        if not why:
            ecases += cs
            edesc += [{'cls': cls.__name__, 'n': n, 'm': m, 'method': method, 'x': x.tolist(), 'entry': c} for c in range(len(cs))]
        ctx.count(1, ('tie', cls.__name__, method))
    for s in range(0, len(ecases), 200):
        items.append(('C03_E%d' % s, pipe.HDR + 'Definition cases := [\n' + ';\n'.join(ecases[s:s + 200]) + '].\nEval vm_compute in (List.length cases, failing okE cases).\n'))
    res = coq_eval_many(items)
    for name, (rc, out) in sorted(res.items()):
        pr = parse_count_fail(out)
        if rc != 0 or pr is None:
            ctx.brk('correspondence', 'case file %s could not be evaluated' % name, out[-1500:])
        elif pr[1]:
            kind = name.split('_')[1][0]
            ctx.brk('correspondence', {'A': 'LogJacobianRule._vstack lays a (n, m) stencil result out differently from Model/JacShape.v', 'B': 'LogJacobianRule._vstack lays a (n, m, k) stencil result out differently from Model/JacShape.v',
                                       'E': 'an entry of a Jacobian/Gradient result differs bit-for-bit from the model of _extrapolate'}[kind], {'file': name, 'cases': pr[1][:10]})
    ctx.cov['traces_validated_against_impl'] = len(c2) + len(c3) + len(ecases)
    ctx.sample({'vstack case': 'n=2, m=3: r = [[0,1,2],[3,4,5]] -> row [0,3,1,4,2,5], shape (3, 2)'})
    search(ctx, ctx.n(80, 800))
    ctx.assumptions += ['the layout theorems are index bijections on the model of _vstack (tied exhaustively on integer-labelled arrays for n <= 8, m <= 6, k <= 4); entries are tied bit-for-bit to the model of the extrapolation; "exact to rounding for affine f" and the accuracy envelope are explored by the sweep (affine maps with random non-symmetric A, nonlinear and matrix-valued maps with analytic Jacobians)']
    return ctx.finish(level='proof', checker_cmd='make -C coq Props/C03.vo Props/C03b.vo + coqc build/cases/C03_*.v',
                      rule='_vstack: all n 1..8 x m 1..6 (x k 1..4) on labelled arrays (exhaustive in range); Jacobian/Gradient entries tied to the extrapolation model; sweep: affine / nonlinear / matrix-valued maps, gradients of quadratics for 3 shapes of x, directionaldiff, 5 methods, orders 2 and 4; '
                           'distinct = (kind, method or sizes) combinations hit')
