"""C12 - Bicomplex numbers implement the holomorphic extension of every function."""
import sys

import numpy as np

from .core import coq_eval_many, flit, parse_count_fail, proof_stage

HDR = '''Require Import NDT.Arith.OpsFloat NDT.Model.Bicomplex NDT.Model.BicomplexFloat.
From Coq Require Import PrimFloat List Bool. Import ListNotations.
'''
OPS = {'add': 0, 'sub': 1, 'mul': 2, 'neg': 3, 'conj': 4, 'rsub': 5, 'sin': 6, 'cos': 7, 'sinh': 8, 'cosh': 9, 'exp': 10, 'expm1': 11}
FID = {'exp': 0, 'expm1': 1, 'sin': 2, 'cos': 3, 'sinh': 4, 'cosh': 5}


def clit(z):
    z = complex(z)
    return '(%s, %s)' % (flit(z.real), flit(z.imag))


def blit2(b):
    return '(%s, %s)' % (clit(b.z1), clit(b.z2))


class NpProxy:
    """Stands in for the name `np` inside numdifftools.multicomplex: records the complex elementary calls."""
    def __init__(self, real_np, log):
        self._np, self._log = real_np, log

    def __getattr__(self, name):
        attr = getattr(self._np, name)
        if name in FID:
            def rec(z, _f=attr, _n=name):
                v = _f(z)
                if np.ndim(z) == 0:
                    self._log.append((_n, complex(z), complex(v)))
                return v
            return rec
        return attr


def mp():
    p = '/opt/veriftools/pyvenv/lib/python3.11/site-packages'
    if p not in sys.path:
        sys.path.append(p)
    import mpmath
    mpmath.mp.dps = 50
    return mpmath


def reference(mpm, fname, comps, other=None):
    """Idempotent formula at 50 digits: F = e1 f(z1 - i z2) + e2 f(z1 + i z2)."""
    z1 = mpm.mpc(comps[0], comps[1])
    z2 = mpm.mpc(comps[2], comps[3])
    u, v = z1 - 1j * z2, z1 + 1j * z2
    if other is not None and not isinstance(other, (int, float)):
        o1, o2 = mpm.mpc(other[0], other[1]), mpm.mpc(other[2], other[3])
        ou, ov = o1 - 1j * o2, o1 + 1j * o2
    F = {
        'exp': mpm.exp, 'log': mpm.log, 'sqrt': mpm.sqrt, 'sin': mpm.sin, 'cos': mpm.cos, 'tan': mpm.tan,
        'sinh': mpm.sinh, 'cosh': mpm.cosh, 'tanh': mpm.tanh, 'cot': mpm.cot, 'sec': mpm.sec, 'csc': mpm.csc,
        'coth': mpm.coth, 'sech': mpm.sech, 'csch': mpm.csch, 'arcsin': mpm.asin, 'arccos': mpm.acos, 'arctan': mpm.atan,
        'arcsinh': mpm.asinh, 'arccosh': mpm.acosh, 'arctanh': mpm.atanh, 'expm1': lambda t: mpm.exp(t) - 1, 'log1p': lambda t: mpm.log(1 + t),
        'log2': lambda t: mpm.log(t) / mpm.log(2), 'log10': lambda t: mpm.log(t) / mpm.log(10), 'exp2': lambda t: mpm.exp(t * mpm.log(2)),
    }
    if fname in F:
        fu, fv = F[fname](u), F[fname](v)
    elif fname == 'add':
        fu, fv = u + ou, v + ov
    elif fname == 'sub':
        fu, fv = u - ou, v - ov
    elif fname == 'mul':
        fu, fv = u * ou, v * ov
    elif fname == 'div':
        fu, fv = u / ou, v / ov
    elif fname == 'rdiv':
        fu, fv = other / u, other / v
    elif fname == 'pow':
        fu, fv = (u ** other, v ** other) if isinstance(other, (int, float)) else (mpm.exp(ou * mpm.log(u)), mpm.exp(ov * mpm.log(v)))
    elif fname == 'rpow':
        fu, fv = mpm.mpf(other) ** u, mpm.mpf(other) ** v
    else:
        raise KeyError(fname)
    r1 = (fu + fv) / 2
    r2 = 1j * (fu - fv) / 2
    return [r1.real, r1.imag, r2.real, r2.imag]


DOMAIN = {'log': (0.1, 5), 'sqrt': (0.1, 5), 'log2': (0.1, 5), 'log10': (0.1, 5), 'arcsin': (-0.9, 0.9), 'arccos': (-0.9, 0.9),
          'arctanh': (-0.9, 0.9), 'arccosh': (1.1, 5), 'log1p': (-0.9, 5), 'tan': (-1.2, 1.2), 'sec': (-1.2, 1.2), 'cot': (0.2, 1.4),
          'csc': (0.2, 1.4), 'coth': (0.2, 2), 'csch': (0.2, 2)}
FUNCS = ['exp', 'log', 'sqrt', 'sin', 'cos', 'tan', 'sinh', 'cosh', 'tanh', 'cot', 'sec', 'csc', 'coth', 'sech', 'csch', 'arcsin', 'arccos',
         'arctan', 'arcsinh', 'arccosh', 'arctanh', 'expm1', 'log1p', 'log2', 'log10', 'exp2']


def rand_bc(rng, lo, hi, Bicomplex, pattern=None):
    """pattern: which of the three non-real components are perturbed (None: all); zeros are exact zeros,
    e.g. the first-derivative point x + i h (z2 = 0) or a purely imaginary z2"""
    x = float(rng.uniform(lo, hi))
    s = max(1.0, abs(x))
    h = [float(10.0 ** rng.uniform(-8, -1) * s * rng.choice([-1, 1])) for _ in range(3)]
    if pattern is not None:
        h = [hv if (pattern >> i) & 1 else 0.0 for i, hv in enumerate(h)]
    return Bicomplex(x + 1j * h[0], h[1] + 1j * h[2]), [x, h[0], h[1], h[2]]


def semantic(ctx, N):
    """Every function/operator against the idempotent formula at 50 digits (the holomorphic extension itself)."""
    from numdifftools.multicomplex import Bicomplex
    mpm = mp()
    rng = ctx.rng(8)
    eps = 2.0 ** -52
    seen = set()

    def compare(name, got, ref, comps, extra=None):
        g = [float(np.real(got.z1)), float(np.imag(got.z1)), float(np.real(got.z2)), float(np.imag(got.z2))]
        norm = sum(abs(float(r)) for r in ref)
        for c in range(4):
            tol = 1e-9 * abs(float(ref[c])) + 512 * eps * norm
            if not abs(g[c] - float(ref[c])) <= tol:
                key = 'extension:%s' % name
                if key in seen:
                    return
                seen.add(key)
                ctx.violation(key, 'Bicomplex %s: component %s is %r, holomorphic extension gives %r (argument z1=%r%+rj, z2=%r%+rj%s)' % (
                    name, ['real', 'imag1', 'imag2', 'imag12'][c], g[c], float(ref[c]), comps[0], comps[1], comps[2], comps[3], '' if extra is None else ', other=%r' % (extra,)),
                    {'function': name, 'z': comps, 'other': extra, 'got': g, 'reference': [float(r) for r in ref],
                     'how': 'Bicomplex(z[0]+1j*z[1], z[2]+1j*z[3]).%s() vs e1 f(z1 - i z2) + e2 f(z1 + i z2) at 50 digits' % name})
                return

    for k in range(N):
        for name in FUNCS:
            lo, hi = DOMAIN.get(name, (-2.0, 2.0))
            if name in ('tan', 'sec') and k % 3 == 1:
                lo, hi = 1.8, 2.9            # cos < 0
            if name in ('cot', 'csc', 'coth', 'csch') and k % 3 == 1:
                lo, hi = -hi, -lo            # negative arguments
            z, comps = rand_bc(rng, lo, hi, Bicomplex, pattern=(None if k % 2 == 0 else (k // 2) % 8))
            try:
                got = getattr(z, name)()
            except Exception as ex:  # noqa
                ctx.violation('raises:%s' % name, 'Bicomplex.%s raises %r' % (name, ex), {'function': name, 'z': comps})
                continue
            ctx.count(1, ('semantic', name))
            compare(name, got, reference(mpm, name, comps), comps)
        # array arguments whose elements mix the zero patterns (a purely real element next to fully perturbed ones, as in a Jacobian or Hessian
        # evaluation where only some coordinates are perturbed): the vectorised call, element by element, against the extension
        if k % 4 == 0:
            for name in FUNCS:
                lo, hi = DOMAIN.get(name, (-2.0, 2.0))
                pats = [0, None, 1, 6] if (k // 4) % 2 == 0 else [None, 0, 2, 7]
                elems = [rand_bc(rng, lo, hi, Bicomplex, pattern=pt)[1] for pt in pats]
                za = Bicomplex(np.array([complex(c[0], c[1]) for c in elems]), np.array([complex(c[2], c[3]) for c in elems]))
                try:
                    gota = getattr(za, name)()
                    z1a, z2a = np.broadcast_to(gota.z1, (len(elems),)), np.broadcast_to(gota.z2, (len(elems),))
                except Exception as ex:  # noqa
                    ctx.violation('raises:%s' % name, 'Bicomplex.%s raises %r on an array argument' % (name, ex), {'function': name, 'z': elems})
                    continue
                for i, c in enumerate(elems):
                    ctx.count(1, ('semantic-array', name))
                    compare(name + ' on an array argument', Bicomplex(z1a[i], z2a[i]), reference(mpm, name, c), c, extra={'array': elems, 'element': i})
        # base points of small magnitude (1e-13 .. 1e-3, perturbations a fixed fraction of the base point): nothing in the formulas may carry an
        # absolute scale
        if k % 2 == 0:
            for name in ('log', 'sqrt', 'log2', 'log10', 'exp', 'sin', 'cos', 'tan', 'sinh', 'cosh', 'tanh', 'arctan', 'arcsinh'):
                xs = float(10.0 ** rng.uniform(-13, -3))
                hs = [xs * float(10.0 ** rng.uniform(-8, -1) * rng.choice([-1, 1])) for _ in range(3)]
                if (k // 2) % 3 == 1:
                    hs[1] = hs[2] = 0.0
                zs, cs = Bicomplex(xs + 1j * hs[0], hs[1] + 1j * hs[2]), [xs, hs[0], hs[1], hs[2]]
                try:
                    got = getattr(zs, name)()
                except Exception as ex:  # noqa
                    ctx.violation('raises:%s' % name, 'Bicomplex.%s raises %r at a small base point' % (name, ex), {'function': name, 'z': cs})
                    continue
                ctx.count(1, ('semantic-small', name))
                compare(name + ' at a small base point', got, reference(mpm, name, cs), cs)
        # operators
        pat = None if k % 3 == 0 else (k // 3) % 8
        a, ca = rand_bc(rng, -2, 2, Bicomplex, pattern=pat)
        b, cb = rand_bc(rng, 0.3, 2, Bicomplex, pattern=pat) if k % 2 else rand_bc(rng, -2, -0.3, Bicomplex, pattern=pat)
        for name, fn in (('add', lambda: a + b), ('sub', lambda: a - b), ('mul', lambda: a * b), ('div', lambda: a / b)):
            ctx.count(1, ('semantic', name))
            compare(name, fn(), reference(mpm, name, ca, cb), ca, cb)
        r = float(rng.uniform(0.5, 3))
        compare('rdiv', r / b, reference(mpm, 'rdiv', cb, r), cb, r)
        compare('rpow', r ** a, reference(mpm, 'rpow', ca, r), ca, r)
        for p in (2, 3, -1, -2, 0.5, 2.5):
            base, cbs = (b, cb) if isinstance(p, int) else rand_bc(rng, 0.3, 2, Bicomplex)
            ctx.count(1, ('semantic', 'pow', p))
            compare('pow(%r)' % p, base ** p, reference(mpm, 'pow', cbs, p), cbs, p)
        # real exponents with an integral value at NEGATIVE bases (inside the real domain of x -> x**3.0), with every pattern of exactly-zero
        # components: z2 = 0 is the first-derivative point x + i h, where the branch correction of arg_c must still be applied
        for p in (3.0, -1.0, -3.0, 2.0):
            base, cbs = rand_bc(rng, -2.5, -0.3, Bicomplex, pattern=(None if k % 4 == 0 else k % 8))
            ctx.count(1, ('semantic', 'pow-negative-base', p))
            compare('pow(%r) at a negative base' % p, base ** p, reference(mpm, 'pow', cbs, int(p)), cbs, p)
        pb, cpb = rand_bc(rng, 0.3, 2, Bicomplex)
        ex, cex = rand_bc(rng, -1, 1, Bicomplex)
        compare('pow(bicomplex)', pb ** ex, reference(mpm, 'pow', cpb, cex), cpb, cex)
        # exponents whose REAL part is a whole number but which are not real: a bicomplex exponent p + i h1 + j h2 + ij h3 (the point at
        # which d/dy x**y is taken at y = p) and a complex exponent p + i q
        pint = float([2, 3, -1, 0, 1, -2][k % 6])
        hh = [float(10.0 ** rng.uniform(-6, -1) * rng.choice([-1, 1])) for _ in range(3)]
        if k % 4 == 1:
            hh[1] = hh[2] = 0.0
        ex2, cex2 = Bicomplex(pint + 1j * hh[0], hh[1] + 1j * hh[2]), [pint, hh[0], hh[1], hh[2]]
        ctx.count(1, ('semantic', 'pow-bicomplex-integer-real-part', pint))
        compare('pow(bicomplex with real part %r)' % pint, pb ** ex2, reference(mpm, 'pow', cpb, cex2), cpb, cex2)
        qim = float(rng.uniform(-1.5, 1.5))
        ctx.count(1, ('semantic', 'pow-complex-exponent', pint))
        compare('pow(complex %r%+rj)' % (pint, qim), pb ** complex(pint, qim), reference(mpm, 'pow', cpb, [pint, qim, 0.0, 0.0]), cpb, [pint, qim, 0.0, 0.0])
        # z2 = 0: reduces to the complex function
        if k % 5 == 0:
            x = complex(rng.uniform(0.2, 0.9), rng.uniform(-0.3, 0.3))
            zc = Bicomplex(x, 0.0)
            for name, f in (('sin', np.sin), ('exp', np.exp), ('log', np.log), ('sqrt', np.sqrt), ('arctan', np.arctan)):
                got = getattr(zc, name)()
                if not (abs(complex(got.z1) - f(x)) <= 1e-12 * (1 + abs(f(x))) and abs(complex(got.z2)) <= 1e-12):
                    ctx.violation('complex-reduction:%s' % name, 'Bicomplex(z, 0).%s() = (%r, %r) but the complex function gives %r' % (name, complex(got.z1), complex(got.z2), f(x)),
                                  {'function': name, 'z': [x.real, x.imag]})


def run(ctx):
    import numdifftools.multicomplex as mc
    from numdifftools.multicomplex import Bicomplex
    proof_stage(ctx, 'Props/C12.v', extra_targets=['Model/BicomplexFloat.vo'])
    rng = ctx.rng(1)
    cases, descs = [], []
    log = []
    real_np = mc.np
    mc.np = NpProxy(real_np, log)
    try:
        for k in range(ctx.n(1500, 15000)):
            op = list(OPS)[k % len(OPS)]
            mk = lambda: Bicomplex(complex(rng.normal(), rng.normal() * 10.0 ** rng.integers(-8, 1)), complex(rng.normal() * 10.0 ** rng.integers(-8, 1), rng.normal() * 10.0 ** rng.integers(-8, 1)))
            a, b = mk(), mk()
            if k % 17 == 0:
                b = Bicomplex(complex(rng.normal()), 0.0)
            del log[:]
            if op == 'add':
                r = a + b
            elif op == 'sub':
                r = a - b
            elif op == 'mul':
                r = a * b
            elif op == 'neg':
                r = -a
            elif op == 'conj':
                r = a.conjugate()
            elif op == 'rsub':
                r = a.__rsub__(b)
            else:
                r = getattr(a, op)()
            tbl = '[' + '; '.join('(%d%%nat, %s, %s)' % (FID[n], clit(z), clit(v)) for n, z, v in log) + ']'
            cases.append('(%d%%nat, %s, %s, %s, %s)' % (OPS[op], tbl, blit2(a), blit2(b), blit2(r)))
            descs.append({'op': op, 'a': [complex(a.z1), complex(a.z2)], 'b': [complex(b.z1), complex(b.z2)], 'result': [complex(r.z1), complex(r.z2)]})
            ctx.count(1, ('op', op))
            if k < 2:
                ctx.sample({'op': op, 'a': str(a), 'result': str(r)})
    finally:
        mc.np = real_np
    items = [('C12_%d' % s, HDR + 'Definition cases := [\n' + ';\n'.join(cases[s:s + 300]) + '].\nEval vm_compute in (List.length cases, failing ok_bc cases).\n')
             for s in range(0, len(cases), 300)]
    res = coq_eval_many(items)
    nbad = 0
    for name, (rc, out) in sorted(res.items()):
        s = int(name.split('_')[1])
        pr = parse_count_fail(out)
        if rc != 0 or pr is None:
            ctx.brk('correspondence', 'case file %s could not be evaluated' % name, out[-1500:])
            continue
        for i in pr[1]:
            nbad += 1
            if nbad <= 5:
                ctx.brk('correspondence', 'Bicomplex.%s disagrees bit-for-bit with Model/Bicomplex.v (given the recorded numpy values of the complex functions)' % descs[s + i]['op'],
                        {k2: str(v) for k2, v in descs[s + i].items()})
    ctx.cov['traces_validated_against_impl'] = len(cases)
    ctx.cov['correspondence_disagreements'] = nbad
    semantic(ctx, ctx.n(12, 150))
    ctx.assumptions += ['numpy\'s complex exp/expm1/sin/cos/sinh/cosh are oracles (recorded per call); their functional equations are premises of the function theorems',
                        'division, powers, log, sqrt and the inverse trigonometric/hyperbolic functions are compositions involving branch selection (arctan + sign*pi): not proved; they are compared against the idempotent formula at 50 digits (mpmath) on every run',
                        'array-valued Bicomplex uses numpy\'s SIMD complex multiply (FMA): the bit-exact tie is for scalars/0-d arrays']
    return ctx.finish(level='proof', checker_cmd='make -C coq Props/C12.vo + coqc build/cases/C12_*.v',
                      rule='12 modelled operations on random bicomplex scalars with components over 8 decades (bit-exact); 26 functions + 9 operator forms against the holomorphic extension at 50 digits with perturbations 1e-8..1e-1; '
                           'distinct = (operation) and (function) names exercised')
