"""C17 - FFT Taylor coefficients are accurate within their reported error (partial)."""
import math
import sys
import warnings

import numpy as np

from .core import blit, coq_eval_many, flist, flit, parse_count_fail, proof_stage, qlit, zlit

# |coefficient - exact| <= K * (returned error estimate + eps * max|f| / R^k on the final circle); calibrated on the repaired tree
K = 100.0

HDR = '''Require Import NDT.Arith.Ops NDT.Arith.OpsFloat NDT.Arith.OpsCFloat NDT.Model.Taylor NDT.Gen.Taylor.
From Coq Require Import PrimFloat ZArith QArith List Bool. Import ListNotations.
Definition C1EM8 := 0x1.5798ee2308c3ap-27%float.   (* 1e-8 *)
Definition THR := 0x1.a36e2eb1c432dp-14%float.     (* 1e-4 *)
Definition TOL := 0x1p-40%float.
(* the radius search: (num_extrap, min_iter, max_iter, r0, step_ratio, oracle per iteration, m,
                       expected (converged, iterations, final radius, radii, degenerate, final step ratio, function_count)) *)
Definition okS (c : Z * Z * nat * float * float * list (float * float * bool) * nat * (bool * nat * float * list float * bool * float * nat)) : bool :=
  let '(ne, mi, mx, r0, sr, os, m, (cv, it, rf, rs, dg, srf, fc)) := c in
  let res := run OpsF C1EM8 ne mi mx r0 sr os in
  Bool.eqb (negb (failed_of res)) cv && Nat.eqb (iterations_of res) it && feq (snd (fst (fst res))) rf && leqf (radii_of res) rs
  && Bool.eqb (degenerate_of res) dg && feq (ratio (snd res)) srf && Nat.eqb (function_count_of m res) fc.
(* fornberg._extrapolate for one coefficient (complex data, tolerance relative to the largest input) *)
Definition cabs_close (scale : float) (a b : cfloat) : bool :=
  (feq (fst a) (fst b) && feq (snd a) (snd b)) || PrimFloat.leb (c_modulus (c_sub a b)) (TOL * scale)%float.
Fixpoint lcabs (scale : float) (a b : list cfloat) : bool :=
  match a, b with [], [] => true | x :: a', y :: b' => cabs_close scale x y && lcabs scale a' b' | _, _ => false end.
Definition okX (c : list cfloat * list float * list float * float * list cfloat) : bool :=
  let '(bs, cs0, cs1, scale, ex) := c in
  lcabs scale (extrapolate2 OpsCF bs (map c_real cs0) (map c_real cs1)) ex.
(* _get_best_taylor_coefficients for one coefficient: value, error estimate, selected row; a different row is accepted
   only when the model's penalised errors of the two rows agree to 2^-30 (tie up to the rounding of |z|) *)
Definition okB (c : list cfloat * list float * (cfloat * float * nat)) : bool :=
  let '(ex, floors, (v, e, ix)) := c in
  let '(d, errs) := best_table OpsCF (c_real THR) (c_real C1EM8) (c_real 0x1.8p+0%float) ex (map c_real floors) in
  let '(v', e', ix') := best OpsCF (c_real THR) (c_real C1EM8) (c_real 0x1.8p+0%float) ex (map c_real floors) in
  if Nat.eqb ix ix' then cclose TOL v v' && fclose TOL e (fst e')
  else fclose 0x1p-30%float (fst (nthA OpsCF errs ix)) (fst (nthA OpsCF errs ix')) && cclose TOL v (nthA OpsCF d ix).
Definition okN (c : Z * Z) : bool := Z.eqb (num_taylor_coefficients (fst c)) (snd c).
Definition okL (c : Z * Z) : bool := Z.eqb (get_logn (fst c)) (snd c).
Definition okD (c : Q * Q * Z * Z * list (Z * Z)) : bool :=
  let '(r, sr, ne, mx, mis) := c in
  Qeq_bool r taylor_default_r && Qeq_bool sr taylor_default_step_ratio && Z.eqb ne taylor_default_num_extrap && Z.eqb mx taylor_default_max_iter
  && forallb (fun p => Z.eqb (taylor_default_min_iter (fst p)) (snd p)) mis.
'''


def clit(z):
    z = complex(z)
    return '(%s, %s)' % (flit(z.real), flit(z.imag))


def cllist(zs):
    return '[' + '; '.join(clit(z) for z in zs) + ']'


def mp():
    sys.path.append('/opt/veriftools/pyvenv/lib/python3.11/site-packages')
    import mpmath
    mpmath.mp.dps = 40
    return mpmath


class Fam:
    """the property's family with closed-form Taylor coefficients (mpmath, 40 digits) and the distance to the nearest singularity"""

    def __init__(self, rng, m, kinds=('exp', 'inv', 'sin', 'cos', 'log', 'pow', 'poly', 'expinv', 'expsin'), near=False):
        self.m = m
        self.kind = kind = str(rng.choice(list(kinds)))
        self.a = a = float(rng.uniform(0.5, 2))
        self.b = b = float(rng.uniform(2.6, 4)) * (1 if rng.random() < 0.5 else -1)
        if near:          # a singularity close to the origin (used with z0 next to it and an initial radius far outside the disc of analyticity)
            self.b = b = float(rng.uniform(0.03, 0.08)) * (1 if rng.random() < 0.5 else -1)
        self.p = p = float(rng.choice([0.5, -0.5, 1.5, 2.5, -1.5]))
        self.cs = cs = [float(t) for t in rng.uniform(-1, 1, size=int(rng.integers(9, 14)))]
        ab = abs(b)
        mm = m
        if kind == 'exp':
            self.name, self.f, self.dist = 'exp(%r z)' % a, (lambda z: np.exp(a * z)), (lambda z0: np.inf)
            self.co = lambda z0, k: mm.exp(a * z0) * mm.mpf(a) ** k / mm.factorial(k)
        elif kind == 'inv':
            self.name, self.f, self.dist = '1/(%r - z)' % b, (lambda z: 1 / (b - z)), (lambda z0: abs(b - z0))
            self.co = lambda z0, k: 1 / (b - z0) ** (k + 1)
        elif kind == 'sin':
            self.name, self.f, self.dist = 'sin(%r z)' % a, (lambda z: np.sin(a * z)), (lambda z0: np.inf)
            self.co = lambda z0, k: mm.mpf(a) ** k * mm.sin(a * z0 + k * mm.pi / 2) / mm.factorial(k)
        elif kind == 'cos':
            self.name, self.f, self.dist = 'cos(%r z)' % a, (lambda z: np.cos(a * z)), (lambda z0: np.inf)
            self.co = lambda z0, k: mm.mpf(a) ** k * mm.cos(a * z0 + k * mm.pi / 2) / mm.factorial(k)
        elif kind == 'log':
            self.name, self.f, self.dist = 'log(%r + z)' % ab, (lambda z: np.log(ab + z)), (lambda z0: abs(ab + z0))
            self.co = lambda z0, k: mm.log(ab + z0) if k == 0 else (-1) ** (k + 1) / (k * (ab + z0) ** k)
        elif kind == 'pow':
            self.name, self.f, self.dist = '(%r + z)**%r' % (ab, p), (lambda z: (ab + z) ** p), (lambda z0: abs(ab + z0))
            self.co = lambda z0, k: mm.binomial(p, k) * (ab + z0) ** (p - k)
        elif kind == 'poly':
            self.name, self.f, self.dist = 'sum(c[i] z**i), c = %r' % cs, (lambda z: sum(c * z ** i for i, c in enumerate(cs))), (lambda z0: np.inf)
            self.co = lambda z0, k: sum(mm.binomial(i, k) * c * z0 ** (i - k) for i, c in enumerate(cs) if i >= k)
        elif kind == 'expinv':
            self.name, self.f, self.dist = 'exp(%r z)/(%r - z)' % (a, b), (lambda z: np.exp(a * z) / (b - z)), (lambda z0: abs(b - z0))

            def co(z0, k):
                e = [mm.exp(a * z0) * mm.mpf(a) ** j / mm.factorial(j) for j in range(k + 1)]
                v = [1 / (b - z0) ** (j + 1) for j in range(k + 1)]
                return sum(e[j] * v[k - j] for j in range(k + 1))
            self.co = co
        else:   # composition with a known series: exp(sin z) via the recurrence  k c_k = sum_j j s_j c_{k-j}
            self.name, self.f, self.dist = 'exp(sin(%r z))' % a, (lambda z: np.exp(np.sin(a * z))), (lambda z0: np.inf)

            def co(z0, k, cache={}):
                key = (complex(z0), k)
                if key not in cache:
                    s = [mm.mpf(a) ** j * mm.sin(a * z0 + j * mm.pi / 2) / mm.factorial(j) for j in range(k + 1)]
                    c = [mm.exp(s[0])]
                    for n in range(1, k + 1):
                        c.append(sum(j * s[j] * c[n - j] for j in range(1, n + 1)) / n)
                    cache[key] = c[k]
                return cache[key]
            self.co = co


def sweep(ctx, N, focus=False):
    from numdifftools import fornberg as fb
    from numdifftools.fornberg import derivative, taylor
    m = mp()
    rng = ctx.rng(51)
    seen = {}
    o_ex = fb._extrapolate

    def extr(bs, rs, mm):      # observation only: the radii of all circles used
        seen['rs'] = [float(r) for r in rs]
        return o_ex(bs, rs, mm)
    nflag = nflagged_cases = 0
    worst = 0.0
    for it in range(N):
        g = Fam(rng, m) if not focus else Fam(rng, m, kinds=('log', 'inv', 'pow', 'expinv'))
        z0 = complex(rng.uniform(0, 1), rng.uniform(0, 1)) if rng.random() < 0.6 else float(rng.uniform(0, 1))
        n = int(rng.choice([1, 2, 3, 5, 6, 7, 12, 13, 14, 20, 25, 26, 27, 28, 40, 51, 52, 53, 80, 100])) if it % 2 else int(rng.integers(1, 21))
        dflt = it % 3 == 0
        kw = {} if dflt else dict(r=float(10 ** rng.uniform(-5, 0)), step_ratio=float(rng.uniform(1.2, 3)), num_extrap=int(rng.integers(1, 6)))
        if focus:
            # (used when something is broken) many coefficients from slowly decaying series, user-given large step ratios and initial radii far from
            # the final one: the radius search then oscillates with a large FFT size, where every stage of the extrapolation carries weight
            n = int(rng.choice([53, 55, 60, 80, 100]))
            dflt = False
            kw = dict(r=float(10 ** rng.uniform(-1.5, 0)), step_ratio=float(rng.uniform(2.4, 3.0)), num_extrap=int(rng.integers(2, 5)))
            if it % 3 == 1:
                # a single extrapolation row (num_extrap = 1) from an initial radius the search brackets at once: five circles, three rows
                g = Fam(rng, m, kinds=('log', 'inv', 'pow'))
                n = int(rng.choice([3, 10, 20, 40]))
                kw = dict(r=float(rng.choice([0.5, 1.0, 2.0])), step_ratio=float(rng.choice([1.6, 3.0])), num_extrap=1)
            if it % 3 == 2:
                # a singularity at distance 0.03 .. 0.08 and an initial radius 0.3 .. 1 far outside the disc: the first circles enclose the
                # singularity and agree with each other on garbage; only the selection stage keeps them from being returned
                g = Fam(rng, m, kinds=('inv', 'log', 'pow'), near=True)
                z0 = complex(0.0, 0.0) if it % 2 else 0.0
                n = int(rng.choice([20, 30, 40]))
                kw = dict(r=float(rng.choice([0.3, 1.0])))
        desc = {'f': g.name, 'z0': repr(z0), 'n': n, 'options': kw, 'how': 'from numdifftools.fornberg import taylor; taylor(f, z0=z0, n=n, full_output=True, **options)'}
        fb._extrapolate = extr
        try:
            with np.errstate(all='ignore'), warnings.catch_warnings():
                warnings.simplefilter('ignore')
                c, info = taylor(g.f, z0=z0, n=n, full_output=True, **kw)
        except Exception as ex:   # noqa
            fb._extrapolate = o_ex
            ctx.violation('raises', 'taylor(lambda z: %s, z0=%r, n=%d, %r) raises %r' % (g.name, z0, n, kw, ex), desc)
            continue
        fb._extrapolate = o_ex
        Rmax = max(seen.get('rs', [0.0]) + [float(info.final_radius)])
        ctx.count(1, ('sweep', g.kind, 'default' if dflt else 'options', 'complex' if isinstance(z0, complex) else 'real', min(n, 21) // 7))
        if len(c) < n + 1 or len(info.error_estimate) != len(c):
            ctx.violation('too-few-coefficients', 'taylor(f, n=%d) returns %d coefficients (and %d error estimates)' % (n, len(c), len(info.error_estimate)), desc)
            continue
        max_iter = 30
        if bool(info.failed) and int(info.iterations) != max_iter - 1:
            ctx.violation('failed-before-cap', 'taylor: failed=True after %d iterations (cap %d)' % (int(info.iterations) + 1, max_iter), desc)
        d = float(g.dist(z0))
        if dflt and n <= 20 and g.kind != 'poly' and d >= 1.5:
            nflag += 1
            if info.degenerate or info.failed:
                nflagged_cases += 1
                ctx.violation('flagged:default-radius:n<=20', 'taylor(lambda z: %s, z0=%r, n=%d) with the default radius reports degenerate=%r failed=%r although f is analytic within %.2f of z0' % (
                    g.name, z0, n, bool(info.degenerate), bool(info.failed), d), desc)
        if info.degenerate or info.failed:
            continue
        with np.errstate(all='ignore'):
            big = g.f(z0 + Rmax * np.exp(2j * np.pi * np.arange(len(c)) / len(c)))
        if not np.isfinite(big).all() and not (np.isfinite(np.asarray(c[:n + 1])).all() and np.isfinite(np.asarray(info.error_estimate[:n + 1])).all()):
            ctx.count(1, ('sweep', 'f-overflows-on-a-circle'))     # exp(sin(a z)) exceeds the double range on the largest circle: NaN coefficients with NaN estimates
            continue
        R = float(info.final_radius)
        zc = z0 + R * np.exp(2j * np.pi * np.arange(len(c)) / len(c))
        with np.errstate(all='ignore'):
            mx = float(np.max(np.abs(g.f(zc))))
        bad = None
        for k in range(n + 1):
            ex = complex(g.co(m.mpmathify(z0), k))
            err = abs(complex(c[k]) - ex)
            est = float(info.error_estimate[k])
            fl = 2.220446049250313e-16 * mx / R ** k
            bound = K * (est + fl)
            if not err <= bound:
                if bad is None or err / max(bound, 1e-300) > bad[0]:
                    bad = (err / max(bound, 1e-300), k, err, est, fl, ex, complex(c[k]))
            elif bound > 0 and Rmax < 0.9 * d:
                worst = max(worst, err / bound)
        if bad is not None:
            _, k, err, est, fl, ex, got = bad
            # the recorded finding is a FINAL radius at or beyond the nearest singularity; a wrong coefficient with the final circle inside the disc of
            # analyticity (even if the search overshot on the way) is a different failure
            key = 'envelope:radius-reaches-singularity' if R >= d else 'envelope:%s' % g.kind
            ctx.violation(key, 'taylor(lambda z: %s, z0=%r, n=%d, %r): coefficient %d is %r, exact %r: error %.3g, but error_estimate %.3g and FFT floor %.3g (final radius %.4g, largest circle %.4g, nearest singularity at distance %.4g; degenerate=False, failed=False)' % (
                g.name, z0, n, kw, k, got, ex, err, est, fl, R, Rmax, d), dict(desc, largest_radius=Rmax, coefficient=k, got=repr(got), exact=repr(ex), error=err, error_estimate=est, floor=fl, final_radius=R, distance_to_singularity=d))
        # derivative(): the same coefficients times k!, error estimates scaled the same way (bitwise)
        if it % 3 == 1:     # (both parities of `it`: small and large n)
            with np.errstate(all='ignore'), warnings.catch_warnings():
                warnings.simplefilter('ignore')
                dv, dinfo = derivative(g.f, z0, n=n, full_output=True, **kw)
            ctx.count(1, ('sweep', 'derivative'))
            fact = np.array([float(math.factorial(k)) for k in range(len(c))])
            same = lambda a, b: a == b or (a != a and b != b) or abs(a - b) <= 1e-12 * abs(b)     # noqa  (NaN entries must be NaN in both)
            okv = all(same(complex(a), complex(b)) for a, b in zip(dv[:n + 1], (c * fact)[:n + 1]))
            oke = all(same(float(a), float(b)) for a, b in zip(dinfo.error_estimate[:n + 1], (info.error_estimate * fact)[:n + 1]))
            if not (okv and oke) or bool(dinfo.failed) != bool(info.failed) or bool(dinfo.degenerate) != bool(info.degenerate) or dinfo.iterations != info.iterations:
                ctx.violation('derivative-scaling', 'derivative(f, z0, n=%d) is not taylor(f, z0, n) times k! (values %s, error estimates %s)' % (n, 'ok' if okv else 'differ', 'ok' if oke else 'differ'), desc)
    # at least n + 1 coefficients for EVERY n up to 100 (the FFT size is chosen from a small table: one wrong entry affects a single n)
    for nn in range(1, 101):
        try:
            with np.errstate(all='ignore'), warnings.catch_warnings():
                warnings.simplefilter('ignore')
                cc = taylor(np.exp, z0=0.25, n=nn)
        except Exception as ex:   # noqa
            ctx.violation('raises', 'taylor(np.exp, z0=0.25, n=%d) raises %r' % (nn, ex), {'f': 'np.exp', 'z0': 0.25, 'n': nn})
            break
        ctx.count(1, ('sweep', 'count-every-n'))
        if len(cc) < nn + 1:
            ctx.violation('too-few-coefficients', 'taylor(np.exp, z0=0.25, n=%d) returns %d coefficients, fewer than n + 1' % (nn, len(cc)), {'f': 'np.exp', 'z0': 0.25, 'n': nn, 'returned': len(cc)})
            break
    # failed <-> the iteration cap stopped the search: the number of circles a run WOULD use is measured with a large cap (min_iter pinned),
    # then the same run is repeated with caps below, at and above that number
    ncap = 0
    for it in range(max(6, N // 25)):
        g = Fam(rng, m, kinds=('exp', 'sin', 'cos', 'inv'))
        z0 = complex(rng.uniform(0, 1), rng.uniform(0, 1)) if it % 2 else float(rng.uniform(0, 1))
        n = int(rng.integers(1, 13))
        kw = dict(r=float(10 ** rng.uniform(-4, 0)), step_ratio=float(rng.uniform(1.3, 2.5)), num_extrap=int(rng.integers(1, 4)), min_iter=15)
        calls = []

        def fc(z, g=g):
            calls.append(np.size(z))
            return g.f(z)
        with np.errstate(all='ignore'), warnings.catch_warnings():
            warnings.simplefilter('ignore')
            try:
                c, info = taylor(fc, z0=z0, n=n, full_output=True, max_iter=200, **kw)
            except Exception:   # noqa
                continue
            mm = len(c)
            nfree = sum(1 for t in calls if t == mm)
            if info.failed or nfree < 4 or nfree > 60:
                continue
            for cap in sorted({max(3, nfree - 5), nfree - 1, nfree, nfree + 3}):
                del calls[:]
                try:
                    c2, info2 = taylor(fc, z0=z0, n=n, full_output=True, max_iter=cap, **kw)
                except Exception as ex:   # noqa
                    ctx.violation('raises:cap', 'taylor(..., max_iter=%d) raises %r' % (cap, ex), {'f': g.name, 'z0': repr(z0), 'n': n, 'options': dict(kw, max_iter=cap)})
                    continue
                ncap += 1
                ctx.count(1, ('sweep', 'cap', cap < nfree))
                circles = sum(1 for t in calls if t == mm)
                if bool(info2.failed) != (cap < nfree) or circles != min(cap, nfree) or int(info2.iterations) != circles - 1:
                    ctx.violation('failed-iff-cap', 'taylor(lambda z: %s, z0=%r, n=%d, max_iter=%d, %r): the search needs %d circles without a cap; with the cap it evaluated %d circles and reports failed=%r, iterations=%r' % (
                        g.name, z0, n, cap, kw, nfree, circles, bool(info2.failed), int(info2.iterations)),
                        {'f': g.name, 'z0': repr(z0), 'n': n, 'options': dict(kw, max_iter=cap), 'circles_without_cap': nfree, 'circles': circles, 'failed': bool(info2.failed), 'iterations': int(info2.iterations)})
    ctx.cov['cap_cases'] = ncap
    ctx.cov['sweep_worst_ratio_to_bound'] = worst
    ctx.cov['default_radius_cases'] = nflag
    ctx.cov['default_radius_flagged'] = nflagged_cases
    # the recorded finding is a rare event (about 1 in 2000); a rate above 2% is a different defect
    if nflag >= 50 and nflagged_cases > max(1, 0.02 * nflag):
        ctx.violation('flag-rate', 'degenerate/failed reported in %d of %d default-radius runs with n <= 20 on non-polynomial functions analytic within 1.5' % (nflagged_cases, nflag),
                      {'flagged': nflagged_cases, 'runs': nflag})


def traces(ctx, N):
    """state-trace tie (bit-exact, real floats) + tolerance tie of _extrapolate / _get_best_taylor_coefficients (complex data)"""
    from numdifftools import fornberg as fb
    from numdifftools import limits as lim
    rng = ctx.rng(9)
    m = mp()
    cS, dS, cX, dX, cB, dB = [], [], [], [], [], []
    for it in range(N):
        g = Fam(rng, m)
        z0 = complex(rng.uniform(0, 1), rng.uniform(0, 1)) if rng.random() < 0.6 else float(rng.uniform(0, 1))
        n = int(rng.choice([1, 3, 6, 7, 12, 20, 26, 40, 60])) if it % 2 else int(rng.integers(1, 21))
        kw = {}
        if it % 3:
            kw = dict(r=float(10 ** rng.uniform(-5, 0)), step_ratio=float(rng.uniform(1.2, 3)), num_extrap=int(rng.integers(1, 6)))
        if it % 5 == 0:
            kw['max_iter'] = int(rng.integers(4, 40))
        if it % 7 == 0:
            kw['min_iter'] = int(rng.integers(0, 12))
        T = fb.Taylor(g.f, n=n, full_output=True, **kw)
        rec = {'os': [], 'poor': None, 'm12': None}
        o_cc, o_m12, o_poor, o_ex, o_best = fb.Taylor._check_convergence, fb.Taylor._get_m1_m2, fb._poor_convergence, fb._extrapolate, lim._Limit._get_best_estimate

        def cc(slf, i, z, r, mm, bn):
            rec['poor'], rec['m12'] = False, None
            was_deg = bool(slf._degenerate)
            out = o_cc(slf, i, z, r, mm, bn)
            m1, m2 = rec['m12'] if rec['m12'] is not None else (0.0, 0.0)
            rec['os'].append((float(m1), float(m2), bool(rec['poor'])))
            return out

        def m12(slf, bn, mm):
            out = o_m12(slf, bn, mm)
            if rec['m12'] is None:
                rec['m12'] = out
            return out

        def poor(*a):
            out = o_poor(*a)
            rec['poor'] = bool(out)
            return out

        def extr(bs, rs, mm):
            out = o_ex(bs, rs, mm)
            rec['bs'], rec['rs'], rec['m'], rec['extrap'] = [np.array(b, copy=True) for b in bs], [float(r) for r in rs], int(mm), [np.array(e, copy=True) for e in out]
            return out

        def best(der, errors, steps, shape):
            rec['all_errors'] = np.array(errors, copy=True)
            out = o_best(der, errors, steps, shape)
            rec['best'] = (np.array(out[0], copy=True), np.array(out[1].error_estimate, copy=True), np.array(out[1].index, copy=True))
            return out
        fb.Taylor._check_convergence, fb.Taylor._get_m1_m2, fb._poor_convergence, fb._extrapolate = cc, m12, poor, extr
        lim._Limit._get_best_estimate = staticmethod(best)
        try:
            with np.errstate(all='ignore'), warnings.catch_warnings():
                warnings.simplefilter('ignore')
                c, info = T(z0)
        except Exception as ex:   # noqa
            ctx.brk('correspondence', 'Taylor raised %r' % (ex,), {'f': g.name, 'z0': repr(z0), 'n': n, 'options': kw})
            continue
        finally:
            fb.Taylor._check_convergence, fb.Taylor._get_m1_m2, fb._poor_convergence, fb._extrapolate = o_cc, o_m12, o_poor, o_ex
            lim._Limit._get_best_estimate = staticmethod(o_best)
        desc = {'f': g.name, 'z0': repr(z0), 'n': n, 'options': kw, 'iterations': int(info.iterations), 'failed': bool(info.failed), 'degenerate': bool(info.degenerate)}
        mm = rec['m']
        os_ = rec['os']
        os_pad = os_ + [(0.0, 0.0, False)] * (T.max_iter - len(os_))
        cS.append('(%s, %s, %d%%nat, %s, %s, [%s], %d%%nat, (%s, %d%%nat, %s, %s, %s, %s, %d%%nat))' % (
            zlit(int(T.num_extrap)), zlit(int(T.min_iter)), int(T.max_iter), flit(float(T.r)), flit(float(T.step_ratio)),
            '; '.join('(%s, %s, %s)' % (flit(a), flit(b), blit(p)) for a, b, p in os_pad), mm,
            blit(not bool(info.failed)), int(info.iterations), flit(float(info.final_radius)), flist(rec['rs']), blit(bool(info.degenerate)), flit(float(T._step_ratio)), int(info.function_count)))
        dS.append(desc)
        ctx.count(1, ('trace', 'failed' if info.failed else 'converged', 'degenerate' if info.degenerate else 'regular', len(os_) // 8))
        rs, bs, extrap = rec['rs'], rec['bs'], rec['extrap']
        if not np.isfinite(np.array(bs)).all() or len(rs) < 3:
            continue
        cs0 = [1.0 - (rs[k - 1] / rs[k]) ** mm for k in range(1, len(rs))]
        cs1 = [1.0 - (rs[k - 1] / rs[k + 1]) ** mm for k in range(1, len(rs) - 1)]
        cols = sorted(set([0, 1, n, mm // 2, mm - 1] + [int(t) for t in rng.integers(0, mm, size=3)]))
        for k in cols:
            col = [b[k] for b in bs]
            scale = float(max(abs(t) for t in col))
            if not np.isfinite(scale) or scale > 1e250:
                continue
            cX.append('(%s, %s, %s, %s, %s)' % (cllist(col), flist(cs0), flist(cs1), flit(scale), cllist([e[k] for e in extrap])))
            dX.append(dict(desc, coefficient=k))
            if 'best' in rec and len(extrap) > 2:
                ex_col = [e[k] for e in extrap]
                if not np.isfinite(np.array(ex_col)).all() or max(abs(t) for t in ex_col) > 1e120:
                    continue
                nzs = [abs(t) for t in ex_col if t != 0]
                if nzs and min(nzs) < 1e-120:
                    continue      # magnitudes whose squares / reciprocals leave the double range: numpy's complex division and |z| are not modelled there
                dea_err = None
                with np.errstate(all='ignore'):   # the rounding floor of a row is the largest floor of the five circles it uses
                    fl = [float((2.220446049250313e-16 * np.max(np.abs(b * np.power(r, np.arange(mm)))) / np.power(r, np.arange(mm)))[k]) for b, r in zip(bs, rs)]
                    floors = [max(fl[j:j + 5]) for j in range(len(fl) - 4)]
                if not np.isfinite(floors).all():
                    continue
                val, err, idx = rec['best']
                cB.append('(%s, %s, (%s, %s, %d%%nat))' % (cllist(ex_col), flist(floors), clit(val[k]), flit(float(err[k])), int(idx[k]) // mm))
                dB.append(dict(desc, coefficient=k, value=repr(complex(val[k])), error_estimate=float(err[k])))
        if it < 2:
            ctx.sample(desc)
    return [('S', 'okS', cS, dS, 60, 'the radius search of Taylor.__call__ (converged, iterations, final radius, radii, degenerate, final growth factor, function_count) differs bit-for-bit from Model/Taylor.v fed the recorded (m1, m2, poor-convergence) outcomes'),
            ('X', 'okX', cX, dX, 100, 'fornberg._extrapolate differs (beyond 2^-40 of the largest input) from Model/Taylor.v extrapolate2 on the recorded scaled FFT coefficients'),
            ('B', 'okB', cB, dB, 60, '_get_best_taylor_coefficients (value, error estimate, selected row) differs from Model/Taylor.v best on the recorded extrapolated values')]


def translator_cases(ctx):
    from fractions import Fraction

    from numdifftools import fornberg as fb
    items = []
    cn = []
    for n in range(1, 260):
        try:
            v = int(fb._num_taylor_coefficients(n))
        except ValueError:
            v = -1
        cn.append('(%s, %s)' % (zlit(n), zlit(v)))
        ctx.count(1, ('translator', 'ncoef'))
    items.append(('N', 'okN', cn, 'num_taylor_coefficients (Gen/Taylor.v) differs from fornberg._num_taylor_coefficients (-1 = ValueError); exhaustive for n = 1..259'))
    cl = ['(%s, %s)' % (zlit(n), zlit(int(fb._get_logn(n)))) for n in list(range(1, 400)) + [3 * 2 ** j + d for j in range(1, 20) for d in (0, 1, 2)]]
    items.append(('L', 'okL', cl, 'get_logn (Gen/Taylor.v) differs from fornberg._get_logn'))
    T = fb.Taylor(np.exp)
    mis = [(mx, int(fb.Taylor(np.exp, max_iter=mx).min_iter)) for mx in (1, 2, 3, 7, 30, 31, 100)]
    cd = ['(%s, %s, %s, %s, [%s])' % (qlit(Fraction(repr(float(T.r)))), qlit(Fraction(repr(float(T.step_ratio)))), zlit(int(T.num_extrap)), zlit(int(T.max_iter)),
                                      '; '.join('(%s, %s)' % (zlit(a), zlit(b)) for a, b in mis))]
    items.append(('D', 'okD', cd, 'the defaults of Taylor (r, step_ratio, num_extrap, max_iter, min_iter) differ from Gen/Taylor.v'))
    ctx.count(1, ('translator', 'defaults'))
    return items


def run(ctx):
    proof_stage(ctx, ['Props/C17.v', 'Props/C17b.v'])
    items, index = [], {}
    for tag, ok, cases, descs, shard, what in traces(ctx, ctx.n(120, 1200)):
        for s in range(0, len(cases), shard):
            name = 'C17_%s_%d' % (tag, s)
            items.append((name, HDR + 'Definition cases := [\n' + ';\n'.join(cases[s:s + shard]) + '].\nEval vm_compute in (List.length cases, failing %s cases).\n' % ok))
            index[name] = (s, descs, what, 'correspondence')
    for tag, ok, cases, what in translator_cases(ctx):
        name = 'C17_%s_0' % tag
        items.append((name, HDR + 'Definition cases := [\n' + ';\n'.join(cases) + '].\nEval vm_compute in (List.length cases, failing %s cases).\n' % ok))
        index[name] = (0, [{'case': c} for c in cases], what, 'translator')
    res = coq_eval_many(items)
    nbad = ncase = 0
    per = {}
    for name, (rc, out) in sorted(res.items()):
        s, descs, what, kind = index[name]
        pr = parse_count_fail(out)
        if rc != 0 or pr is None:
            ctx.brk(kind, 'case file %s could not be evaluated' % name, out[-1500:])
            continue
        ncase += pr[0]
        for i in pr[1]:
            nbad += 1
            tag = name.split('_')[1]
            per[tag] = per.get(tag, 0) + 1
            if per[tag] <= 3:
                ctx.brk(kind, what, descs[s + i])
    ctx.cov['traces_validated_against_impl'] = ncase
    ctx.cov['correspondence_disagreements'] = nbad
    if ctx.broken:
        sweep(ctx, 200, focus=True)
    sweep(ctx, ctx.n(150, 2500) if not ctx.broken else 600)
    ctx.assumptions += ['PARTIAL: proved = number of coefficients (finite domain, exhaustive), failed <-> cap, >= 4 circles before convergence, degenerate only after min_iter, positive radii, DFT = aliased Taylor coefficients, '
                        '_extrapolate removes two aliasing terms exactly, exactness of the returned coefficient on such data over R and C, derivative scaling; '
                        'NOT proved = the error bound for non-polynomial f and the never-degenerate/failed clause: explored by the sweep against closed-form coefficients (mpmath, 40 digits), bound %g x (estimate + eps max|f| / R^k)' % K,
                        'the data-dependent tests of the radius search (m1, m2 from _get_m1_m2, _poor_convergence) are oracles recorded from the run; np.fft.fft is not modelled (its mathematical definition is the subject of Props/C17b.v)',
                        'complex stages are compared with tolerance 2^-40 (numpy fuses multiply-adds in complex products and |z| is hypot); a different selected row is accepted only on a tie of the penalised errors to 2^-30']
    return ctx.finish(level='proof', checker_cmd='make -C coq Props/C17.vo Props/C17b.vo + coqc build/cases/C17_*.v',
                      rule='traces: 9 function kinds x real/complex z0 x n 1..60 x default/random (r, step_ratio, num_extrap, max_iter, min_iter): state trace bit-exact, 8 coefficient columns per run through _extrapolate and the best-estimate selection; '
                           'translator: exhaustive n = 1..259; sweep: the same family, n up to 100, r 1e-5..1, step_ratio 1.2..3, num_extrap 1..5 against closed-form coefficients; derivative() against taylor(); '
                           'distinct = (kind, function, options, z0 type, n class) combinations hit')
