"""C08 - array inputs are handled elementwise and keep their shape."""
import warnings

import numpy as np

from . import pipe
from .core import coq_eval_many, parse_count_fail, proof_stage

# exactly rounded arithmetic test functions (+ - * /): array and scalar evaluation agree bitwise
FUNCS = {
    'cubic': lambda x: x * x * x + x * x,
    'rational': lambda x: 1.0 / (1.0 + x * x),
    'quartic': lambda x: (x * x - 2.0) * (x * x + x) - 3.0 * x,
    'mobius': lambda x: (2.0 * x + 1.0) / (x + 3.0),
    'recip': lambda x: 1.0 / x,
}
SHAPES = [(), (1,), (3,), (5,), (2, 2), (2, 3), (2, 1, 2), (4, 5), (2, 2, 2), (40,)]


def rand_x(rng, shape):
    """elements of either sign, magnitude 0.3 .. 2.5 (away from the poles of the test functions at 0 and -3); one array in four is all positive"""
    mag = rng.uniform(0.3, 2.5, size=shape) if shape else np.asarray(float(rng.uniform(0.3, 2.5)))
    sgn = rng.choice([-1.0, 1.0], size=shape) if shape else np.asarray(float(rng.choice([-1.0, 1.0])))
    return mag if rng.random() < 0.25 else mag * sgn


def hexes(a):
    return [float(v).hex() for v in np.ravel(a)]


def search(ctx, N):
    """Property-level: replace the other elements at random; evaluate one element alone; extra arguments."""
    import numdifftools as nd
    rng = ctx.rng(12)
    for k in range(N):
        fname = list(FUNCS)[k % len(FUNCS)]
        f = FUNCS[fname]
        method = str(rng.choice(['central', 'forward', 'backward', 'complex', 'multicomplex']))
        n = int(rng.integers(1, 5)) if method != 'multicomplex' else int(rng.integers(1, 3))
        order = int(rng.choice([2, 4]))
        shape = SHAPES[int(rng.integers(1, len(SHAPES)))]
        x = rand_x(rng, shape)
        d = nd.Derivative(f, n=n, method=method, order=order, full_output=True)
        try:
            v, info = d(x)
        except Exception as ex:   # noqa
            ctx.violation('raises:%s' % method, 'Derivative(%s, n=%d, method=%r)(array of shape %r) raises %r' % (fname, n, method, shape, ex), {'f': fname, 'x': x.tolist(), 'n': n, 'order': order, 'method': method})
            continue
        ctx.count(1, ('search', method, len(shape)))
        desc = {'f': fname, 'n': n, 'order': order, 'method': method, 'shape': list(shape), 'x': x.tolist()}
        if np.shape(v) != tuple(shape):
            if ctx.violation('shape', 'Derivative returns shape %r for x of shape %r' % (np.shape(v), shape), desc):
                return
            continue
        # memory layout must not matter: Fortran-ordered copy, transposed view of the transposed data, strided view
        if len(shape) >= 2 and sum(1 for t in shape if t > 1) >= 2:
            big = np.zeros(tuple(2 * t for t in shape))
            sl = tuple(slice(None, None, 2) for _ in shape)
            big[sl] = x
            for lname, xv in (('Fortran-ordered', np.asfortranarray(x)), ('transposed view', np.ascontiguousarray(x.T).T), ('strided view', big[sl])):
                vv, _ = d(xv)
                ctx.count(1, ('search', 'layout', lname))
                if np.shape(vv) != tuple(shape) or [float(t).hex() for t in np.ravel(vv)] != [float(t).hex() for t in np.ravel(v)]:
                    if ctx.violation('layout:%s' % lname.split()[0], 'Derivative(%s, n=%d, order=%d, method=%r): a %s array x with the same elements gives a different result (max difference %.3g)' % (
                            fname, n, order, method, lname, float(np.max(np.abs(np.asarray(vv) - np.asarray(v)))) if np.shape(vv) == tuple(shape) else float('nan')), dict(desc, layout=lname)):
                        return
        # the same elements in the other containers / element types a caller may use: nested list, tuple, 0-d array for a scalar, and -- for
        # whole-number elements -- an integer-typed array: same shape, same bits
        if k % 3 == 0:
            variants = [('nested list', x.tolist())]
            if len(shape) == 1:
                variants.append(('tuple', tuple(float(t) for t in x)))
            xi = np.round(x * 2.0)
            variants_int = [('int64 array of whole numbers', xi.astype(np.int64)), ('list of Python ints', xi.astype(np.int64).tolist())]
            try:
                vi, _ = d(xi)
                for vname, xv in variants + variants_int:
                    ref = vi if (vname, xv) in [(a_, b_) for a_, b_ in variants_int] else v
                    vv, _ = d(xv)
                    ctx.count(1, ('search', 'container', vname))
                    if np.shape(vv) != tuple(shape) or hexes(vv) != hexes(ref):
                        if ctx.violation('container:%s' % vname.split()[0], 'Derivative(%s, n=%d, order=%d, method=%r): x given as a %s gives a different result than the float array with the same elements' % (
                                fname, n, order, method, vname), dict(desc, container=vname, x_given=repr(xv)[:300])):
                            return
            except Exception as ex:   # noqa
                if ctx.violation('raises:container', 'Derivative(%s, n=%d, method=%r) raises %r for x given as a list / tuple / integer array' % (fname, n, method, ex), desc):
                    return
        pos = tuple(int(rng.integers(0, s)) for s in shape)
        x2 = rand_x(rng, shape)
        x2[pos] = x[pos]
        v2, info2 = d(x2)
        real_step = method in ('central', 'forward', 'backward')
        same = float(v2[pos]).hex() == float(v[pos]).hex() and float(np.asarray(info2.error_estimate)[pos]).hex() == float(np.asarray(info.error_estimate)[pos]).hex()
        if not same and (real_step or abs(v2[pos] - v[pos]) > max(np.asarray(info.error_estimate)[pos], 1e-300) + 1e-9 * abs(v[pos])):
            if ctx.violation('coupling:%s' % method, 'Derivative(%s, n=%d, order=%d, method=%r): the element at %r changes from %r to %r when only the OTHER elements of x are replaced' % (
                    fname, n, order, method, pos, float(v[pos]), float(v2[pos])), dict(desc, position=list(pos), x_other=x2.tolist())):
                return
        vs, infos = d(float(x[pos]))
        ok = (float(vs).hex() == float(v[pos]).hex()) if real_step else abs(float(vs) - float(v[pos])) <= np.asarray(info.error_estimate)[pos] + float(infos.error_estimate) + 1e-12 * abs(float(vs))
        if not ok:
            if ctx.violation('scalar:%s' % method, 'Derivative(%s, n=%d, order=%d, method=%r): element %r of the array result is %r, the scalar evaluation of that element gives %r' % (
                    fname, n, order, method, pos, float(v[pos]), float(vs)), dict(desc, position=list(pos))):
                return
    # one element outside the domain of f must not disturb the others
    for method in ('central', 'forward'):
        d = nd.Derivative(np.log, method=method)
        x = np.array([2.0, 1e-5, 0.7])
        v = d(x)
        ctx.count(1, ('search', 'nan-column'))
        ref = [float(d(float(t))) for t in x]
        for i in (0, 2):
            if not (np.isfinite(v[i]) and float(v[i]).hex() == ref[i].hex()):
                if ctx.violation('nan-column:%s' % method, 'Derivative(np.log, method=%r)([2.0, 1e-5, 0.7])[%d] = %r but the scalar evaluation gives %r: an element whose estimates are all NaN disturbs the other elements' % (method, i, float(v[i]), ref[i]),
                                 {'x': x.tolist(), 'result': [float(t) for t in v], 'scalar': ref}):
                    break
    # one element whose trial estimates are PARTLY NaN (its larger steps leave the domain of f) among ordinary elements of very different
    # magnitude: the ordinary elements must be bit-identical to their scalar evaluations (real-step methods)
    for fname, f, border, others in (('sqrt', np.sqrt, [0.03, 0.3], [1.0, 40.0, 100.0, 1000.0]), ('log', np.log, [0.02, 0.2], [1.0, 30.0, 500.0]),
                                     ('1/(x-0.25)', lambda t: 1.0 / (t - 0.25), [0.27], [3.0, 40.0, 900.0])):
        for method, n, order in (('central', 1, 2), ('central', 2, 4), ('central', 3, 2), ('backward', 3, 2), ('forward', 1, 2)):
            d = nd.Derivative(f, n=n, method=method, order=order)
            for b in border:
                for pos in range(len(others) + 1):
                    xs = np.array(others[:pos] + [b] + others[pos:])
                    with np.errstate(all='ignore'):
                        v = d(xs)
                        ref = [float(d(float(t))) for t in xs]
                    ctx.count(1, ('search', 'partly-nan-element', method, n))
                    bad = [i for i in range(xs.size) if i != pos and not (float(v[i]).hex() == ref[i].hex() or (np.isnan(v[i]) and np.isnan(ref[i])))]
                    if bad:
                        i = bad[0]
                        if ctx.violation('coupling-partly-nan:%s' % method, 'nd.Derivative(%s, n=%d, order=%d, method=%r)(%r): element %d is %r inside the array but %r when evaluated alone (another element has NaN among its trial estimates)' % (
                                fname, n, order, method, xs.tolist(), i, float(v[i]), ref[i]), {'f': fname, 'x': xs.tolist(), 'n': n, 'order': order, 'method': method, 'element': i}):
                            break
    # extra positional and keyword arguments: every evaluation, every n (n = 0 takes a separate code path), every method
    for n in (0, 1, 2, 3):
        for method in ('central', 'forward', 'complex', 'multicomplex'):
            if method == 'multicomplex' and n > 2:
                continue
            seen = []

            def g(x, a, b=0.0):
                seen.append((a, b))
                return a * x * x + b * x
            def right(s):
                try:
                    return np.ndim(s[0]) == 0 and np.ndim(s[1]) == 0 and float(s[0]) == 3.0 and float(s[1]) == 5.0
                except Exception:   # noqa
                    return False
            how = {'n': n, 'method': method, 'how': 'def g(x, a, b=0.0): ...; nd.Derivative(g, n=n, method=method)(np.array([1., 2.]), 3.0, b=5.0)'}
            try:
                val = nd.Derivative(g, n=n, method=method)(np.array([1.0, 2.0]), 3.0, b=5.0)
            except Exception as ex:   # noqa
                ctx.violation('args:n=%d' % n, 'nd.Derivative(g, n=%d, method=%r)(x, 3.0, b=5.0) raises %r; g received (a, b) = %r' % (n, method, ex, [repr(s)[:80] for s in seen if not right(s)][:2]), how)
                continue
            ctx.count(1, ('search', 'args', n, method))
            if not seen or not all(right(s) for s in seen):
                ctx.violation('args:n=%d' % n, 'nd.Derivative(g, n=%d, method=%r)(x, 3.0, b=5.0): g received (a, b) = %r on some evaluation (expected (3.0, 5.0) on every one)' % (
                    n, method, [repr(s)[:80] for s in seen if not right(s)][:2]), how)
            elif n >= 1 and not np.allclose(val, {1: 6.0 * np.array([1.0, 2.0]) + 5.0, 2: 6.0 * np.ones(2), 3: np.zeros(2)}[n], rtol=1e-6, atol=1e-5):
                ctx.violation('args-value:n=%d' % n, 'nd.Derivative(g, n=%d, method=%r)(x, 3.0, b=5.0) = %r is not the derivative of 3 x^2 + 5 x' % (n, method, np.asarray(val).tolist()), how)
            elif n == 0 and not np.allclose(val, 3.0 * np.array([1.0, 4.0]) + 5.0 * np.array([1.0, 2.0])):
                ctx.violation('args-value:n=0', 'n = 0 does not return g(x, 3.0, b=5.0)', {'n': n, 'method': method})


def few_rows(ctx):
    """Configurations that leave FEW extrapolated estimates per element (long one-sided rules, high-order central rules): there the outlier
    penalty decides between neighbouring rows, so any dependence of the selection on how many OTHER elements are present shows.  Every
    element of a 60-element array is compared bit-for-bit with its evaluation alone (scalar) and inside a 2-element array."""
    import numdifftools as nd
    rng = ctx.rng(14)
    configs = [(m_, n_, o_) for m_ in ('forward', 'backward') for n_ in (3, 4, 5, 6) for o_ in (2, 4)] + [('central', 5, 6), ('central', 6, 6), ('central', 3, 8), ('central', 4, 8)]
    fsq = {'sqrt1px2': lambda x: np.sqrt(1.0 + x * x), 'rational': FUNCS['rational']}
    for ci, (method, n, order) in enumerate(configs):
        fname = sorted(fsq)[ci % 2]
        f = fsq[fname]
        x = rng.uniform(0.3, 2.5, size=60)
        d = nd.Derivative(f, n=n, method=method, order=order, full_output=True)
        try:
            v, info = d(x)
        except Exception:   # noqa  (reported by search / C11)
            continue
        for i in range(60):
            vs, infos = d(float(x[i]))
            v2, info2 = d(np.array([x[i], x[(i + 7) % 60]]))
            ctx.count(1, ('few-rows', method, n))
            if float(vs).hex() != float(v[i]).hex() or float(v2[0]).hex() != float(v[i]).hex():
                return ctx.violation('scalar-few-rows:%s' % method,
                                     'Derivative(%s, n=%d, order=%d, method=%r): element %d of a 60-element array is %r, alone it is %r, inside a 2-element array %r' % (
                                         fname, n, order, method, i, float(v[i]), float(vs), float(v2[0])),
                                     {'f': fname, 'n': n, 'order': order, 'method': method, 'x': x.tolist(), 'element': i,
                                      'how': 'd = nd.Derivative(f, n=n, method=method, order=order); d(x)[i] vs d(x[i]) vs d(np.array([x[i], x[(i+7) % 60]]))[0], compared with float.hex'})
    # complex-step methods with an exact zero among ordinary elements (the Bicomplex power has a separate branch for elements whose complex
    # modulus vanishes): an element's result, NaN-ness included, must not depend on its neighbours
    for method, n in (('multicomplex', 2), ('multicomplex', 1), ('complex', 1)):
        for fname2, f2 in (('x**2.5', lambda x: x ** 2.5), ('x**1.5 + x', lambda x: x ** 1.5 + x)):
            d = nd.Derivative(f2, n=n, method=method, full_output=True)
            for xa in (np.array([0.0, 1.269, 2.435]), np.array([1.5, 0.0]), np.array([[0.7, 0.0], [0.0, 2.0]])):
                try:
                    with np.errstate(all='ignore'), warnings.catch_warnings():
                        warnings.simplefilter('ignore')
                        v, info = d(xa)
                        alone = [d(float(t))[0] for t in np.ravel(xa)]
                except Exception:   # noqa
                    continue
                ctx.count(1, ('zero-among-elements', method, n))
                va = np.ravel(v)
                ea = np.ravel(info.error_estimate)
                for i in range(va.size):
                    a_, b_ = complex(va[i]), complex(np.ravel(alone[i])[0])
                    same = (np.isnan(a_) and np.isnan(b_)) or abs(a_ - b_) <= 10 * abs(ea[i]) + 1e-9 * (1 + abs(b_))
                    if not same:
                        return ctx.violation('scalar-zero-element:%s' % method,
                                             'Derivative(lambda x: %s, n=%d, method=%r): element %d (x = %r) of the array call %r is %r, alone it is %r' % (
                                                 fname2, n, method, i, float(np.ravel(xa)[i]), xa.tolist(), va[i], np.ravel(alone[i])[0]),
                                             {'f': fname2, 'n': n, 'method': method, 'x': xa.tolist(), 'element': i})
    # a boundary NUMBER of steps (rule length + 1, + 2, + 3): with exactly two extrapolated rows the Richardson error estimates (not dea3's)
    # decide the selection; neighbours of very different magnitude must not enter an element's tolerances
    quintic = lambda x: x * x * x * x * x + x * x      # noqa  (multiplications only: identical bits for scalars and arrays)
    xs = np.array([0.75, 1.0e3, 0.5, 40.0, 1.0e6, 2.0, 8.6e16, 3.0e14])       # (the default steps vanish next to the largest elements: x + h == x)
    for method, n, order in (('central', 1, 2), ('forward', 1, 2), ('backward', 1, 2), ('forward', 2, 2), ('central', 3, 4), ('forward', 1, 4), ('central', 2, 2)):
        for num_steps in range(2, 10):
            d = nd.Derivative(quintic, n=n, method=method, order=order, num_steps=num_steps, full_output=True)
            try:
                v, info = d(xs)
            except Exception:   # noqa  (too few steps for the rule: C11)
                continue
            for i in range(xs.size):
                vs, infos = d(float(xs[i]))
                ctx.count(1, ('boundary-steps', method, n))
                if float(vs).hex() != float(v[i]).hex() or float(np.ravel(infos.error_estimate)[0]).hex() != float(np.ravel(info.error_estimate)[i]).hex():
                    return ctx.violation('scalar-boundary-steps:%s' % method,
                                         'Derivative(x**5 + x**2, n=%d, order=%d, method=%r, num_steps=%d): element %d (x = %r) of the array call is %r +- %r, alone it is %r +- %r' % (
                                             n, order, method, num_steps, i, float(xs[i]), float(v[i]), float(np.ravel(info.error_estimate)[i]), float(vs), float(np.ravel(infos.error_estimate)[0])),
                                         {'n': n, 'order': order, 'method': method, 'num_steps': num_steps, 'x': xs.tolist(), 'element': i,
                                          'how': 'd = nd.Derivative(lambda x: x*x*x*x*x + x*x, n=n, method=method, order=order, num_steps=num_steps, full_output=True); d(x)[0][i] vs d(x[i])[0], float.hex'})
    return False


def run(ctx):
    import numdifftools as nd
    proof_stage(ctx, 'Props/C08.v')
    rng = ctx.rng(1)
    cases, descs = [], []
    skipped = {}
    for k in range(ctx.n(160, 1600)):
        fname = list(FUNCS)[k % len(FUNCS)]
        method = str(rng.choice(['central', 'forward', 'backward', 'complex', 'multicomplex']))
        n = int(rng.integers(1, 5)) if method != 'multicomplex' else int(rng.integers(1, 3))
        order = int(rng.choice([1, 2, 3, 4, 6]))
        shape = SHAPES[k % len(SHAPES)] if not (k % 40 == 39) else (40,)
        x = rand_x(rng, shape)
        d = nd.Derivative(FUNCS[fname], n=n, method=method, order=order, full_output=True)
        try:
            val, info, rec = pipe.capture_call(d, x)
        except Exception as ex:   # noqa
            ctx.brk('correspondence', 'Derivative raised %r on an array input' % (ex,), {'f': fname, 'x': np.asarray(x).tolist(), 'n': n, 'order': order, 'method': method})
            continue
        if np.shape(val) != tuple(shape):
            ctx.violation('shape', 'Derivative returns shape %r for x of shape %r' % (np.shape(val), shape), {'f': fname, 'shape': list(shape), 'method': method, 'n': n})
        bad = pipe.context_certificate(rec)
        if bad:
            ctx.brk('oracle-certificate', 'Derivative on an array: ' + bad, {})
        cs, why = pipe.column_cases(val, info, rec)
        if why:
            skipped[why] = skipped.get(why, 0) + 1
            continue
        for c, cc in enumerate(cs):
            cases.append(cc)
            descs.append({'f': fname, 'n': n, 'order': order, 'method': method, 'shape': list(shape), 'x': np.asarray(x).tolist(), 'element': c,
                          'value': hexes(val)[c], 'error_estimate': hexes(info.error_estimate)[c]})
        ctx.count(1, ('array', method, len(shape), min(int(np.size(x)), 6)))
        if k < 2:
            ctx.sample({'f': fname, 'n': n, 'order': order, 'method': method, 'x': np.asarray(x).tolist(), 'value': np.asarray(val).tolist()})
    items = [('C08_%d' % s, pipe.HDR + 'Definition cases := [\n' + ';\n'.join(cases[s:s + 150]) + '].\nEval vm_compute in (List.length cases, failing okP cases).\n')
             for s in range(0, len(cases), 150)]
    res = coq_eval_many(items)
    nbad = 0
    for name, (rc, out) in sorted(res.items()):
        s = int(name.split('_')[1])
        pr = parse_count_fail(out)
        if rc != 0 or pr is None:
            ctx.brk('correspondence', 'case file %s could not be evaluated' % name, out[-1500:])
            continue
        for i in pr[1]:
            nbad += 1
            if nbad <= 5:
                ctx.brk('correspondence', 'an element of an array result differs bit-for-bit from the per-column model (Model/ArrayCall.v / Pipeline.v) fed that column only', descs[s + i])
    ctx.cov['traces_validated_against_impl'] = len(cases)
    ctx.cov['correspondence_disagreements'] = nbad
    ctx.cov['skipped'] = skipped
    search(ctx, ctx.n(60, 600))
    few_rows(ctx)
    ctx.assumptions += ['the difference quotients, the rule rows (pinv) and h**n are recorded from the run (stencils are the subject of C05/C06); the model covers everything after them: rule application, Richardson, dea3, outlier penalty, arg-min, gather',
                        'columns containing NaN/inf difference quotients are not compared with the model (counted under skipped) but are exercised by the property-level search']
    return ctx.finish(level='proof', checker_cmd='make -C coq Props/C08.vo + coqc build/cases/C08_*.v',
                      rule='5 exactly rounded functions x 5 methods x n,order x 10 shapes (0..3 axes, up to 40 elements): every element compared with the one-column model; property-level: replace the other elements, evaluate one element alone, NaN element, extra arguments; '
                           'distinct = (kind, method, rank, size class) combinations hit')
