"""C13 - dea3 recovers the limit of a geometric transient and never produces garbage."""
import warnings
from fractions import Fraction

import numpy as np

from .core import blit, coq_eval_many, flist, flit, parse_count_fail, proof_stage

HDR = '''Require Import NDT.Arith.Ops NDT.Arith.OpsFloat NDT.Model.Dea3.
From Coq Require Import PrimFloat List Bool. Import ListNotations.
Definition THR := 0x1.a36e2eb1c432dp-14%float.
Definition ok (c : bool * list float * list float * list float * list float * list float) : bool :=
  let '(sym, u, v, w, r, e) := c in
  let '(r', e') := dea3 OpsF THR sym u v w in leqf r r' && leqf e e'.
'''

SPECIAL = [0.0, -0.0, np.inf, -np.inf, np.nan, 1e308, -1e308, 5e-324, 1.0, 2.2250738585072014e-308, 1e-300]


def gen_triple(rng, kind):
    if kind == 0:      # geometric transient over 30 orders of magnitude
        L = rng.normal() * 10.0 ** rng.integers(-15, 16)
        a = rng.normal() * 10.0 ** rng.integers(-15, 16)
        q = rng.uniform(-50, 50)
        return [L + a * q ** i for i in range(3)]
    if kind == 1:
        return list(rng.normal(size=3))
    if kind == 2:      # small integers: ties, zeros, constants
        return [float(v) for v in rng.integers(0, 3, size=3)]
    if kind == 3:      # ties within a few ulp
        b = rng.normal()
        return [b, b * (1 + 2.2e-16 * rng.integers(-3, 4)), b * (1 + 2.2e-16 * rng.integers(-3, 4))]
    if kind == 4:
        return [float(rng.choice(SPECIAL)) for _ in range(3)]
    # near the irregular-behaviour guard |sss*e1| ~ 1e-4
    e1 = rng.normal()
    d = abs(e1) * 10.0 ** rng.uniform(3.5, 4.5)
    return [e1 - d, e1, e1 + d * rng.uniform(0.9, 1.1) * rng.choice([-1, 1])]


def branch_tag(e):
    e0, e1, e2 = e
    with np.errstate(all='ignore'):
        d2, d1 = e2 - e1, e1 - e0
        t = []
        if not np.isfinite(e).all():
            return 'nonfinite'
        if abs(d1) < 2.2250738585072014e-308:
            t.append('tiny1')
        if abs(d2) < 2.2250738585072014e-308:
            t.append('tiny2')
        if abs(d1) <= max(abs(e1), abs(e0)) * 2.0 ** -52:
            t.append('conv1')
        if abs(d2) <= max(abs(e2), abs(e1)) * 2.0 ** -52:
            t.append('conv2')
        if not t:
            sss = 1.0 / d2 - 1.0 / d1 + 2.2250738585072014e-308
            t.append('small' if abs(sss * e1) <= 1e-4 else 'extrapolated')
    return '+'.join(t)


def search(ctx, N):
    """Property-level sweep on the implementation alone, exact rationals as oracle."""
    from numdifftools.extrapolation import dea3
    rng = ctx.rng(99)
    u = Fraction(1, 2 ** 53)
    found = 0
    for k in range(N):
        L = float(rng.normal() * 10.0 ** rng.integers(-10, 11))
        a = float(rng.normal() * 10.0 ** rng.integers(-10, 11))
        if k % 5 == 3:      # the whole sequence of tiny or huge magnitude (differences far below eps in absolute terms, not relatively)
            sc = 10.0 ** float(rng.choice([-60, -30, -18, -15, 15, 30]))
            L, a = float(rng.normal()) * sc * float(rng.choice([0.0, 1.0])), float(rng.normal() or 1.0) * sc
        q = float(rng.uniform(-50, 50))
        if abs(q) < 0.05 or abs(q - 1) < 0.05 or a == 0:
            continue
        if k % 4 == 1:      # one term exactly or nearly zero: L = -a q^j
            j = int(rng.integers(0, 3))
            L = float(-Fraction(a) * Fraction(q) ** j) * (1.0 if k % 8 == 1 else 1 + 1e-9)
            if abs(q) > 8:
                q = float(rng.uniform(-3, 3)) or 0.5
                if abs(q) < 0.05 or abs(q - 1) < 0.05:
                    continue
        if k % 4 == 2:      # small integers
            L, a, q = float(rng.integers(-5, 6)), float(rng.integers(1, 6)) * float(rng.choice([-1, 1])), float(rng.choice([-3, -2, 2, 3, 0.5, -0.5]))
        e = [float(Fraction(L) + Fraction(a) * Fraction(q) ** i) for i in range(3)]   # correctly rounded terms
        with warnings.catch_warnings():
            warnings.simplefilter('ignore')
            r, ab = dea3(*e)
        r, ab = float(r[0]), float(ab[0])
        ctx.count(1)
        if not (np.isfinite(r) and np.isfinite(ab) and ab >= 0):
            if ctx.violation('garbage:%r' % (e,), 'dea3%r returns (%r, %r): not finite / negative error' % (tuple(e), r, ab), {'input': e, 'result': r, 'abserr': ab}):
                found += 1
            continue
        E = [Fraction(x) for x in e]
        d1, d2 = E[1] - E[0], E[2] - E[1]
        if d1 == 0 or d2 == 0 or d1 == d2:
            continue
        tag = branch_tag(e)
        if tag != 'extrapolated':
            continue
        # exact Shanks value of the three rounded terms and its conditioning
        s = 1 / d2 - 1 / d1
        exact = E[1] + 1 / s
        # first-order sensitivity of the Shanks formula to rounding of the terms and of each operation
        mag = max(abs(x) for x in E)
        cond = abs(1 / s) * (abs(1 / d2) * (mag / abs(d2)) + abs(1 / d1) * (mag / abs(d1))) / abs(s) + mag + abs(1 / s)
        bound = 64 * u * cond
        err = abs(Fraction(r) - exact)
        if err > bound:
            if ctx.violation('recovery:%r' % (e,), 'dea3%r = %r but the exact three-term Shanks value is %r (error %.3g > conditioning bound %.3g)' % (
                    tuple(e), r, float(exact), float(err), float(bound)), {'input': e, 'result': r, 'exact': float(exact), 'bound': float(bound)}):
                found += 1
        # error estimate not smaller than the true error (w.r.t. L) beyond that rounding
        true_err = abs(Fraction(r) - Fraction(L))
        # the terms themselves were rounded: L is recovered only up to cond * u
        if Fraction(ab) + 4 * bound < true_err:
            if ctx.violation('honesty:%r' % (e,), 'dea3%r: abserr %r < true error %.3g' % (tuple(e), ab, float(true_err)), {'input': e, 'L': L, 'result': r, 'abserr': ab}):
                found += 1
        if found >= 3:
            return
    # array inputs are treated elementwise, and symmetric=True only trims: the last result and the first error estimate are dropped
    for k in range(max(20, N // 20)):
        m = int(rng.integers(2, 9))
        shape = (m,) if k % 3 else (m, 3)
        Ls, As, Qs = rng.uniform(-5, 5, size=shape), rng.uniform(0.5, 3, size=shape) * rng.choice([-1, 1], size=shape), rng.uniform(0.2, 0.8, size=shape) * rng.choice([-1, 1], size=shape)
        if k % 2:
            # very different magnitudes inside one array (per element): an element's tolerances must come from its own three terms
            mag = 10.0 ** rng.integers(-6, 13, size=shape)
            Ls, As = Ls * mag, As * mag * 10.0 ** rng.integers(-6, 1, size=shape)
        e = [Ls + As * Qs ** i for i in range(3)]
        with warnings.catch_warnings():
            warnings.simplefilter('ignore')
            r0, a0 = dea3(*e)
            r1, a1 = dea3(*e, symmetric=True)
            rs = np.array([float(dea3(float(x), float(y), float(z))[0][0]) for x, y, z in zip(np.ravel(e[0]), np.ravel(e[1]), np.ravel(e[2]))]).reshape(shape)
        ctx.count(1)
        desc = {'e0': np.asarray(e[0]).tolist(), 'e1': np.asarray(e[1]).tolist(), 'e2': np.asarray(e[2]).tolist()}
        if np.shape(r0) != shape or not np.array_equal(np.asarray(r0), rs):
            if ctx.violation('elementwise', 'dea3 on arrays of shape %r: element results differ from the scalar calls' % (shape,), desc):
                found += 1
        if not (np.array_equal(np.asarray(r1), np.asarray(r0)[:-1]) and np.array_equal(np.asarray(a1), np.asarray(a0)[1:])):
            if ctx.violation('symmetric-trim', 'dea3(e0, e1, e2, symmetric=True) on arrays of shape %r is not (result[:-1], abserr[1:]) of the untrimmed call: element k of the result is no longer the limit of sequence k' % (shape,),
                             dict(desc, result_symmetric=np.asarray(r1).tolist(), result=np.asarray(r0).tolist())):
                found += 1
    # mixed scalar / array arguments and rows against 2-d arrays are broadcast: the result has the broadcast shape and every element is the scalar
    # call on the corresponding triple (one position is an exact tie e0 = e1 = e2, i.e. the converged branch, at an index above 0)
    for k in range(12):
        m = int(rng.integers(3, 7))
        s = float(rng.uniform(0.5, 2.0))
        a0, a1, a2 = [rng.uniform(-3, 3, size=m) for _ in range(3)]
        for arr in (a0, a1, a2):
            arr[1] = s
        b0, b1 = rng.uniform(-3, 3, size=(2, m)), rng.uniform(-3, 3, size=(2, m))
        row = rng.uniform(-3, 3, size=m)
        b0[1, 2] = b1[1, 2] = row[2]
        args = [(a0, a1, s), (s, a1, a2), (a0, s, a2), (a0, s, s), (b0, b1, row), (row, b0, b1), (b0, row, b1)][k % 7]
        try:
            with warnings.catch_warnings():
                warnings.simplefilter('ignore')
                r, ab = dea3(*args)
                full = np.broadcast_arrays(*[np.asarray(v, dtype=float) for v in args])
                rs = np.array([float(dea3(float(x), float(y), float(z))[0][0]) for x, y, z in zip(*[np.ravel(v) for v in full])]).reshape(full[0].shape)
        except Exception as ex:   # noqa
            if ctx.violation('raises:broadcast', 'dea3 raises %r for mixed scalar / array arguments of shapes %r' % (ex, [np.shape(v) for v in args]), {'args': [np.asarray(v).tolist() for v in args]}):
                found += 1
            continue
        ctx.count(1, ('broadcast', k % 7))
        if np.shape(r) != full[0].shape or not np.array_equal(np.asarray(r), rs):
            if ctx.violation('elementwise:broadcast', 'dea3 with arguments of shapes %r: the result is not the elementwise result on the broadcast arguments' % ([np.shape(v) for v in args],), {'args': [np.asarray(v).tolist() for v in args]}):
                found += 1
    # moderate finite inputs: finite, non-negative, no exception, inputs unmodified
    for k in range(N):
        e = [np.array(gen_triple(rng, int(rng.integers(0, 4)))[i:i + 1]) for i in range(3)]
        if not all(np.isfinite(x).all() and abs(x[0]) < 1e100 for x in e):
            continue
        keep = [x.copy() for x in e]
        try:
            with warnings.catch_warnings():
                warnings.simplefilter('ignore')
                r, ab = dea3(*e)
        except Exception as ex:   # noqa
            ctx.violation('raises:%r' % ([float(x[0]) for x in keep],), 'dea3 raises %r' % (ex,), {'input': [float(x[0]) for x in keep]})
            return
        ctx.count(1)
        if not (np.isfinite(r).all() and np.isfinite(ab).all() and (ab >= 0).all()):
            if ctx.violation('garbage:%r' % ([float(x[0]) for x in keep],), 'dea3 returns non-finite / negative error for moderate finite input', {'input': [float(x[0]) for x in keep], 'result': r.tolist(), 'abserr': ab.tolist()}):
                return
        if not all(np.array_equal(x, y) for x, y in zip(e, keep)):
            ctx.violation('mutates-input', 'dea3 modified its input arrays', {'input': [float(x[0]) for x in keep]})
            return


def run(ctx):
    from numdifftools.extrapolation import dea3
    proof_stage(ctx, 'Props/C13.v')
    rng = ctx.rng(1)
    N = ctx.n(3000, 40000)
    cases, descs = [], []
    mutated = 0
    for k in range(N):
        ln = 1 if k % 3 else int(rng.integers(1, 7))
        sym = bool(k % 3 == 0 and rng.random() < 0.5)
        tri = [gen_triple(rng, int(rng.integers(0, 6))) for _ in range(ln)]
        shape = (ln,) if ln not in (4, 6) or rng.random() < 0.5 else (2, ln // 2)
        u, v, w = [np.array([t[j] for t in tri]).reshape(shape) for j in range(3)]
        if ln == 1 and rng.random() < 0.5:
            u, v, w = float(u[0]), float(v[0]), float(w[0])       # python scalars
        keep = [np.array(x, copy=True) for x in (u, v, w)]
        with warnings.catch_warnings():
            warnings.simplefilter('ignore')
            try:
                r, ab = dea3(u, v, w, symmetric=sym)
                raised = None
            except Exception as ex:  # noqa
                raised = ex
        if raised is not None:
            ctx.brk('correspondence', 'dea3 raised %r' % (raised,), {'input': [np.ravel(x).tolist() for x in keep], 'symmetric': sym})
            continue
        if not all(np.array_equal(np.asarray(x), y, equal_nan=True) for x, y in zip((u, v, w), keep)):
            mutated += 1
            ctx.brk('correspondence', 'dea3 modified its inputs', {'input': [np.ravel(x).tolist() for x in keep]})
        if np.ndim(keep[0]) == 2:
            # 2-d arrays: symmetric trims along axis 0 (rows); the flat model applies to the unsymmetric call only
            if sym:
                r0, a0 = dea3(u, v, w, symmetric=False)
                if not (np.array_equal(r, r0[:-1], equal_nan=True) and np.array_equal(ab, a0[1:], equal_nan=True)):
                    ctx.brk('correspondence', 'symmetric=True does more than trimming on a 2-d input', {'input': [x.tolist() for x in keep]})
                r, ab, sym = r0, a0, False
        cases.append('(%s, %s, %s, %s, %s, %s)' % (blit(sym), flist(np.ravel(keep[0])), flist(np.ravel(keep[1])), flist(np.ravel(keep[2])),
                                                 flist(np.ravel(r)), flist(np.ravel(ab))))
        desc = {'v0': np.ravel(keep[0]).tolist(), 'v1': np.ravel(keep[1]).tolist(), 'v2': np.ravel(keep[2]).tolist(), 'symmetric': sym,
                'result': np.ravel(r).tolist(), 'abserr': np.ravel(ab).tolist()}
        descs.append(desc)
        for t in tri:
            ctx.count(1, (branch_tag(t), sym, min(ln, 2)))
        if len(ctx.cov['samples']) < 4 and k % 7 == 0:
            ctx.sample(desc)
    items = []
    for s in range(0, len(cases), 500):
        items.append(('C13_%d' % s, HDR + 'Definition cases := [\n' + ';\n'.join(cases[s:s + 500]) + '].\nEval vm_compute in (List.length cases, failing ok cases).\n'))
    res = coq_eval_many(items)
    nbad = 0
    for name, (rc, out) in sorted(res.items()):
        s = int(name.split('_')[1])
        pr = parse_count_fail(out)
        if rc != 0 or pr is None:
            ctx.brk('correspondence', 'case file %s could not be evaluated' % name, out[-1500:])
            continue
        for i in pr[1]:
            nbad += 1
            if nbad <= 5:
                ctx.brk('correspondence', 'dea3 disagrees bit-for-bit with Model/Dea3.v', descs[s + i])
    ctx.cov['traces_validated_against_impl'] = len(cases)
    ctx.cov['correspondence_disagreements'] = nbad
    search(ctx, ctx.n(3000, 30000) if (ctx.broken or ctx.thorough) else 400)
    ctx.assumptions += ['theorems are about exact real arithmetic with EPS, TINY >= 0 as parameters; binary64 behaviour is tied bit-exactly but the rounding clause itself is explored (sweep with exact-rational oracle), not proved',
                        '"leaves its inputs unmodified" and "raises nothing" are observed by the harness (a pure model cannot express aliasing)']
    return ctx.finish(level='proof', checker_cmd='make -C coq Props/C13.vo + coqc build/cases/C13_*.v',
                      rule='triples from 6 generators (geometric over 30 decades, normal, small integers, ulp-ties, specials incl. nan/inf/subnormal, near the 1e-4 guard), scalars/1-d/2-d, symmetric both ways; '
                           'distinct = (branch of the kernel, symmetric, scalar-or-array) combinations hit')
