"""C02 - reported error estimate is honest; full_output record is self-consistent (partial)."""
import math
import warnings

import numpy as np

from . import exprs, pipe
from .core import coq_eval_many, flist, parse_count_fail, proof_stage

K_HONEST = 1e4          # true error <= K * error_estimate + FLOOR * local scale  (calibrated: worst observed ratio 3.6e2)
FLOOR = 1e-9
# rounding floor of an n-th difference quotient relative to the local scale: eps |f| / h^n grows with n (a function that is constant to
# rounding, e.g. tanh(4 x^2) at x = 2.3, legitimately returns 0 with estimate 0 for a derivative of 3e-9)
FLOOR_N = {1: 1e-9, 2: 1e-9, 3: 1e-9, 4: 1e-8, 5: 1e-7, 6: 1e-6}


def vec_family(rng, dim):
    """f = exp(a.x) + sin(b.x) + x'Qx/2 with analytic gradient and Hessian."""
    a = rng.uniform(-0.6, 0.6, size=dim)
    b = rng.uniform(-1.0, 1.0, size=dim)
    Q = rng.normal(size=(dim, dim))
    Q = (Q + Q.T) / 2

    def f(x):
        return np.exp(np.dot(a, x)) + np.sin(np.dot(b, x)) + 0.5 * np.dot(x, np.dot(Q, x))

    def grad(x):
        return a * np.exp(np.dot(a, x)) + b * np.cos(np.dot(b, x)) + np.dot(Q, x)

    def hess(x):
        return np.outer(a, a) * np.exp(np.dot(a, x)) - np.outer(b, b) * np.sin(np.dot(b, x)) + Q
    return f, grad, hess, {'a': a.tolist(), 'b': b.tolist(), 'Q': Q.tolist()}


def record_checks(ctx, what, desc, val, info, fval_expected, steps_range):
    """Self-consistency of one full_output record.  Returns False when a violation was reported."""
    ok = True
    v = np.asarray(val)
    ee = np.asarray(info.error_estimate)
    fs = np.asarray(info.final_step)

    def bad(key, msg):
        nonlocal ok
        ok = False
        ctx.violation('record:%s:%s' % (key, desc.get('class')), '%s: %s' % (what, msg), desc)
    if fval_expected is not None:
        fv = np.asarray(info.f_value)
        if fv.shape != np.shape(fval_expected) or not np.array_equal(fv, fval_expected, equal_nan=True):
            bad('f_value', 'f_value %r differs from f(x) %r' % (np.ravel(fv)[:3].tolist(), np.ravel(fval_expected)[:3].tolist()))
    if ee.size != v.size or fs.size != v.size:
        bad('sizes', 'error_estimate has %d and final_step %d entries for a result with %d entries' % (ee.size, fs.size, v.size))
        return ok
    try:
        np.broadcast_shapes(ee.shape, v.shape)
        np.broadcast_shapes(fs.shape, v.shape)
    except ValueError:
        bad('broadcast', 'error_estimate %r / final_step %r not broadcast-compatible with the result %r' % (ee.shape, fs.shape, v.shape))
    fin = np.isfinite(np.ravel(v))
    e1 = np.ravel(ee)
    if np.iscomplexobj(e1) or not (np.all(e1[fin] >= 0) and np.all(np.isfinite(e1[fin]))):
        bad('estimate', 'error_estimate %r is negative / non-finite / complex where the result is finite' % (e1[fin][:3].tolist(),))
    if steps_range is not None:
        lo, hi = steps_range
        s1 = np.abs(np.ravel(fs))
        if not np.all((s1 >= lo * (1 - 1e-12)) & (s1 <= hi * (1 + 1e-12))):
            bad('final_step', 'final_step %r outside the range of the generated steps [%r, %r]' % (np.ravel(fs)[:3].tolist(), lo, hi))
    return ok


def steps_of(d, x):
    sg = d.step.step_generator_function(np.asarray(x), d.method, d.n, d.method_order)
    st = [np.abs(np.asarray(s, dtype=float)) for s in sg()]
    return float(min(np.min(s) for s in st)), float(max(np.max(s) for s in st))


def domain_ok(f, x0, d):
    """f is finite on x0 +- the largest generated step (real-step methods only need this much of the domain)."""
    try:
        lo, hi = steps_of(d, x0)
        pts = [x0 + hi, x0 - hi, x0 + 2 * hi, x0 - 2 * hi]
        return all(np.isfinite(f(np.asarray(p))) for p in pts)
    except Exception:   # noqa
        return False


def honesty_sweep(ctx, N):
    import numdifftools as nd
    m = exprs.mp()
    rng = ctx.rng(41)
    done = tries = 0
    while done < N and tries < 40 * N:
        tries += 1
        e = exprs.gen(rng, int(rng.integers(1, 4)))
        if not exprs.has_x(e):
            continue
        x0 = float(rng.choice([-1, 1]) * 10.0 ** rng.uniform(-2.0, 0.6))
        try:
            if not exprs.well_defined(m, e, x0, radius=0.3 * max(1.0, abs(x0))):
                continue
            D = exprs.derivs(m, e, x0, 8)
        except Exception:   # noqa
            continue
        if float(max(abs(d) for d in D[1:])) < 1e-6:
            continue                      # (numerically) constant: x/x, x - x, ...
        done += 1
        S = max(float(max(abs(d) for d in D)), 1e-300)
        src = exprs.show(e)

        def f(x, e=e):
            return exprs.ev_np(e, x)
        for method in ('central', 'forward', 'backward', 'complex', 'multicomplex'):
            for n in range(1, 3 if method == 'multicomplex' else 7):
                order = int(rng.choice([2, 4]))
                try:
                    got, info, rec = pipe.capture_call(nd.Derivative(f, n=n, method=method, order=order, full_output=True), x0)
                except Exception:   # noqa  (C01 reports exceptions)
                    continue
                single = 'ex_results' in rec and np.shape(rec['ex_results'])[0] == 1     # one Richardson estimate only: see the recorded finding
                if not np.isfinite(float(got)) and not domain_ok(f, x0, nd.Derivative(f, n=n, method=method, order=order)):
                    continue          # the real-step stencil leaves the domain of f (NaN evaluations): not an accuracy statement
                ctx.count(1, ('honesty', method, n))
                err = abs(float(got) - float(D[n]))
                est = float(np.ravel(info.error_estimate)[0])
                if not err <= K_HONEST * est + FLOOR_N[n] * S:
                    inv_trig = method == 'multicomplex' and n == 2 and any(t in src for t in ('arcsin', 'arccos', 'arctan('))
                    ctx.violation('honesty:single-estimate' if single else 'honesty:%s:%d%s' % (method, n, ':inverse-trig' if inv_trig else ''),
                                  'nd.Derivative(lambda x: %s, n=%d, method=%r, order=%d, full_output=True)(%r): true error %.3g but error_estimate %.3g (local scale %.3g)%s' % (
                                      src, n, method, order, x0, err, est, S, ' [single estimate]' if single else ''),
                                  {'f': src, 'x': x0, 'n': n, 'method': method, 'order': order, 'value': float(got), 'exact': float(D[n]), 'error_estimate': est, 'local_scale': S})
                # the same with a user-supplied generator left at its defaults (base step from default_scale, no spare steps)
                if method != 'multicomplex' and (done + n) % 2 == 0:
                    order2 = int(rng.choice([1, 2, 3, 4, 6, 8]))
                    try:
                        dmin = nd.Derivative(f, n=n, method=method, order=order2, step=nd.MinStepGenerator(), full_output=True)
                        # without spare steps every step is used: the stencil must stay inside the disc on which f was checked to be tame
                        if steps_of(dmin, x0)[1] > 0.3 * max(1.0, abs(x0)):
                            continue
                        got, info = dmin(x0)
                    except Exception:   # noqa
                        continue
                    if not np.isfinite(float(got)):
                        continue
                    ctx.count(1, ('honesty-min-default', method, n))
                    err = abs(float(got) - float(D[n]))
                    est = float(np.ravel(info.error_estimate)[0])
                    if not (np.isfinite(est) and est >= 0 and err <= K_HONEST * est + FLOOR_N[n] * S):
                        ctx.violation('honesty:single-estimate',
                                      'nd.Derivative(lambda x: %s, n=%d, method=%r, order=%d, step=nd.MinStepGenerator(), full_output=True)(%r): true error %.3g but error_estimate %.3g (local scale %.3g)' % (
                                          src, n, method, order2, x0, err, est, S),
                                      {'f': src, 'x': x0, 'n': n, 'method': method, 'order': order2, 'step': 'nd.MinStepGenerator()', 'value': float(got), 'exact': float(D[n]), 'error_estimate': est, 'local_scale': S})
    # Gradient / Jacobian / Hessdiag / Hessian on the analytic family
    for k in range(max(4, N // 2)):
        dim = int(rng.integers(1, 5))
        f, grad, hess, par = vec_family(rng, dim)
        x = rng.uniform(-1, 1, size=dim)
        S = float(max(np.max(np.abs(hess(x))), np.max(np.abs(grad(x))), abs(f(x)), 1.0))
        for cname, exact in (('Gradient', grad(x)), ('Hessdiag', np.diag(hess(x))), ('Hessian', hess(x)), ('Jacobian', grad(x)[None, :])):
            for method in ('central', 'forward', 'complex', 'multicomplex'):
                kw = {} if cname == 'Hessian' else {'order': int(rng.choice([2, 4]))}
                try:
                    got, info = getattr(nd, cname)(f, method=method, full_output=True, **kw)(x)
                except Exception as ex:   # noqa
                    ctx.violation('raises:%s:%s' % (cname, method), 'nd.%s(f, method=%r)(x) raises %r for f = exp(a.x)+sin(b.x)+x\'Qx/2' % (cname, method, ex), dict(par, x=x.tolist()))
                    continue
                ctx.count(1, ('honesty', cname, method))
                err = np.abs(np.asarray(got) - exact)
                est = np.broadcast_to(np.asarray(info.error_estimate).reshape(np.shape(err)) if np.size(info.error_estimate) == np.size(err) else np.asarray(info.error_estimate), np.shape(err))
                if not np.all(err <= K_HONEST * est + FLOOR * S * 100):
                    i = int(np.argmax(err - K_HONEST * est))
                    ctx.violation('honesty:%s:%s' % (cname, method), 'nd.%s(f, method=%r, full_output=True)(x): entry %d has true error %.3g but error_estimate %.3g' % (
                        cname, method, i, float(np.ravel(err)[i]), float(np.ravel(est)[i])), dict(par, x=x.tolist(), method=method, cls=cname))


def single_step_cases(ctx):
    """A single fixed step (one estimate, no extrapolation) at points where the wanted derivative VANISHES: the computed value is then pure
    truncation error (h f''/2 for the first-order one-sided rules), and the reported estimate -- (|value| eps + |step|) x 12.7 x |rule| for a
    single estimate -- must still cover it.  (Distinct from the recorded finding honesty:single-estimate, which is about large derivatives
    with the default step sequence; here the estimate of the unchanged code is conservative.)"""
    import numdifftools as nd
    cases = [('np.cos(x)', lambda x: np.cos(x), 0.0, 0.0, 1.0), ('(x-1)**2 + 0.3*(x-1)**3', lambda x: (x - 1) ** 2 + 0.3 * (x - 1) ** 3, 1.0, 0.0, 2.0),
             ('np.exp(x) - x', lambda x: np.exp(x) - x, 0.0, 0.0, 1.0), ('np.cosh(2*x)', lambda x: np.cosh(2 * x), 0.0, 0.0, 4.0)]
    for src, f, x0, exact, S in cases:
        for method, order in (('forward', 1), ('backward', 1), ('forward', 2), ('central', 2)):
            for h in (1e-3, 1e-5, 1e-6, 1e-7):
                for kw in ({'step': h}, {'step': nd.MinStepGenerator(base_step=h, num_steps=1)}):
                    try:
                        got, info = nd.Derivative(f, n=1, method=method, order=order, full_output=True, **kw)(x0)
                    except Exception:   # noqa
                        continue
                    ctx.count(1, ('honesty-single-step', method, order))
                    err, est = abs(float(got) - exact), float(np.ravel(info.error_estimate)[0])
                    if not (np.isfinite(est) and est >= 0 and err <= K_HONEST * est + FLOOR_N[1] * S):
                        return ctx.violation('honesty:single-step:zero-derivative',
                                             'nd.Derivative(lambda x: %s, n=1, method=%r, order=%d, step=%s, full_output=True)(%r): the derivative is 0, the value %.3g is truncation error, error_estimate %.3g' % (
                                                 src, method, order, 'h' if 'base_step' not in repr(kw) and not isinstance(kw['step'], object.__class__) else repr(h), x0, float(got), est),
                                             {'f': src, 'x': x0, 'method': method, 'order': order, 'h': h, 'step': 'scalar' if isinstance(kw['step'], float) else 'MinStepGenerator(base_step=h, num_steps=1)',
                                              'value': float(got), 'exact': exact, 'error_estimate': est})
    # gradient at an optimum: every component vanishes
    def ros(x):
        return (1 - x[0]) ** 2 + 10.0 * (x[1] - x[0] ** 2) ** 2
    for method, order in (('forward', 1), ('backward', 1), ('central', 2)):
        for h in (1e-4, 1e-6, 1e-7):
            try:
                got, info = nd.Gradient(ros, method=method, order=order, step=h, full_output=True)(np.array([1.0, 1.0]))
            except Exception:   # noqa
                continue
            ctx.count(1, ('honesty-single-step', 'Gradient', method))
            err = np.abs(np.ravel(got))
            est = np.ravel(np.broadcast_to(np.asarray(info.error_estimate).reshape(-1)[:2] if np.size(info.error_estimate) >= 2 else np.asarray(info.error_estimate), (2,)))
            if not np.all(err <= K_HONEST * est + FLOOR_N[1] * 100.0):
                return ctx.violation('honesty:single-step:zero-derivative',
                                     'nd.Gradient(rosenbrock-like, method=%r, order=%d, step=%r, full_output=True)([1, 1]): the gradient is 0, the values %r are truncation error, error_estimate %r' % (
                                         method, order, h, np.ravel(got).tolist(), est.tolist()),
                                     {'f': '(1-x0)**2 + 10 (x1-x0**2)**2', 'x': [1.0, 1.0], 'method': method, 'order': order, 'step': h, 'value': np.ravel(got).tolist(), 'error_estimate': est.tolist()})
    return False


def small_median_cases(ctx):
    """Estimates whose MEDIAN is tiny (a function with values of order 1e-9, or a point next to a stationary point) on a dyadic step ladder
    8, 4, ..., 2**-11 over a 1-periodic function: the estimates from the integer steps alias to exactly 0 and agree to the last bit -- a
    spurious 'converged' minority which only the inter-quartile outlier test removes.  The value returned must be the accurate one, with
    an estimate that covers its error (bound: K x estimate + 1e-6 x |exact derivative|)."""
    import numdifftools as nd
    two_pi = 2 * np.pi
    ladder = dict(step=2.0 ** -11, num_steps=15, step_ratio=2)
    amp = 1e-9
    z = np.array([0.1, 0.2])
    cases = [
        ('Derivative', 'sin(2 pi x) at 0.25 + 1e-10 (next to a stationary point)', lambda t: np.sin(two_pi * t), 0.25 + 1e-10, two_pi * np.cos(two_pi * (0.25 + 1e-10))),
        ('Derivative', '1e-9 sin(2 pi x) at 0.1', lambda t: amp * np.sin(two_pi * t), 0.1, amp * two_pi * np.cos(two_pi * 0.1)),
        ('Gradient', '1e-9 (sin(2 pi x) + cos(2 pi y)) at (0.1, 0.2)', lambda v: amp * (np.sin(two_pi * v[0]) + np.cos(two_pi * v[1])), z,
         amp * two_pi * np.array([np.cos(two_pi * z[0]), -np.sin(two_pi * z[1])])),
        ('Jacobian', '1e-9 (sin(2 pi x), cos(2 pi y)) at (0.1, 0.2)', lambda v: amp * np.array([np.sin(two_pi * v[0]) + 0.0 * v[1], np.cos(two_pi * v[1]) + 0.0 * v[0]]), z,
         amp * two_pi * np.array([[np.cos(two_pi * z[0]), 0.0], [0.0, -np.sin(two_pi * z[1])]])),
    ]
    # sharply localised and fast oscillating functions with the default steps, for BOTH signs of the derivative (the large default steps
    # give estimates collapsed to ~0 that agree with each other; only the outlier penalty keeps them from being selected)
    sg = 0.01
    loc = [('exp(-x**2/(2*0.01**2))', lambda t: np.exp(-t * t / (2 * sg * sg)), lambda t: -t / (sg * sg) * math.exp(-t * t / (2 * sg * sg))),
           ('-exp(-x**2/(2*0.01**2))', lambda t: -np.exp(-t * t / (2 * sg * sg)), lambda t: t / (sg * sg) * math.exp(-t * t / (2 * sg * sg))),
           ('np.sin(200*x)', lambda t: np.sin(200 * t), lambda t: 200 * math.cos(200 * t)),
           ('-np.sin(200*x)', lambda t: -np.sin(200 * t), lambda t: -200 * math.cos(200 * t)),
           # periods commensurate with the dyadic default steps 2, 1, 1/2, ...: every difference over the large steps vanishes up to rounding
           ('np.sin(8*np.pi*x)', lambda t: np.sin(8 * np.pi * t), lambda t: 8 * math.pi * math.cos(8 * math.pi * t)),
           ('np.sin(16*np.pi*x)', lambda t: np.sin(16 * np.pi * t), lambda t: 16 * math.pi * math.cos(16 * math.pi * t)),
           ('-np.sin(32*np.pi*x)', lambda t: -np.sin(32 * np.pi * t), lambda t: -32 * math.pi * math.cos(32 * math.pi * t))]
    for src, f, df in loc:
        for x0 in ((0.01, -0.01) if 'exp' in src else ((0.0, 0.3, -0.7) if 'pi' in src else (0.0,))):
            for method in (('central', 'forward', 'backward') if 'pi' in src else ('central', 'forward')):
                try:
                    with warnings.catch_warnings():
                        warnings.simplefilter('ignore')
                        got, info = nd.Derivative(f, method=method, full_output=True)(x0)
                except Exception:   # noqa
                    continue
                ctx.count(1, ('honesty-localised', method))
                exact = df(x0)
                err, est = abs(float(got) - exact), float(np.ravel(info.error_estimate)[0])
                if not (np.isfinite(est) and err <= K_HONEST * est + 1e-6 * abs(exact)):
                    return ctx.violation('honesty:localised:%s' % method,
                                         'nd.Derivative(lambda x: %s, method=%r, full_output=True)(%r) = %r with error_estimate %r, exact %r' % (src, method, x0, float(got), est, exact),
                                         {'f': src, 'x': x0, 'method': method, 'value': float(got), 'error_estimate': est, 'exact': exact})
    for cname, what, f, x, exact in cases:
        try:
            with warnings.catch_warnings():
                warnings.simplefilter('ignore')
                got, info = getattr(nd, cname)(f, full_output=True, **ladder)(x)
        except Exception:   # noqa
            continue
        ctx.count(1, ('honesty-small-median', cname))
        err = np.abs(np.asarray(got, dtype=float) - np.asarray(exact, dtype=float))
        est = np.asarray(info.error_estimate, dtype=float)
        est = np.broadcast_to(est.reshape(np.shape(err)) if est.size == err.size else est, np.shape(err))
        tol = K_HONEST * est + 1e-6 * np.max(np.abs(exact))
        if not np.all(err <= tol):
            i = int(np.argmax(err - tol))
            return ctx.violation('honesty:small-median:%s' % cname,
                                 'nd.%s(%s, step=2**-11, num_steps=15, step_ratio=2, full_output=True): returned %r with error_estimate %r, exact %r (the estimates built from the integer steps are exactly 0: a spurious converged group)' % (
                                     cname, what, float(np.ravel(got)[i]), float(np.ravel(est)[i]), float(np.ravel(exact)[i])),
                                 {'class': cname, 'f': what, 'x': np.asarray(x).tolist(), 'options': {'step': 2.0 ** -11, 'num_steps': 15, 'step_ratio': 2},
                                  'value': np.asarray(got).tolist(), 'error_estimate': np.asarray(est).tolist(), 'exact': np.asarray(exact).tolist()})
    return False


def nan_inside_cases(ctx):
    """one stencil point of one trial step (not the largest) hits a removable singularity exactly: the estimates contain NaN in the
    middle of the step sequence.  The result is finite, so its error estimate must be finite, non-negative and honest."""
    import numdifftools as nd
    sinc = lambda t: np.sin(t) / t                                        # noqa
    d1 = lambda t: (t * np.cos(t) - np.sin(t)) / t ** 2                    # noqa
    d2 = lambda t: (-(t * t - 2) * np.sin(t) - 2 * t * np.cos(t)) / t ** 3  # noqa
    hits = 0
    for k in range(3, 9):
        x0 = 2.0 ** -k
        for method in ('central', 'forward', 'backward'):
            for n, exact in ((1, d1(x0)), (2, d2(x0))):
                seen = []

                def f(t):
                    v = sinc(t)
                    seen.append(bool(np.any(np.isnan(v))))
                    return v
                with np.errstate(all='ignore'):
                    got, info = nd.Derivative(f, n=n, method=method, full_output=True)(x0)
                nan_rows = [i for i, b in enumerate(seen[1:]) if b]
                if not nan_rows:
                    continue
                hits += 1
                ctx.count(1, ('nan-inside', 'Derivative', method, n))
                desc = {'class': 'Derivative', 'f': 'sin(x)/x', 'x': x0, 'n': n, 'method': method, 'nan_at_evaluations': nan_rows[:4]}
                est = float(np.ravel(info.error_estimate)[0])
                if np.isfinite(float(got)) and not (np.isfinite(est) and est >= 0):
                    ctx.violation('record:estimate:nan-inside', 'nd.Derivative(lambda x: sin(x)/x, n=%d, method=%r, full_output=True)(2**-%d) = %r is finite but error_estimate is %r (one trial step evaluates f at 0 exactly)' % (
                        n, method, k, float(got), est), desc)
                elif np.isfinite(float(got)) and not abs(float(got) - exact) <= K_HONEST * est + FLOOR:
                    ctx.violation('honesty:nan-inside:%s' % method, 'nd.Derivative(lambda x: sin(x)/x, n=%d, method=%r, full_output=True)(2**-%d): true error %.3g but error_estimate %.3g' % (
                        n, method, k, abs(float(got) - exact), est), desc)
        # multivariate: coordinate 0 sits on one of its own trial steps
        for cname in ('Gradient', 'Jacobian', 'Hessdiag', 'Hessian'):
            for method in ('central', 'forward'):
                x = np.array([x0, 0.7])
                g = lambda t: sinc(t[0]) + np.exp(0.5 * t[1]) * (1 + 0 * t[0])   # noqa
                with np.errstate(all='ignore'):
                    try:
                        got, info = getattr(nd, cname)(g, method=method, full_output=True)(x)
                    except Exception as ex:   # noqa
                        ctx.violation('raises:nan-inside:%s' % cname, 'nd.%s(sinc(x0) + exp(x1/2), method=%r)([2**-%d, 0.7]) raises %r' % (cname, method, k, ex), {'class': cname, 'x': x.tolist(), 'method': method})
                        continue
                ctx.count(1, ('nan-inside', cname, method))
                v = np.ravel(got)
                e = np.ravel(np.broadcast_to(np.asarray(info.error_estimate).reshape(np.shape(got)) if np.size(info.error_estimate) == np.size(got) else np.asarray(info.error_estimate), np.shape(got)))
                exact = {'Gradient': np.array([d1(x0), 0.5 * np.exp(0.35)]), 'Jacobian': np.array([d1(x0), 0.5 * np.exp(0.35)]),
                         'Hessdiag': np.array([d2(x0), 0.25 * np.exp(0.35)]), 'Hessian': np.array([d2(x0), 0.0, 0.0, 0.25 * np.exp(0.35)])}[cname]
                fin = np.isfinite(v)
                desc = {'class': cname, 'f': 'sin(x0)/x0 + exp(x1/2)', 'x': x.tolist(), 'method': method}
                if not (np.all(np.isfinite(e[fin])) and np.all(e[fin] >= 0)):
                    ctx.violation('record:estimate:nan-inside', 'nd.%s(sin(x0)/x0 + exp(x1/2), method=%r, full_output=True)([2**-%d, 0.7]) = %r is finite but error_estimate is %r' % (
                        cname, method, k, v.tolist(), e.tolist()), desc)
                elif not np.all(np.abs(v - exact)[fin] <= K_HONEST * e[fin] + FLOOR * 100):
                    ctx.violation('honesty:nan-inside:%s' % cname, 'nd.%s(sin(x0)/x0 + exp(x1/2), method=%r, full_output=True)([2**-%d, 0.7]): true error %r but error_estimate %r' % (
                        cname, method, k, np.abs(v - exact).tolist(), e.tolist()), desc)
    ctx.cov['nan_inside_cases_with_nan'] = hits


KHDR = """Require Import NDT.Arith.Ops NDT.Arith.OpsFloat NDT.Model.Select.
From Coq Require Import PrimFloat ZArith List Bool. Import ListNotations.
Definition C1EM8 := 0x1.5798ee2308c3ap-27%float.
(* one column: estimates, errors -> (penalised errors, selected index) *)
Definition okK (c : list float * list float * list float * nat) : bool :=
  let '(der, errs, pen, ix) := c in
  let p := penal OpsF C1EM8 0x1.8p+0%float 0x1p-1%float (ofZ OpsF 10%Z) der errs in
  leqf p pen && Nat.eqb (argmin_mid OpsF p) ix.
"""


def kernel_cases(ctx, N):
    """white-box tie of the selection kernel on designed columns: _Limit._add_error_to_outliers (trim factor 10, 1.5 IQR fences, the
    1e-8 threshold, np.percentile's interpolation) and _get_arg_min (middle of the tied minima) against Model/Select.v, bit for bit"""
    from numdifftools.limits import _Limit
    rng = ctx.rng(61)
    cases, descs = [], []
    for k in range(N):
        m = int(rng.integers(3, 13))
        med = float(rng.choice([1.0, -3.0, 1e-9, 2e-8, 250.0])) * float(rng.uniform(0.5, 2))
        # values spread around the median by factors that straddle 1/10, 1/5, 5 and 10, plus small additive noise
        fac = rng.choice([1.0, 1.0, 1.0, 0.09, 0.11, 0.19, 0.21, 4.9, 5.1, 9.9, 10.1, -1.0, 30.0], size=m)
        der = med * fac * (1 + rng.normal(size=m) * float(rng.choice([1e-12, 1e-6, 1e-2])))
        errs = np.abs(rng.normal(size=m)) * float(rng.choice([1e-12, 1e-8, 1e-3]))
        if k % 3 == 0:
            errs = np.round(errs / errs.max() * 3) * 1e-9        # ties among the smallest errors (middle-of-ties rule)
        col = der.reshape(-1, 1).copy()
        pen = errs.reshape(-1, 1) + _Limit._add_error_to_outliers(col)
        ix = int(_Limit._get_arg_min(pen.copy())[0])
        cases.append('(%s, %s, %s, %d%%nat)' % (flist(der), flist(errs), flist(pen[:, 0]), ix))
        descs.append({'estimates': der.tolist(), 'errors': errs.tolist(), 'penalised': pen[:, 0].tolist(), 'selected': ix})
        ctx.count(1, ('kernel', m, k % 3 == 0))
    return cases, descs


def run(ctx):
    import numdifftools as nd
    proof_stage(ctx, ['Props/C02.v', 'Props/C02b.v'])
    kc, kd = kernel_cases(ctx, ctx.n(300, 3000))
    kitems = [('C02_K_%d' % s_, KHDR + 'Definition cases := [\n' + ';\n'.join(kc[s_:s_ + 300]) + '].\nEval vm_compute in (List.length cases, failing okK cases).\n') for s_ in range(0, len(kc), 300)]
    kbad = 0
    for name, (rc, out) in sorted(coq_eval_many(kitems).items()):
        s_ = int(name.split('_')[2])
        pr = parse_count_fail(out)
        if rc != 0 or pr is None:
            ctx.brk('correspondence', 'case file %s could not be evaluated' % name, out[-1500:])
            continue
        for i in pr[1]:
            kbad += 1
            if kbad <= 3:
                ctx.brk('correspondence', 'the outlier penalty / arg-min of limits._Limit differs bit-for-bit from Model/Select.v (trim factor 10, 1.5 IQR fences, 1e-8 threshold, percentile interpolation, middle-of-ties rule)', kd[s_ + i])
    ctx.cov['kernel_cases'] = len(kc)
    ctx.cov['kernel_disagreements'] = kbad
    rng = ctx.rng(1)
    cases, descs = [], []
    skipped = {}
    # (a) records of all five classes: self-consistency + bit-exact pipeline tie where the stages are observable
    for k in range(ctx.n(260, 2600)):
        cname = ['Derivative', 'Gradient', 'Jacobian', 'Hessdiag', 'Hessian'][k % 5]
        method = str(rng.choice(['central', 'forward', 'backward', 'complex', 'multicomplex']))
        dim = int(rng.integers(1, 5))
        kw = {'method': method}
        if cname != 'Hessian':
            kw['order'] = int(rng.choice([1, 2, 3, 4, 6]))
        if cname == 'Derivative':
            kw['n'] = int(rng.integers(0, 5)) if method != 'multicomplex' else int(rng.integers(0, 3))
            f = [np.exp, np.sin, lambda t: t ** 3 + t ** 2, np.tanh][k % 4]
            x = float(rng.uniform(0.2, 2)) if k % 3 else rng.uniform(0.2, 2, size=(2, 2))
        elif cname == 'Jacobian' and k % 2:
            A = rng.normal(size=(int(rng.integers(1, 4)) + 1, dim))
            f = lambda t, A=A: np.dot(A, t) + np.sin(t[0])    # noqa
            x = rng.uniform(-1, 1, size=dim)
        else:
            f, _, _, _ = vec_family(rng, dim)
            x = rng.uniform(-1, 1, size=dim)
        if k % 7 == 3:
            # user steps kept inside a sane range (largest step <= 4): with steps of 1e4 every estimate is garbage with an infinite
            # error estimate, which is honest but not what the finiteness clause is about
            base, ratio = float(rng.choice([1e-2, 1e-3])), float(rng.choice([2.0, 1.6, 4.0]))
            nmax_steps = int(np.floor(np.log(4.0 / base) / np.log(ratio))) + 1
            kw['step'] = nd.MinStepGenerator(base_step=base, step_ratio=ratio, num_steps=int(min(int(rng.integers(9, 14)), nmax_steps)))
        d = getattr(nd, cname)(f, full_output=True, **kw)
        desc = {'class': cname, 'method': method, 'kw': {a: b for a, b in kw.items() if a != 'step'}, 'x': np.asarray(x).tolist(), 'user_steps': 'step' in kw}
        try:
            val, info, rec = pipe.capture_call(d, x)
        except Exception as ex:   # noqa
            ctx.brk('correspondence', 'nd.%s(...) raised %r' % (cname, ex), desc)
            continue
        xa = np.atleast_1d(x) if cname != 'Derivative' else np.asarray(x)
        if cname == 'Gradient':
            xa = np.atleast_1d(x).ravel()
        fx = f(xa)
        rng_steps = None
        if d.n > 0:
            try:
                rng_steps = steps_of(d, xa)
            except Exception:   # noqa
                rng_steps = None
        record_checks(ctx, 'nd.%s(f, %s, full_output=True)(x)' % (cname, desc['kw']), desc, val, info, fx, rng_steps)
        ctx.count(1, ('record', cname, method))
        if cname != 'Hessian' and d.n > 0:
            bad = pipe.context_certificate(rec)
            if bad:
                ctx.brk('oracle-certificate', 'nd.%s(f, %s, full_output=True)(x): %s' % (cname, desc['kw'], bad), desc)
            cs, why = pipe.column_cases(val, info, rec)
            if why:
                skipped[why] = skipped.get(why, 0) + 1
            else:
                for c, cc in enumerate(cs):
                    cases.append(cc)
                    descs.append(dict(desc, element=c))
        if k < 2:
            ctx.sample(dict(desc, error_estimate=np.ravel(info.error_estimate)[:3].tolist(), final_step=np.ravel(info.final_step)[:3].tolist()))
    items = [('C02_%d' % s, pipe.HDR + 'Definition cases := [\n' + ';\n'.join(cases[s:s + 150]) + '].\nEval vm_compute in (List.length cases, failing okP cases).\n')
             for s in range(0, len(cases), 150)]
    res = coq_eval_many(items)
    nbad = 0
    for name, (rc, out) in sorted(res.items()):
        s = int(name.split('_')[1])
        pr = parse_count_fail(out)
        if rc != 0 or pr is None:
            ctx.brk('correspondence', 'case file %s could not be evaluated' % name, out[-1500:])
            continue
        for i in pr[1]:
            nbad += 1
            if nbad <= 5:
                ctx.brk('correspondence', 'an entry of (value, error_estimate, final_step, index) differs bit-for-bit from Model/Pipeline.v', descs[s + i])
    ctx.cov['traces_validated_against_impl'] = len(cases)
    ctx.cov['correspondence_disagreements'] = nbad
    ctx.cov['skipped'] = skipped
    nan_inside_cases(ctx)
    single_step_cases(ctx)
    small_median_cases(ctx)
    honesty_sweep(ctx, ctx.n(15, 300) if not ctx.broken else 120)
    ctx.assumptions += ['PARTIAL: proved = the estimate is non-negative for every input and branch and belongs to the returned value (same index); "true error <= K x estimate + floor" is NOT a theorem for any finite-sample estimator: explored by the sweep with K = 1e4, floor = 1e-9 x local scale (calibrated on the unchanged tree, worst observed ratio 3.6e2)',
                        'every constant of the estimator (12.7062047361747, EPS*10, tol*10, trim 10, 1.5 IQR, 1e-8, the tie rule) is pinned in the model: changing one breaks the bit-exact tie',
                        'Hessian records are checked for self-consistency and honesty only (its stencil output bypasses LogRule._apply)']
    return ctx.finish(level='proof', checker_cmd='make -C coq Props/C02.vo Props/C02b.vo + coqc build/cases/C02_*.v',
                      rule='records of all five classes x 5 methods x dims 1..4 x orders x default/user steps: self-consistency clauses + bit-exact tie of (value, error_estimate, final_step, index); honesty sweep over expression programs and the exp/sin/quadratic family; '
                           'distinct = (kind, class or method, n) combinations hit')
