"""keep_seeded.py <worktree> <PID> <name> <caught-by text>: store a confirmed seeded change under seeded/<name>/ and remove the worktree."""
import json, os, shutil, subprocess, sys
wt, pid, name, caught = sys.argv[1:5]
dst = os.path.join('/verif/seeded', name)
os.makedirs(dst, exist_ok=True)
shutil.copy(os.path.join(wt, 'patch.diff'), os.path.join(dst, 'patch.diff'))
shutil.copy(os.path.join(wt, 'demo_%s.py' % pid), os.path.join(dst, 'demo_%s.py' % pid))
meta = {}
try:
    meta = json.load(open(os.path.join(wt, 'meta.json')))
except Exception as e:
    meta = {'note': 'agent meta.json unreadable: %r' % e}
ver = open('/tmp/seed_%s.verify' % pid).read() if os.path.exists('/tmp/seed_%s.verify' % pid) else ''
out = {'property_id': pid, 'breaks': pid, 'agent_meta': meta,
       'confirmed_by_me': {'how': 'tools/verify_seeded.sh in the scratch worktree: demo exit 0 unpatched / exit 1 patched; pytest -rA passed-set compared before/after',
                           'result': ver.strip().split('\n')},
       'checks_run': 'git -C /repo apply seeded/%s/patch.diff; ./check %s --tier quick; git -C /repo checkout -- .' % (name, pid),
       'caught_by': caught}
json.dump(out, open(os.path.join(dst, 'meta.json'), 'w'), indent=1)
subprocess.run(['git', '-C', '/repo', 'worktree', 'remove', '--force', wt])
print('kept', dst)
