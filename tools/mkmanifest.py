"""Writes MANIFEST.json from the table below (kept valid at all times)."""
import json, os
HERE = os.path.dirname(os.path.dirname(os.path.abspath(__file__)))
ALL = ['C%02d' % i for i in range(1, 20)]
CLAIMED = {
 'C10': dict(
   text="Machine-checked proof (Coq 8.16.1) on definitions regenerated from /repo's source by the translator: for every class, method, n>=1, order>=1 the rule consumes no more steps than the default count (so LogRule._apply's guard cannot fire), the documented meaning of num_steps/num_extrap/check_num_steps, positivity of the default scale, and over R the closed form base*ratio^(-+i+offset), count, strictly decreasing magnitude and 'only zero steps are dropped' for the executable sequence model. The model's binary64 instance is tied to Min/MaxStepGenerator by bit-exact correspondence on random option combinations each run; pow/log are certified oracles.",
   note="Trusted: Coq kernel + vm_compute + primitive floats; Reals axioms (sig_forall_dec, sig_not_dec, functional_extensionality_dep) for the R theorems; translator (validated on an exhaustive grid each run); harness; libm pow/log/EPS**(1/scale) as oracles with per-run certificates. CStepGenerator's num_steps formula and spiral ratio are checked by the harness against the closed form, not proved. Float rounding of the sequences is tied (bit-exact) but not proved.",
   technique="Coq proof (lia over translated Z tables; Reals) + translator + bit-exact vm_compute correspondence",
   design="4/C10"),
 'C13': dict(
   text="Machine-checked proof (Coq 8.16.1) about an executable Gallina model of dea3 that is polymorphic in the arithmetic: over R (EPS, TINY >= 0 as parameters) exact recovery of L from L + a q^k outside the guards, the exact miss 1/(s+TINY) - 1/s with the real TINY, non-negativity of the error estimate for all inputs and branches; for any arithmetic (hence binary64) elementwise treatment of arrays, length preservation, 'symmetric only trims', totality of the guard. The same definitions instantiated with Coq primitive floats are compared bit-for-bit with numdifftools.extrapolation.dea3 on generated triples (incl. NaN/inf/subnormals/ties) each run.",
   note="Trusted: Coq kernel + vm_compute + primitive floats; Reals axioms; harness. The rounding clause ('up to a small multiple of eps times conditioning') and finiteness for moderate floats are explored by an exact-rational sweep (thorough tier / on breakage), not proved. Input immutability and 'raises nothing' are observed by the harness.",
   technique="Coq proof (Reals, polymorphic model) + bit-exact vm_compute correspondence on primitive floats",
   design="4/C13"),
 'C14': dict(
   text="Machine-checked proof (Coq 8.16.1): (EpsAlg) for every field and every n, the executable model fed s_0..s_n one term at a time holds the anti-diagonal of Wynn's epsilon table and returns the entry of highest even order (induction over the stream and the inner sweep), and one geometric transient is removed exactly from three terms; (Dea) for ANY arithmetic - in particular binary64 with whatever outcomes its comparisons have - any limexp >= 2 and any sequence length, no table read/write/slice-assignment is out of range (invariant over fold of calls), and over R every call returns abserr >= 5*eps*|result|. The binary64 instances of both models are compared call by call (result, abserr, _n, _nres, final table, raising) with the implementation on generated histories each run.",
   note="Trusted: Coq kernel + vm_compute + primitive floats; Reals axioms for the floor theorem; harness. The 1e-60 guard of EpsAlg is idealised away in the field theorems (property: 'as long as no table difference vanishes'); Shanks' theorem for k >= 2 transients, finiteness of Dea's float outputs and agreement Dea/dea3/EpsAlg on the first terms are explored by a sweep with an exact-rational epsilon table, not proved.",
   technique="Coq proof (mathcomp induction for the epsilon table; invariant over any Ops for Dea index safety) + bit-exact vm_compute correspondence of whole call histories",
   design="4/C14"),
 'C07': dict(
   text="Machine-checked proof (Coq 8.16.1, over R) about the executable model of extrapolation.convolve + Richardson.__call__/_estimate_error: any weights w with w.R = e_0 (sum 1, annihilating rho^(i k) for every modelled exponent) map every window of L + sum_j a_j (h0 rho^t)^(k_j) to L; the model's convolution (scipy semantics: reflect mode, origin convention for even/odd filter sizes, rule reversed, origin n_r//2) equals the weighted sum on exactly the kept prefix for ALL lengths and rule sizes, reading no reflected element; hence every output slot of the model of __call__ equals L; output/step counts; all error estimates >= 0. The binary64 instance of the same definitions is compared bit-for-bit with the implementation each run; the pinv row is an oracle whose residual is certified in exact rationals.",
   note="Trusted: Coq kernel + vm_compute + primitive floats; Reals axioms; harness; LAPACK pinv as an oracle with a per-run residual certificate (numerically singular configurations counted and excluded). scipy's symmetric/antisymmetric fast path is modelled; the exactness theorem assumes the rule is not (nearly) symmetric or has length 1, which the run checks for every recorded rule via the model's own symcode. Complex ratios/sequences are covered by the exact theorem (it holds over R only; the complex case by the thorough sweep) and rounding ('up to conditioning-scaled rounding') by the sweep with an exact-rational oracle, not proved.",
   technique="Coq proof (Reals; list sums) + bit-exact vm_compute correspondence + exact-rational oracle certificate",
   design="4/C07"),
 'C15': dict(
   text="Machine-checked proof (Coq 8.16.1 + MathComp, any field): the executable model of _fd_weights_all/fd_weights_all (nested folds incl. numpy's j-1 = -1 wrap and the reuse of the last inner c_6/c_7) computes, for any distinct nodes in any order, any x0 and any n < len(x), in row k column v the k-th derivative at x0 of the v-th Lagrange basis polynomial (invariant by induction over the nodes with the Leibniz step; the basis is shown to be delta_uv at the nodes with degree <= m-1), hence is exact on every polynomial of degree < len(x); row 0 interpolates, rows k >= 1 sum to zero, fd_weights is row n, n >= len(x) is rejected. The binary64 instance of the same definitions is compared bit-for-bit with fornberg.fd_weights_all each run.",
   note="Trusted: Coq kernel + vm_compute + primitive floats; no axioms (closed under the global context); harness. 'Up to rounding scaled by the conditioning of the node set' is explored with exact rational weights from the product formula (thorough tier / on breakage), not proved.",
   technique="Coq/MathComp proof (loop invariant, polynomial algebra) + bit-exact vm_compute correspondence",
   design="4/C15"),
 'C16': dict(
   text="Machine-checked proof (Coq 8.16.1 + MathComp, any field) on top of C15: the executable model of fd_derivative (left-boundary, interior and right-boundary loops with their window slices) returns, for any distinct grid (uniform or not, increasing or decreasing), n >= 1, mm = n//2 + m, 2mm+2 <= len and any polynomial of degree <= 2mm, the exact n-th derivative at EVERY grid index, with output as long as the input; guards reject n >= len and length mismatch. Binary64 instance compared with fornberg.fd_derivative each run: windows and weights bit-exact, the BLAS dot product within its a-priori rounding bound.",
   note="Trusted: Coq kernel + vm_compute + primitive floats; no axioms; harness; BLAS dot accumulation order is unknown so the final value is compared within 4*len*u*sum|w_i f_i|. Grids shorter than 2mm+2 are outside the property and the model. Conditioning-scaled rounding explored with exact rational polynomials, not proved.",
   technique="Coq/MathComp proof (index-range case split over the C15 theorem) + vm_compute correspondence",
   design="4/C16"),
 'C06': dict(
   text="Machine-checked proof (Coq 8.16.1) in three layers. (A) Over any field containing s with 2 s^2 = 1 and 1/2: each of the nine Derivative stencils applied to the monomial d^k equals sigma(k) h^k for EVERY k, with an explicit integer signature table (period 8 for the complex-step stencils; proved from omega^8 = 1). (B) On the decision tables REGENERATED from /repo by the translator (parity, offset/step/c_0 tables, flip rule, name dispatch, num_terms, rule_index, richardson_step, method_order): for every method in {central, forward, backward, complex}, EVERY n >= 1 and order >= 1, the wanted derivative sits at row rule_index inside the moment system, the dispatched stencil's signature vanishes off the table's progression, its coefficient at n times the flip sign is the table's c_0, and the first uncontrolled Taylor index is n + method_order with spacing richardson_step. (C) Any characteristic-0 field: from those facts and w.M = e_r, rule applied to the difference quotient of any polynomial of degree < n + method_order, times the flip, over h^n, is f^(n)(x). Ties: exhaustive translator validation, moment matrix of _fd_matrix vs the exact Q model built from the regenerated tables, and the pinv row certified against the EXACT inverse with the exact condition number (kappa > 1e13 excluded and counted).",
   note="Trusted: Coq kernel + vm_compute; no axioms; translator; harness; LAPACK pinv as a certified oracle. The three layers are each proved; instantiating (C)'s abstract sigma/off/st/T/r with (B)'s table values and (A)'s signatures is by matching statements, not yet one Coq term. Multicomplex uses no rule (proved trivial). Rounding is the certificate bound 8*u*kappa, not a floating-point proof.",
   technique="Coq proof (lia over translated tables; field/ring for stencil signatures; MathComp for the moment system) + translator + exact-rational certificates",
   design="4/C06"),
 'C12': dict(
   text="Machine-checked proof (Coq 8.16.1, any field with i and 1/2, no axioms) about the executable Bicomplex model: phi(z1,z2) = (z1 - i z2, z1 + i z2) is a ring isomorphism onto C x C commuting with + - * neg rsub conjugate (conjugation swaps components), with inverse psi; z2 = 0 reduces to the complex operation; polynomial evaluation commutes with phi and at the multicomplex point x + i h + j h equals psi(P(x), P(x + 2 i h)); under the functional equations of the complex functions (explicit premises) the component formulas of sin, cos, sinh, cosh, exp, expm1 are exactly e1 f(z1 - i z2) + e2 f(z1 + i z2), and the pre-repair expm1 formula misses it by exactly 1 - exp(-i z2). The float instance (numpy complex functions as recorded oracles) is compared with the implementation each run; all 26 functions and the operator forms are compared with the idempotent formula at 50 digits.",
   note="Trusted: Coq kernel + vm_compute + primitive floats; harness; numpy complex elementary functions as oracles; mpmath for the 50-digit reference. Division, powers, log, sqrt, inverse functions involve branch selection and are NOT proved (semantic comparison only). numpy's complex multiply uses FMA even for 0-d arrays, so products are compared within 2^-49 x operand scale rather than bit-exactly. The O(h^2) truncation clause for non-polynomial f is not proved.",
   technique="Coq proof (ring/field reasoning over an abstract field) + vm_compute correspondence with oracle tables + 50-digit semantic comparison",
   design="4/C12"),
 'C11': dict(
   text="Machine-checked proof (Coq 8.16.1) over guard facts REGENERATED from /repo's AST on every run (which _derivative_nonzero_order each of the five classes runs through the MRO, whether it reaches _raise_error_if_any_is_complex before the first stencil evaluation, which conditions are asserted): for every class and both complex-step methods, complex x or complex-valued f(x) yields ValueError and no value; multicomplex n >= 3 is rejected by the name assembly for every n (and n = 1, 2 accepted); fewer steps than the rule needs, Residue order <= pole_order, fd_weights/fd_derivative size misuse fail their guards for all sizes; size/path guards are present. The outcome (numbers / ValueError / other) of the real classes is compared with the guard model on the complete finite grid of misuse shapes each run, which is also the search.",
   note="Trusted: Coq kernel; translator (structural reading of the guards; fail-closed) and harness. Exceptions raised by numpy itself for dtype reasons are outside the model and observed by the grid. The grid of misuse shapes is finite and enumerated completely.",
   technique="Coq proof over translator-extracted guard structure + exhaustive outcome correspondence",
   design="4/C11"),
 'C09': dict(
   text="Machine-checked proof (Coq 8.16.1, no axioms): with a cache whose stored value is a function of its key (the translator checks on the AST of LogRule.rule that the key (make_exact step_ratio, parity, num_terms) is exactly the argument tuple of _fd_matrix and the value its pinv), after ANY finite history of calls, pre-populating calls and cache clears a call returns the stateless evaluation (induction over the history with the invariant 'every cached value = compute key'); for ANY number of concurrent calls and ANY schedule of their atomic lookup/compute/store/finish steps from any consistent cache, every completed call returns the stateless evaluation; changing and restoring n/order/method restores the configuration; a shared step generator's output depends on its options and the current call only. Ties: the FD_RULES key set after random histories equals the model's (keys from the regenerated tables); values and full_output records after random histories on live objects of all five classes are compared bit-for-bit with a fresh interpreter; disjoint objects on 8-16 threads likewise.",
   note="Trusted: Coq kernel; translator; harness; CPython dict get/set atomicity; no derivative or generator object shared between threads (the property's restriction). Real OS scheduling is not what the schedule theorem quantifies over (it quantifies over interleavings of the modelled atomic steps); the thread run is supporting evidence.",
   technique="Coq proof (invariant over fold of operations; interleaving semantics) + translator structural check + bit-for-bit comparison with a fresh interpreter",
   design="4/C09"),
 'C08': dict(
   text="Machine-checked proof (Coq 8.16.1, ANY arithmetic hence binary64, no axioms) about the executable model of Derivative on arrays (rule application, Richardson, dea3, outlier penalty, arg-min with the tie rule, gather; one column of the steps x elements matrices per element): one result per element; the result for element c is a function of column c alone, so replacing the other elements leaves it bit-identical, and equals the one-element call; extra arguments are forwarded unchanged (AST fact from the translator). The binary64 instance is compared bit-for-bit, element by element (value, error estimate, final step, index), with Derivative on arrays of 0..3 axes and up to 40 elements for all five methods each run; the property itself (replace other elements / evaluate alone / NaN element / extra arguments) is also run on the implementation.",
   note="Trusted: Coq kernel + vm_compute + primitive floats; harness; difference quotients, pinv rows and h**n recorded from the run (stencils: C05/C06). The theorems are structural (the model is columnwise by construction); the substance is the bit-exact tie showing the implementation's matrix code behaves as that model. Columns with NaN/inf quotients are outside the model comparison and covered by the property-level run only.",
   technique="Coq proof (structural, any Ops) + bit-exact vm_compute correspondence per element + property-level replay on the implementation",
   design="4/C08"),
}
REASON_TODO = "not claimed yet: the Coq model, theorems and correspondence for this property are still being built (see DESIGN.md section 8 for the order)"
def main():
    checks = []
    for pid in ALL:
        if pid not in CLAIMED: continue
        c = CLAIMED[pid]
        checks.append({
            'property_id': pid,
            'quick_cmd': './check %s --tier quick' % pid,
            'thorough_cmd': './check %s --tier thorough' % pid,
            'evidence_file': '/verif/evidence/%s.json' % pid,
            'replay_cmd_template': './check %s --replay {path}' % pid,
            'engine': 'coq-proof',
            'level_claimed': {'category': 'proof', 'text': c['text'], 'design_ref': 'DESIGN.md ' + c['design']},
            'level_note': c['note'],
            'technique': c['technique']})
    m = {'version': 1,
         'setup_cmd': './setup.sh',
         'hooks': {'guard': 'NUMDIFFTOOLS_VERIF', 'enable': 'none needed: the harness wraps module attributes at run time; no source hook is compiled in',
                   'baseline_off_cmd': 'cd /repo && /venv/bin/python -m pytest -ra -q -p no:cacheprovider --timeout=900 --continue-on-collection-errors',
                   'source_commits': [], 'add_only': True},
         'engines': [{'name': 'coq-proof', 'path': '/verif/check', 'serves_properties': [c['property_id'] for c in checks],
                      'kind_free_text': 'Coq 8.16.1 proofs over a Gallina model; translator (Python ast -> Gallina) regenerates the decision tables from /repo each run; hand-written kernels tied by vm_compute correspondence on primitive floats'}],
         'checks': checks,
         'notes': 'See DESIGN.md. Known findings: known_findings.json.',
         'not_applicable': [{'property_id': p, 'reason': REASON_TODO} for p in ALL if p not in CLAIMED]}
    json.dump(m, open(os.path.join(HERE, 'MANIFEST.json'), 'w'), indent=1)
if __name__ == '__main__':
    main()
