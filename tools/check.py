"""./check <property> [--tier quick|thorough] [--replay file]   (DESIGN 3.6)"""
import argparse
import importlib
import json
import os
import sys

sys.path.insert(0, os.path.dirname(os.path.abspath(__file__)))
from ndtcheck.core import Ctx  # noqa: E402


def main():
    import warnings
    import numpy as np
    warnings.simplefilter('ignore')
    np.seterr(all='ignore')
    ap = argparse.ArgumentParser()
    ap.add_argument('prop')
    ap.add_argument('--tier', default=os.environ.get('VERIF_TIER', 'quick'), choices=['quick', 'thorough'])
    ap.add_argument('--replay')
    a = ap.parse_args()
    seed = int(os.environ.get('VERIF_SEED', '0') or 0)
    mod = importlib.import_module('ndtcheck.' + a.prop)
    if a.replay:
        body = json.load(open(a.replay))
        print(json.dumps(body, indent=1))
        if hasattr(mod, 'replay'):
            return mod.replay(body)
        return 0
    ctx = Ctx(a.prop, a.tier, seed)
    try:
        return mod.run(ctx)
    except Exception:          # an exception escaping the implementation or the harness: never a silent pass
        import traceback
        tb = traceback.format_exc()
        sys.stderr.write(tb)
        ctx.brk('exception', 'the check aborted with an exception (raised by the implementation under test or by the harness)', tb[-3000:])
        return ctx.finish(level='proof', checker_cmd='(aborted)')


if __name__ == '__main__':
    sys.exit(main())
