#!/bin/sh
# applies every stored seeded change to /repo in turn, runs the quick check of its property, restores /repo; prints one line per change
cd /verif
for d in seeded/*/; do
  name=$(basename $d); pid=$(echo $name | cut -c1-3)
  if git -C /repo apply /verif/$d/patch.diff 2>/dev/null; then
    out=$(./check $pid --tier quick 2>&1 | grep -v "^KNOWN" | tail -1)
    git -C /repo checkout -- .
    echo "$name: $out"
  else
    echo "$name: PATCH DOES NOT APPLY"
  fi
done
