#!/bin/sh
# usage: reverify_stored.sh <seeded-name> <PID>  -- re-confirms a stored seeded change in a fresh scratch worktree of /repo HEAD
NAME=$1; PID=$2; WT=/tmp/wt-rv-$PID
git -C /repo worktree add -f $WT HEAD -q --detach || exit 2
cp /verif/seeded/$NAME/patch.diff /verif/seeded/$NAME/demo_$PID.py $WT/
sh /verif/tools/verify_seeded.sh $WT $PID
rm -rf $WT/.hypothesis
git -C /repo worktree remove --force $WT
